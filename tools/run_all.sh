#!/bin/bash
# runs every quick (or $1=thorough) check on the current tree, in parallel batches, and validates the evidence files
TIER=${1:-quick}
HERE=$(cd "$(dirname "$0")/.." && pwd)
cd $HERE
TAG=${VERIF_SEED:-1}_$$
python3 check.py setup > /dev/null 2>&1 || { echo "setup failed"; exit 1; }
rm -f /tmp/runall_${TAG}_*.log
for P in C01 C02 C03 C04 C05 C06 C07 C08 C09 C10 C11 C12 C13 C14 C15 C16 C17 C18 C19; do
  ( /usr/bin/time -f "%e s" python3 check.py $P --tier $TIER > /tmp/runall_${TAG}_$P.log 2>&1; echo "rc=$?" >> /tmp/runall_${TAG}_$P.log ) &
  # at most 6 at a time
  while [ $(jobs -r | wc -l) -ge 6 ]; do sleep 1; done
done
wait
for P in C01 C02 C03 C04 C05 C06 C07 C08 C09 C10 C11 C12 C13 C14 C15 C16 C17 C18 C19; do
  echo "$P $(grep -E '^rc=' /tmp/runall_${TAG}_$P.log) $(grep -E ' s$' /tmp/runall_${TAG}_$P.log | tail -1) $(grep -c VIOLATION /tmp/runall_${TAG}_$P.log) violations"
done
HERE_DIR=$HERE python3-vt - <<'PY'
import json, jsonschema, glob, os
s = json.load(open('/root/.vp/EVIDENCE.schema.json'))
bad = 0
for f in sorted(glob.glob(os.path.join(os.environ.get('HERE_DIR','/verif'),'evidence/*.json'))):
    d = json.load(open(f))
    try:
        jsonschema.validate(d, s)
    except Exception as e:
        print(f, 'INVALID', str(e)[:200]); bad += 1
    c = d['coverage']
    if c.get('obligations') and c.get('obligations') != c.get('discharged'):
        print(f, 'obligations', c.get('obligations'), 'discharged', c.get('discharged')); bad += 1
print('evidence files checked, problems:', bad)
PY
