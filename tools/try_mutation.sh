#!/bin/bash
# usage: try_mutation.sh <patch.diff> <property-id>...   — applies the patch to /repo, runs the checks, reverts
set -u
PATCH=$1; shift
git -C /repo status --porcelain --untracked-files=no | grep -q . && { echo "repo dirty"; exit 2; }
git -C /repo apply "$PATCH" || { echo "patch does not apply"; exit 2; }
EVBAK=$(mktemp -d); cp -r /verif/evidence/. $EVBAK/
for P in "$@"; do
  echo "=== $P"
  python3 /verif/check.py $P --tier quick 2>&1 | grep -E "VIOLATION|KNOWN|->" | head -6
  echo "rc=${PIPESTATUS[0]}"
done
git -C /repo checkout -- .
cp -r $EVBAK/. /verif/evidence/; rm -rf $EVBAK
python3 /verif/tools/gen_from_source.py > /dev/null   # generated Lean files back to the clean tree's
git -C /repo status --porcelain --untracked-files=no
