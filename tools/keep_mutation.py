#!/usr/bin/env python3
"""keep_mutation.py <worktree> <name> <caught_by (comma list)> [<note>] — copies a verified seeded change into /verif/seeded/<name>/"""
import json, os, shutil, sys
wt, name, caught = sys.argv[1], sys.argv[2], sys.argv[3]
note = sys.argv[4] if len(sys.argv) > 4 else ""
src = os.path.join(wt, "MUTATION")
dst = os.path.join("/verif/seeded", name)
os.makedirs(dst, exist_ok=True)
notes = json.load(open(os.path.join(src, "notes.json")))
for f in os.listdir(src):
    if f in ("demo", "build.log") or f.endswith(".o") or os.path.isdir(os.path.join(src, f)) and f.startswith("_"):
        continue
    p = os.path.join(src, f)
    if os.path.isfile(p) and os.path.getsize(p) < 2_000_000 and open(p, "rb").read(4) != b"\x7fELF":
        shutil.copy(p, os.path.join(dst, f))
vpath = os.environ.get("VERIFY_LOG", "/tmp/mut/verify_%s.log" % os.path.basename(wt))
vlog = open(vpath).read() if os.path.exists(vpath) else ""
meta = {"property": notes.get("property"), "summary": notes.get("summary"), "needs_to_manifest": notes.get("needs"),
        "demo_build_and_run": notes.get("demo_build_and_run"),
        "confirmed_by_us": {"how": "tools/verify_mutation.sh in a scratch worktree: demo exits 0 on the original, ctest passes (11/11) with the change, demo exits non-zero with the change",
                            "log": vlog[-600:]},
        "caught_by_checks": [c for c in caught.split(",") if c], "note": note}
json.dump(meta, open(os.path.join(dst, "meta.json"), "w"), indent=1)
print("kept", dst, os.listdir(dst))
