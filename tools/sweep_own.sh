#!/bin/bash
# usage: sweep_own.sh <repo copy> <out file>   — every seeded change against the check of the property it breaks
RC=$1; OUT=$2
HERE=$(cd "$(dirname "$0")/.." && pwd)
export VERIF_REPO=$RC
cd $HERE
python3 check.py setup > /dev/null 2>&1
: > $OUT
# optional: SWEEP_PART=k/n takes every n-th change starting at the k-th (to run several sweeps side by side)
pk=${SWEEP_PART%%/*}; pm=${SWEEP_PART##*/}; idx=0
for d in seeded/C*; do
  idx=$((idx+1))
  if [ -n "$SWEEP_PART" ] && [ $(( (idx - 1) % pm )) -ne $(( pk - 1 )) ]; then continue; fi
  n=$(basename $d); P=${n:0:3}
  git -C $RC checkout -q -- . ; git -C $RC apply $HERE/$d/patch.diff || { echo "$n: patch does not apply" >> $OUT; continue; }
  o=$(python3 check.py $P --tier quick 2>&1); rc=$?
  k=$(echo "$o" | grep -c "^VIOLATION"); nf=$(echo "$o" | grep "^VIOLATION" | grep -c "no-failing-input-found")
  echo "$n: $P rc=$rc violations=$k with-input=$((k-nf))" >> $OUT
  git -C $RC checkout -q -- .
done
echo DONE >> $OUT
