#!/usr/bin/env python3
"""Writes /verif/MANIFEST.json from the table below (kept in one place so the texts stay in sync
with DESIGN.md)."""
import json
import os
import subprocess

HERE = os.path.dirname(os.path.abspath(__file__))
VERIF = os.path.dirname(HERE)

NOTE = ("Trusted base: Lean 4.33 kernel, Mathlib v4.33 single modules, axioms propext/Classical.choice/Quot.sound only "
        "(audited with #print axioms on every run; no sorry/admit/native_decide/bv_decide/own axioms); the translator "
        "tools/gen_from_source.py with tools/cxx2lean.py and tools/gen_{solver,main,run,init,graph,cli,utils,writer}_code.py (syntax-directed: one structure update per "
        "assignment, one left fold per loop; statement tables for Solver::run, graph.hpp, the tail of multitensor_factorization and main of the command line; statements before/after the translated loops pinned literally); "
        "the C++ harness and the Python comparison/monitor code; theorems are over the model at R, "
        "the code and the correspondence run at IEEE double; boost adjacency_list ordering, std::map/set, libstdc++ "
        "mt19937/uniform_real_distribution and glibc log are modelled, not verified.")

P = {
    "C01": ("Lean theorems: each block update of the modelled code is a masked MM/Jensen step, so the Poisson log-likelihood does not decrease "
            "(directed variants, under exactly the property's exception clause; w-step also undirected); undirected u-step only `_partial`. "
            "Tie: bit-exact run/trace correspondence model(Float)<->C++ plus an ascent monitor on the implementation's own trajectories. "
            "One known finding (undirected+general+asymmetric user start). Second tie (translator, DESIGN 11.6): the loop nests of update_vertices / update_affinity / calculate_likelyhood are regenerated from solver.hpp on every run and proved equal to the model's entry formulas for every scalar type (MTProps/Code*.lean).",
            "Lean 4 proof (MM/Jensen ascent over R) + Float-model/C++ trace correspondence + ascent monitor + code translated from solver.hpp proved equal to the model (translator tie)", "7 C01"),
    "C02": ("Lean theorem: the model sweep (loops in code order) equals the paper-form update map with the documented guards, all variants; "
            "tie: function-level bit-exact correspondence of update_vertices/update_affinity/loop on arbitrary and on reachable states, "
            "plus an independent dense reference map as failing-input oracle. Second tie (translator, DESIGN 11.6): the loop nests of update_vertices / update_affinity / calculate_likelyhood are regenerated from solver.hpp on every run and proved equal to the model's entry formulas for every scalar type (MTProps/Code*.lean).",
            "Lean 4 proof (refinement of the loop model to the published update equations) + function-level correspondence + code translated from solver.hpp proved equal to the model (translator tie)", "7 C02"),
    "C03": ("Lean invariants by induction over sweeps/realizations (shape, label order, non-negativity, zero rows); finiteness is a floating-point fact "
            "monitored on the implementation (partial). Second tie (translator): Solver::run is proved equal to runAll, about which the invariants are proved.",
            "Lean 4 proof (invariants by induction) + run correspondence + well-formedness monitor + Solver::run translated and proved equal to runAll", "7 C03"),
    "C04": ("Lean theorems over any linear order: returned = final factors of the first argmax, report lists every realization in order, report prefix, "
            "best monotone in r; tie: every weak ordering of up to 4 (5) realizations scripted through the hook on the real selection code. Second tie (translator): Solver::run (statement sequence from the source, statement table) is proved equal to the model's runAll for every scalar type; non-finite scripted likelihoods and reused Solver objects are exercised.",
            "Lean 4 proof (selection fold = first argmax; prefix) + scripted-likelihood correspondence + Solver::run translated and proved equal to runAll", "7 C04"),
    "C05": ("Lean theorem: the control automaton of the loop equals the documented stopping rule for all max_it, n_conv >= 1 and all pass/fail sequences; "
            "termination and bounds proved; tie: exhaustive scripted pass/fail words through the real loop. Second tie (translator): the control part of Solver::loop (evaluation period, pass test, counter, three-way return) is regenerated from solver.hpp on every run and proved equal to the model's ctlStep.",
            "Lean 4 proof (control automaton = documented rule, all sequences) + scripted-word correspondence + translated loop control proved equal to ctlStep", "7 C05"),
    "C06": ("Lean theorem: the threaded accumulator of the likelihood loop equals the closed form sum A ln M - M with per-pair guard; cadence of the reported value; "
            "tie: lik correspondence on multigraph states and closed-form oracle from the edge list. Second tie (translator): calculate_likelyhood's loop nest and the control part of Solver::loop are regenerated from solver.hpp on every run and proved equal to the model's likelihood / ctlStep for every scalar type.",
            "Lean 4 proof (likelihood loop = Poisson closed form) + lik correspondence + closed-form oracle + translated likelihood loop and loop control proved equal to the model", "7 C06"),
    "C07": ("The model is a function of exactly the declared inputs with the prior output contents as explicit arguments; theorem: the result does not depend on them; "
            "tie: histories of interleaved calls with poisoned outputs, repeated and fresh-process calls, implementation-vs-implementation bit identity. Second tie (translator): Solver::run (statement sequence from the source, statement table) is proved equal to runAll; the only assignment of the report's seed is pinned from main.hpp. Histories also at the level of the public Solver object (run2) and with 5 prior shapes of the in-membership container.",
            "Lean 4 proof (independence of prior outputs) + history correspondence, impl-vs-impl bit identity + Solver::run translated and proved equal to runAll", "7 C07"),
    "C08": ("Lean theorems: first-appearance indexing, multiplicity = sum of units over matching records (both orientations when undirected), supports, "
            "weight expansion; tie: dump of the real boost graphs vs model, exhaustive small lists + random, all label/weight types.",
            "Lean 4 proof (multigraph built = multiset described by the records) + net correspondence", "7 C08"),
    "C09": ("Lean theorem: exact mass accounting after the affinity step under the property's preconditions; tie: run correspondence + balance monitor on every iteration. Second tie (translator, DESIGN 11.6): the loop nests of update_vertices / update_affinity / calculate_likelyhood are regenerated from solver.hpp on every run and proved equal to the model's entry formulas for every scalar type (MTProps/Code*.lean).",
            "Lean 4 proof (mass balance of the affinity M-step) + trace correspondence + balance monitor + code translated from solver.hpp proved equal to the model (translator tie)", "7 C09"),
    "C10": ("Lean theorem: one sweep commutes with the diagonal embedding (so any number does), likelihoods equal; tie: paired real runs through an exact-install initialiser. Second tie (translator, DESIGN 11.6): the loop nests of update_vertices / update_affinity / calculate_likelyhood are regenerated from solver.hpp on every run and proved equal to the model's entry formulas for every scalar type (MTProps/Code*.lean).",
            "Lean 4 proof (sweep commutes with diagonal embedding) + paired-run correspondence + code translated from solver.hpp proved equal to the model (translator tie)", "7 C10"),
    "C11": ("Lean theorems: reversing records whose endpoints were seen before leaves the undirected network structurally equal (hence every result, for any scalar type); "
            "in-membership argument untouched; symmetric affinity preserved over R; tie: net + paired runs bitwise.",
            "Lean 4 proof (structural equality of the undirected network under reversal) + paired-run correspondence", "7 C11"),
    "C12": ("Lean theorem: the network built from injectively relabelled records is the relabelled network (indices, adjacency, lists identical); "
            "tie: paired runs with huge/negative/string labels, bitwise.",
            "Lean 4 proof (relabelling equivariance of network construction) + paired-run correspondence", "7 C12"),
    "C13": ("Lean theorems on the front-end model: each option sets its field, adjacency grammar round-trip, dispatch table total and correct (decide over the regenerated table), "
            "writer layout; tie: the binary built from the working tree observed through its call_start trace event and its files vs model and in-process library.",
            "Lean 4 proof (option parsing, reader round-trip, dispatch by decide) + CLI-binary/trace correspondence", "7 C13"),
    "C14": ("Lean theorems: reader places d_k at the diagonal position for all K, L, both layouts (regenerated index expression), rejects mismatching shapes, every write in range; "
            "start = file + noise*draws; tie: reader in-process under ASan, realization_start events, CLI end to end. Second tie (translator): Solver::run = runAll and the from-file initialiser's loop nest (regenerated from initialization.hpp) = initAffFromInitial, for every scalar type.",
            "Lean 4 proof (reader index = diagonal position, in-range, rejection) + readaff correspondence + run and initialiser code translated from the source proved equal to the model", "7 C14"),
    "C15": ("Lean theorem: validate accepts iff the documented predicate holds; rejection happens before anything else; tie: boundary shape vectors x 8 variants with sentinel outputs. Second tie (translator): the eleven checks of multitensor_factorization are regenerated from main.hpp statement by statement and proved equal to the model's validate (with their messages); the regenerated statement list shows by decide that no output argument is mentioned before the last check.",
            "Lean 4 proof (validate = documented acceptance predicate) + boundary-shape correspondence + validation code translated from main.hpp proved equal to validate; statement order by decide", "7 C15"),
    "C16": ("Partial by nature: index-safety theorems (flat index < size, network indices < N, reader writes < size); UB/leaks/overflow are runtime facts covered by running "
            "every correspondence under ASan+UBSan(+float-cast-overflow)+LSan+assertions, a file-mutation stream, valgrind memcheck, and the sanitized command-line binary end to end "
            "on shape-correct affinity files with extreme values (found and fixed defect D5).",
            "Lean 4 proof (index-safety lemmas and index safety of the translated loop nests; partial for the runtime facts) + sanitized correspondence, file-mutation stream, valgrind", "7 C16"),
    "C17": ("Lean theorem over an arbitrary stream: realization i starts from the i-th consecutive segment, each draw used once, symmetric pairs share a draw, other rows zero; "
            "tie: mt19937/uniform model bit-exact vs libstdc++, realization_start multisets vs an independent reference stream. Second tie (translator): the loop nests of the three initialisers are regenerated from initialization.hpp on every run (a generator call becomes the draw at the current stream position) and proved equal to initRows / initAffFromInitial / initAffRandom incl. the mirrored triangular loop; Solver::run = runAll.",
            "Lean 4 proof (initialisers consume consecutive disjoint stream segments) + rng/start correspondence + initialiser and run code translated from the source proved equal to the model", "7 C17"),
    "C18": ("Lean theorems for all dimensions (no bound): generated index expression = a*R*C + j*R + i, bijective onto 0..size-1 with explicit inverse, transposed view, writer position, "
            "python reshape; tie: definitions regenerated from tensor.hpp/app_utils.hpp/pyx on every run + exhaustive accessor/writer correspondence for dims <= 6.",
            "Lean 4 proof over definitions regenerated from the source (translator) + exhaustive idx correspondence", "7 C18"),
    "C19": ("Lean theorems by decide over the complete 16-row / 8-row tables regenerated from multitensor.pyx and multitensor.cpp on every run: exactly one block fires per configuration, "
            "its template arguments match, v allocated iff directed, agrees with the CLI table. Static extraction only (extension not buildable offline).",
            "Lean 4 proof (decide over dispatch tables regenerated from the source by the translator)", "7 C19"),
}

# additions since the table above was written (kept separate so that the history of the texts stays readable)
EXTRA = {
    "C02": " Histories: one Solver object run on a network and then on a rewiring of it (same N, L, E) must end where a fresh one ends.",
    "C03": " The whole of multitensor_factorization (mainCode) is translated and proved equal to factorizeWith.",
    "C04": " Histories: one generator object handed to two successive calls (harness op runshared); the parameter lists of the entry point (generator by value) and of Solver::run are pinned.",
    "C05": " Scripted words for 2-4 realizations in one call (a realization's first likelihood often equals the previous one's last).",
    "C07": " State inventory (translator): no static / thread_local / mutable / extern storage in the library and the command line, data members of Solver and Network pinned (MTProps/CodeState). Histories also with one generator object across calls, with rewired networks through one Solver object, with the caller's label vector pre-filled; edge lists of all harness calls live in one set of buffers refilled in place.",
    "C08": " Second tie (translator): graph.hpp (add_vertex, the Network constructor, extract_vertices_with_edges / _labels) is regenerated through a statement table and proved equal to the declarative build (MTProofs/CodeRefineGraph, MTProps/CodeGraph).",
    "C11": " Second tie (translator): graph.hpp regenerated and proved equal to the declarative build (undirected: in-lists empty, one shared list). The second run of every pair hands the in-membership container in another shape (K x N, N*K x 1, empty, one row too many).",
    "C12": " Second tie (translator): graph.hpp and the whole of multitensor_factorization regenerated and proved equal to build / factorizeWith (code_relabel). The caller's label vector arrives empty, partly right, too long or stale.",
    "C13": " Second tie (translator): main of multitensor.cpp regenerated through a statement table and proved equal to cliMain (cliMainCode_eq); the three writers translated statement by statement at token level and proved equal to writeAffinity / writeMembership / writeInfo, with the line and column where an entry lands (MTProps/CodeWriters). Files with 64-bit labels; histories of invocations in one directory (input replaced in place, same size and time stamp).",
    "C14": " The from-file initialiser also called directly on scripted draws, several calls on one functor object, full tensors with unequal mirrored entries (harness op initf).",
    "C15": " The whole of multitensor_factorization and main of the command line are translated (code_reject). Edge lists of all harness calls live in one set of buffers refilled in place; crashes that need earlier calls are replayed with their shortest history.",
    "C16": " Code-level index safety (translator): every container access of the loop nests of update_vertices / update_affinity / calculate_likelyhood and of the three initialisers, as they stand in the source on this run, is recorded with its loop conditions and proved in range for all sizes and for the network built from any edge list (MTProps/CodeSafe); the two reader bodies are pinned. A third of the valid-input runs hand the in-membership container in other shapes (some with exactly N*K elements), a pre-filled label vector and 1-3 realizations.",
    "C17": " The initialisers also called directly on a scripted stream of draws (values at and below 1e-6, zero, next to one), several calls on one generator (harness op initf), closed form checked per entry.",
    "C18": " The from-file initialiser as a user of the layout: called 2-3 times on one functor object with a full tensor whose mirrored entries differ; the reader and writers through position-encoding files.",
    "C19": " The statements before and after the dispatch are pinned; when that pin breaks, vlib/pyxsim.py runs the prologue (rewritten to plain Python, numpy stand-in) on 3 files x 16 argument combinations and compares what the guards would see with what the caller passed.",
}


def main():
    commits = subprocess.run(["git", "-C", "/repo", "log", "--format=%h %s"], stdout=subprocess.PIPE, text=True).stdout.splitlines()
    hooks = [c.split()[0] for c in commits if c.split(" ", 1)[1].startswith("verif hooks")]
    checks = []
    for pid in sorted(P):
        text, tech, ref = P[pid]
        text += EXTRA.get(pid, "")
        checks.append({
            "property_id": pid,
            "quick_cmd": "python3 check.py %s --tier quick" % pid,
            "thorough_cmd": "python3 check.py %s --tier thorough" % pid,
            "evidence_file": "/verif/evidence/%s.json" % pid,
            "replay_cmd_template": "python3 check.py replay {path}",
            "engine": "lean4+correspondence",
            "level_claimed": {"category": "proof", "text": text, "design_ref": "DESIGN.md section " + ref},
            "level_note": NOTE,
            "technique": tech,
        })
    m = {
        "version": 1,
        "setup_cmd": "python3 check.py setup",
        "hooks": {
            "guard": "MULTITENSOR_VERIF",
            "enable": "checks compile /repo's headers and applications with -DMULTITENSOR_VERIF (vlib/common.py build_native); "
                      "MULTITENSOR_VERIF_TRACE=<file> makes the CLI binary write its hook events",
            "baseline_off_cmd": "cd /repo && (test -f _build/build.ninja || cmake -G Ninja -B _build) && cmake --build _build && ctest --test-dir _build -j8 --timeout 900",
            "source_commits": hooks,
            "add_only": True,
        },
        "engines": [{"name": "lean4+correspondence", "path": "/verif/check.py",
                     "serves_properties": sorted(P),
                     "kind_free_text": "Lean 4 theorems about a scalar-generic executable model (lean/), tied to /repo by a translator "
                                       "(tools/gen_from_source.py: textual facts; tools/cxx2lean.py: the loop nests of the solver's numeric core, the initialisers, the loop control, "
                                       "the validation part and the statement sequence of Solver::run, regenerated on every run and proved equal to the model) and by a differential correspondence check of the model's Float instance against the real "
                                       "C++ (harness/harness.cpp), with implementation-side monitors as failing-input search"}],
        "checks": checks,
        "not_applicable": [],
        "notes": "All 19 properties are claimed; none is not_applicable (DESIGN.md section 9 says why). Known findings and repaired defects: /verif/KNOWN_FINDINGS.txt. "
                 "Seeded changes used to test the checks: /verif/seeded (DESIGN.md section 12).",
    }
    with open(os.path.join(VERIF, "MANIFEST.json"), "w") as f:
        json.dump(m, f, indent=1)


if __name__ == "__main__":
    main()
