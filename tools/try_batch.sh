#!/bin/bash
# usage: try_batch.sh <repo copy> <out file> <patch>:<property>...   — for `vp run --with-repo`: applies each patch to the repo
# copy, runs the property's quick check against it (VERIF_REPO), reverts.  Isolated from /verif and /repo.
RC=$1; OUT=$2; shift 2
HERE=$(cd "$(dirname "$0")/.." && pwd)
export VERIF_REPO=$RC
cd $HERE
python3 check.py setup > /dev/null 2>&1
: > $OUT
for item in "$@"; do
  patch=${item%%:*}; P=${item##*:}
  git -C $RC checkout -q -- . ; git -C $RC apply $patch || { echo "##### $item: patch does not apply" >> $OUT; continue; }
  echo "##### $item" >> $OUT
  python3 check.py $P --tier quick 2>&1 | grep -E "VIOLATION|KNOWN|->" | head -6 | cut -c1-330 >> $OUT
  echo "rc=${PIPESTATUS[0]}" >> $OUT
  git -C $RC checkout -q -- .
done
echo ALLDONE >> $OUT
