#!/usr/bin/env python3
"""Syntax-directed translator for the loop nests of solver.hpp (update_vertices, update_affinity,
calculate_likelyhood) and initialization.hpp into state-passing Lean code.

What it does, and only that:
  * every C++ local that is assigned inside the loop nest becomes a field of a generated structure;
  * `x = e`, `x += e`, `x -= e`, `x /= e`, `x++`, `M(i,k) = e` become one structure update each, in
    program order (`a = b = 0` becomes the two assignments, right to left);
  * `for (size_t i = 0; i < n; i++)`, `for (auto i : list)` and the two edge-iteration idioms become
    `forRange` / `forList` (left folds over the index list, MT/Imp.lean);
  * `if (c) {..} else {..}` becomes `if c then .. else ..`; `if constexpr` on the variant is an `if` on a
    Boolean parameter.
No accumulation pattern is recognised, nothing is reordered or simplified: that the loops compute what the
model says is a Lean theorem (MTProofs/CodeRefine.lean), not something this script decides.
The statements before the first loop and after the last one (declarations, frozen copies, `delete`,
`return`) are pinned literally: if their text changes the anchor is lost.
"""
import re


class Lost(Exception):
    pass


# ------------------------------------------------------------------------------------- lexer

TOKEN = re.compile(r"""
    \s*(?:
      (?P<str>"(?:[^"\\]|\\.)*")
    | (?P<num>\d+(?:\.\d+)?)
    | (?P<id>[A-Za-z_][A-Za-z_0-9]*(?:::[A-Za-z_][A-Za-z_0-9]*)*)
    | (?P<op><<|\+\+|--|\+=|-=|\*=|/=|==|!=|<=|>=|&&|\|\||[-+*/%=<>!(){};:,.&\[\]?])
    )""", re.X)


def lex(src):
    toks = []
    pos = 0
    n = len(src)
    while pos < n:
        m = TOKEN.match(src, pos)
        if not m or m.end() == pos:
            if src[pos:].strip() == "":
                break
            raise Lost("cannot tokenize near: " + src[pos:pos + 40].strip())
        pos = m.end()
        if m.group("str") is not None:
            toks.append(("str", m.group("str")))
        elif m.group("num") is not None:
            toks.append(("num", m.group("num")))
        elif m.group("id") is not None:
            toks.append(("id", m.group("id")))
        else:
            toks.append(("op", m.group("op")))
    return toks


# idioms containing template brackets / iterator plumbing are replaced by plain identifiers first
PRE = [
    (r"std::get<0>\(its\)", "ITS_BEGIN"),
    (r"std::get<1>\(its\)", "ITS_END"),
    (r"std::is_same_v<\s*affinity_t\s*,\s*tensor::DiagonalTensor<double>\s*>", "assortative"),
    (r"std::is_same_v<\s*direction_t\s*,\s*boost::bidirectionalS\s*>", "directed"),
    (r"\(\*\s*mat_fixed_old\s*\)", "mat_fixed_old"),
    (r"std::is_same_v<\s*tensor_t\s*,\s*tensor::DiagonalTensor<double>\s*>", "assortative"),
    (r"static_cast<\s*scalar_t\s*>\s*\(", "("),
    (r"\bassert\s*\([^;]*\)\s*;", ""),
    (r"\bdimension_t\b", "size_t"),
    (r"\bstd::tie\b", "tie"),
]


def preprocess(src):
    for pat, rep in PRE:
        src = re.sub(pat, rep, src)
    return src


# ------------------------------------------------------------------------------------- parser

class P:
    def __init__(self, toks):
        self.t = toks
        self.p = 0

    def peek(self, k=0):
        return self.t[self.p + k] if self.p + k < len(self.t) else (None, None)

    def at(self, kind, val=None, k=0):
        a, b = self.peek(k)
        return a == kind and (val is None or b == val)

    def eat(self, kind=None, val=None):
        a, b = self.peek()
        if a is None or (kind and a != kind) or (val is not None and b != val):
            raise Lost("expected %s %s, found %s %s (token %d)" % (kind, val, a, b, self.p))
        self.p += 1
        return b

    # ---- expressions
    def expr(self):
        return self.cmp()

    def cmp(self):
        a = self.addsub()
        if self.at("op") and self.peek()[1] in ("<", ">", "==", "!="):
            op = self.eat()
            b = self.addsub()
            return ("cmp", op, a, b)
        return a

    def addsub(self):
        a = self.muldiv()
        while self.at("op") and self.peek()[1] in ("+", "-"):
            op = self.eat()
            b = self.muldiv()
            a = ("bin", op, a, b)
        return a

    def muldiv(self):
        a = self.unary()
        while self.at("op") and self.peek()[1] in ("*", "/", "%"):
            op = self.eat()
            b = self.unary()
            a = ("bin", op, a, b)
        return a

    def unary(self):
        if self.at("op", "!"):
            self.eat()
            return ("not", self.unary())
        return self.postfix()

    def args(self):
        self.eat("op", "(")
        out = []
        if not self.at("op", ")"):
            out.append(self.argexpr())
            while self.at("op", ","):
                self.eat()
                out.append(self.argexpr())
        self.eat("op", ")")
        return out

    def argexpr(self):
        if self.at("op", "*"):          # *eit
            self.eat()
            return ("deref", self.postfix())
        return self.expr()

    def postfix(self):
        k, v = self.peek()
        if k == "num":
            self.eat()
            return ("num", v)
        if k == "op" and v == "(":
            self.eat()
            e = self.expr()
            self.eat("op", ")")
            return e
        if k == "id":
            self.eat()
            e = ("var", v)
            while True:
                if self.at("op", "("):
                    e = ("call", e, self.args())
                elif self.at("op", "."):
                    self.eat()
                    e = ("member", e, self.eat("id"))
                elif self.at("op", "["):
                    self.eat()
                    ix = self.expr()
                    self.eat("op", "]")
                    e = ("index", e, ix)
                else:
                    break
            return e
        raise Lost("unexpected token in expression: %s %s" % (k, v))

    # ---- statements
    def block(self):
        self.eat("op", "{")
        out = []
        while not self.at("op", "}"):
            out.append(self.stmt())
        self.eat("op", "}")
        return out

    def stmt(self):
        if self.at("id", "for"):
            return self.for_()
        if self.at("id", "if"):
            return self.if_()
        if self.at("op", "{"):
            return ("block", self.block())
        if self.at("id", "auto"):
            self.eat()
            name = self.eat("id")
            self.eat("op", "=")
            e = self.expr()
            self.eat("op", ";")
            return ("autodecl", name, e)
        if self.at("id", "double") and self.at("id", None, 1) and self.at("op", "=", 2):
            # `double x = e;` inside the translated part: an assignment to the local `x`
            self.eat()
            name = self.eat("id")
            self.eat("op", "=")
            e = self.expr()
            self.eat("op", ";")
            return ("assign", [("var", name)], e)
        if self.at("id", "return"):
            self.eat()
            e = self.expr()
            self.eat("op", ";")
            return ("return", e)
        if self.at("id", "stream_out") and self.at("op", "<<", 1):
            self.eat()
            ops = []
            while self.at("op", "<<"):
                self.eat()
                if self.at("str"):
                    ops.append(("strlit", self.eat("str")))
                else:
                    ops.append(self.addsub())
            self.eat("op", ";")
            return ("stream", ops)
        # assignment chain / compound assignment / increment
        lhs = self.postfix()
        if self.at("op", "++"):
            self.eat()
            self.eat("op", ";")
            return ("incr", lhs)
        if self.at("op") and self.peek()[1] in ("+=", "-=", "*=", "/="):
            op = self.eat()
            e = self.expr()
            self.eat("op", ";")
            return ("opassign", op[0], lhs, e)
        if self.at("op", "="):
            lhss = [lhs]
            self.eat()
            e = self.expr()
            while self.at("op", "="):
                self.eat()
                lhss.append(e)
                e = self.expr()
            self.eat("op", ";")
            return ("assign", lhss, e)
        raise Lost("unsupported statement at token %d: %s" % (self.p, self.t[self.p:self.p + 6]))

    def if_(self):
        self.eat("id", "if")
        constexpr = False
        if self.at("id", "constexpr"):
            self.eat()
            constexpr = True
        self.eat("op", "(")
        c = self.expr()
        self.eat("op", ")")
        th = self.block()
        el = None
        if self.at("id", "else"):
            self.eat()
            if self.at("id", "if"):
                el = [self.if_()]
            else:
                el = self.block()
        return ("if", constexpr, c, th, el)

    def for_(self):
        self.eat("id", "for")
        self.eat("op", "(")
        # for (size_t i = 0; i < n; i++)
        if self.at("id", "size_t"):
            self.eat()
            v = self.eat("id")
            self.eat("op", "=")
            lo = self.expr()
            self.eat("op", ";")
            v2 = self.eat("id")
            self.eat("op", "<")
            hi = self.addsub()
            self.eat("op", ";")
            v3 = self.eat("id")
            self.eat("op", "++")
            self.eat("op", ")")
            if not (v == v2 == v3):
                raise Lost("for header mixes variables %s %s %s" % (v, v2, v3))
            body = self.block()
            return ("for", v, lo, hi, body)
        # for (auto i : list)   |   for (auto its = proxy.get_edges(i, A(a)); ITS_BEGIN != ITS_END; ++ITS_BEGIN)
        if self.at("id", "auto"):
            self.eat()
            v = self.eat("id")
            if self.at("op", ":"):
                self.eat()
                lst = self.eat("id")
                self.eat("op", ")")
                return ("forlist", v, lst, self.block())
            self.eat("op", "=")
            init = self.expr()
            self.eat("op", ";")
            self.eat("id", "ITS_BEGIN")
            self.eat("op", "!=")
            self.eat("id", "ITS_END")
            self.eat("op", ";")
            self.eat("op", "++")
            self.eat("id", "ITS_BEGIN")
            self.eat("op", ")")
            if v != "its":
                raise Lost("proxy loop variable is not `its`")
            return ("foredges", "proxy", init, self.block())
        # for (tie(eit, eend) = boost::out_edges(i, A(a)); eit != eend; ++eit)
        if self.at("id", "tie"):
            self.eat()
            self.eat("op", "(")
            a = self.eat("id")
            self.eat("op", ",")
            b = self.eat("id")
            self.eat("op", ")")
            self.eat("op", "=")
            init = self.expr()
            self.eat("op", ";")
            self.eat("id", a)
            self.eat("op", "!=")
            self.eat("id", b)
            self.eat("op", ";")
            self.eat("op", "++")
            self.eat("id", a)
            self.eat("op", ")")
            return ("foredges", a, init, self.block())
        raise Lost("unsupported for header")


# ------------------------------------------------------------------------------------- emitter

class Fn:
    """description of one translated function: which names are state fields (and their kinds), which are
    read-only parameters, how constexpr conditions map to Boolean parameters"""

    def __init__(self, name, struct, fields, params, consts, edge_sources, defname="", argnames=""):
        self.name = name
        self.defname = defname    # Lean name of the translated loop nest
        self.calls = {}           # C++ callee -> (expected argument text, Lean term)
        self.call_types = {}      # C++ callee -> 'D' | 'N'
        self.argnames = argnames  # the parameter names of that definition, in order
        self.struct = struct
        self.fields = fields          # name -> kind: 'D' | 'N' | 'M2' | 'M3' | 'M23'
        self.params = params          # name -> kind: 'N' (count) | 'L' (index list) | 'M2' | 'M3' | 'M23' | 'B'
        self.consts = consts          # C++ name -> Lean term (with its type: 'D')
        self.edge_sources = edge_sources  # callee -> Lean function name giving the neighbour list


def lean_ident(n):
    return n


class Emit:
    def __init__(self, fn):
        self.fn = fn
        self.idx = []          # loop-bound Nat variables in scope
        self.path = []         # position of the loop body being translated
        self.counter = [0]     # loops seen so far at each nesting level
        self.defs = []         # (name, index signature, body lines) of the loop bodies, innermost first
        self.returns = 0
        self.draws = 0         # generator calls seen in the statement being translated
        self.edge_alias = []   # (iterator name, layer expr) -> target variable
        self.binders = []      # Lean conditions of the enclosing loops, outermost first: (variable, condition text)
        self.accesses = []     # (binders snapshot, [(index text, dimension text)]) for every container access

    # type of an expression: 'D' double, 'N' natural, 'B' bool
    def ty(self, e):
        k = e[0]
        if k == "num":
            return "N"
        if k == "var":
            n = e[1]
            if n in self.idx:
                return "N"
            if n in self.fn.fields:
                return self.fn.fields[n]
            if n in self.fn.params:
                return self.fn.params[n]
            if n in self.fn.consts:
                if n in getattr(self.fn, "str_consts", ()):
                    return "S"
                return "N" if n in getattr(self.fn, "nat_consts", ()) else "D"
            raise Lost("unknown name %s in %s" % (n, self.fn.name))
        if k == "call":
            f = e[1]
            if f[0] == "var" and f[1] in ("std::abs", "std::log"):
                return "D"
            if f[0] == "var" and (f[1] in self.fn.fields or f[1] in self.fn.params):
                return "D"
            if f[0] == "var" and f[1] == "boost::target":
                return "N"
            if f[0] == "var" and f[1] == getattr(self.fn, "draw_call", None):
                return "D"
            if f[0] == "var" and f[1] in self.fn.calls:
                return self.fn.call_types[f[1]]
            raise Lost("unknown call %s" % (f,))
        if k == "member":
            return "B"
        if k == "index":
            base = e[1]
            if base[0] == "var" and base[1] in getattr(self.fn, "array_types", {}):
                return self.fn.array_types[base[1]]
            raise Lost("indexing of %s" % (base,))
        if k == "bin":
            a, b = self.ty(e[2]), self.ty(e[3])
            return "D" if "D" in (a, b) else "N"
        if k in ("cmp", "not"):
            return "B"
        raise Lost("cannot type %s" % (e,))

    def asD(self, e):
        """Lean text of e coerced to the scalar type"""
        if e[0] == "num":
            if e[1] == "0":
                return "MTExtra.zero"
            return "(MTExtra.ofNat %s)" % e[1]
        t = self.ex(e)
        if self.ty(e) == "N":
            return "(MTExtra.ofNat %s)" % t
        return t

    def access(self, name, args):
        """M(i,k) / w(k,a) / w(k,l,a)"""
        kind = self.fn.fields.get(name) or self.fn.params.get(name)
        a = " ".join(self.atom(x) for x in args)
        self.record_access(name, args)
        if name in self.fn.fields:
            base = "s." + name
        else:
            base = name
        if kind == "M2":
            if len(args) != 2:
                raise Lost("%s used with %d indices" % (name, len(args)))
            return "(%s %s)" % (base, a)
        if kind == "M3":
            if len(args) != 3:
                raise Lost("%s used with %d indices" % (name, len(args)))
            return "(%s %s)" % (base, a)
        if kind == "M23":
            if len(args) not in (2, 3):
                raise Lost("%s used with %d indices" % (name, len(args)))
            return "(%s%d %s)" % (base, len(args), a)
        raise Lost("%s is not indexable" % name)

    def atom(self, e):
        t = self.ex(e)
        return t if re.fullmatch(r"[A-Za-z_0-9.]+", t) else "(" + t + ")"

    def ex(self, e):
        k = e[0]
        if k == "num":
            return e[1]
        if k == "var":
            n = e[1]
            if n in self.idx:
                return n
            if n in self.fn.fields:
                return "s." + n
            if n in self.fn.consts:
                return self.fn.consts[n]
            if n in self.fn.params:
                return n
            raise Lost("unknown name %s" % n)
        if k == "call":
            f, args = e[1], e[2]
            if f[0] != "var":
                raise Lost("call of a non-name")
            n = f[1]
            if n == "std::abs":
                return "MTExtra.abs %s" % self.paren(self.asD(args[0]))
            if n == "std::log":
                return "MTExtra.log %s" % self.paren(self.asD(args[0]))
            if n == "boost::target":
                # boost::target(*eit, A(a)) inside an edge loop over `eit`
                if args[0][0] == "deref" and args[0][1][0] == "var":
                    for it, tgt in self.edge_alias:
                        if it == args[0][1][1]:
                            return tgt
                raise Lost("boost::target outside its edge loop")
            if n == getattr(self.fn, "draw_call", None):
                if args:
                    raise Lost("the generator is called with arguments")
                self.draws += 1
                return "(d s.pos)"
            if n in self.fn.calls:
                want, lean = self.fn.calls[n]
                got = ",".join(norm_ws(self.src_of(a)) for a in args)
                if got != want:
                    raise Lost("%s called with (%s), expected (%s)" % (n, got, want))
                return lean
            if n in self.fn.fields or n in self.fn.params:
                return self.access(n, args)
            raise Lost("unknown function %s" % n)
        if k == "index":
            base, ix = e[1], e[2]
            if base[0] == "var" and base[1] in getattr(self.fn, "arrays", {}):
                return self.fn.arrays[base[1]] % self.atom(ix)
            raise Lost("indexing of %s" % (base,))
        if k == "member":
            # boost::edge(i, j, A(alpha)).second
            b, m = e[1], e[2]
            if m == "second" and b[0] == "call" and b[1] == ("var", "boost::edge"):
                i, j, g = b[2]
                layer = self.layer_of(g)
                return "(%s %s %s).contains %s" % (self.fn.edge_sources["boost::out_edges"], layer, self.atom(i), self.atom(j))
            raise Lost("unsupported member access .%s" % m)
        if k == "bin":
            op, a, b = e[1], e[2], e[3]
            if self.ty(e) == "D":
                return "%s %s %s" % (self.paren(self.asD(a), left=True, op=op), op, self.paren(self.asD(b), op=op, right=True))
            return "%s %s %s" % (self.paren(self.ex(a), left=True, op=op), op, self.paren(self.ex(b), op=op, right=True))
        if k == "cmp":
            op, a, b = e[1], e[2], e[3]
            d = "D" in (self.ty(a), self.ty(b))
            ta = self.asD(a) if d else self.ex(a)
            tb = self.asD(b) if d else self.ex(b)
            if op == ">":
                return "%s < %s" % (self.paren(tb), self.paren(ta))
            if op == "<":
                return "%s < %s" % (self.paren(ta), self.paren(tb))
            if op == "==":
                return "%s = %s" % (self.paren(ta), self.paren(tb))
            if op == "!=":
                return "%s ≠ %s" % (self.paren(ta), self.paren(tb))
        if k == "not":
            return "!%s" % self.atom(e[1])
        raise Lost("cannot translate expression %s" % (e,))

    def src_of(self, e):
        """source-like text of a simple argument expression (identifiers only)"""
        if e[0] == "var":
            return e[1]
        raise Lost("argument too complex")

    def paren(self, t, left=False, right=False, op=None):
        if re.fullmatch(r"[A-Za-z_0-9.]+", t) or (t.startswith("(") and self.balanced_outer(t)):
            return t
        return "(" + t + ")"

    @staticmethod
    def balanced_outer(t):
        d = 0
        for i, c in enumerate(t):
            if c == "(":
                d += 1
            elif c == ")":
                d -= 1
                if d == 0 and i != len(t) - 1:
                    return False
        return d == 0

    def layer_of(self, g):
        # A(a)
        if g[0] == "call" and g[1] == ("var", "A") and len(g[2]) == 1:
            self.record_access("A", [g[2][0]])       # `A(a)`: the layer must exist
            return self.atom(g[2][0])
        raise Lost("graph argument is not A(layer)")

    def record_access(self, name, args):
        """container access `name(args)`: with the dimensions given in `fn.dims` (per number of indices), note that
        every index must be below its dimension, under the conditions of the enclosing loops"""
        dims = getattr(self.fn, "dims", {}).get(name)
        if dims is None:
            return
        d = dims.get(len(args)) if isinstance(dims, dict) else dims
        if d is None or len(d) != len(args):
            raise Lost("%s accessed with %d indices" % (name, len(args)))
        for x in args:
            if self.ty(x) != "N":
                raise Lost("index of %s is not an integer expression" % name)
            if "s." in self.ex(x):
                return    # index held in a translated local (the writers' `index`): not covered
        self.accesses.append((list(self.binders), [(self.ex(x), dim) for x, dim in zip(args, d)]))

    def sty(self):
        """the Lean type of the state: `Struct α`, or plain `Struct` for a function translated at `Float` only"""
        return self.fn.struct + ("" if getattr(self.fn, "monomorphic", False) else " α")

    # ---- statements: each returns a list of Lean lines computing the new `s` from `s`
    def set_field(self, name, val):
        return "let s : %s := { s with %s := %s }" % (self.sty(), name, val)

    def assign_to(self, lhs, val_text):
        if lhs[0] == "var":
            n = lhs[1]
            if n not in self.fn.fields:
                raise Lost("assignment to %s, which is not a translated local" % n)
            return self.set_field(n, val_text)
        if lhs[0] == "call" and lhs[1][0] == "var":
            n = lhs[1][1]
            kind = self.fn.fields.get(n)
            if kind is None:
                raise Lost("write to %s(...), which is not a translated container" % n)
            args = lhs[2]
            a = " ".join(self.atom(x) for x in args)
            self.record_access(n, args)
            if kind == "M2" and len(args) == 2:
                return self.set_field(n, "setAt2 s.%s %s %s" % (n, a, self.paren(val_text)))
            if kind == "M23" and len(args) in (2, 3):
                f = "%s%d" % (n, len(args))
                return self.set_field(f, "setAt%d s.%s %s %s" % (len(args), f, a, self.paren(val_text)))
            raise Lost("write to %s with %d indices" % (n, len(args)))
        raise Lost("unsupported assignment target")

    def lhs_value(self, lhs):
        """text of reading back an assignment target"""
        return self.ex(lhs)

    def lhs_type(self, lhs):
        if lhs[0] == "var":
            return self.fn.fields.get(lhs[1], "D")
        return "D"

    def stmts(self, body, ind):
        out = []
        for st in body:
            out += self.stmt(st, ind)
        return out

    def stmt(self, st, ind):
        pad = "  " * ind
        k = st[0]
        if k in ("assign", "opassign"):
            self.draws = 0
            lines = self.stmt_core(st, ind)
            if self.draws > 1:
                raise Lost("more than one generator call in one statement")
            if self.draws == 1:
                lines.append(pad + self.set_field("pos", "s.pos + 1"))
            return lines
        return self.stmt_core(st, ind)

    def stmt_core(self, st, ind):
        pad = "  " * ind
        k = st[0]
        if k == "assign":
            lhss, e = st[1], st[2]
            # a = b = e: rightmost target first, every other target receives the value just stored
            lines = []
            last = lhss[-1]
            val = self.asD(e) if self.lhs_type(last) == "D" else self.ex(e)
            lines.append(pad + self.assign_to(last, val))
            prev = last
            for lhs in reversed(lhss[:-1]):
                lines.append(pad + self.assign_to(lhs, self.lhs_value(prev)))
                prev = lhs
            return lines
        if k == "opassign":
            op, lhs, e = st[1], st[2], st[3]
            if self.lhs_type(lhs) == "D":
                val = "%s %s %s" % (self.lhs_value(lhs), op, self.paren(self.asD(e)))
            else:
                val = "%s %s %s" % (self.lhs_value(lhs), op, self.paren(self.ex(e)))
            return [pad + self.assign_to(lhs, val)]
        if k == "incr":
            lhs = st[1]
            if self.lhs_type(lhs) != "N":
                raise Lost("++ on a non-integer")
            return [pad + self.assign_to(lhs, "%s + 1" % self.lhs_value(lhs))]
        if k == "block":
            return self.stmts(st[1], ind)
        if k == "stream":
            return self.stream(st[1], ind)
        if k == "return":
            if "ret" not in self.fn.fields:
                raise Lost("`return` inside the translated part")
            e = st[1]
            if e[0] != "var" or e[1] not in self.fn.consts:
                raise Lost("`return` of something that is not a named constant")
            self.returns += 1
            return [pad + self.set_field("ret", self.fn.consts[e[1]])]
        if k == "if":
            constexpr, c, th, el = st[1], st[2], st[3], st[4]
            cond = self.ex(c)
            lines = [pad + "let s : %s := (if %s then" % (self.sty(), cond)]
            lines += self.stmts(th, ind + 2)
            lines.append(pad + "    s")
            lines.append(pad + "  else")
            if el:
                lines += self.stmts(el, ind + 2)
            lines.append(pad + "    s)")
            return lines
        if k == "for":
            v, lo, hi, body = st[1], st[2], st[3], st[4]
            if lo != ("num", "0"):
                head = "forFrom %s %s" % (self.atom(lo), self.atom(hi))
            else:
                head = "forRange %s" % self.atom(hi)
            return self.loop(head, v, body, ind)
        if k == "forlist":
            v, lst, body = st[1], st[2], st[3]
            if self.fn.params.get(lst) != "L":
                raise Lost("range-for over %s, which is not an index list" % lst)
            return self.loop("forList %s" % lst, v, body, ind)
        if k == "foredges":
            it, init, body = st[1], st[2], st[3]
            # init: proxy.get_edges(i, A(a))  |  boost::out_edges(i, A(a))
            if init[0] != "call":
                raise Lost("edge loop initialiser not understood")
            f0 = init[1]
            if f0[0] == "var":
                callee = f0[1]
            elif f0[0] == "member" and f0[1][0] == "var":
                callee = f0[1][1] + "." + f0[2]
            else:
                raise Lost("edge loop initialiser not understood")
            if callee not in self.fn.edge_sources:
                raise Lost("edge loop over %s" % callee)
            i, g = init[2]
            layer = self.layer_of(g)
            self.record_access("@vertex", [i])       # the edges of vertex `i`: the vertex must exist in the layer graph
            src = "%s %s %s" % (self.fn.edge_sources[callee], layer, self.atom(i))
            body = list(body)
            tgt = None
            if body and body[0][0] == "autodecl":
                name, e = body[0][1], body[0][2]
                ok = False
                # proxy.get_vertex(ITS_BEGIN, A(a))  |  boost::target(*eit, A(a))
                if e[0] == "call":
                    f = e[1]
                    if it == "proxy" and f == ("member", ("var", "edges_vertices_proxy"), "get_vertex") \
                            and e[2][0] == ("var", "ITS_BEGIN") and self.layer_of(e[2][1]) == layer:
                        ok = True
                    if it != "proxy" and f == ("var", "boost::target") and e[2][0] == ("deref", ("var", it)) \
                            and self.layer_of(e[2][1]) == layer:
                        ok = True
                if not ok:
                    raise Lost("first statement of the edge loop is not the neighbour extraction")
                tgt = name
                body = body[1:]
            if tgt is None:
                tgt = "tgt_" + it
            self.edge_alias.append((it, tgt))
            lines = self.loop("forList (%s)" % src, tgt, body, ind)
            self.edge_alias.pop()
            return lines
        if k == "autodecl":
            raise Lost("`auto %s = …` outside an edge loop" % st[1])
        raise Lost("unsupported statement kind %s" % k)

    def stream(self, ops, ind):
        """`stream_out << a << b << std::endl;` on a token-level output: fields `cur` (tokens of the line being
        written) and `lines`.  A string literal contributes its whitespace-separated words; every value must be
        followed by whitespace (a literal beginning with a blank) or by `std::endl`, and a literal must end with
        whitespace unless `std::endl` follows — otherwise neighbouring outputs would fuse into one token: lost anchor."""
        pad = "  " * ind
        out = []
        n = len(ops)
        for k, op in enumerate(ops):
            nxt = ops[k + 1] if k + 1 < n else None
            nxt_ws = nxt is None or nxt == ("var", "std::endl") or (nxt[0] == "strlit" and nxt[1][1:2].isspace())
            if op[0] == "strlit":
                text = bytes(op[1][1:-1], "utf-8").decode("unicode_escape")
                if text and not text[-1].isspace() and not (nxt is None or nxt == ("var", "std::endl")):
                    raise Lost("string literal %s is not followed by whitespace" % op[1])
                for w in text.split():
                    out.append(pad + self.set_field("cur", 's.cur ++ [Tok.s "%s"]' % w.replace('"', '\\"')))
            elif op == ("var", "std::endl"):
                out.append(pad + self.set_field("lines", "s.lines ++ [s.cur]"))
                out.append(pad + self.set_field("cur", "[]"))
            else:
                if not nxt_ws:
                    raise Lost("a value is written without whitespace after it")
                t = self.ty(op)
                if t == "N":
                    out.append(pad + self.set_field("cur", "s.cur ++ [Tok.n %s]" % self.atom(op)))
                elif t == "D":
                    out.append(pad + self.set_field("cur", "s.cur ++ [Tok.f %s]" % self.atom(op)))
                elif t == "S":
                    out.append(pad + self.set_field("cur", "s.cur ++ [Tok.s %s]" % self.atom(op)))
                else:
                    raise Lost("cannot write a value of type %s" % t)
        return out

    def loop(self, head, v, body, ind):
        """a loop: its body becomes a definition of its own (named by its position in the nest), taking the
        function's parameters, the indices of the enclosing loops, its own index and the state"""
        pad = "  " * ind
        self.counter[-1] += 1
        path = self.path + [self.counter[-1]]
        name = self.fn.defname + "_" + "_".join(str(x) for x in path)
        outer_idx = list(self.idx)
        # translate the body in its own scope
        saved_path, self.path = self.path, path
        self.counter.append(0)
        self.idx.append(v)
        if head.startswith("forRange "):
            cond = "%s < %s" % (v, head[len("forRange "):])
        elif head.startswith("forFrom "):
            lo, hi = head[len("forFrom "):].rsplit(" ", 1) if not head.endswith(")") else (None, None)
            if lo is None:
                # both bounds may be parenthesised expressions: split at the top-level blank
                depth, cut = 0, None
                t = head[len("forFrom "):]
                for n, ch in enumerate(t):
                    depth += ch == "("
                    depth -= ch == ")"
                    if ch == " " and depth == 0:
                        cut = n
                        break
                lo, hi = t[:cut], t[cut + 1:]
            cond = "%s ≤ %s ∧ %s < %s" % (lo, v, v, hi)
        else:
            cond = "%s ∈ %s" % (v, head[len("forList "):])
        self.binders.append((v, cond))
        blines = self.stmts(body, 1)
        self.binders.pop()
        self.idx.pop()
        self.counter.pop()
        self.path = saved_path
        idx_sig = "".join(" (%s : Nat)" % x for x in outer_idx + [v])
        self.defs.append((name, idx_sig, blines))
        call = "%s %s%s" % (name, self.fn.argnames, "".join(" " + x for x in outer_idx))
        return [pad + "let s : %s := %s (%s) s" % (self.sty(), head, call.strip())]


def norm_ws(s):
    return re.sub(r"\s+", "", s)


def split_function(body, first_loop_regex=r"\bfor\s*\("):
    """(prologue text, loop-nest text, epilogue text): the loop nest is everything from the first top-level
    `for` to the end of the last top-level `for` block"""
    # find top-level statements: scan at depth 0
    depth = 0
    i = 0
    n = len(body)
    first = None
    last_end = None
    while i < n:
        c = body[i]
        if c in "({":
            depth += 1
        elif c in ")}":
            depth -= 1
        elif depth == 0 and body.startswith("for", i) and re.match(r"for\s*\(", body[i:]) and \
                (i == 0 or not (body[i - 1].isalnum() or body[i - 1] == "_")):
            if first is None:
                first = i
            # skip header
            j = body.index("(", i)
            d = 0
            while True:
                if body[j] == "(":
                    d += 1
                elif body[j] == ")":
                    d -= 1
                    if d == 0:
                        break
                j += 1
            j = body.index("{", j)
            d = 0
            while True:
                if body[j] == "{":
                    d += 1
                elif body[j] == "}":
                    d -= 1
                    if d == 0:
                        break
                j += 1
            last_end = j + 1
            i = j
        i += 1
    if first is None:
        raise Lost("no top-level loop")
    return body[:first], body[first:last_end], body[last_end:]


def translate_loops(fn, loop_text, ind=1):
    toks = lex(preprocess(loop_text))
    p = P(toks)
    stmts = []
    while p.p < len(toks):
        stmts.append(p.stmt())
    em = Emit(fn)
    top = em.stmts(stmts, ind)
    fn.accesses = em.accesses
    return em.defs, top


def safety_prop(fn):
    """Lean text of the proposition `every recorded container access is inside the container`"""
    seen, conj = set(), []
    for binders, idx in fn.accesses:
        body = " ∧ ".join("%s < %s" % (i if re.fullmatch(r"[A-Za-z_0-9]+", i) else "(" + i + ")", d) for i, d in idx)
        t = ""
        for v, cond in binders:
            t += "∀ %s, %s → " % (v, cond)
        t = "(" + t + "(" + body + "))"
        if t not in seen:
            seen.add(t)
            conj.append(t)
    return conj
