#!/bin/bash
# usage: verify_mutation.sh <worktree> "<demo build+run command, exit status = demo result>"
# Confirms: demo passes on the original, tests pass with the change, demo fails with the change.
WT=$1; DEMO=$2
cd $WT || exit 2
git checkout -q -- include applications
echo "--- demo on ORIGINAL"; ( eval "$DEMO" ) > $WT/MUTATION/demo_orig.log 2>&1; R0=$?; echo "demo_orig_rc=$R0"
git apply MUTATION/patch.diff || { echo "patch does not apply"; exit 2; }
echo "--- tests with CHANGE"
cmake -G Ninja -B _build -DCMAKE_BUILD_TYPE=RelWithDebInfo > /dev/null 2>&1 && cmake --build _build > $WT/MUTATION/build.log 2>&1; RB=$?
ctest --test-dir _build -j8 --timeout 900 2>&1 | tail -3 > $WT/MUTATION/ctest.log; grep -q "100% tests passed" $WT/MUTATION/ctest.log; RT=$?
echo "build_rc=$RB tests_pass_rc=$RT"
echo "--- demo with CHANGE"; ( eval "$DEMO" ) > $WT/MUTATION/demo_mut.log 2>&1; R1=$?; echo "demo_mut_rc=$R1"
git checkout -q -- include applications; rm -rf _build
if [ $R0 -eq 0 ] && [ $RB -eq 0 ] && [ $RT -eq 0 ] && [ $R1 -ne 0 ]; then echo "VERIFIED"; else echo "NOT-VERIFIED"; fi
