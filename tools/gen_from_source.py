#!/usr/bin/env python3
"""Translator: re-extracts from /repo's *current* sources the facts that are literally text
there (constants, index expressions, transpose argument order, dispatch tables) and writes
them as Lean definitions under lean/MT/Generated/.  Run by every check before `lake build`.

Exit status 0 = all anchors found (files rewritten only when their content changed);
exit status 3 = an anchor was lost: the names are printed as `LOST-ANCHOR <name>: <why>` and a
Lean file is still written in which the corresponding definition is replaced by a marker
value that makes the dependent theorem fail to build (never the stale value).
"""
import os
import re
import sys

REPO = os.environ.get("VERIF_REPO", "/repo")
HERE = os.path.dirname(os.path.abspath(__file__))
OUT = os.path.join(os.path.dirname(HERE), "lean", "MT", "Generated")

lost = []
tables = {"cli": [], "pyx": []}


def read(rel):
    with open(os.path.join(REPO, rel), encoding="utf-8", errors="replace") as f:
        return f.read()


def strip_comments(src):
    src = re.sub(r"/\*.*?\*/", lambda m: "\n" * m.group(0).count("\n"), src, flags=re.S)
    src = re.sub(r"//[^\n]*", "", src)
    return src


def write_if_changed(name, text):
    path = os.path.join(OUT, name)
    os.makedirs(OUT, exist_ok=True)
    old = None
    if os.path.exists(path):
        with open(path) as f:
            old = f.read()
    if old != text:
        with open(path, "w") as f:
            f.write(text)
        print(f"generated {name} (changed)")


# ----------------------------------------------------------------------------- expressions

TOK = re.compile(r"\s*(?:(\d+)|([A-Za-z_][A-Za-z_0-9]*)|(.))")


def tokenize(expr):
    out = []
    pos = 0
    expr = expr.strip()
    while pos < len(expr):
        m = TOK.match(expr, pos)
        if not m:
            raise ValueError("cannot tokenize " + expr[pos:])
        pos = m.end()
        if m.group(1):
            out.append(("int", m.group(1)))
        elif m.group(2):
            out.append(("id", m.group(2)))
        elif m.group(3).strip():
            out.append(("op", m.group(3)))
    return out


class Parser:
    """cond ? a : b  |  sums of products of atoms; atoms: int, identifier, ( expr )"""

    def __init__(self, toks):
        self.t = toks
        self.p = 0
        self.ids = []

    def peek(self):
        return self.t[self.p] if self.p < len(self.t) else (None, None)

    def eat(self, kind=None, val=None):
        k, v = self.peek()
        if k is None or (kind and k != kind) or (val and v != val):
            raise ValueError(f"unexpected token {k} {v}")
        self.p += 1
        return v

    def expr(self):
        a = self.sum()
        if self.peek() == ("op", "?"):
            self.eat()
            b = self.expr()
            self.eat("op", ":")
            c = self.expr()
            return f"(if {a} then {b} else {c})"
        return a

    def sum(self):
        a = self.prod()
        while self.peek() in (("op", "+"), ("op", "-")):
            op = self.eat()
            b = self.prod()
            a = f"({a} {op} {b})"
        return a

    def prod(self):
        a = self.atom()
        while self.peek() == ("op", "*"):
            self.eat()
            b = self.atom()
            a = f"({a} * {b})"
        return a

    def atom(self):
        k, v = self.peek()
        if k == "int":
            self.eat()
            return v
        if k == "id":
            self.eat()
            if v not in self.ids:
                self.ids.append(v)
            return v
        if (k, v) == ("op", "("):
            self.eat()
            e = self.expr()
            self.eat("op", ")")
            return e
        raise ValueError(f"unexpected token {k} {v}")


def to_lean(expr):
    p = Parser(tokenize(expr))
    e = p.expr()
    if p.p != len(p.t):
        raise ValueError("trailing tokens in " + expr)
    return e, p.ids


def lean_def(name, params, body, bool_params=()):
    ps = " ".join(
        f"({x} : Bool)" if x in bool_params else f"({x} : Nat)" for x in params
    )
    return f"def {name} {ps} : Nat := {body}\n"


def expr_def(name, anchor_desc, text, params, bool_params=(), doc=""):
    """Lean def from a C++ expression; all identifiers must be among params."""
    if text is None:
        lost.append((name, "pattern not found: " + anchor_desc))
        return f"/-- LOST ANCHOR: {anchor_desc} -/\ndef {name} : Unit := ()\n"
    try:
        body, ids = to_lean(text)
    except ValueError as e:
        lost.append((name, f"cannot translate `{text}`: {e}"))
        return f"/-- LOST ANCHOR (untranslatable `{text}`) -/\ndef {name} : Unit := ()\n"
    extra = [i for i in ids if i not in params]
    if extra:
        lost.append((name, f"unexpected identifiers {extra} in `{text}`"))
        return f"/-- LOST ANCHOR (identifiers {extra} in `{text}`) -/\ndef {name} : Unit := ()\n"
    return f"/-- {doc}`{text.strip()}` -/\n" + lean_def(name, params, body, bool_params)


# ----------------------------------------------------------------------------- params.hpp

def sci(lit):
    """decimal literal -> (mantissa, exp10)"""
    m = re.fullmatch(r"(\d+)(?:\.(\d*))?(?:[eE]([+-]?\d+))?", lit)
    if not m:
        return None
    ip, fp, ex = m.group(1), m.group(2) or "", int(m.group(3) or 0)
    mant = int(ip + fp)
    return mant, ex - len(fp)


def gen_params():
    src = strip_comments(read("include/multitensor/params.hpp"))
    out = ["/- GENERATED by tools/gen_from_source.py from include/multitensor/params.hpp — do not edit -/",
           "namespace MT.Params"]
    for cname, lname in (("EPS_PRECISION", "eps"), ("EPS_PRECISION_LIKELIHOOD", "epsLik"),
                         ("EPS_NOISE", "noise")):
        m = re.search(r"const\s+double\s+" + cname + r"\s*=\s*([^;]+);", src)
        lit = m.group(1).strip() if m else None
        s = sci(lit) if lit else None
        if s is None:
            lost.append((lname, f"constant {cname} not found or not a decimal literal"))
            out.append(f"def {lname}Lit : String := \"?\"")
            out.append(f"def {lname}Mant : Nat := 0")
            out.append(f"def {lname}Exp : Int := 0")
        else:
            out.append(f"def {lname}Lit : String := \"{lit}\"")
            out.append(f"def {lname}Mant : Nat := {s[0]}")
            out.append(f"def {lname}Exp : Int := {s[1]}")
    out.append("end MT.Params\n")
    write_if_changed("Params.lean", "\n".join(out))


# ----------------------------------------------------------------------------- index formulas

def balanced(src, i, open_ch="(", close_ch=")"):
    """index just after the bracket that closes the one at src[i]"""
    depth = 0
    for j in range(i, len(src)):
        if src[j] == open_ch:
            depth += 1
        elif src[j] == close_ch:
            depth -= 1
            if depth == 0:
                return j + 1
    return None


def if_conditions(body):
    """the balanced condition text of every `if (…)` / `if constexpr (…)` in body"""
    res = []
    for m in re.finditer(r"\bif\s*(?:constexpr\s*)?\(", body):
        end = balanced(body, m.end() - 1)
        if end:
            res.append(body[m.end():end - 1])
    return res


def body_of(src, header_regex, nth=0):
    """text of the brace block following the nth match of header_regex (a header ending in `(` has its
    parameter list skipped first, so braces in default arguments are not mistaken for the body)"""
    ms = list(re.finditer(header_regex, src))
    if len(ms) <= nth:
        return None
    start = ms[nth].end()
    if src[start - 1] == "(":
        e = balanced(src, start - 1)
        if e is None:
            return None
        start = e
    i = src.index("{", start)
    depth = 0
    for j in range(i, len(src)):
        if src[j] == "{":
            depth += 1
        elif src[j] == "}":
            depth -= 1
            if depth == 0:
                return src[i + 1:j]
    return None


def gen_index():
    out = ["/- GENERATED by tools/gen_from_source.py from tensor.hpp, app_utils.hpp, app_utils.cpp,",
           "   multitensor.pyx — do not edit -/",
           "set_option linter.unusedVariables false",
           "namespace MT.Gen", ""]
    tens = strip_comments(read("include/multitensor/tensor.hpp"))

    # get_index
    b = body_of(tens, r"size_t\s+get_index\s*\(\s*const\s+size_t\s+i\s*,\s*const\s+size_t\s+j\s*,\s*const\s+size_t\s+alpha\s*\)\s*const")
    expr = None
    if b:
        m = re.search(r"size_t\s+index\s*=\s*([^;]+);", b)
        if m and re.search(r"return\s+index\s*;", b):
            expr = m.group(1)
        else:
            m = re.search(r"return\s+([^;]+);", b)
            expr = m.group(1) if m else None
    out.append(expr_def("getIndexSrc", "tensor.hpp get_index: `size_t index = …; return index;`", expr,
                        ["nrows", "ncols", "ntubes", "i", "j", "alpha"], doc="tensor.hpp `get_index`: "))

    # Matrix / DiagonalTensor accessors: Tensor<scalar_t>::operator()(x, y, z)
    def accessor(cls, params, name):
        cb = body_of(tens, r"class\s+" + cls + r"\s*:\s*public\s+Tensor<scalar_t>")
        found = []
        if cb:
            for m in re.finditer(r"operator\(\)\s*\(\s*const\s+size_t\s+(\w+)\s*,\s*const\s+size_t\s+(\w+)\s*\)\s*(const)?\s*\{\s*return\s+Tensor<scalar_t>::operator\(\)\s*\(([^)]*)\)\s*;", cb):
                args = [a.strip() for a in m.group(4).split(",")]
                found.append(((m.group(1), m.group(2)), args))
        if len(found) != 2 or found[0] != found[1] or len(found[0][1]) != 3 or list(found[0][0]) != params:
            lost.append((name, f"{cls}::operator()(…) bodies not found / differ"))
            return f"def {name} : Unit := ()\n"
        a = found[0][1]
        return (f"/-- tensor.hpp `{cls}::operator()({', '.join(params)})` forwards to `Tensor::operator()({', '.join(a)})` -/\n"
                f"def {name} ({params[0]} {params[1]} : Nat) : Nat × Nat × Nat := ({a[0]}, {a[1]}, {a[2]})\n")

    out.append(accessor("Matrix", ["i", "j"], "matArgs"))
    out.append(accessor("DiagonalTensor", ["i", "alpha"], "diagArgs"))

    # Transpose
    tb = body_of(tens, r"class\s+Transpose\b")
    t3 = []
    t2 = []
    dims_swapped = None
    if tb:
        for m in re.finditer(r"operator\(\)\s*\(\s*const\s+size_t\s+i\s*,\s*const\s+size_t\s+j\s*,\s*const\s+size_t\s+alpha\s*\)\s*(?:const)?\s*\{\s*return\s+tensor\s*\(([^)]*)\)\s*;\s*\}", tb):
            t3.append([a.strip() for a in m.group(1).split(",")])
        for m in re.finditer(r"operator\(\)\s*\(\s*const\s+size_t\s+i\s*,\s*const\s+size_t\s+j\s*\)\s*(?:const)?\s*\{(.*?)\n    \}", tb, flags=re.S):
            body = m.group(1)
            md = re.search(r"if\s+constexpr\s*\(\s*std::is_same_v<tensor_t,\s*DiagonalTensor<double>>\s*\)\s*\{\s*return\s+tensor\s*\(([^)]*)\)\s*;\s*\}\s*return\s+tensor\s*\(([^)]*)\)\s*;", body)
            if md:
                t2.append(([a.strip() for a in md.group(1).split(",")], [a.strip() for a in md.group(2).split(",")]))
    if len(t3) == 2 and t3[0] == t3[1] and len(t3[0]) == 3 and set(t3[0]) <= {"i", "j", "alpha"}:
        a = t3[0]
        out.append(f"/-- tensor.hpp `Transpose::operator()(i, j, alpha)` returns `tensor({', '.join(a)})` (both overloads) -/\n"
                   f"def transposeArgs3 (i j alpha : Nat) : Nat × Nat × Nat := ({a[0]}, {a[1]}, {a[2]})\n")
    else:
        lost.append(("transposeArgs3", "Transpose::operator()(i,j,alpha) bodies not found / differ"))
        out.append("def transposeArgs3 : Unit := ()\n")
    if len(t2) == 2 and t2[0] == t2[1] and all(len(x) == 2 for x in t2[0]):
        d, g = t2[0]
        out.append(f"/-- tensor.hpp `Transpose::operator()(i, j)`: `tensor({', '.join(d)})` for a DiagonalTensor, else `tensor({', '.join(g)})` -/\n"
                   f"def transposeArgs2 (diag : Bool) (i j : Nat) : Nat × Nat := if diag then ({d[0]}, {d[1]}) else ({g[0]}, {g[1]})\n")
    else:
        lost.append(("transposeArgs2", "Transpose::operator()(i,j) bodies not found / differ"))
        out.append("def transposeArgs2 : Unit := ()\n")

    # writer indices (app_utils.hpp write_affinity_file)
    au = strip_comments(read("applications/include/app_utils.hpp"))
    wb = body_of(au, r"void\s+write_affinity_file\s*\(")
    ea = eg = None
    if wb:
        ms = re.findall(r"index\s*=\s*([^;]+);", wb)
        if len(ms) == 2:
            ea, eg = ms
    out.append(expr_def("writerIdxAssort", "app_utils.hpp write_affinity_file first `index = …`", ea,
                        ["nof_groups", "nof_layers", "k", "alpha"], doc="app_utils.hpp writer (assortative): "))
    out.append(expr_def("writerIdxGeneral", "app_utils.hpp write_affinity_file second `index = …`", eg,
                        ["nof_groups", "nof_layers", "k", "q", "alpha"], doc="app_utils.hpp writer (general): "))
    # the test deciding the assortative layout
    m = re.search(r"const\s+size_t\s+assortative\s*=\s*\(\s*affinity\.size\(\)\s*==\s*\(([^)]*)\)\s*\)\s*;", wb or "")
    out.append(expr_def("writerAssortSize", "write_affinity_file `assortative = (affinity.size() == (…))`",
                        m.group(1) if m else None, ["nof_groups", "nof_layers"],
                        doc="writer uses the assortative layout iff affinity.size() == "))

    # reader index (app_utils.cpp read_affinity_data)
    ac = strip_comments(read("applications/src/app_utils.cpp"))
    rb = body_of(ac, r"void\s+read_affinity_data\s*\(")
    er = None
    if rb:
        ms = re.findall(r"\bindex\s*=\s*([^;]+);", rb)
        if len(ms) == 1:
            er = ms[0]
    out.append(expr_def("readerIdx", "app_utils.cpp read_affinity_data `index = …`", er,
                        ["assortative", "nof_groups", "group", "layer"], bool_params=("assortative",),
                        doc="app_utils.cpp affinity reader writes `w[index]` with index = "))

    # python reshape
    pyx = read("python/package/multitensor.pyx")
    m = re.search(r"w_l\s*=\s*affinity_ravel\[begin:end\]\.reshape\(\(\s*-1\s*,\s*(\w+)\s*\)\)(\.T)?\s*\n", pyx)
    m2 = re.search(r"begin\s*=\s*l\s*\*\s*num_vals\s*\n\s*end\s*=\s*\(l\s*\+\s*1\)\s*\*\s*num_vals", pyx)
    m3 = re.search(r"num_vals\s*=\s*affinity_ravel\.size\s*//\s*nof_layers", pyx)
    if m and m2 and m3 and m.group(1) == "nof_groups":
        # numpy semantics (modelled): reshape((-1,K)) is row-major: M[r][c] = block[r*K + c]; .T swaps
        if m.group(2):
            body = "l * num_vals + (q * nof_groups + k)"
        else:
            body = "l * num_vals + (k * nof_groups + q)"
        out.append("/-- multitensor.pyx: `affinity_ravel[l*num_vals:(l+1)*num_vals].reshape((-1, nof_groups))"
                   + (".T" if m.group(2) else "") + "`;\nflat position of entry `[k][q]` of the array returned for layer `l`"
                   " (numpy row-major reshape, modelled) -/\n"
                   f"def pyxEntryPos (nof_groups num_vals l k q : Nat) : Nat := {body}\n")
    else:
        lost.append(("pyxEntryPos", "multitensor.pyx reshape((-1, nof_groups)).T block not found"))
        out.append("def pyxEntryPos : Unit := ()\n")

    # python: initial affinity built from the file (multitensor.pyx:272-281)
    ma = re.search(r"if assortative:\s*\n\s*init_affinity = w_data\[:, 1:\]\.ravel\(\)", pyx)
    mg = re.search(r"init_affinity = \(numpy\.diag\(l\) for l in w_data\[:, 1:\]\)\s*\n\s*init_affinity = numpy\.concatenate\(\[l\.ravel\(\) for l in init_affinity\]\)", pyx)
    if ma and mg:
        out.append("/-- multitensor.pyx: flat position of the value `d_g` of file row `row` in the start vector:\n"
                   "`w_data[:, 1:].ravel()` (assortative) resp. `concatenate([numpy.diag(l).ravel() for l in w_data[:, 1:]])`\n"
                   "(numpy row-major ravel and diag, modelled) -/\n"
                   "def pyxInitPos (assortative : Bool) (nof_groups row g : Nat) : Nat :=\n"
                   "  if assortative then row * nof_groups + g else row * (nof_groups * nof_groups) + (g * nof_groups + g)\n")
    else:
        lost.append(("pyxInitPos", "multitensor.pyx initial-affinity construction (ravel / numpy.diag) not found"))
        out.append("def pyxInitPos : Unit := ()\n")

    out.append("end MT.Gen\n")
    write_if_changed("Index.lean", "\n".join(out))


# ----------------------------------------------------------------------------- dispatch tables

def split_targs(s):
    """split a template argument list at top-level commas"""
    out, depth, cur = [], 0, ""
    for ch in s:
        if ch in "<[":
            depth += 1
        elif ch in ">]":
            depth -= 1
        if ch == "," and depth == 0:
            out.append(cur.strip())
            cur = ""
        else:
            cur += ch
    if cur.strip():
        out.append(cur.strip())
    return out


def norm(t):
    t = re.sub(r"\s+", "", t)
    t = t.replace("tensor::", "").replace("initialization::", "").replace("boost::", "")
    t = t.replace("[", "<").replace("]", ">").replace("numpy.float_t", "double")
    return t


DIR = {"bidirectionalS": "true", "undirectedS": "false"}
AFF = {"SymmetricTensor<double>": "false", "DiagonalTensor<double>": "true"}


def init_of(t):
    """(fromFile, innerAssort option)"""
    if t == "init_symmetric_tensor_random":
        return "false", "none"
    m = re.fullmatch(r"init_symmetric_tensor_from_initial<(.+)>", t)
    if m and m.group(1) in AFF:
        return "true", f"(some {AFF[m.group(1)]})"
    return None


def gen_dispatch():
    out = ["/- GENERATED by tools/gen_from_source.py from main.hpp, multitensor.cpp, multitensor.pyx — do not edit -/",
           "namespace MT.Gen", "",
           "/-- one library instantiation named by a front end -/",
           "structure Inst where",
           "  directed : Bool",
           "  assort : Bool",
           "  fromFile : Bool",
           "  /-- tensor type inside `init_symmetric_tensor_from_initial<…>` (assortative?) -/",
           "  initInner : Option Bool",
           "deriving DecidableEq, Repr", ""]
    # defaults from main.hpp
    mh = strip_comments(read("include/multitensor/main.hpp"))
    m = re.search(r"template\s*<\s*class\s+direction_t\s*=\s*([^,]+),\s*class\s+affinity_t\s*=\s*([^,]+(?:<[^>]*>)?)\s*,\s*class\s+affinity_init_t\s*=\s*([^,]+),", mh)
    defaults = None
    if m:
        d = [norm(m.group(i)) for i in (1, 2, 3)]
        if d[0] in DIR and d[1] in AFF and init_of(d[2]):
            defaults = d
    if not defaults:
        lost.append(("defaults", "main.hpp template defaults not found"))
        defaults = ["?", "?", "?"]

    def inst_py(targs):
        t = [norm(x) for x in targs] + [None] * 3
        d, a, i = t[0] or defaults[0], t[1] or defaults[1], t[2] or defaults[2]
        ff, inner = init_of(i)
        return {"directed": DIR[d] == "true", "assort": AFF[a] == "true", "fromFile": ff == "true",
                "initInner": None if inner == "none" else ("true" in inner)}

    def inst(targs):
        t = [norm(x) for x in targs] + [None] * 3
        d = t[0] or defaults[0]
        a = t[1] or defaults[1]
        i = t[2] or defaults[2]
        if d not in DIR or a not in AFF or init_of(i) is None:
            return None
        ff, inner = init_of(i)
        return f"{{ directed := {DIR[d]}, assort := {AFF[a]}, fromFile := {ff}, initInner := {inner} }}"

    # CLI switch
    cpp = strip_comments(read("applications/src/multitensor.cpp"))
    rows = []
    sel = re.search(r"const\s+size_t\s+selection\s*=\s*([^;]+);", cpp)
    sw = re.search(r"switch\s*\(\s*selection\s*\)", cpp)
    if sw:
        body = body_of(cpp, r"switch\s*\(\s*selection\s*\)")
        parts = re.split(r"\bcase\s+(\d+)\s*:", body.split("default:")[0])
        for n, blk in zip(parts[1::2], parts[2::2]):
            mc = re.search(r"multitensor_factorization\s*(?:<(.*?)>)?\s*\(\s*edges_start", blk, flags=re.S)
            if not mc or "break;" not in blk:
                lost.append((f"cli case {n}", "no call / no break"))
                continue
            targs = split_targs(mc.group(1)) if mc.group(1) else []
            i = inst(targs)
            if i is None:
                lost.append((f"cli case {n}", f"unknown template arguments {targs}"))
                continue
            args = re.sub(r"\s+", "", blk[mc.end() - len("edges_start"):blk.index(");", mc.end())])
            allocv = "true" if re.search(r"\bv\.resize\s*\(\s*nof_vertices\s*,\s*nof_groups\s*\)", blk[:mc.start()]) else "false"
            rows.append((int(n), i, allocv, args))
            tables["cli"].append({"sel": int(n), "inst": inst_py(targs), "allocV": allocv == "true"})
    if len(rows) == 0:
        lost.append(("cliTable", "switch(selection) not found"))
    seltxt = sel.group(1).strip() if sel else None
    out.append(expr_def("cliSelection", "multitensor.cpp `const size_t selection = …`",
                        seltxt.replace("directed_graph", "directed").replace("w_init_defined", "wfile") if seltxt else None,
                        ["directed", "assortative", "wfile"], doc="multitensor.cpp: selection = "))
    out.append("/-- multitensor.cpp switch: case ↦ (instantiation, `v.resize(nof_vertices, nof_groups)` before the call) -/")
    out.append("def cliTable : List (Nat × Inst × Bool) := [")
    out.append(",\n".join(f"  ({n}, {i}, {a})" for n, i, a, _ in rows))
    out.append("]\n")
    argsets = sorted(set(r[3] for r in rows))
    out.append("/-- the distinct argument lists of the calls in the switch -/")
    out.append("def cliCallArgs : List String := [" + ", ".join('"' + a + '"' for a in argsets) + "]\n")
    # is v written only when directed_graph?
    mv = re.search(r"if\s*\(\s*directed_graph\s*\)\s*\{\s*write_membership_file\s*\(\s*dpath\s*/\s*VOUT_FILENAME", cpp)
    out.append(f"def cliVFileIffDirected : Bool := {'true' if mv else 'false'}\n")

    # pyx
    pyx = read("python/package/multitensor.pyx")
    prow = []
    blocks = re.split(r"\n        if weigths_dtype is ", pyx)
    for blk in blocks[1:]:
        blk = blk.split("\n    finally:")[0]
        mc = re.match(r"(int|float) and (not )?directed and (not )?assortative and (not )?init_affinity_filename:\n", blk)
        if not mc:
            lost.append(("pyx block", "condition not recognised: " + blk[:60].replace("\n", " ")))
            continue
        cond = (mc.group(1) == "int", mc.group(2) is None, mc.group(3) is None, mc.group(4) is None)
        calls = re.findall(r"report\.c_obj\s*=\s*c_multitensor_factorization\[(.*?)\]\(", blk, flags=re.S)
        if len(calls) != 1:
            lost.append(("pyx block", f"{len(calls)} calls in block {cond}"))
            continue
        targs = split_targs(calls[0])
        if len(targs) != 5 or norm(targs[3]) != "vertex_t":
            lost.append(("pyx block", f"template arguments {targs}"))
            continue
        i = inst(targs[:3])
        wt = {"numpy.int_t": "true", "double": "false"}.get(norm(targs[4]).replace("numpy.int_t", "numpy.int_t"))
        mw = re.search(r"<\s*const\s+vector\[(numpy\.\w+)\]\s*&\s*>\s*edges_weights", blk)
        wcast = {"numpy.int_t": "true", "numpy.float_t": "false"}.get(mw.group(1)) if mw else None
        if i is None or wt is None or wcast is None:
            lost.append(("pyx block", f"unknown types {targs}"))
            continue
        call_pos = blk.index("report.c_obj")
        allocv = "true" if re.search(r"c_v\.resize\(\s*nof_vertices\s*,\s*nof_groups\s*\)", blk[:call_pos]) else "false"
        b = lambda x: "true" if x else "false"
        tables["pyx"].append({"cWint": cond[0], "cDirected": cond[1], "cAssort": cond[2], "cFile": cond[3],
                              "inst": inst_py(targs[:3]), "wint": wt == "true", "wcastInt": wcast == "true",
                              "allocV": allocv == "true"})
        prow.append(f"  {{ cWint := {b(cond[0])}, cDirected := {b(cond[1])}, cAssort := {b(cond[2])}, cFile := {b(cond[3])},\n"
                    f"    inst := {i}, wint := {wt}, wcastInt := {wcast}, allocV := {allocv} }}")
    out.append("/-- one `if …:` block of multitensor.pyx: its condition literals and what it calls -/")
    out.append("structure PyxRow where\n  cWint : Bool\n  cDirected : Bool\n  cAssort : Bool\n  cFile : Bool\n"
               "  inst : Inst\n  wint : Bool\n  wcastInt : Bool\n  allocV : Bool\nderiving DecidableEq, Repr\n")
    out.append("def pyxTable : List PyxRow := [")
    out.append(",\n".join(prow))
    out.append("]\n")
    # are the blocks independent `if`s (no elif/else) inside one try?
    n_if = len(blocks) - 1
    out.append(f"def pyxBlockCount : Nat := {n_if}\n")
    me = re.search(r"\n    v = None\n    if directed:\n        v = numpy\.array\(", pyx)
    out.append(f"/-- epilogue: `v = None` then `if directed: v = numpy.array(…)` -/\ndef pyxVNoneUnlessDirected : Bool := {'true' if me else 'false'}\n")
    mcv = re.search(r"cdef\s+Matrix\[numpy\.float_t\]\s+c_v\s*=\s*Matrix\[numpy\.float_t\]\(0,\s*0\)", pyx)
    out.append(f"/-- `c_v` starts as a 0x0 matrix -/\ndef pyxVStartsEmpty : Bool := {'true' if mcv else 'false'}\n")
    out.append("end MT.Gen\n")
    write_if_changed("Dispatch.lean", "\n".join(out))
    tables["pyxVNoneUnlessDirected"] = bool(me)
    tables["pyxBlockCount"] = n_if
    import json
    write_if_changed("tables.json", json.dumps(tables, indent=1, sort_keys=True))


# ----------------------------------------------------------------------------- solver control text

def gen_control():
    """facts of solver.hpp that are text: evaluation period, order of the termination tests, the pass
    test, the guards and the truncation of the two updates, the order of the three updates in `loop`"""
    src = strip_comments(read("include/multitensor/solver.hpp"))
    out = ["/- GENERATED by tools/gen_from_source.py from include/multitensor/solver.hpp — do not edit -/",
           "namespace MT.Gen", ""]
    lb = body_of(src, r"termination_reason\s+loop\s*\(")
    period = None
    order = None
    passtest = None
    steps = None
    if lb:
        m = re.search(r"if\s*\(\s*iteration\s*%\s*(\d+)\s*==\s*0\s*\)", lb)
        period = int(m.group(1)) if m else None
        tail = lb[lb.index("iteration++"):] if "iteration++" in lb else ""
        conds = re.findall(r"if\s*\(([^)]*\(\))\s*\)\s*\{\s*return\s+(\w+)\s*;", tail)
        if conds:
            order = [(re.sub(r"\s+", "", c), r) for c, r in conds]
        m = re.search(r"if\s*\((std::abs\(L2_old - L2\)\s*/\s*std::abs\(L2_old\)\s*<\s*\w+)\)", lb)
        passtest = re.sub(r"\s+", "", m.group(1)) if m else None
        calls = re.findall(r"(update_vertices<graph::(\w+)>|update_affinity)\s*\(([^;]*)\);", lb)
        if calls:
            steps = [((c[1] or "affinity"), re.sub(r"\s+", "", c[2])) for c in calls]
    if period is None:
        lost.append(("evalPeriod", "`if (iteration % N == 0)` not found in Solver::loop"))
    out.append("/-- solver.hpp `loop`: the likelihood is evaluated when `iteration % evalPeriod == 0` -/")
    out.append("def evalPeriod : Nat := %d\n" % (period if period is not None else 0))
    if not order:
        lost.append(("terminationOrder", "termination if-chain not found after `iteration++`"))
        order = []
    out.append("/-- solver.hpp `loop`: the termination tests in the order the code makes them -/")
    out.append("def terminationOrder : List (String × String) := [" +
               ", ".join('("%s", "%s")' % (c, r) for c, r in order) + "]\n")
    if passtest is None:
        lost.append(("passTest", "convergence test not found"))
    out.append("/-- solver.hpp `loop`: the convergence test (whitespace removed) -/")
    out.append('def passTest : String := "%s"\n' % (passtest or "?"))
    if not steps:
        lost.append(("loopSteps", "update calls not found in Solver::loop"))
        steps = []
    out.append("/-- solver.hpp `loop`: the update calls in order (proxy type, arguments) -/")
    out.append("def loopSteps : List (String × String) := [" +
               ", ".join('("%s", "%s")' % (a, b) for a, b in steps) + "]\n")
    # guards and truncation of update_vertices / update_affinity
    def guards(fn_regex):
        b = body_of(src, fn_regex)
        if not b:
            return None
        g = [c for c in if_conditions(b) if "EPS_PRECISION" in c]
        return sorted(set(re.sub(r"\s+", "", x) for x in g))
    gv = guards(r"void\s+update_vertices\s*\(")
    gw = guards(r"void\s+update_affinity\s*\(")
    if gv is None or gw is None:
        lost.append(("guards", "update_vertices / update_affinity not found"))
    out.append("/-- solver.hpp `update_vertices`: every comparison against EPS_PRECISION (distinct, sorted) -/")
    out.append("def vertexGuards : List String := [" + ", ".join('"%s"' % x for x in (gv or [])) + "]\n")
    out.append("/-- solver.hpp `update_affinity`: every comparison against EPS_PRECISION (distinct, sorted) -/")
    out.append("def affinityGuards : List String := [" + ", ".join('"%s"' % x for x in (gw or [])) + "]\n")
    out.append("end MT.Gen\n")
    write_if_changed("Control.lean", "\n".join(out))


def main():
    gen_params()
    gen_index()
    gen_dispatch()
    gen_control()
    import gen_solver_code
    gen_solver_code.gen(sys.modules[__name__], lost)
    import gen_run_code
    gen_run_code.gen(sys.modules[__name__], lost)
    import gen_init_code
    gen_init_code.gen(sys.modules[__name__], lost)
    import gen_graph_code
    gen_graph_code.gen(sys.modules[__name__], lost)
    import gen_main_code      # after run and graph: `mainCode` is built from their definitions
    gen_main_code.gen(sys.modules[__name__], lost)
    import gen_utils_code
    gen_utils_code.gen(sys.modules[__name__], lost)
    import gen_cli_code
    gen_cli_code.gen(sys.modules[__name__], lost)
    import gen_writer_code
    gen_writer_code.gen(sys.modules[__name__], lost)
    for name, why in lost:
        print(f"LOST-ANCHOR {name}: {why}")
    sys.exit(3 if lost else 0)


if __name__ == "__main__":
    main()
