#!/bin/bash
# usage: sweep_mutations.sh <repo copy> <out file> <name-glob> <check ids...>
# Applies every seeded change matching the glob to a *copy* of the repository (never /repo), runs the given
# checks (VERIF_REPO=<copy>) and records which of them report a violation.  Meant for `vp run --with-repo`.
RC=$1; OUT=$2; GLOB=$3; shift 3
HERE=$(cd "$(dirname "$0")/.." && pwd)
export VERIF_REPO=$RC
cd $HERE
python3 check.py setup > /dev/null 2>&1
: > $OUT
for d in seeded/$GLOB; do
  n=$(basename $d)
  git -C $RC checkout -q -- . ; git -C $RC apply $HERE/$d/patch.diff || { echo "$n: patch does not apply" >> $OUT; continue; }
  res=""
  for P in "$@"; do
    o=$(python3 check.py $P --tier quick 2>&1); rc=$?
    k=$(echo "$o" | grep -c "^VIOLATION")
    nf=$(echo "$o" | grep "^VIOLATION" | grep -c "no-failing-input-found")
    if [ $rc -ne 0 ]; then res="$res $P($k,$((k-nf))in)"; fi
  done
  echo "$n:$res" >> $OUT
  git -C $RC checkout -q -- .
done
echo DONE >> $OUT
