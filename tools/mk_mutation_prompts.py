#!/usr/bin/env python3
"""mk_mutation_prompts.py <round dir, e.g. /tmp/mut8> [extra steer text] — one scratch worktree of /repo and one prompt per
property for a fresh sub-agent (property text only, nothing from /verif); the ideas kept in /verif/seeded are listed as used."""
import json, os, subprocess, sys
root = sys.argv[1]
steer = sys.argv[2] if len(sys.argv) > 2 else ""
os.makedirs(os.path.join(root, "prompts"), exist_ok=True)
seeded = sorted(os.listdir("/verif/seeded"))
used = {}
for d in seeded:
    if not d.startswith("C"):
        continue
    meta = {}
    try:
        meta = json.load(open(os.path.join("/verif/seeded", d, "meta.json")))
    except Exception:
        pass
    idea = d.split("_", 1)[1].replace("_", " ") if "_" in d else d
    for p in {d[:3], meta.get("property_asked_for") or d[:3]}:
        used.setdefault(p, []).append(idea)
for line in open("/verif/properties.jsonl"):
    pr = json.loads(line)
    pid = pr["id"]
    wt = os.path.join(root, pid)
    if not os.path.isdir(wt):
        subprocess.run(["git", "-C", "/repo", "worktree", "add", "--detach", "-q", wt, "HEAD"], check=True)
    text = f"""You are helping to evaluate a verification framework by mutation. You work ONLY inside the scratch git worktree {wt} (a checkout of the C++ project MPI-IS/multitensor: header library include/multitensor/*.hpp, command line applications/, Cython front end python/package/multitensor.pyx, tests/). Do not read or touch /verif or /repo, and do not use any other directory except {wt} (put scratch build output in {wt}/_build or {wt}/MUTATION). The sandbox has no network. Do NOT use `git stash` (it is shared between worktrees); use `git diff > file`, `git apply`, `git apply -R` and `git checkout --` instead.

The project has a semantic property a user relies on:

  {pid} — {pr['title']}
  {pr['statement']}

Your task: produce a change to the project's source (include/, applications/ or python/package/multitensor.pyx) that BREAKS this property while
  (a) still compiling, and
  (b) still passing the existing test suite:  cd {wt} && cmake -G Ninja -B _build -DCMAKE_BUILD_TYPE=RelWithDebInfo >/dev/null && cmake --build _build && ctest --test-dir _build -j8 --timeout 900   (11 ctest entries, all must pass), and
  (c) looking like something a maintainer could plausibly commit (a refactor, an optimisation, a 'defensive' guard, a cache, a tidy-up, a portability fix) — not sabotage that ordinary use would expose at once.

The breakage must be HARD TO HIT: it should need something specific to manifest — a rare-but-legal input (a boundary value, a particular combination of options or shapes, a label/weight/seed value, a degenerate network such as isolated layers, duplicated records, a single group of vertices), a state reached only after many iterations or several realizations, a particular sequence of API calls, or TWO COOPERATING EDITS in different functions or files, each harmless on its own. The rarer the trigger (while still being something a real user could do), the better. Any source file may be edited. {steer}

Ideas already used by earlier participants for this property — yours must be substantially different from ALL of these (different site AND different trigger): {'; '.join(used.get(pid, ['(none)']))}.

Deliverables, all under {wt}/MUTATION/ :
  1. patch.diff — `git diff` of your change against the checkout's HEAD (source files only, no build output; must apply with `git apply MUTATION/patch.diff` at the worktree root). If you made two cooperating edits also write edit1_only.diff and edit2_only.diff.
  2. a demonstration: a small C++ program demo.cpp or a shell script demo.sh (build what you need from the current sources inside the script, e.g. g++ -std=c++17 -O1 -Iinclude -Iapplications/include … -lboost_filesystem -lboost_system) that exits 0 on the ORIGINAL code and exits non-zero on the CHANGED code, checking the property directly (not comparing against hard-coded golden numbers from the original build unless unavoidable). For a property about the .pyx front end (which cannot be built here: no Cython), the demonstration may be a Python script that parses multitensor.pyx text and evaluates its logic for all argument combinations.
  3. notes.json with keys: "property" ("{pid}"), "summary", "needs" (exactly what is needed for the breakage to manifest and why the existing tests do not see it), "demo_build_and_run" (one shell command line that builds and runs the demonstration from a clean state and whose exit status is the demonstration's result; it must work both before and after `git apply MUTATION/patch.diff`), "two_sites" (if applicable).

Before you finish, verify yourself: (1) on the original code the demo exits 0; (2) with the patch applied the project builds and all ctest entries pass; (3) with the patch applied the demo exits non-zero. Leave the worktree with the patch NOT applied (git checkout -- include applications python) and remove _build when done (rm -rf _build) to save disk. Report briefly what you did and the verification results."""
    open(os.path.join(root, "prompts", pid + ".txt"), "w").write(text)
print("prompts in", os.path.join(root, "prompts"))
