// Layout of tensors with 2^32 elements and more (C18: "for all dimensions"): one-byte elements, so that a tensor just
// over 2^32 elements costs 4.3 GB.  Built without sanitizers and run only by C18's thorough tier and by its
// failing-input search after a broken obligation.  Prints one line per shape: `ok` or the first misplaced element.
#include <tuple>
#include <vector>
#include <cassert>
#include <stdexcept>
#include <string>
#include <cstdio>
#include <cstdint>
#include "multitensor/tensor.hpp"
using namespace multitensor::tensor;

template <class T>
static int probe(T &t, size_t R, size_t C, size_t L, const char *what)
{
    const unsigned char *base = &t(0, 0, 0);
    const size_t is[] = {0, 1, R / 2, R - 1};
    const size_t js[] = {0, 1, C / 2, C - 2, C - 1};
    const size_t as[] = {0, L / 2, L - 1};
    for (size_t a : as)
        for (size_t j : js)
            for (size_t i : is)
            {
                if (i >= R || j >= C || a >= L)
                    continue;
                const size_t want = a * R * C + j * R + i;
                const size_t got = (size_t)(&t(i, j, a) - base);
                if (got != want)
                {
                    std::printf("%s %zux%zux%zu: element (%zu,%zu,%zu) at flat position %zu, expected %zu\n", what, R, C, L, i, j, a, got, want);
                    return 1;
                }
            }
    if (t.size() != R * C * L)
    {
        std::printf("%s %zux%zux%zu: size() = %zu\n", what, R, C, L, (size_t)t.size());
        return 1;
    }
    std::printf("%s %zux%zux%zu: ok\n", what, R, C, L);
    return 0;
}

int main()
{
    int bad = 0;
    {
        Tensor<unsigned char> t(65536, 65537, 1);
        bad += probe(t, 65536, 65537, 1, "tensor");
    }
    {
        Tensor<unsigned char> t(2048, 2048, 1025);
        bad += probe(t, 2048, 2048, 1025, "tensor");
    }
    {
        Tensor<unsigned char> t(3, 5, 1);
        t.resize(70000, 61357, 1);
        bad += probe(t, 70000, 61357, 1, "resized tensor");
    }
    return bad ? 1 : 0;
}
