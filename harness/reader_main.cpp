// Unsanitized reader driver for valgrind memcheck (uninitialised values are invisible to ASan):
//   reader_main adj <file>            reads an adjacency file and prints the records
//   reader_main aff <file> <K> <size> reads an initial-affinity file into a vector of <size> (general layout)
#include <iostream>
#include <string>
#include <type_traits>
#include <vector>
#include "app_utils.hpp"

template <class F>
void call_read_affinity(F f, const std::string &p, bool assort, size_t K, std::vector<double> &w)
{
    if constexpr (std::is_invocable_v<F, const boost::filesystem::path &, const bool &, const size_t &, std::vector<double> &>)
        f(p, assort, K, w);
    else
        f(p, assort, w);
}

int main(int argc, char **argv)
{
    if (argc < 3)
        return 2;
    std::string kind = argv[1];
    try
    {
        if (kind == "adj")
        {
            std::vector<size_t> s, e, w;
            read_adjacency_data(argv[2], s, e, w);
            // using the values makes memcheck report them if they are uninitialised
            for (size_t i = 0; i < s.size(); i++)
                std::cerr << s[i] << " " << (i < e.size() ? e[i] : 0) << "\n";
            for (auto x : w)
                std::cerr << x << " ";
        }
        else
        {
            size_t K = std::stoul(argv[3]), size = std::stoul(argv[4]);
            std::vector<double> w(size);
            call_read_affinity(&read_affinity_data, argv[2], false, K, w);
            for (auto x : w)
                std::cerr << x << " ";
        }
    }
    catch (const std::exception &ex)
    {
        std::cerr << "error: " << ex.what() << "\n";
        return 1;
    }
    return 0;
}
