// In-process correspondence harness: runs the real multitensor code (headers from /repo's
// working tree, compiled with -DMULTITENSOR_VERIF, sanitizers and assertions on) on the line
// protocol described in /verif/lean/Driver.lean.  One case per input line:
//   <id> <op> <args…>      →      <id> key=v,v,… key=…
// Doubles travel as x + 16 hex digits of their bit pattern.
//
// usage: harness <scratch-dir>   (stdin → stdout)

#include <unistd.h>
#include <cmath>
#include <cstdint>
#include <cstdio>
#include <cstring>
#include <fstream>
#include <iostream>
#include <map>
#include <sstream>
#include <string>
#include <type_traits>
#include <vector>

#include <boost/graph/adjacency_list.hpp>

#include "multitensor/main.hpp"
#include "multitensor/verif_hooks.hpp"
#include "app_utils.hpp"

#ifndef MULTITENSOR_VERIF
#error "build the harness with -DMULTITENSOR_VERIF"
#endif
#ifndef HARNESS_PART
#error "define HARNESS_PART (0..6)"
#endif

using namespace multitensor;
using tensor::DiagonalTensor;
using tensor::Matrix;
using tensor::SymmetricTensor;

namespace multitensor
{
namespace verif
{
// friend of solver::Solver: the private member functions, on arbitrary states
struct Access
{
    template <class EV, class Aff, class Net>
    static void update_vertices(solver::Solver &s, const std::vector<size_t> &num,
                                const std::vector<size_t> &den, const Net &A, const Aff &w,
                                const Matrix<double> &fixed, Matrix<double> &upd)
    {
        s.template update_vertices<EV>(num, den, A, w, fixed, upd);
    }
    template <class Aff, class Net>
    static void update_affinity(solver::Solver &s, const std::vector<size_t> &ul,
                                const std::vector<size_t> &vl, const Net &A,
                                const Matrix<double> &u, const Matrix<double> &v, Aff &w)
    {
        s.update_affinity(ul, vl, A, u, v, w);
    }
    template <class Aff, class Net>
    static double likelihood(solver::Solver &s, const Matrix<double> &u, const Matrix<double> &v,
                             const Aff &w, const Net &A)
    {
        return s.calculate_likelyhood(u, v, w, A);
    }
    template <class Aff, class Net>
    static termination_reason loop(solver::Solver &s, const std::vector<size_t> &ul,
                                   const std::vector<size_t> &vl, const Net &A, Matrix<double> &u,
                                   Matrix<double> &v, Aff &w, size_t &it, size_t &co, double &L2)
    {
        return s.loop(ul, vl, A, u, v, w, it, co, L2);
    }
};
} // namespace verif
} // namespace multitensor
using verif::Access;

// ------------------------------------------------------------------------------ protocol

static std::string g_scratch = ".";

struct Cur
{
    std::vector<std::string> t;
    size_t p = 0;
    const std::string &tok()
    {
        if (p >= t.size())
            throw std::logic_error("unexpected end of line");
        return t[p++];
    }
    size_t nat() { return std::stoull(tok()); }
    long long integer() { return std::stoll(tok()); }
    bool boolean() { return nat() != 0; }
    double flt()
    {
        const std::string &s = tok();
        if (s.size() != 17 || s[0] != 'x')
            throw std::logic_error("not a hex double: " + s);
        std::uint64_t b = std::stoull(s.substr(1), nullptr, 16);
        double x;
        std::memcpy(&x, &b, 8);
        return x;
    }
    std::vector<double> flts()
    {
        size_t n = nat();
        std::vector<double> v(n);
        for (auto &x : v)
            x = flt();
        return v;
    }
    std::string bytes()
    {
        const std::string &s = tok();
        if (s == "-")
            return "";
        std::string out;
        for (size_t i = 0; i + 1 < s.size(); i += 2)
            out.push_back((char)std::stoi(s.substr(i, 2), nullptr, 16));
        return out;
    }
};

static std::string hx(double x) { return verif::hex_of_double(x); }

struct Out
{
    std::ostringstream os;
    void kv(const std::string &k, const std::string &v) { os << " " << k << "=" << v; }
    template <class T>
    void list(const std::string &k, const std::vector<T> &v)
    {
        os << " " << k << "=";
        for (size_t i = 0; i < v.size(); i++)
        {
            if constexpr (std::is_same_v<T, double>)
                os << (i ? "," : "") << hx(v[i]);
            else
                os << (i ? "," : "") << v[i];
        }
    }
    void dl(const std::string &k, const std::vector<double> &v)
    {
        os << " " << k << "=";
        for (size_t i = 0; i < v.size(); i++)
            os << (i ? "," : "") << hx(v[i]);
    }
};

template <class T>
T parse_as(const std::string &s);
template <>
inline
size_t parse_as<size_t>(const std::string &s) { return std::stoull(s); }
template <>
inline
int parse_as<int>(const std::string &s) { return std::stoi(s); }
template <>
inline
long parse_as<long>(const std::string &s) { return std::stol(s); }
template <>
inline
std::string parse_as<std::string>(const std::string &s) { return s; }
template <>
inline
double parse_as<double>(const std::string &s)    // floating-point labels travel as bit patterns (x + 16 hex digits)
{
    if (s.size() != 17 || s[0] != 'x')
        throw std::logic_error("not a hex double label: " + s);
    std::uint64_t b = std::stoull(s.substr(1), nullptr, 16);
    double x;
    std::memcpy(&x, &b, 8);
    return x;
}

template <class W>
W parse_weight(Cur &c);
template <>
inline
size_t parse_weight<size_t>(Cur &c) { return c.nat(); }
template <>
inline
long parse_weight<long>(Cur &c) { return (long)c.integer(); }
template <>
inline
double parse_weight<double>(Cur &c) { return c.flt(); }

template <class V, class W>
struct Recs
{
    size_t nL = 0;
    std::vector<V> starts, ends;
    std::vector<W> weights;
};

// `<nrec> <L> (src dst w…)*`  (the weight-type token was consumed by the dispatcher)
template <class V, class W>
Recs<V, W> &parse_recs(Cur &c)
{
    // the edge lists live in the SAME three vector objects for the whole process, like those of a long-lived caller
    // that refills its buffers in place: storage address (and often the length) is the same from call to call
    static Recs<V, W> r;
    if (r.starts.capacity() == 0)
    {
        r.starts.reserve(1 << 12);
        r.ends.reserve(1 << 12);
        r.weights.reserve(1 << 14);
    }
    r.starts.clear();
    r.ends.clear();
    r.weights.clear();
    size_t n = c.nat();
    r.nL = c.nat();
    for (size_t i = 0; i < n; i++)
    {
        r.starts.push_back(parse_as<V>(c.tok()));
        r.ends.push_back(parse_as<V>(c.tok()));
        for (size_t a = 0; a < r.nL; a++)
            r.weights.push_back(parse_weight<W>(c));
    }
    return r;
}

#if HARNESS_PART == 0
// ------------------------------------------------------------------------------ idx

static void op_idx(Cur &c, Out &o)
{
    size_t R = c.nat(), C = c.nat(), T = c.nat();
    std::vector<double> data(R * C * T);
    for (size_t p = 0; p < data.size(); p++)
        data[p] = (double)p;
    tensor::Tensor<double> t(R, C, T, data);
    std::vector<size_t> pos, tpos, mpos, dpos;
    for (size_t i = 0; i < R; i++)
        for (size_t j = 0; j < C; j++)
            for (size_t a = 0; a < T; a++)
                pos.push_back((size_t)t(i, j, a));
    tensor::Transpose<tensor::Tensor<double>> tt(t);
    for (size_t i = 0; i < C; i++)
        for (size_t j = 0; j < R; j++)
            for (size_t a = 0; a < T; a++)
                tpos.push_back((size_t)tt(i, j, a));
    {
        std::vector<double> d(R * C);
        for (size_t p = 0; p < d.size(); p++)
            d[p] = (double)p;
        Matrix<double> m(R, C, d);
        for (size_t i = 0; i < R; i++)
            for (size_t j = 0; j < C; j++)
                mpos.push_back((size_t)m(i, j));
    }
    {
        std::vector<double> d(R * T);
        for (size_t p = 0; p < d.size(); p++)
            d[p] = (double)p;
        DiagonalTensor<double> m(R, T, d);
        for (size_t i = 0; i < R; i++)
            for (size_t a = 0; a < T; a++)
                dpos.push_back((size_t)m(i, a));
    }
    // the two-index form of a tensor and of its transposed view (layer 0), through the const and the non-const accessor
    std::vector<size_t> pos2, tpos2;
    {
        const tensor::Tensor<double> &ct = t;
        for (size_t i = 0; i < R; i++)
            for (size_t j = 0; j < C; j++)
            {
                pos2.push_back((size_t)ct(i, j));
                if ((size_t)t(i, j) != pos2.back())
                    pos2.back() = (size_t)-1;
            }
        for (size_t i = 0; i < C; i++)
            for (size_t j = 0; j < R; j++)
                tpos2.push_back((size_t)tt(i, j));
    }
    // value semantics: copies (constructed, assigned into an object of another shape, moved) are the same tensor
    bool copies = true;
    {
        auto same = [&](const auto &x, const auto &y) {
            return x.dims() == y.dims() && x.get_data() == y.get_data() && x.size() == y.size();
        };
        tensor::Tensor<double> c1(t), c2(1, 1, 1), tmp(t), c4(2, 1, 1), tmp2(t);
        c2 = t;
        tensor::Tensor<double> c3(std::move(tmp));
        c4 = std::move(tmp2);
        copies = copies && same(c1, t) && same(c2, t) && same(c3, t) && same(c4, t);
        for (size_t i = 0; i < R && copies; i++)
            for (size_t j = 0; j < C; j++)
                for (size_t a = 0; a < T; a++)
                    copies = copies && c2(i, j, a) == t(i, j, a) && c4(i, j, a) == t(i, j, a);
        std::vector<double> d(R * C);
        for (size_t p = 0; p < d.size(); p++)
            d[p] = (double)p;
        Matrix<double> m(R, C, d), m1(m), m2(1, 1), mt(m);
        m2 = m;
        Matrix<double> m3(std::move(mt));
        copies = copies && same(m1, m) && same(m2, m) && same(m3, m);
        for (size_t i = 0; i < R && copies; i++)
            for (size_t j = 0; j < C; j++)
                copies = copies && m2(i, j) == m(i, j) && m3(i, j) == m(i, j);
        std::vector<double> dd(R * T);
        for (size_t p = 0; p < dd.size(); p++)
            dd[p] = (double)p;
        DiagonalTensor<double> g(R, T, dd), g1(g), g2(1, 1);
        g2 = g;
        copies = copies && same(g1, g) && same(g2, g);
        for (size_t i = 0; i < R && copies; i++)
            for (size_t a = 0; a < T; a++)
                copies = copies && g2(i, a) == g(i, a);
        std::vector<double> ds(R * R * T);
        for (size_t p = 0; p < ds.size(); p++)
            ds[p] = (double)p;
        SymmetricTensor<double> sy(R, T, ds), sy1(sy), sy2(1, 1);
        sy2 = sy;
        copies = copies && same(sy1, sy) && same(sy2, sy);
        for (size_t i = 0; i < R && copies; i++)
            for (size_t j = 0; j < R; j++)
                for (size_t a = 0; a < T; a++)
                    copies = copies && sy2(i, j, a) == sy(i, j, a) && (size_t)sy(i, j, a) == a * R * R + j * R + i;
    }
    o.kv("copies", copies ? "1" : "0");
    o.list("pos", pos);
    o.list("tpos", tpos);
    o.list("mpos", mpos);
    o.list("dpos", dpos);
    o.list("pos2", pos2);
    o.list("tpos2", tpos2);
    o.kv("size", std::to_string(t.size()));
}

// `idxr <kind> R C T R2 C2 T2` — a tensor of one shape resized to another (multi-step use of one
// object): every in-range element written through the accessor, then located in get_data()
template <class TT, class Acc>
static void resized_positions(TT &t, size_t R, size_t C, size_t T, Acc acc, Out &o)
{
    std::vector<size_t> pos;
    double code = 1;
    std::vector<std::vector<double>> codes;
    for (size_t i = 0; i < R; i++)
        for (size_t j = 0; j < C; j++)
            for (size_t a = 0; a < T; a++)
                acc(t, i, j, a) = code++;
    code = 1;
    const auto &d = t.get_data();
    for (size_t i = 0; i < R; i++)
        for (size_t j = 0; j < C; j++)
            for (size_t a = 0; a < T; a++)
            {
                size_t p = 0;
                while (p < d.size() && d[p] != code)
                    p++;
                pos.push_back(p);
                code++;
            }
    o.list("pos", pos);
    o.kv("dims", std::to_string(std::get<0>(t.dims())) + "," + std::to_string(std::get<1>(t.dims())) + "," +
                     std::to_string(std::get<2>(t.dims())));
    o.kv("size", std::to_string(t.size()));
}

static void op_idxr(Cur &c, Out &o)
{
    std::string kind = c.tok();
    size_t R = c.nat(), C = c.nat(), T = c.nat(), R2 = c.nat(), C2 = c.nat(), T2 = c.nat();
    if (kind == "t")
    {
        tensor::Tensor<double> t(R, C, T);
        t.resize(R2, C2, T2);
        resized_positions(t, R2, C2, T2, [](auto &x, size_t i, size_t j, size_t a) -> double & { return x(i, j, a); }, o);
    }
    else if (kind == "m")
    {
        Matrix<double> t(R, C);
        t.resize(R2, C2);
        resized_positions(t, R2, C2, 1, [](auto &x, size_t i, size_t j, size_t) -> double & { return x(i, j); }, o);
    }
    else if (kind == "s")
    {
        SymmetricTensor<double> t(R, T);
        t.resize(R2, T2);
        resized_positions(t, R2, R2, T2, [](auto &x, size_t i, size_t j, size_t a) -> double & { return x(i, j, a); }, o);
    }
    else
    {
        DiagonalTensor<double> t(R, T);
        t.resize(R2, T2);
        resized_positions(t, R2, 1, T2, [](auto &x, size_t i, size_t, size_t a) -> double & { return x(i, a); }, o);
    }
}

// ------------------------------------------------------------------------------ net

template <class V, class W, class D>
void op_net_t(Cur &c, Out &o)
{
    constexpr bool directed = std::is_same_v<D, boost::bidirectionalS>;
    auto &r = parse_recs<V, W>(c);
    graph::Network<V, D> A(r.starts, r.ends, r.weights);
    auto ul = std::make_shared<std::vector<size_t>>();
    auto vl = std::make_shared<std::vector<size_t>>();
    A.extract_vertices_with_edges(ul, vl);
    std::vector<V> labels;
    if (A.num_layers() > 0)
        A.extract_vertices_labels(labels);
    o.kv("N", std::to_string(A.num_vertices()));
    o.kv("L", std::to_string(A.num_layers()));
    o.list("labels", labels);
    o.kv("E", std::to_string(A.num_edges()));
    o.list("U", *ul);
    o.list("V", *vl);
    for (size_t a = 0; a < A.num_layers(); a++)
        for (size_t i = 0; i < A.num_vertices(); i++)
        {
            std::vector<size_t> l;
            for (auto its = boost::out_edges(i, A(a)); its.first != its.second; ++its.first)
                l.push_back(boost::target(*its.first, A(a)));
            o.list("out." + std::to_string(a) + "." + std::to_string(i), l);
            if constexpr (directed)
            {
                std::vector<size_t> l2;
                for (auto its = boost::in_edges(i, A(a)); its.first != its.second; ++its.first)
                    l2.push_back(boost::source(*its.first, A(a)));
                o.list("in." + std::to_string(a) + "." + std::to_string(i), l2);
            }
        }
    o.kv("numv", std::to_string(utils::get_num_vertices(r.starts, r.ends)));
}

template <class V, class W>
void op_net_d(bool dir, Cur &c, Out &o)
{
    if (dir)
        op_net_t<V, W, boost::bidirectionalS>(c, o);
    else
        op_net_t<V, W, boost::undirectedS>(c, o);
}

// dispatch on (label type, weight type): (u,u) (u,l) (u,r) (i,u) (s,u)
#define DISPATCH_LT_WT(FN, ...)                                             \
    do                                                                      \
    {                                                                       \
        if (lt == "u" && wt == "u")                                         \
            FN<size_t, size_t>(__VA_ARGS__);                                \
        else if (lt == "u" && wt == "l")                                    \
            FN<size_t, long>(__VA_ARGS__);                                  \
        else if (lt == "u" && wt == "r")                                    \
            FN<size_t, double>(__VA_ARGS__);                                \
        else if (lt == "i" && wt == "u")                                    \
            FN<int, size_t>(__VA_ARGS__);                                   \
        else if (lt == "s" && wt == "u")                                    \
            FN<std::string, size_t>(__VA_ARGS__);                           \
        else if (lt == "d" && wt == "u")                                    \
            FN<double, size_t>(__VA_ARGS__);                                \
        else                                                                \
            throw std::logic_error("unsupported label/weight type " + lt + wt); \
    } while (0)

static void op_net(Cur &c, Out &o)
{
    bool dir = c.boolean();
    std::string lt = c.tok(), wt = c.tok();
    DISPATCH_LT_WT(op_net_d, dir, c, o);
}

// ------------------------------------------------------------------------------ sweep

template <class W, class D, class Aff>
void op_sweep_t(size_t K, Cur &c, Out &o)
{
    constexpr bool directed = std::is_same_v<D, boost::bidirectionalS>;
    constexpr bool assort = std::is_same_v<Aff, DiagonalTensor<double>>;
    auto &r = parse_recs<size_t, W>(c);
    size_t N = c.nat();
    auto ud = c.flts(), vd = c.flts(), wd = c.flts();
    size_t it0 = c.nat(), co0 = c.nat();
    double L20 = c.flt();
    size_t maxit = c.nat(), nconv = c.nat();

    graph::Network<size_t, D> A(r.starts, r.ends, r.weights);
    auto ul = std::make_shared<std::vector<size_t>>();
    auto vl = std::make_shared<std::vector<size_t>>();
    A.extract_vertices_with_edges(ul, vl);
    solver::Solver s(1, maxit, nconv);

    Matrix<double> u(N, K, ud), v;
    if constexpr (directed)
        v = Matrix<double>(N, K, vd);
    Aff w(K, A.num_layers(), wd);
    Matrix<double> u0(u), v0(v);
    Aff w0(w);

    Matrix<double> &vv = directed ? v : u; // undirected: the same object plays both roles
    o.kv("lik0", hx(Access::likelihood(s, u, vv, w, A)));
    Access::update_vertices<graph::out_edges_target_vertices>(s, *ul, *vl, A, w, vv, u);
    o.dl("u1", u.get_data());
    if constexpr (directed)
    {
        if constexpr (assort)
        {
            Access::update_vertices<graph::in_edges_source_vertices>(s, *vl, *ul, A, w, u, v);
        }
        else
        {
            tensor::Transpose<Aff> wT(w);
            Access::update_vertices<graph::in_edges_source_vertices>(s, *vl, *ul, A, wT, u, v);
        }
        o.dl("v1", v.get_data());
    }
    else
    {
        o.kv("v1", "");
    }
    Access::update_affinity(s, *ul, *vl, A, u, vv, w);
    o.dl("w1", w.get_data());
    o.kv("lik1", hx(Access::likelihood(s, u, vv, w, A)));

    // the real `loop` on the same start
    Matrix<double> &vv0 = directed ? v0 : u0;
    size_t it = it0, co = co0;
    double L2 = L20;
    termination_reason tr = Access::loop(s, *ul, *vl, A, u0, vv0, w0, it, co, L2);
    o.dl("loop_u", u0.get_data());
    if constexpr (directed)
        o.dl("loop_v", v0.get_data());
    else
        o.kv("loop_v", "");
    o.dl("loop_w", w0.get_data());
    o.kv("loop_L2", hx(L2));
    o.kv("loop_it", std::to_string(it));
    o.kv("loop_co", std::to_string(co));
    o.kv("loop_reason", std::to_string((int)tr));
}

static void op_sweep(Cur &c, Out &o)
{
    bool dir = c.boolean(), assort = c.boolean();
    size_t K = c.nat();
    std::string lt = c.tok(), wt = c.tok();
    (void)lt;
#define SW(W)                                                                          \
    do                                                                                 \
    {                                                                                  \
        if (dir && !assort)                                                            \
            op_sweep_t<W, boost::bidirectionalS, SymmetricTensor<double>>(K, c, o);    \
        else if (dir && assort)                                                        \
            op_sweep_t<W, boost::bidirectionalS, DiagonalTensor<double>>(K, c, o);     \
        else if (!dir && !assort)                                                      \
            op_sweep_t<W, boost::undirectedS, SymmetricTensor<double>>(K, c, o);       \
        else                                                                           \
            op_sweep_t<W, boost::undirectedS, DiagonalTensor<double>>(K, c, o);        \
    } while (0)
    if (wt == "u")
        SW(size_t);
    else if (wt == "r")
        SW(double);
    else if (wt == "l")
        SW(long);
    else
        throw std::logic_error("sweep: unsupported weight type " + wt);
#undef SW
}

#endif // HARNESS_PART == 0

// ------------------------------------------------------------------------------ run

// caller-supplied initialiser (public template parameter): installs the given affinity
// exactly and consumes no draw
template <class tensor_t>
struct init_exact
{
    tensor_t tensor_init{};
    template <class random_t>
    void operator()(const tensor_t &Tinit, tensor_t &T, random_t &)
    {
        if (tensor_init.size() == 0)
            tensor_init = Tinit;
        T = tensor_init;
    }
};

struct Recorder : verif::Observer
{
    Out &o;
    int level;
    std::vector<double> script;
    size_t per_real_evals;
    size_t cur = 0;
    explicit Recorder(Out &o, int level, std::vector<double> script, size_t pre)
        : o(o), level(level), script(std::move(script)), per_real_evals(pre) {}
    void realization_start(size_t r, const Matrix<double> &u, const Matrix<double> &v,
                           const std::vector<double> &w) override
    {
        cur = r;
        if (level >= 1)
        {
            std::string p = "s" + std::to_string(r);
            o.dl(p + ".u", u.get_data());
            o.dl(p + ".v", v.get_data());
            o.dl(p + ".w", w);
        }
    }
    void likelihood_computed(size_t iteration, double &L2) override
    {
        size_t m = cur * per_real_evals + iteration / 10;
        if (m < script.size())
            L2 = script[m];
    }
    void iteration_end(size_t r, size_t it, const Matrix<double> &u, const Matrix<double> &v,
                       const std::vector<double> &w, double L2, size_t co, int reason) override
    {
        if (level >= 2)
        {
            std::string p = "t" + std::to_string(r) + "." + std::to_string(it);
            o.dl(p + ".u", u.get_data());
            o.dl(p + ".v", v.get_data());
            o.dl(p + ".w", w);
            o.kv(p + ".c", hx(L2) + "," + std::to_string(co) + "," + std::to_string(reason));
        }
    }
    std::vector<int> adopted;
    void realization_end(size_t, double, bool a) override { adopted.push_back(a ? 1 : 0); }
};

static int err_code(const std::string &m)
{
    static const std::pair<const char *, int> table[] = {
        {"Number of edges should be at least 1", 1},
        {"Inconsitent edges", 2},
        {"should be a multiple of the number of edges", 3},
        {"Number of layers should be", 4},
        {"Number of groups should be", 5},
        {"W size should have", 6},
        {"Number of vertices should be", 7},
        {"U size should have", 8},
        {"Number of realizations should be", 9},
        {"Maximum number of iterations should be", 10},
        {"Number of convergences should be", 11},
        {"Dimensions inconsistent with vector size", 12},
    };
    for (auto &e : table)
        if (m.find(e.first) != std::string::npos)
            return e.second;
    return 99;
}

// a generator that returns given draws (cyclically): boundary values of the stream on demand
struct ScriptGen
{
    std::vector<double> d;
    size_t pos = 0;
    std::time_t seed = 0;   // what the entry point copies into the report
    double operator()()
    {
        double x = d.empty() ? 0.0 : d[pos % d.size()];
        pos++;
        return x;
    }
};

template <class V, class W, class D, class Aff, class Init>
void op_run_t(size_t K, Cur &c, Out &o)
{
    auto &r = parse_recs<V, W>(c);
    size_t nr = c.nat(), maxit = c.nat(), nconv = c.nat();
    long long seed = c.integer();
    double prior = c.flt();
    int tr = (int)c.nat();
    auto script = c.flts();
    auto aff = c.flts();
    // optional: the shape the caller's in-membership container has before the call
    // (0: N x K, 1: K x N, 2: N*K x 1, 3: empty, 4: (N+1) x K); the library never validates it
    size_t vshape = c.p < c.t.size() ? c.nat() : 0;

    size_t N = utils::get_num_vertices(r.starts, r.ends);
    Matrix<double> u(N, K), v(N, K);
    {
        std::vector<double> fill(N * K, prior);
        u = Matrix<double>(N, K, fill);
        size_t vr = N, vc = K;
        if (vshape == 1) { vr = K; vc = N; }
        else if (vshape == 2) { vr = N * K; vc = 1; }
        else if (vshape == 3) { vr = 0; vc = 0; }
        else if (vshape == 4) { vr = N + 1; vc = K; }
        std::vector<double> vfill(vr * vc, prior);
        v = Matrix<double>(vr, vc, vfill);
    }
    // optional: what the caller's label container holds before the call (0: empty; 1: as many entries as there are
    // vertices, the first and the last already right, the others stale; 2: too many stale entries; 3: N stale entries;
    // 4: exactly the vertex set in reverse order of first appearance)
    size_t lprior = c.p < c.t.size() ? c.nat() : 0;
    // optional: the shape of the caller's out-membership container; the library validates its element count only
    // (0: N x K, 1: K x N, 2: N*K x 1, 3: 1 x N*K)
    size_t ushape = c.p < c.t.size() ? c.nat() : 0;
    if (ushape)
    {
        std::vector<double> fill(N * K, prior);
        if (ushape == 1)
            u = Matrix<double>(K, N, fill);
        else if (ushape == 2)
            u = Matrix<double>(N * K, 1, fill);
        else
            u = Matrix<double>(1, N * K, fill);
    }
    std::vector<V> labels;
    if (lprior && !r.starts.empty())
    {
        std::vector<V> order;
        for (size_t e = 0; e < r.starts.size(); e++)
            for (const V &x : {r.starts[e], r.ends[e]})
                if (std::find(order.begin(), order.end(), x) == order.end())
                    order.push_back(x);
        if (lprior == 1)
        {
            labels = order;
            for (size_t p = 1; p + 1 < labels.size(); p++)
                labels[p] = order[0];
        }
        else if (lprior == 4)
            labels.assign(order.rbegin(), order.rend());   // exactly the vertex set, in another order
        else
            labels.assign(order.size() + (lprior == 2 ? 2 : 0), order[0]);
    }
    // optional: the draws the generator returns (cyclically) instead of the mt19937 stream of the seed (size_t records only)
    std::vector<double> draws;
    if (c.p < c.t.size())
        draws = c.flts();
    utils::RandomGenerator<> rng{(std::time_t)seed};
    Recorder rec(o, tr, script, (maxit + 9) / 10);
    verif::set_observer(&rec);
    try
    {
        utils::Report rep;
        if constexpr (std::is_same_v<V, size_t> && std::is_same_v<W, size_t>)
        {
            if (!draws.empty())
            {
                ScriptGen sg;
                sg.d = draws;
                sg.seed = (std::time_t)seed;
                rep = multitensor_factorization<D, Aff, Init>(
                    r.starts, r.ends, r.weights, nr, maxit, nconv, labels, u, v, aff, sg);
            }
            else
                rep = multitensor_factorization<D, Aff, Init>(
                    r.starts, r.ends, r.weights, nr, maxit, nconv, labels, u, v, aff, rng);
        }
        else
        {
            if (!draws.empty())
                throw std::logic_error("scripted draws need size_t labels and weights");
            rep = multitensor_factorization<D, Aff, Init>(
                r.starts, r.ends, r.weights, nr, maxit, nconv, labels, u, v, aff, rng);
        }
        verif::set_observer(nullptr);
        // the observer wrote trace fields first; results follow
        o.kv("err", "0");
        o.list("labels", labels);
        o.dl("u", u.get_data());
        o.dl("v", v.get_data());
        {
            auto ud = u.dims();
            auto vd = v.dims();
            o.kv("udims", std::to_string(std::get<0>(ud)) + "," + std::to_string(std::get<1>(ud)));
            o.kv("vdims", std::to_string(std::get<0>(vd)) + "," + std::to_string(std::get<1>(vd)));
        }
        o.dl("aff", aff);
        o.list("iters", rep.vec_iter);
        std::vector<std::string> rs(rep.vec_term_reason.begin(), rep.vec_term_reason.end());
        o.list("reasons", rs);
        o.dl("L2s", rep.vec_L2);
        o.kv("seed", std::to_string((long long)rep.seed));
        o.list("adopted", rec.adopted);
        o.kv("nreal", std::to_string(rep.nof_realizations));
        o.kv("maxL2", hx(rep.max_L2()));
    }
    catch (const std::exception &e)
    {
        verif::set_observer(nullptr);
        o.os.str("");
        o.kv("err", std::to_string(err_code(e.what())));
    }
}

template <class V, class W>
void op_run_vw(bool dir, bool assort, const std::string &init, size_t K, Cur &c, Out &o)
{
    using namespace initialization;
#define RUN(D, A)                                                                   \
    do                                                                              \
    {                                                                               \
        if (init == "r")                                                            \
            op_run_t<V, W, D, A, init_symmetric_tensor_random>(K, c, o);            \
        else if (init == "f")                                                       \
            op_run_t<V, W, D, A, init_symmetric_tensor_from_initial<A>>(K, c, o);   \
        else if (init == "x")                                                       \
            op_run_t<V, W, D, A, init_exact<A>>(K, c, o);                           \
        else                                                                        \
            throw std::logic_error("bad init kind");                                \
    } while (0)
    if (dir && !assort)
        RUN(boost::bidirectionalS, SymmetricTensor<double>);
    else if (dir && assort)
        RUN(boost::bidirectionalS, DiagonalTensor<double>);
    else if (!dir && !assort)
        RUN(boost::undirectedS, SymmetricTensor<double>);
    else
        RUN(boost::undirectedS, DiagonalTensor<double>);
#undef RUN
}

// The 60 instantiations of the full call are split over five translation units
// (same file, -DHARNESS_PART=1..5) so that they compile in parallel; part 0 is everything else.
void op_run_uu(bool, bool, const std::string &, size_t, Cur &, Out &);
void op_run_ul(bool, bool, const std::string &, size_t, Cur &, Out &);
void op_run_ur(bool, bool, const std::string &, size_t, Cur &, Out &);
void op_run_iu(bool, bool, const std::string &, size_t, Cur &, Out &);
void op_run_su(bool, bool, const std::string &, size_t, Cur &, Out &);
void op_run_du(bool, bool, const std::string &, size_t, Cur &, Out &);
#if HARNESS_PART == 1
void op_run_uu(bool d, bool a, const std::string &i, size_t K, Cur &c, Out &o) { op_run_vw<size_t, size_t>(d, a, i, K, c, o); }
#elif HARNESS_PART == 2
void op_run_ul(bool d, bool a, const std::string &i, size_t K, Cur &c, Out &o) { op_run_vw<size_t, long>(d, a, i, K, c, o); }
#elif HARNESS_PART == 3
void op_run_ur(bool d, bool a, const std::string &i, size_t K, Cur &c, Out &o) { op_run_vw<size_t, double>(d, a, i, K, c, o); }
#elif HARNESS_PART == 4
void op_run_iu(bool d, bool a, const std::string &i, size_t K, Cur &c, Out &o) { op_run_vw<int, size_t>(d, a, i, K, c, o); }
#elif HARNESS_PART == 5
void op_run_su(bool d, bool a, const std::string &i, size_t K, Cur &c, Out &o) { op_run_vw<std::string, size_t>(d, a, i, K, c, o); }
#elif HARNESS_PART == 6
void op_run_du(bool d, bool a, const std::string &i, size_t K, Cur &c, Out &o) { op_run_vw<double, size_t>(d, a, i, K, c, o); }
#endif

#if HARNESS_PART == 0
static void op_run(Cur &c, Out &o)
{
    bool dir = c.boolean(), assort = c.boolean();
    std::string init = c.tok();
    size_t K = c.nat();
    std::string lt = c.tok(), wt = c.tok();
    if (lt == "u" && wt == "u")
        op_run_uu(dir, assort, init, K, c, o);
    else if (lt == "u" && wt == "l")
        op_run_ul(dir, assort, init, K, c, o);
    else if (lt == "u" && wt == "r")
        op_run_ur(dir, assort, init, K, c, o);
    else if (lt == "i" && wt == "u")
        op_run_iu(dir, assort, init, K, c, o);
    else if (lt == "s" && wt == "u")
        op_run_su(dir, assort, init, K, c, o);
    else if (lt == "d" && wt == "u")
        op_run_du(dir, assort, init, K, c, o);
    else
        throw std::logic_error("unsupported label/weight type " + lt + wt);
}

// ------------------------------------------------------------------------------ run2: one Solver object, two runs
// `run2 dir assort init r maxit nconv  (K u u <recs> seed naff aff…) x 2` — the public class `solver::Solver` is
// constructed once and `run` is called on two unrelated problems; the second result is reported (the caller
// compares it with the same problem run through a fresh solver).  size_t labels and weights.
template <class D, class Aff, class Init>
void op_run2_t(Cur &c, Out &o)
{
    size_t nr = c.nat(), maxit = c.nat(), nconv = c.nat();
    solver::Solver slv(nr, maxit, nconv);
    for (int pass = 0; pass < 2; pass++)
    {
        size_t K = c.nat();
        std::string lt = c.tok(), wt = c.tok();
        if (lt != "u" || wt != "u")
            throw std::logic_error("run2 needs size_t labels and weights");
        auto &r = parse_recs<size_t, size_t>(c);
        long long seed = c.integer();
        auto aff = c.flts();
        size_t N = utils::get_num_vertices(r.starts, r.ends);
        size_t L = r.starts.empty() ? 0 : r.weights.size() / r.starts.size();
        Matrix<double> u(N, K), v(N, K);
        graph::Network<size_t, D> A(r.starts, r.ends, r.weights);
        auto ul = std::make_shared<std::vector<size_t>>();
        auto vl = std::make_shared<std::vector<size_t>>();
        A.extract_vertices_with_edges(ul, vl);
        Aff w(K, L, aff);
        utils::RandomGenerator<> rng{(std::time_t)seed};
        utils::Report rep = slv.template run<Init>(*ul, *vl, A, u, v, w, rng);
        if (pass == 1)
        {
            o.kv("err", "0");
            o.dl("u", u.get_data());
            o.dl("v", v.get_data());
            o.dl("aff", w.get_data());
            o.list("iters", rep.vec_iter);
            std::vector<std::string> rs(rep.vec_term_reason.begin(), rep.vec_term_reason.end());
            o.list("reasons", rs);
            o.dl("L2s", rep.vec_L2);
            o.kv("nreal", std::to_string(rep.nof_realizations));
            o.kv("maxL2", hx(rep.max_L2()));
        }
    }
}

static void op_run2(Cur &c, Out &o)
{
    using namespace initialization;
    bool dir = c.boolean(), assort = c.boolean();
    std::string init = c.tok();
#define RUN2(D, A)                                                       \
    do                                                                   \
    {                                                                    \
        if (init == "r")                                                 \
            op_run2_t<D, A, init_symmetric_tensor_random>(c, o);         \
        else if (init == "f")                                            \
            op_run2_t<D, A, init_symmetric_tensor_from_initial<A>>(c, o); \
        else                                                             \
            throw std::logic_error("bad init kind");                     \
    } while (0)
    if (dir && !assort)
        RUN2(boost::bidirectionalS, SymmetricTensor<double>);
    else if (dir && assort)
        RUN2(boost::bidirectionalS, DiagonalTensor<double>);
    else if (!dir && !assort)
        RUN2(boost::undirectedS, SymmetricTensor<double>);
    else
        RUN2(boost::undirectedS, DiagonalTensor<double>);
#undef RUN2
}

// ------------------------------------------------------------------------------ runshared: one generator object, two calls
// `runshared dir assort init K u u <recs> r1 r2 maxit nconv seed naff aff…` — the caller keeps ONE generator object
// built from the seed and hands it to two successive calls of `multitensor_factorization` (r1 realizations, then
// r2).  The generator is a by-value parameter: each call starts from the state the caller's object has, which the
// call does not advance.  The second result is reported (the caller compares it with a plain `run`).
template <class D, class Aff, class Init>
void op_runshared_t(Cur &c, Out &o)
{
    size_t K = c.nat();
    std::string lt = c.tok(), wt = c.tok();
    if (lt != "u" || wt != "u")
        throw std::logic_error("runshared needs size_t labels and weights");
    auto &r = parse_recs<size_t, size_t>(c);
    size_t r1 = c.nat(), r2 = c.nat(), maxit = c.nat(), nconv = c.nat();
    long long seed = c.integer();
    auto aff0 = c.flts();
    size_t N = utils::get_num_vertices(r.starts, r.ends);
    utils::RandomGenerator<> rng{(std::time_t)seed};
    for (int pass = 0; pass < 2; pass++)
    {
        Matrix<double> u(N, K), v(N, K);
        std::vector<size_t> labels;
        std::vector<double> aff(aff0);
        utils::Report rep = multitensor_factorization<D, Aff, Init>(
            r.starts, r.ends, r.weights, pass == 0 ? r1 : r2, maxit, nconv, labels, u, v, aff, rng);
        if (pass == 1)
        {
            o.kv("err", "0");
            o.list("labels", labels);
            o.dl("u", u.get_data());
            o.dl("v", v.get_data());
            o.dl("aff", aff);
            o.list("iters", rep.vec_iter);
            std::vector<std::string> rs(rep.vec_term_reason.begin(), rep.vec_term_reason.end());
            o.list("reasons", rs);
            o.dl("L2s", rep.vec_L2);
            o.kv("nreal", std::to_string(rep.nof_realizations));
            o.kv("maxL2", hx(rep.max_L2()));
        }
    }
}

static void op_runshared(Cur &c, Out &o)
{
    using namespace initialization;
    bool dir = c.boolean(), assort = c.boolean();
    std::string init = c.tok();
#define RUNS(D, A)                                                            \
    do                                                                        \
    {                                                                         \
        if (init == "r")                                                      \
            op_runshared_t<D, A, init_symmetric_tensor_random>(c, o);         \
        else if (init == "f")                                                 \
            op_runshared_t<D, A, init_symmetric_tensor_from_initial<A>>(c, o); \
        else                                                                  \
            throw std::logic_error("bad init kind");                          \
    } while (0)
    if (dir && !assort)
        RUNS(boost::bidirectionalS, SymmetricTensor<double>);
    else if (dir && assort)
        RUNS(boost::bidirectionalS, DiagonalTensor<double>);
    else if (!dir && !assort)
        RUNS(boost::undirectedS, SymmetricTensor<double>);
    else
        RUNS(boost::undirectedS, DiagonalTensor<double>);
#undef RUNS
}

// ------------------------------------------------------------------------------ initf: initialisers on a scripted stream
// `initf kind assort K L ncalls <draws> <list>` — the three initialisers of initialization.hpp called directly with
// a generator that returns the given draws (cyclically), `ncalls` times in a row on the same generator and, for the
// functors, the same functor object.  kind r / f: `list` is the caller's tensor; kind m: L rows, `list` = row indices.

template <class Aff>
void op_initf_aff(const std::string &kind, size_t K, size_t L, size_t ncalls, ScriptGen &g, Cur &c, Out &o)
{
    auto aff = c.flts();
    Aff Tinit(K, L, aff), T(K, L);
    initialization::init_symmetric_tensor_random fr;
    initialization::init_symmetric_tensor_from_initial<Aff> ff;
    for (size_t i = 0; i < ncalls; i++)
    {
        if (kind == "r")
            fr(Tinit, T, g);
        else
            ff(Tinit, T, g);
        o.dl("t" + std::to_string(i), T.get_data());
        o.kv("pos" + std::to_string(i), std::to_string(g.pos));
    }
}

static void op_initf(Cur &c, Out &o)
{
    std::string kind = c.tok();
    bool assort = c.boolean();
    size_t K = c.nat(), L = c.nat(), ncalls = c.nat();
    ScriptGen g;
    g.d = c.flts();
    if (kind == "m")
    {
        size_t n = c.nat();
        std::vector<size_t> els;
        for (size_t i = 0; i < n; i++)
            els.push_back(c.nat());
        Matrix<double> mat(L, K);
        for (size_t i = 0; i < ncalls; i++)
        {
            initialization::init_tensor_rows_random(els, mat, g);
            o.dl("t" + std::to_string(i), mat.get_data());
            o.kv("pos" + std::to_string(i), std::to_string(g.pos));
        }
    }
    else if (kind == "r" || kind == "f")
    {
        if (assort)
            op_initf_aff<DiagonalTensor<double>>(kind, K, L, ncalls, g, c, o);
        else
            op_initf_aff<SymmetricTensor<double>>(kind, K, L, ncalls, g, c, o);
    }
    else
        throw std::logic_error("bad initf kind");
}

// ------------------------------------------------------------------------------ validate

template <class D, class Aff, class Init>
void op_validate_t(Cur &c, Out &o)
{
    size_t nstart = c.nat(), nend = c.nat(), nweights = c.nat(), naff = c.nat();
    size_t ndistinct = c.nat(), usize = c.nat(), nr = c.nat(), maxit = c.nat(), nconv = c.nat();
    // one set of edge-list buffers for the whole process, refilled in place (see parse_recs)
    static std::vector<size_t> starts, ends, weights;
    if (starts.capacity() == 0)
    {
        starts.reserve(1 << 12);
        ends.reserve(1 << 12);
        weights.reserve(1 << 14);
    }
    starts.assign(nstart, 0);
    ends.assign(nend, 0);
    weights.assign(nweights, 1);
    for (size_t p = 0; p < nstart; p++)
        starts[p] = 100 + (ndistinct ? p % ndistinct : 0);
    for (size_t p = 0; p < nend; p++)
        ends[p] = 100 + (ndistinct ? (nstart + p) % ndistinct : 0);
    const double S = -12345.678;
    // what the caller's containers hold before the call: a recognisable value, and values a library might be tempted
    // to "clean up" (tiny, negative tiny, just below 1e-6, NaN is left to the run op)
    auto pattern = [&](size_t n) {
        static const double P[4] = {S, 1e-9, -3e-8, 9.99e-7};
        std::vector<double> x(n);
        for (size_t i = 0; i < n; i++)
            x[i] = P[i % 4];
        return x;
    };
    std::vector<double> aff(pattern(naff)), ud(pattern(usize));
    // shaped N x (usize/N) as both front ends do whenever that is possible
    const size_t urows = (ndistinct && usize % ndistinct == 0 && usize) ? ndistinct : usize;
    const size_t ucols = urows ? usize / urows : 1;
    Matrix<double> u(urows, ucols, ud), v(3, 2, pattern(6));
    // optional: the caller moved the values out of `u` (into a results store, say) and hands the same object in again:
    // it holds no element any more, whatever its dimensions say
    const bool umoved = c.p < c.t.size() ? c.nat() == 1 : false;
    if (umoved)
    {
        Matrix<double> sink(std::move(u));
        ud.clear();
        (void)sink;
    }
    std::vector<size_t> labels(3, 777);
    utils::RandomGenerator<> rng{(std::time_t)1};
    auto untouched = [&]() {
        if (labels != std::vector<size_t>(3, 777))
            return false;
        if (aff != pattern(naff))
            return false;
        if (u.get_data() != ud || u.get_nrows() != urows || u.get_ncols() != ucols)
            return false;
        if (v.get_data() != pattern(6) || v.get_nrows() != 3 || v.get_ncols() != 2)
            return false;
        return true;
    };
    try
    {
        multitensor_factorization<D, Aff, Init>(starts, ends, weights, nr, maxit, nconv, labels, u, v,
                                                aff, rng);
        o.kv("err", "0");
    }
    catch (const std::exception &e)
    {
        o.kv("err", std::to_string(err_code(e.what())));
        o.kv("untouched", untouched() ? "1" : "0");
    }
}

static void op_validate(Cur &c, Out &o)
{
    using namespace initialization;
    bool dir = c.boolean(), assort = c.boolean();
    std::string init = c.tok();
#define VAL(D, A)                                                                \
    do                                                                           \
    {                                                                            \
        if (init == "r")                                                         \
            op_validate_t<D, A, init_symmetric_tensor_random>(c, o);             \
        else                                                                     \
            op_validate_t<D, A, init_symmetric_tensor_from_initial<A>>(c, o);    \
    } while (0)
    if (dir && !assort)
        VAL(boost::bidirectionalS, SymmetricTensor<double>);
    else if (dir && assort)
        VAL(boost::bidirectionalS, DiagonalTensor<double>);
    else if (!dir && !assort)
        VAL(boost::undirectedS, SymmetricTensor<double>);
    else
        VAL(boost::undirectedS, DiagonalTensor<double>);
#undef VAL
}

// ------------------------------------------------------------------------------ rng

static void op_rng(Cur &c, Out &o)
{
    long long seed = c.integer();
    size_t n = c.nat();
    utils::RandomGenerator<> rng{(std::time_t)seed};
    std::vector<double> d(n);
    for (auto &x : d)
        x = rng();
    o.dl("d", d);
}

// ------------------------------------------------------------------------------ readers / writers

// scratch files carry the process id: several checks run harness processes on one build directory at the same time
static std::string scratch_path(const std::string &name)
{
    return g_scratch + "/" + std::to_string((long)getpid()) + "_" + name;
}

static std::string scratch_file(const std::string &name, const std::string &content)
{
    std::string p = scratch_path(name);
    std::ofstream f(p, std::ios::binary);
    f << content;
    f.close();
    return p;
}

static void op_readadj(Cur &c, Out &o)
{
    std::string content = c.bytes();
    std::string p = scratch_file("adj.dat", content);
    std::vector<size_t> s, e, w;
    try
    {
        read_adjacency_data(p, s, e, w);
        o.kv("err", "0");
        o.list("starts", s);
        o.list("ends", e);
        o.list("weights", w);
    }
    catch (const std::exception &)
    {
        o.kv("err", "1");
    }
}

template <class F>
void call_read_affinity(F f, const std::string &p, bool assort, size_t K, std::vector<double> &w)
{
    if constexpr (std::is_invocable_v<F, const boost::filesystem::path &, const bool &, const size_t &,
                                      std::vector<double> &>)
    {
        f(p, assort, K, w);
    }
    else
    {
        f(p, assort, w);
    }
}

static void op_readaff(Cur &c, Out &o)
{
    bool assort = c.boolean();
    size_t K = c.nat(), size = c.nat();
    std::string content = c.bytes();
    std::string p = scratch_file("aff.dat", content);
    std::vector<double> w(size);
    try
    {
        call_read_affinity(&read_affinity_data, p, assort, K, w);
        o.kv("err", "0");
        o.dl("w", w);
    }
    catch (const std::exception &)
    {
        o.kv("err", "1");
    }
}

// file → `l<i>=tok,tok,…` with numeric tokens (after the first `nskip` of a line) as doubles
static void dump_file_tokens(const std::string &path, Out &o, bool first_is_label)
{
    std::ifstream in(path);
    std::string line;
    size_t i = 0;
    while (std::getline(in, line))
    {
        std::istringstream is(line);
        std::string t;
        std::vector<std::string> toks;
        size_t pos = 0;
        bool header = false;
        while (is >> t)
        {
            if (pos == 0 && t == "#")
                header = true;
            bool numeric = false;
            double x = 0;
            if (!(first_is_label && pos == 0 && !header))
            {
                char *end = nullptr;
                x = std::strtod(t.c_str(), &end);
                numeric = end && *end == 0 && end != t.c_str();
            }
            if (header && pos != 3)
                numeric = false;
            if (!header && toks.size() == 1 && toks[0] == "a=")
                numeric = false;
            toks.push_back(numeric ? hx(x) : t);
            pos++;
        }
        o.list("l" + std::to_string(i), toks);
        i++;
    }
}

static utils::Report fake_report(size_t r, double maxL2)
{
    utils::Report rep{};
    rep.nof_realizations = r;
    rep.vec_L2.push_back(maxL2);
    rep.vec_iter.push_back(1);
    rep.vec_term_reason.push_back("MAX_ITER");
    rep.duration = 0;
    rep.seed = 0;
    return rep;
}

static void op_waff(Cur &c, Out &o)
{
    size_t K = c.nat(), L = c.nat(), r = c.nat();
    double maxL2 = c.flt();
    auto aff = c.flts();
    std::string p = scratch_path("w_out.dat");
    write_affinity_file(p, aff, fake_report(r, maxL2), K, L);
    dump_file_tokens(p, o, false);
}

static void op_wmem(Cur &c, Out &o)
{
    size_t N = c.nat(), K = c.nat(), r = c.nat();
    double maxL2 = c.flt();
    std::vector<size_t> labels;
    for (size_t i = 0; i < N; i++)
        labels.push_back(c.nat());
    auto d = c.flts();
    Matrix<double> m(N, K, d);
    std::string p = scratch_path("u_out.dat");
    write_membership_file(p, labels, m, fake_report(r, maxL2));
    dump_file_tokens(p, o, true);
}

// `winfo <r> <seed> <n> (iters reason L2)*` — write_info_file; likelihood values come back as doubles
static void op_winfo(Cur &c, Out &o)
{
    size_t r = c.nat();
    long long seed = c.integer();
    size_t n = c.nat();
    utils::Report rep{};
    rep.nof_realizations = r;
    rep.duration = 0;
    rep.seed = (std::time_t)seed;
    std::vector<std::string> reasons(n);
    for (size_t i = 0; i < n; i++)
    {
        rep.vec_iter.push_back(c.nat());
        reasons[i] = c.tok();
        rep.vec_L2.push_back(c.flt());
    }
    for (size_t i = 0; i < n; i++)
        rep.vec_term_reason.push_back(reasons[i].c_str());
    // optional: how long the run took (the one field of the report no property speaks about; nothing else may depend on it)
    if (c.p < c.t.size())
        rep.duration = c.flt();
    std::string p = scratch_path("run_info.dat");
    write_info_file(p, rep);
    std::ifstream in(p);
    std::string line;
    size_t i = 0;
    while (std::getline(in, line))
    {
        std::istringstream is(line);
        std::string t;
        std::vector<std::string> toks;
        while (is >> t)
            toks.push_back(t);
        bool header = !toks.empty() && toks[0] == "#";
        if (header && toks.size() >= 3 && toks[1] == "Maximum")
            toks.back() = hx(std::strtod(toks.back().c_str(), nullptr));
        if (header && toks.size() >= 3 && toks[1] == "Duration")
            toks.back() = "-";
        if (!header && toks.size() == 4)
            toks[3] = hx(std::strtod(toks[3].c_str(), nullptr));
        o.list("l" + std::to_string(i), toks);
        i++;
    }
}

// ------------------------------------------------------------------------------ main

int main(int argc, char **argv)
{
    if (argc > 1)
        g_scratch = argv[1];
    std::ios::sync_with_stdio(false);
    // the library chats on stdout; keep the protocol on a separate stream
    FILE *proto = fdopen(dup(1), "w");
    if (!freopen("/dev/null", "w", stdout))
        return 2;
    std::cout.rdbuf(nullptr);

    std::string line;
    while (std::getline(std::cin, line))
    {
        Cur c;
        {
            std::istringstream is(line);
            std::string t;
            while (is >> t)
                c.t.push_back(t);
        }
        if (c.t.size() < 2)
            continue;
        std::string id = c.tok(), op = c.tok();
        Out o;
        try
        {
            if (op == "idx")
                op_idx(c, o);
            else if (op == "idxr")
                op_idxr(c, o);
            else if (op == "net")
                op_net(c, o);
            else if (op == "sweep")
                op_sweep(c, o);
            else if (op == "run")
                op_run(c, o);
            else if (op == "run2")
                op_run2(c, o);
            else if (op == "runshared")
                op_runshared(c, o);
            else if (op == "initf")
                op_initf(c, o);
            else if (op == "validate")
                op_validate(c, o);
            else if (op == "rng")
                op_rng(c, o);
            else if (op == "readadj")
                op_readadj(c, o);
            else if (op == "readaff")
                op_readaff(c, o);
            else if (op == "waff")
                op_waff(c, o);
            else if (op == "wmem")
                op_wmem(c, o);
            else if (op == "winfo")
                op_winfo(c, o);
            else
                throw std::logic_error("unknown op " + op);
        }
        catch (const std::logic_error &e)
        {
            o.os.str("");
            std::string m = e.what();
            for (auto &ch : m)
                if (ch == ' ')
                    ch = '_';
            o.kv("harnesserror", m);
        }
        std::string s = o.os.str();
        std::fprintf(proto, "%s%s\n", id.c_str(), s.c_str());
        std::fflush(proto);
    }
    for (const char *n : {"adj.dat", "aff.dat", "w_out.dat", "u_out.dat", "run_info.dat"})
        std::remove(scratch_path(n).c_str());
    return 0;
}
#endif // HARNESS_PART == 0
