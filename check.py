#!/usr/bin/env python3
"""check.py <property-id> [--tier quick|thorough] [--seed N]   (also: setup | replay <file> | all)
Exit 0 = the property held on everything explored; exit 1 + `VIOLATION property=<id> replay=<path>`."""
import argparse
import json
import os
import sys

sys.path.insert(0, os.path.dirname(os.path.abspath(__file__)))
from vlib import common as C  # noqa: E402


def registry():
    from vlib import props_a
    reg = {}
    for mod in (props_a,):
        for name in dir(mod):
            cls = getattr(mod, name)
            if isinstance(cls, type) and getattr(cls, "pid", "C00") != "C00" and name == cls.pid:
                reg[cls.pid] = cls
    from vlib import props_b, props_c
    for mod in (props_b, props_c):
        for name in dir(mod):
            cls = getattr(mod, name)
            if isinstance(cls, type) and getattr(cls, "pid", "C00") != "C00" and name == cls.pid:
                reg[cls.pid] = cls
    return reg


def main():
    ap = argparse.ArgumentParser()
    ap.add_argument("what")
    ap.add_argument("arg", nargs="?")
    ap.add_argument("--tier", default=os.environ.get("VERIF_TIER", "quick"))
    ap.add_argument("--seed", type=int, default=int(os.environ.get("VERIF_SEED", "1")))
    a = ap.parse_args()
    if a.what == "setup":
        lost = C.generate()
        ok, out = C.lake_build([])
        print(out[-2000:])
        if not ok:
            sys.exit(1)
        C.build_native()
        sys.exit(0)
    if a.what == "replay":
        from vlib import replay
        sys.exit(replay.replay(a.arg))
    reg = registry()
    if a.what not in reg:
        print("unknown property", a.what, "known:", sorted(reg))
        sys.exit(2)
    chk = reg[a.what](a.tier, a.seed)
    sys.exit(chk.main())


if __name__ == "__main__":
    main()
