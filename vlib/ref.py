"""Independent reference semantics used by the monitors / the failing-input search: the
properties evaluated directly on what the implementation produced.  Written from the property
statements (paper-form equations, dense multiplicities), not from the C++ or the Lean model."""
import math
import random

EPS = 1e-6          # documented truncation / guard threshold
EPS_LIK = 1e-4      # documented convergence tolerance
NOISE = 0.1         # documented noise amplitude
LOWEST = -1.7976931348623157e308


def units(w, real):
    """parallel edges produced by a weight: rounded up; weights <= 1e-6 give none"""
    if real:
        return int(math.ceil(w)) if w > EPS else 0
    return int(w) if w >= 1 else 0


class PyNet:
    """dense multiplicities A[a][i][j] from the edge list (both orientations when undirected)"""

    def __init__(self, recs, L, directed, real=False):
        self.labels = []
        for s, d, _ in recs:
            for x in (s, d):
                if x not in self.labels:
                    self.labels.append(x)
        N = self.N = len(self.labels)
        self.L = L
        self.directed = directed
        idx = {x: i for i, x in enumerate(self.labels)}
        self.A = [[[0] * N for _ in range(N)] for _ in range(L)]
        self.nedges = 0
        for s, d, ws in recs:
            i, j = idx[s], idx[d]
            for a in range(L):
                n = units(ws[a], real)
                self.nedges += n
                self.A[a][i][j] += n
                if not directed:
                    self.A[a][j][i] += n
        self.U = [i for i in range(N) if any(self.A[a][i][j] for a in range(L) for j in range(N))]
        if directed:
            self.V = [j for j in range(N) if any(self.A[a][i][j] for a in range(L) for i in range(N))]
        else:
            self.V = list(self.U)


class St:
    """factors as nested lists: u[i][k], v[i][k] (v is u when undirected), w[a][k][q]"""

    def __init__(self, u, v, w):
        self.u, self.v, self.w = u, v, w


def unflat_mat(flat, N, K):
    return [[flat[k * N + i] for k in range(K)] for i in range(N)]


def unflat_w(flat, K, L, assort):
    if assort:
        return [[[flat[a * K + k] if k == q else 0.0 for q in range(K)] for k in range(K)] for a in range(L)]
    return [[[flat[a * K * K + q * K + k] for q in range(K)] for k in range(K)] for a in range(L)]


def state_of(uflat, vflat, wflat, N, K, L, assort, directed):
    u = unflat_mat(uflat, N, K)
    v = unflat_mat(vflat, N, K) if directed else u
    return St(u, v, unflat_w(wflat, K, L, assort))


def rate(st, a, i, j, K, assort):
    if assort:
        return math.fsum(st.u[i][k] * st.v[j][k] * st.w[a][k][k] for k in range(K))
    return math.fsum(st.u[i][k] * st.v[j][q] * st.w[a][k][q] for k in range(K) for q in range(K))


def loglik(net, st, K, assort, guard=EPS):
    """sum over layers and ordered pairs of A*ln(M) - M (pairs with M <= guard contribute -M)"""
    terms = []
    for a in range(net.L):
        for i in range(net.N):
            for j in range(net.N):
                m = rate(st, a, i, j, K, assort)
                terms.append(-m)
                if net.A[a][i][j] and m > guard:
                    terms.append(net.A[a][i][j] * math.log(m))
    return math.fsum(terms)


def snap(x):
    return 0.0 if abs(x) < EPS else x


class Amb(Exception):
    """a guard compared a value too close to its threshold to be decided independently"""


def gt_eps(x, amb):
    if abs(x - EPS) <= 1e-9 * EPS + 1e-18:
        amb.append(x)
    return x > EPS


def ref_update_membership(net, K, assort, mat, fixed, w_of, rows, others, Aof, amb):
    """paper-form multiplicative update of one membership matrix.
    mat[i][k] updated for i in rows; fixed = other membership (old copy); w_of(a,k,q);
    Aof(a,i,j) = multiplicity of the edge seen from i (out: A[a][i][j]; in: A[a][j][i])"""
    N, L = net.N, net.L
    qs = (lambda k: [k]) if assort else (lambda k: range(K))
    new = [row[:] for row in mat]
    pair_list = [(k, k) for k in range(K)] if assort else [(k, q) for k in range(K) for q in range(K)]
    for k in range(K):
        Z = math.fsum(math.fsum(w_of(a, k, q) for a in range(L)) * math.fsum(fixed[j][q] for j in others)
                      for q in qs(k))
        if not gt_eps(Z, amb):
            continue
        for i in rows:
            if not gt_eps(mat[i][k], amb):
                continue
            terms = []
            for a in range(L):
                for j in range(N):
                    mult = Aof(a, i, j)
                    if not mult:
                        continue
                    M = math.fsum(mat[i][m] * fixed[j][l] * w_of(a, m, l) for m, l in pair_list)
                    if gt_eps(M, amb):
                        terms.append(mult * math.fsum(fixed[j][q] * w_of(a, k, q) for q in qs(k)) / M)
            val = mat[i][k] / Z * math.fsum(terms)
            if abs(abs(val) - EPS) <= 1e-9 * EPS:
                amb.append(val)
            new[i][k] = snap(val)
    return new


def ref_update_affinity(net, K, assort, u, v, w, amb):
    N, L = net.N, net.L
    new = [[row[:] for row in wa] for wa in w]
    pair_list = [(k, k) for k in range(K)] if assort else [(k, q) for k in range(K) for q in range(K)]
    for (k, q) in pair_list:
        Z = math.fsum(u[i][k] for i in net.U) * math.fsum(v[j][q] for j in net.V)
        if not gt_eps(Z, amb):
            continue
        for a in range(L):
            if not gt_eps(w[a][k][q], amb):
                continue
            terms = []
            for i in range(N):
                for j in range(N):
                    mult = net.A[a][i][j]
                    if not mult:
                        continue
                    M = math.fsum(u[i][m] * v[j][l] * w[a][m][l] for m, l in pair_list)
                    if gt_eps(M, amb):
                        terms.append(mult * u[i][k] * v[j][q] / M)
            val = w[a][k][q] / Z * math.fsum(terms)
            if abs(abs(val) - EPS) <= 1e-9 * EPS:
                amb.append(val)
            new[a][k][q] = snap(val)
    return new


def ref_sweep(net, st, K, assort):
    """one iteration per De Bacco et al. 2017 with the documented guards; returns (state, ambiguous)"""
    amb = []
    A = net.A
    if net.directed:
        u1 = ref_update_membership(net, K, assort, st.u, st.v, lambda a, k, q: st.w[a][k][q], net.U, net.V,
                                   lambda a, i, j: A[a][i][j], amb)
        v1 = ref_update_membership(net, K, assort, st.v, u1, lambda a, k, q: st.w[a][q][k], net.V, net.U,
                                   lambda a, i, j: A[a][j][i], amb)
        w1 = ref_update_affinity(net, K, assort, u1, v1, st.w, amb)
        return St(u1, v1, w1), amb
    u1 = ref_update_membership(net, K, assort, st.u, st.u, lambda a, k, q: st.w[a][k][q], net.U, net.U,
                               lambda a, i, j: A[a][i][j], amb)
    w1 = ref_update_affinity(net, K, assort, u1, u1, st.w, amb)
    return St(u1, u1, w1), amb


def flat_mat(m, N, K):
    return [m[i][k] for k in range(K) for i in range(N)]


def flat_w(w, K, L, assort):
    if assort:
        return [w[a][k][k] for a in range(L) for k in range(K)]
    return [w[a][k][q] for a in range(L) for q in range(K) for k in range(K)]


def close(a, b, rtol, atol=0.0):
    if a != a or b != b:
        return a != a and b != b
    return abs(a - b) <= atol + rtol * max(abs(a), abs(b))


def vec_close(xs, ys, rtol, atol=0.0):
    return len(xs) == len(ys) and all(close(a, b, rtol, atol) for a, b in zip(xs, ys))


# ---------------------------------------------------------------------------------- stop rule

def stop_rule(max_it, n_conv, outcomes):
    """documented rule: evaluations after sweeps 1, 11, 21, …; CONVERGED at the first evaluation m
    (0-based) that ends n_conv consecutive passes, provided sweep 10m+1 <= max_it; else MAX_ITER
    after max_it sweeps.  outcomes[m] = pass/fail of evaluation m."""
    m = 0
    run = 0
    while 10 * m + 1 <= max_it:
        ok = outcomes[m] if m < len(outcomes) else False
        run = run + 1 if ok else 0
        if run >= n_conv:
            return 10 * m + 1, "CONVERGED"
        m += 1
    return max_it, "MAX_ITER"


def passes(l_old, l_new):
    try:
        return abs(l_old - l_new) / abs(l_old) < EPS_LIK
    except ZeroDivisionError:
        d = abs(l_old - l_new)
        if d == 0:
            return False  # 0/0 = NaN
        return False      # x/0 = inf


# ---------------------------------------------------------------------------------- reference stream

def mt19937_stream(seed):
    """std::mt19937 seeded with static_cast<unsigned>(seed) + uniform_real_distribution<double>:
    generator of doubles.  Built on CPython's MT core with the state installed by hand
    (init_genrand), so it is independent of both the C++ and the Lean implementation."""
    s = seed & 0xFFFFFFFF
    mt = [s]
    for i in range(1, 624):
        mt.append((1812433253 * (mt[-1] ^ (mt[-1] >> 30)) + i) & 0xFFFFFFFF)
    r = random.Random()
    r.setstate((3, tuple(mt) + (624,), None))
    while True:
        x0 = r.getrandbits(32)
        x1 = r.getrandbits(32)
        v = (float(x0) + float(x1) * 4294967296.0) / 18446744073709551616.0
        if v >= 1.0:
            v = math.nextafter(1.0, 0.0)
        yield v
