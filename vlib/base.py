"""Check skeleton shared by all properties (DESIGN.md section 5)."""
import json
import os
import random
import time

from . import common as C
from .common import Violation, log


TRUSTED = [
    "Lean 4.33 kernel; Mathlib v4.33 (single modules)",
    "axioms: propext, Classical.choice, Quot.sound (audited by #print axioms on every run)",
    "translator: tools/gen_from_source.py (constants, index expressions, dispatch tables, control text), tools/cxx2lean.py + tools/gen_{solver,init}_code.py (statement-by-statement translation of the loop nests of the solver's numeric functions, the loop control and the initialisers), tools/gen_{main,run,graph,cli,utils,writer}_code.py (validation part and the three writers translated; glue code: statement sequence from the source, exact statement text -> meaning by table; the dimensions of every container in the index-safety propositions are part of the function descriptions); statements before/after translated loops, the two reader bodies, the parameter lists and the class members pinned literally",
    "outside the front-end model's domain (judged on the implementation side only): negative option values (std::stoi reads a sign; the model's stoi is the decimal naturals), --s random (clock)",
    "vlib/pyxsim.py: the .pyx run() rewritten to plain Python with a numpy stand-in (failing-input search only; the dispatch theorem is over the regenerated table)",
    "harness/harness.cpp + vlib/*.py (correspondence harness, comparison, monitors)",
    "real-vs-double gap: theorems are over the model at R; the code and the correspondence run at IEEE double",
    "modelled, not verified: boost adjacency_list ordering, std::map/std::set, libstdc++ mt19937/uniform_real_distribution, glibc log",
]


class Check:
    pid = "C00"
    lean_modules = []          # MTProps modules holding this property's theorems
    needs_native = True

    def __init__(self, tier, seed):
        self.tier = tier
        self.seed = seed
        self.rng = random.Random((seed * 1000003) ^ hash(self.pid) % 100000 if False else seed * 1000003 + int(self.pid[1:]))
        self.t0 = time.time()
        self.violations = []
        self.cov = {"evaluations": 0, "distinct_nontrivial": 0, "rule": "", "samples": [],
                    "obligations": 0, "discharged": 0, "checker_cmd": "", "trusted_base": TRUSTED,
                    "theorems": [], "correspondence": {}, "monitors": {}, "distribution": {}}
        self.assumptions = []
        self.bdir = None
        self.proof_broken = []   # [(what, detail)]
        self.corr_broken = []    # [(op, cid, key, detail, case_line)]
        self.distinct = set()

    # ---------------------------------------------------------------- preparation
    def prepare(self):
        lost = C.generate()
        self.lost = lost
        # a lost anchor leaves a marker definition that no dependent theorem type-checks against: it concerns
        # exactly the properties whose modules then fail to build (below); for the others it is only recorded
        self.cov["lost_anchors"] = [n for n, _ in lost]
        targets = ["MT", "mtdriver"] + list(self.lean_modules)
        ok, out = C.lake_build(targets)
        self.lake_ok = ok
        if not ok:
            # which targets fail? build the driver alone, then each module
            okd, outd = C.lake_build(["MT", "mtdriver"])
            if not okd:
                self.proof_broken.append(("model does not build (generated definitions changed?)", tail(outd)))
            for m in self.lean_modules:
                okm, outm = C.lake_build([m])
                if not okm:
                    self.proof_broken.append(("proof obligation(s) in %s no longer check" % m, tail(outm)))
            if self.proof_broken:
                for name, why in lost:
                    self.proof_broken.append(("lost anchor " + name, why))
        hits = C.lean_source_audit()
        if hits:
            self.proof_broken.append(("forbidden token in Lean sources", "\n".join(hits[:10])))
        thms = []
        for m in self.lean_modules:
            names = C.theorems_of(m)
            thms += [(m, n) for n in names]
        self.cov["obligations"] = len(thms) + 0
        discharged = 0
        if self.lake_ok:
            for m in self.lean_modules:
                names = [n for mm, n in thms if mm == m]
                try:
                    ax = C.axiom_audit(m, names)
                except C.BuildError as e:
                    self.proof_broken.append((e.what, e.output))
                    continue
                for n in names:
                    a = ax.get(n)
                    if a is None:
                        self.proof_broken.append(("theorem %s not found by the axiom audit" % n, ""))
                    elif set(a) - C.STD_AXIOMS:
                        self.proof_broken.append(("theorem %s depends on non-standard axioms" % n, str(a)))
                    else:
                        discharged += 1
                        self.cov["theorems"].append({"name": n, "axioms": a})
        self.cov["discharged"] = discharged
        self.cov["checker_cmd"] = "cd /verif/lean && lake build " + " ".join(targets) + \
            " && lake env lean <audit file with #print axioms per theorem>" + \
            (" && lake env leanchecker <module>" if self.tier == "thorough" else "")
        if self.tier == "thorough" and self.lake_ok:
            for m in self.lean_modules:
                r = C.run(["lake", "env", "leanchecker", m], cwd=C.LEAN)
                if r.returncode != 0:
                    self.proof_broken.append(("leanchecker rejects " + m, tail(r.stdout)))
        if self.needs_native:
            try:
                self.bdir = C.build_native()
            except C.BuildError as e:
                self.bdir = None
                self.corr_broken.append(("build", "-", "-", e.what + "\n" + e.output[-1500:], ""))

    # ---------------------------------------------------------------- correspondence
    def correspond(self, op, cases, keys=None, rtol=1e-9, skip_keys=(), drift=False):
        """run implementation and model on the same case lines and compare.
        Returns (impl_outputs, model_outputs).  Disagreements go to self.corr_broken — unless `drift`: a
        whole-call comparison made by a property that is not about the numbers of a whole call (locality rule,
        DESIGN.md section 3): then a disagreement is recorded in the evidence as model drift and the property
        is judged by its own component correspondences and by its monitors on the implementation's outputs."""
        broken = self.corr_broken
        if drift:
            broken = []
        if not cases or self.bdir is None:
            return {}, {}
        try:
            self.bdir = C.build_native()   # cheap when cached; rebuilds if the cache entry was pruned meanwhile
        except C.BuildError as e:
            self.corr_broken.append(("build", "-", "-", e.what + "\n" + e.output[-1500:], ""))
            return {}, {}
        try:
            mo = C.run_model(cases)
        except C.BuildError as e:
            broken.append((op, "-", "-", e.what + e.output, ""))
            mo = {}
        io, crashes = C.run_impl(self.bdir, cases)
        st = self.cov["correspondence"].setdefault(op, {"cases": 0, "fields_exact": 0, "fields_tol": 0, "fields_diff": 0})
        by_id = {c.split(" ", 1)[0]: c for c in cases}
        for cid, line, err, rc in crashes:
            self.on_crash(op, cid, line, err, rc)
        for cid, line in by_id.items():
            a, b = io.get(cid), mo.get(cid)
            if a is None:
                continue  # crashed: reported above
            st["cases"] += 1
            if b is None:
                broken.append((op, cid, "-", "model produced no output", line))
                continue
            if "harnesserror" in a or "modelerror" in b:
                broken.append((op, cid, "-", "protocol error impl=%s model=%s" % (a.get("harnesserror"), b.get("modelerror")), line))
                continue
            ks = keys(a, b) if callable(keys) else (keys or sorted(set(a) | set(b)))
            for k in ks:
                if k in skip_keys or k.split(".")[0] in skip_keys:
                    continue
                if k not in a or k not in b:
                    st["fields_diff"] += 1
                    broken.append((op, cid, k, "field missing: impl=%s model=%s" % (k in a, k in b), line))
                    continue
                r = C.cmp_tokens(a[k], b[k], rtol=rtol)
                if r == "exact":
                    st["fields_exact"] += 1
                elif r == "tol":
                    st["fields_tol"] += 1
                else:
                    st["fields_diff"] += 1
                    broken.append((op, cid, k, "impl=%s model=%s" % (short(a[k]), short(b[k])), line))
        self.cov["evaluations"] += len(cases)
        if drift and broken:
            st["model_drift"] = st.get("model_drift", 0) + len(broken)
            ex = self.cov.setdefault("model_drift_examples", [])
            for b in broken[:3]:
                if len(ex) < 6:
                    ex.append({"op": b[0], "case_id": b[1], "field": b[2], "detail": b[3][:300]})
        return io, mo

    def on_crash(self, op, cid, line, err, rc):
        # does the case die on its own, or only after what the same process ran before it?  Shortest suffix of the
        # history that reproduces the abort (at most three crashes per check are examined this way)
        hist, need = C.HISTORY.get(line, []), None
        self._crash_probes = getattr(self, "_crash_probes", 0) + 1
        if self.bdir and line and self._crash_probes <= 3:
            for k in [0, 1, 2, 4, 8, 16, 64, len(hist)]:
                k = min(k, len(hist))
                try:
                    o, cr = C.run_impl(self.bdir, hist[len(hist) - k:] + [line], timeout=300)
                except Exception:
                    break
                if any(c[1] == line for c in cr):
                    need = hist[len(hist) - k:]
                    break
                if k == len(hist):
                    break
        rep = {"case": line, "stderr": err, "replay_cmd": "python3 /verif/check.py replay <this file>"}
        what = "the implementation aborted (sanitizer/assertion/timeout, rc=%s) on op %s" % (rc, op)
        if need:
            rep["history_same_process"] = need
            what += " after %d earlier call(s) in the same process (alone it does not)" % len(need)
        self.violations.append(Violation("crash:" + op, what, rep))

    # ---------------------------------------------------------------- bookkeeping
    def sample(self, x):
        if len(self.cov["samples"]) < 4:
            self.cov["samples"].append(x)

    def nontrivial(self, key):
        self.distinct.add(key)

    def monitor(self, name, n=1):
        self.cov["monitors"][name] = self.cov["monitors"].get(name, 0) + n

    def dist(self, name, n=1):
        self.cov["distribution"][name] = self.cov["distribution"].get(name, 0) + n

    def violate(self, key, what, replay, failing_input=True):
        self.violations.append(Violation(key, what, replay, failing_input))

    # ---------------------------------------------------------------- the property-specific part
    def body(self):
        raise NotImplementedError

    def search(self):
        """failing-input search after a broken proof obligation / correspondence: the monitors already ran on
        everything in body(); the default search runs the whole body again on further independent random streams
        (only on a tree where something broke, so the time is spent where it matters) until a monitor produces a
        concrete failing input or the budget (VERIF_SEARCH_SECONDS, default 300 s quick / 1200 s thorough) is used up."""
        if self.bdir is None and self.needs_native:
            return
        budget = float(os.environ.get("VERIF_SEARCH_SECONDS", "300" if self.tier == "quick" else "1200"))
        known = {k for k, _ in C.known_findings(self.pid)}
        t0 = time.time()
        k = 0
        while time.time() - t0 < budget and k < 12:
            k += 1
            self.rng = random.Random((self.seed + 104729 * k) * 1000003 + int(self.pid[1:]))
            try:
                self.body()
            except Exception:
                break
            if any(v.failing_input and v.key not in known for v in self.violations):
                break
        self.cov["search_streams"] = k

    def finish(self):
        # broken obligations / correspondences that no monitor turned into a concrete failing input
        # (a violation listed as a known finding is not a failing input for anything that broke now)
        known = {k for k, _ in C.known_findings(self.pid)}
        have_input = any(v.failing_input and v.key not in known for v in self.violations)
        if self.proof_broken or self.corr_broken:
            if not have_input:
                self.search()
                have_input = any(v.failing_input and v.key not in known for v in self.violations)
            if not have_input:
                what = []
                for w, d in self.proof_broken[:5]:
                    what.append("PROOF: " + w)
                for op, cid, k, d, line in self.corr_broken[:5]:
                    what.append("CORRESPONDENCE op=%s case=%s field=%s %s" % (op, cid, k, d[:300]))
                self.violations.append(Violation(
                    "unproved", "; ".join(what),
                    {"broken_theorems_or_obligations": [{"what": w, "detail": d[-3000:]} for w, d in self.proof_broken[:8]],
                     "broken_correspondence": [{"op": op, "case_id": cid, "field": k, "detail": d[:2000], "case": line}
                                               for op, cid, k, d, line in self.corr_broken[:8]]},
                    failing_input=False))
        self.cov["distinct_nontrivial"] = len(self.distinct)
        self.cov["proof_obligations_broken"] = len(self.proof_broken)
        self.cov["correspondence_disagreements"] = len(self.corr_broken)
        rc, n = C.report(self.pid, self.violations)
        C.write_evidence(self.pid, self.tier, self.seed, self.t0, self.cov, self.assumptions, n)
        return rc

    def main(self):
        self.prepare()
        if self.bdir is not None or not self.needs_native:
            try:
                self.body()
            except Exception:   # the implementation did something the check's own code did not expect
                import traceback
                tb = traceback.format_exc()
                log(tb)
                self.corr_broken.append(("check", "-", "-", "the check itself failed while examining the implementation's output:\n" + tb[-1500:], ""))
            # thorough tier: the whole body again on further independent random streams
            reps = int(os.environ.get("VERIF_THOROUGH_REPS", "3")) if self.tier == "thorough" else 1
            for k in range(1, reps):
                if any(v.failing_input and v.key not in {k for k, _ in C.known_findings(self.pid)} for v in self.violations):
                    break
                self.rng = random.Random((self.seed + 7919 * k) * 1000003 + int(self.pid[1:]))
                self.body()
            self.cov["random_streams"] = reps
        return self.finish()


def tail(s, n=2500):
    return s[-n:]


def short(tokens, n=8):
    return ",".join(tokens[:n]) + ("…(%d)" % len(tokens) if len(tokens) > n else "")
