"""Failing-input search for the part of multitensor.pyx `run()` that precedes the dispatch (C19).

The front end cannot be built here (no Cython), and the 16 guards of the dispatch are decided on the regenerated
table by the theorem of MTProps.C19.  The guards test the *names* `weigths_dtype`, `directed`, `assortative`,
`init_affinity_filename`; the theorem therefore also needs that the statements before `try:` leave these names
as the caller passed them and cast the weights to the type the caller named (pinned: `pyx_prologue_documented`).
When that pin breaks, this module looks for a concrete call on which it matters: it rewrites the Cython-only
constructs of the prologue (cdef declarations, <casts>, template brackets) into plain Python, runs it with a
small stand-in for numpy on a few adjacency files (integral and fractional weights) for all 16 argument
combinations and compares what the dispatch would see with what the caller passed.  Anything the stand-in does
not understand ends the search (None): the violation is then reported without a failing input.
"""
import math
import os
import re
import tempfile


class Arr:
    """1-D or 2-D array of numbers"""

    def __init__(self, data, two=False):
        self.data = data
        self.two = two

    @property
    def size(self):
        return sum(len(r) for r in self.data) if self.two else len(self.data)

    @property
    def shape(self):
        return (len(self.data), len(self.data[0]) if self.data else 0) if self.two else (len(self.data),)

    @property
    def ndim(self):
        return 2 if self.two else 1

    def __len__(self):
        return len(self.data)

    def __iter__(self):
        return iter([Arr(r) for r in self.data] if self.two else self.data)

    def __getitem__(self, ix):
        if self.two and isinstance(ix, tuple) and len(ix) == 2:
            r, c = ix
            rows = self.data[r] if isinstance(r, slice) else [self.data[r]]
            if isinstance(c, slice):
                out = [row[c] for row in rows]
                return Arr(out, True) if isinstance(r, slice) else Arr(out[0])
            out = [row[c] for row in rows]
            return Arr(out) if isinstance(r, slice) else out[0]
        if isinstance(ix, slice):
            return Arr(self.data[ix], self.two)
        if isinstance(ix, int):
            return Arr(self.data[ix]) if self.two else self.data[ix]
        raise TypeError("unsupported index")

    def astype(self, t):
        f = (lambda x: int(math.trunc(x))) if t is int else (float if t is float else None)
        if f is None:
            raise TypeError("unsupported dtype")
        return Arr([[f(x) for x in r] for r in self.data], True) if self.two else Arr([f(x) for x in self.data])

    def ravel(self):
        return Arr([x for r in self.data for x in r]) if self.two else Arr(list(self.data))

    def reshape(self, shape):
        flat = self.flat_list()
        r, c = shape
        if r == -1:
            r = len(flat) // c if c else 0
        if c == -1:
            c = len(flat) // r if r else 0
        if r * c != len(flat):
            raise ValueError("cannot reshape")
        return Arr([flat[i * c:(i + 1) * c] for i in range(r)], True)

    @property
    def T(self):
        if not self.two:
            return Arr(list(self.data))
        rows = self.data
        return Arr([[rows[i][j] for i in range(len(rows))] for j in range(len(rows[0]) if rows else 0)], True)

    flatten = ravel

    def tolist(self):
        return [list(r) for r in self.data] if self.two else list(self.data)

    def flat_list(self):
        return self.ravel().data

    def _map2(self, o, f):
        a, b = self.flat_list(), (o.flat_list() if isinstance(o, Arr) else [o] * self.size)
        if len(a) != len(b):
            raise ValueError("shapes")
        return Arr([f(x, y) for x, y in zip(a, b)])

    def __ne__(self, o):
        return self._map2(o, lambda x, y: x != y)

    def __eq__(self, o):
        return self._map2(o, lambda x, y: x == y)

    def __mod__(self, o):
        return self._map2(o, lambda x, y: math.fmod(x, y))

    def __sub__(self, o):
        return self._map2(o, lambda x, y: x - y)

    def any(self):
        return any(bool(x) for x in self.flat_list())

    def all(self):
        return all(bool(x) for x in self.flat_list())

    __hash__ = None


class NumpyStub:
    float_t = float
    int_t = int
    float64 = float
    int64 = int

    @staticmethod
    def array(x, *a, **k):
        x = list(x)
        if x and isinstance(x[0], (list, tuple)):
            return Arr([list(r) for r in x], True)
        return Arr(x)

    @staticmethod
    def loadtxt(path, *a, **k):
        rows = []
        for l in open(path):
            l = l.split("#")[0].split()
            if l:
                rows.append([float(x) for x in l])
        return Arr(rows, True)

    @staticmethod
    def array_equal(a, b):
        return isinstance(a, Arr) and isinstance(b, Arr) and a.shape == b.shape and a.flat_list() == b.flat_list()

    @staticmethod
    def diag(l):
        v = l.data
        return Arr([[v[i] if i == j else 0.0 for j in range(len(v))] for i in range(len(v))], True)

    @staticmethod
    def concatenate(ls):
        return Arr([x for l in ls for x in l.flat_list()])

    @staticmethod
    def zeros(n, dtype=float):
        return Arr([0.0] * n)

    @staticmethod
    def any(a):
        return a.any()

    @staticmethod
    def all(a):
        return a.all()

    @staticmethod
    def mod(a, b):
        return a % b

    @staticmethod
    def floor(a):
        return Arr([math.floor(x) for x in a.flat_list()])

    @staticmethod
    def trunc(a):
        return Arr([float(math.trunc(x)) for x in a.flat_list()])


DISPATCH_NAMES = ("weigths_dtype", "directed", "assortative", "init_affinity_filename")


def python_prologue(pyx):
    """Python source of `def run(...)` that executes the prologue and returns what the dispatch would see"""
    m = re.search(r"\ndef run\((.*?)\):\n", pyx, flags=re.S)
    if not m:
        return None
    body = pyx[m.end():]
    body = re.sub(r'\s*"""(.*?)"""', "", body, count=1, flags=re.S)
    if "\n    try:\n" not in body:
        return None
    pro = body[:body.index("\n    try:\n")]
    # logical lines
    logical, cur, depth = [], "", 0
    for raw in pro.split("\n"):
        line = re.sub(r"(^|\s)#.*$", "", raw).rstrip()
        if not line.strip() and not cur:
            continue
        cont = line.endswith("\\")
        if cont:
            line = line[:-1]
        cur = (cur + " " + line.strip()) if cur else line
        depth = cur.count("(") + cur.count("[") - cur.count(")") - cur.count("]")
        if depth <= 0 and not cont:
            logical.append(cur)
            cur = ""
    out = ["def run(%s):" % " ".join(m.group(1).split())]
    for l in logical:
        ind = l[:len(l) - len(l.lstrip())]
        t = l.strip()
        if t.startswith("cdef "):
            mm = re.match(r"cdef\s+(.*?)(\w+)\s*(=.*)?$", t)
            if not mm:
                return None
            out.append("%s%s = _opaque()" % (ind, mm.group(2)))
            continue
        t = re.sub(r"<\s*(?:const\s+)?[A-Za-z_][\w\.]*(?:\[[^\]]*\])?\s*&?\s*>\s*", "", t)   # <casts>
        t = re.sub(r"\b(?:vector|Matrix)\[[^\]]*\]", "_opaque", t)
        out.append(ind + t)
    out.append("    return dict(weigths_dtype=weigths_dtype, directed=directed, assortative=assortative, "
               "init_affinity_filename=init_affinity_filename, edges_weights=edges_weights, edges_start=edges_start, edges_end=edges_end)")
    return "\n".join(out)


ADJ = {"integral weights": "0 1 1 0\n1 2 2 1\n2 0 0 3\n",
       "a fractional weight": "0 1 0.5 1\n1 2 2.75 0\n2 0 1 1\n",
       "weights below one": "0 1 0.25 0.5\n1 0 0.75 1\n"}
AFF = "0 0.1 0.2\n1 0.3 0.4\n"


def search(pyx):
    """None: could not run the prologue.  Otherwise a list of failing calls (possibly empty)."""
    src = python_prologue(pyx)
    if src is None:
        return None
    import logging
    ns = {"numpy": NumpyStub, "np": NumpyStub, "logging": logging, "_opaque": lambda *a, **k: object(), "time": lambda x: 0,
          "NULL": None, "ReportWrapper": lambda *a, **k: object(), "deref": lambda x: x}
    try:
        exec(compile(src, "<pyx prologue>", "exec"), ns)
    except Exception:
        return None
    run = ns["run"]
    bad = []
    logging.disable(logging.CRITICAL)
    tmp = tempfile.mkdtemp(prefix="pyxsim")
    try:
        affp = os.path.join(tmp, "w.dat")
        open(affp, "w").write(AFF)
        for what, text in ADJ.items():
            adjp = os.path.join(tmp, "adj.dat")
            open(adjp, "w").write(text)
            rows = [[float(x) for x in l.split()] for l in text.strip().split("\n")]
            for wt in (int, float):
                want_w = [(int(math.trunc(x)) if wt is int else float(x)) for r in rows for x in r[2:]]
                for directed in (True, False):
                    for assort in (True, False):
                        for wfile in (affp, None):
                            try:
                                got = run(adjp, 2, directed=directed, assortative=assort, init_affinity_filename=wfile,
                                          weigths_dtype=wt, seed=1)
                            except Exception:
                                return None
                            diffs = []
                            if got["weigths_dtype"] is not wt:
                                diffs.append("the guards see weigths_dtype=%s" % getattr(got["weigths_dtype"], "__name__", got["weigths_dtype"]))
                            if bool(got["directed"]) != directed:
                                diffs.append("the guards see directed=%r" % (got["directed"],))
                            if bool(got["assortative"]) != assort:
                                diffs.append("the guards see assortative=%r" % (got["assortative"],))
                            if bool(got["init_affinity_filename"]) != bool(wfile):
                                diffs.append("the guards see init_affinity_filename=%r" % (got["init_affinity_filename"],))
                            ew = got["edges_weights"]
                            if not isinstance(ew, Arr) or [type(x) for x in ew.data] != [type(x) for x in want_w] or ew.data != want_w:
                                diffs.append("the weights handed on are %s, the file's weights as %s are %s"
                                             % (getattr(ew, "data", ew), wt.__name__, want_w))
                            if diffs:
                                bad.append({"call": {"adjacency_file": text, "adjacency_file_is": what, "nof_groups": 2, "directed": directed,
                                                     "assortative": assort, "init_affinity_file": AFF if wfile else None,
                                                     "weigths_dtype": wt.__name__},
                                            "what": "; ".join(diffs)})
    finally:
        logging.disable(logging.NOTSET)
        import shutil
        shutil.rmtree(tmp, ignore_errors=True)
    return bad


# ------------------------------------------------------------------------------------------- the dispatch itself

class _Rec:
    def __init__(self):
        self.calls = []      # template argument lists of the instantiations invoked
        self.resized = 0     # c_v.resize(...) calls


class _Obj:
    """stands for any Cython object the dispatch touches (report, c_u, c_v, labels, rng)"""

    def __init__(self, rec, name=""):
        object.__setattr__(self, "_rec", rec)
        object.__setattr__(self, "_name", name)

    def __setattr__(self, k, v):
        pass

    def __getattr__(self, k):
        rec, name = self._rec, self._name

        def f(*a, **kw):
            if name == "c_v" and k == "resize":
                rec.resized += 1
            return None
        return f


def python_dispatch(pyx):
    """Python source of `def run(...)`: the prologue, then the body of `try:` with every
    `c_multitensor_factorization[T1, ..., T5](...)` replaced by a call that records the template arguments"""
    pro = python_prologue(pyx)
    if pro is None:
        return None
    m = re.search(r"\ndef run\((.*?)\):\n", pyx, flags=re.S)
    body = pyx[m.end():]
    if "\n    try:\n" not in body or "\n    finally:\n" not in body:
        return None
    tr = body[body.index("\n    try:\n") + len("\n    try:\n"):body.index("\n    finally:\n")]
    tr = "\n".join(re.sub(r"(^|\s)#.*$", "", l).rstrip() for l in tr.split("\n"))
    # instantiations: name[ ... ]( ... )  ->  _invoke("...")
    out, i = "", 0
    pat = re.compile(r"c_multitensor_factorization\s*\[")
    while True:
        mm = pat.search(tr, i)
        if not mm:
            out += tr[i:]
            break
        out += tr[i:mm.start()]
        j, depth = mm.end(), 1
        while depth:
            depth += tr[j] == "["
            depth -= tr[j] == "]"
            j += 1
        targs = " ".join(tr[mm.end():j - 1].split())
        k = tr.index("(", j)
        depth, e = 1, k + 1
        while depth:
            depth += tr[e] == "("
            depth -= tr[e] == ")"
            e += 1
        out += "_invoke(%r)" % targs
        i = e
    lines = [l for l in out.split("\n") if l.strip()]
    # dedent the try body by one level (8 -> 4 spaces)
    ded = []
    for l in lines:
        if not l.startswith("        "):
            return None
        ded.append(l[4:])
    pro_lines = pro.split("\n")[:-1]   # without the prologue's own return
    src = "\n".join(pro_lines + ["    report = _obj('report'); c_v = _obj('c_v'); c_u = _obj('c_u'); labels = _obj('labels'); rng = _obj('rng')"] + ded +
                    ["    return None"])
    return src


def _expected(wt, directed, assort, wfile):
    """the instantiation the arguments name, by their truth value (what `if directed:` / `not directed` mean in Python)"""
    tens = "DiagonalTensor[numpy.float_t]" if assort else "SymmetricTensor[numpy.float_t]"
    return ", ".join(["bidirectionalS" if directed else "undirectedS", tens,
                      ("init_symmetric_tensor_from_initial[%s]" % tens) if wfile else "init_symmetric_tensor_random",
                      "vertex_t", "numpy.int_t" if wt is int else "numpy.float_t"])


def search_dispatch(pyx):
    """None: could not run the function.  Otherwise the failing calls: for the 16 combinations, with the flags spelled
    True/False, 1/0 and None (for false) and the file name None, '' or a name, exactly one instantiation must be invoked,
    the one the arguments name; the in-membership matrix resized exactly for directed runs"""
    src = python_dispatch(pyx)
    if src is None:
        return None
    import logging
    rec = _Rec()
    ns = {"numpy": NumpyStub, "np": NumpyStub, "logging": logging, "_opaque": lambda *a, **k: object(), "time": lambda x: 0,
          "NULL": None, "ReportWrapper": lambda *a, **k: _Obj(rec, "report"), "deref": lambda x: x,
          "_obj": lambda n: _Obj(rec, n), "_invoke": lambda t: rec.calls.append(" ".join(t.replace(",", ", ").split()))}
    try:
        exec(compile(src, "<pyx run>", "exec"), ns)
    except Exception:
        return None
    run = ns["run"]
    bad = []
    logging.disable(logging.CRITICAL)
    tmp = tempfile.mkdtemp(prefix="pyxsim")
    try:
        affp = os.path.join(tmp, "w.dat")
        open(affp, "w").write(AFF)
        adjp = os.path.join(tmp, "adj.dat")
        open(adjp, "w").write(ADJ["integral weights"])
        spell = {True: [True, 1], False: [False, 0, None]}
        for wt in (int, float):
            for directed in (True, False):
                for assort in (True, False):
                    for wfile in (True, False):
                        for dv in spell[directed]:
                            for av in spell[assort]:
                                for fv in ([affp] if wfile else [None, ""]):
                                    rec.calls, rec.resized = [], 0
                                    try:
                                        run(adjp, 2, directed=dv, assortative=av, init_affinity_filename=fv, weigths_dtype=wt, seed=1)
                                    except Exception:
                                        return None
                                    want = _expected(wt, directed, assort, wfile)
                                    norm = lambda t: re.sub(r"\s+", "", t)
                                    what = None
                                    if len(rec.calls) != 1:
                                        what = "%d library instantiations invoked" % len(rec.calls)
                                    elif norm(rec.calls[0]) != norm(want):
                                        what = "invokes <%s>, the arguments name <%s>" % (rec.calls[0], want)
                                    elif (rec.resized > 0) != directed:
                                        what = "in-membership matrix %s for a %s run" % ("allocated" if rec.resized else "not allocated", "directed" if directed else "undirected")
                                    if what:
                                        bad.append({"call": {"weigths_dtype": wt.__name__, "directed": repr(dv), "assortative": repr(av),
                                                             "init_affinity_filename": repr(fv if fv != affp else "w.dat"), "nof_groups": 2,
                                                             "adjacency_file": ADJ["integral weights"]}, "what": what})
    finally:
        logging.disable(logging.NOTSET)
        import shutil
        shutil.rmtree(tmp, ignore_errors=True)
    return bad


# ------------------------------------------------------------------------------------------- the epilogue

class _Mat:
    """a membership matrix as the epilogue sees it"""

    def __init__(self, n, k, base):
        self.n, self.k, self.base = n, k, base

    def get_nrows(self):
        return self.n

    def get_ncols(self):
        return self.k

    def __call__(self, i, j):
        return self.base + 1000.0 * i + j + 0.5


def python_epilogue(pyx):
    m = re.search(r"\ndef run\((.*?)\):\n", pyx, flags=re.S)
    if not m:
        return None
    body = pyx[m.end():]
    if "\n    finally:\n" not in body:
        return None
    epi = body[body.index("\n    finally:\n") + len("\n    finally:\n"):]
    lines = [re.sub(r"(^|\s)#.*$", "", l).rstrip() for l in epi.split("\n")]
    # drop the body of `finally:` (deeper indentation) and stop at the next top-level definition
    out = []
    for l in lines:
        if not l.strip():
            continue
        if l.startswith("        ") and not out:
            continue            # still inside `finally:`
        if not l.startswith("    "):
            break
        out.append(l)
    if not out or not out[-1].strip().startswith("return"):
        return None
    return "def epi(labels, c_u, c_v, c_affinity, nof_layers, nof_groups, directed, assortative, report):\n" + "\n".join(out)


def search_epilogue(pyx):
    """None: could not run it.  Otherwise the failing cases: rows of u / v are label and row, v is None exactly for
    undirected runs, block l of the affinity shows entry (k,q) of layer l (flat l*K*K + q*K + k; K values when assortative)"""
    src = python_epilogue(pyx)
    if src is None:
        return None
    ns = {"numpy": NumpyStub, "np": NumpyStub}
    try:
        exec(compile(src, "<pyx epilogue>", "exec"), ns)
    except Exception:
        return None
    epi = ns["epi"]
    bad = []
    for N, K, L in ((3, 2, 2), (2, 3, 1), (4, 2, 3)):
        labels = [7 * i + 3 for i in range(N)]
        cu, cv = _Mat(N, K, 0.0), _Mat(N, K, 50000.0)
        for directed in (True, 1, False, 0, None):
            for assort in (True, 1, False, 0, None):
                size = (K if assort else K * K) * L
                caff = [0.25 + p for p in range(size)]
                rep = object()
                case = {"N": N, "K": K, "L": L, "directed": repr(directed), "assortative": repr(assort)}
                try:
                    r = epi(labels, cu, cv, list(caff), L, K, directed, assort, rep)
                    u, v, aff, rp = r
                except Exception as e:
                    return None
                what = []
                try:
                    if u.tolist() != [[labels[i]] + [cu(i, j) for j in range(K)] for i in range(N)]:
                        what.append("rows of u are not label and membership row")
                    if bool(directed):
                        if v is None or v.tolist() != [[labels[i]] + [cv(i, j) for j in range(K)] for i in range(N)]:
                            what.append("v of a directed run is not label and in-membership row")
                    elif v is not None:
                        what.append("v of an undirected run is not None")
                    if len(aff) != L:
                        what.append("%d affinity blocks for %d layers" % (len(aff), L))
                    else:
                        for l in range(L):
                            if assort:
                                want = [caff[l * K + k] for k in range(K)]
                                got = aff[l].tolist()
                            else:
                                want = [[caff[l * K * K + q * K + k] for q in range(K)] for k in range(K)]
                                got = aff[l].tolist()
                            if got != want:
                                what.append("affinity block %d is %s, entry (k,q) of layer l lives at l*K*K + q*K + k: %s" % (l, got, want))
                                break
                    if rp is not rep:
                        what.append("the report returned is not the run's report")
                except Exception:
                    what.append("the returned objects are not arrays of the documented form")
                if what:
                    bad.append({"case": case, "what": "; ".join(what)})
    return bad
