"""Checks for the solver-side properties C01–C12, C17."""
import itertools
import math

from . import common as C
from . import gen, ref
from .base import Check
from .common import hexf, unhex


# ------------------------------------------------------------------------------ helpers

class RunCase:
    def __init__(self, directed, assort, init, K, recs, L, lt="u", wt="u", r=1, maxit=10, nconv=10, seed=1,
                 prior=0.0, tr=0, script=(), aff=None, vshape=0, lprior=0, ushape=0, draws=()):
        self.__dict__.update(locals())
        del self.__dict__["self"]
        if aff is None:
            self.aff = [0.0] * ((K if assort else K * K) * L)

    def line(self, cid):
        return gen.case_run(cid, self.directed, self.assort, self.init, self.K, self.lt, self.recs, self.L,
                            self.wt, self.r, self.maxit, self.nconv, self.seed, self.prior, self.tr,
                            self.script, self.aff, self.vshape, self.lprior, self.ushape, self.draws)

    def net(self):
        return ref.PyNet(self.recs, self.L, self.directed, real=(self.wt == "r"))

    def variant(self):
        return "%s+%s+%s" % ("directed" if self.directed else "undirected",
                             "assortative" if self.assort else "general",
                             {"r": "random", "f": "user-supplied", "x": "exact"}[self.init])

    def describe(self):
        return {"variant": self.variant(), "K": self.K, "L": self.L, "records": self.recs, "label_type": self.lt,
                "weight_type": self.wt, "r": self.r, "max_it": self.maxit, "n_conv": self.nconv, "seed": self.seed,
                "prior_fill": self.prior, "prior_v_shape": self.vshape, "prior_labels": self.lprior, "u_shape": self.ushape, "scripted_draws": list(self.draws), "affinity": self.aff, "script": list(self.script)}


def random_run(rng, tr=0, variants=None, **over):
    if variants:
        directed, assort, init = rng.choice(variants)
    else:
        directed, assort, init = rng.random() < 0.5, rng.random() < 0.5, rng.choice("rrf")
    K = over.pop("K", None) or rng.choice([2, 2, 3, 3, 4])
    lt, wt = over.pop("ltwt", None) or rng.choice([("u", "u")] * 4 + [("u", "r"), ("u", "l")])
    recs, L = gen.records(rng, wt=wt, N=over.pop("N", None), L=over.pop("L", None), nrec=over.pop("nrec", None),
                          heavy=over.pop("heavy", None))
    aff = [rng.choice([rng.random(), rng.random(), 0.0]) for _ in range((K if assort else K * K) * L)]
    kw = dict(r=rng.randint(1, 3), maxit=rng.choice([1, 5, 12, 31]), nconv=rng.choice([1, 2, 10]),
              seed=rng.choice([rng.randint(0, 2 ** 33)] * 9 + [rng.choice([0, 1, 2 ** 31, 2 ** 32 - 1, 2 ** 32, 2 ** 32 + 1])]),
              tr=tr, aff=aff)
    kw.update(over)
    return RunCase(directed, assort, init, K, recs, L, lt=lt, wt=wt, **kw)


def floats(tokens):
    return [unhex(t) for t in tokens]


def trace_states(rc, out, net):
    """{i: [(n, State, L2, coincide, reason)]} with n = 0 for the start"""
    K, L, N = rc.K, rc.L, net.N
    res = {}
    for i in range(rc.r):
        if "s%d.u" % i not in out:
            break
        seq = [(0, ref.state_of(floats(out["s%d.u" % i]), floats(out["s%d.v" % i]), floats(out["s%d.w" % i]),
                                N, K, L, rc.assort, True if rc.directed else False), None, None, None)]
        n = 1
        while "t%d.%d.u" % (i, n) in out:
            p = "t%d.%d" % (i, n)
            c = out[p + ".c"]
            seq.append((n, ref.state_of(floats(out[p + ".u"]), floats(out[p + ".v"]), floats(out[p + ".w"]),
                                        N, K, L, rc.assort, rc.directed), unhex(c[0]), int(c[1]), int(c[2])))
            n += 1
        res[i] = seq
    return res


def flat_state(st, net, K, L, assort, directed):
    u = ref.flat_mat(st.u, net.N, K)
    v = ref.flat_mat(st.v, net.N, K) if directed else []
    w = ref.flat_w(st.w, K, L, assort)
    return u, v, w


ALL_VARIANTS = [(d, a, i) for d in (True, False) for a in (False, True) for i in "rf"]


def run_transition_check(chk, key, rc, net, where, u, v, w, nu, nv, nw, what="next state of the run != reference map(state) beyond 1e-10 relative"):
    """state t -> state t+1 as observed inside a full call (realization/sweep in `where`) against the dense
    reference equations (vlib/ref.py); returns False on a violation"""
    st = ref.state_of(u, v if rc.directed else u, w, net.N, rc.K, rc.L, rc.assort, rc.directed)
    nxt, amb = ref.ref_sweep(net, st, rc.K, rc.assort)
    chk.monitor("run-transition reference evaluations")
    if amb:
        return True
    ru, rv, rw = flat_state(nxt, net, rc.K, rc.L, rc.assort, rc.directed)
    ok = ref.vec_close(nu, ru, 1e-10, 1e-300) and ref.vec_close(nw, rw, 1e-10, 1e-300) and \
        (not rc.directed or ref.vec_close(nv, rv, 1e-10, 1e-300))
    if not ok:
        bad = [n for n, a, b in (("u", nu, ru), ("v", nv if rc.directed else [], rv if rc.directed else []), ("w", nw, rw))
               if not ref.vec_close(a, b, 1e-10, 1e-300)]
        chk.violate(key, "%s (%s, transition %s, differing: %s)" % (what, rc.variant(), where, ",".join(bad)),
                    dict(rc.describe(), transition=where, state={"u": u, "v": v, "w": w},
                         impl_next={"u": nu, "v": nv, "w": nw}, reference_next={"u": ru, "v": rv, "w": rw},
                         case=rc.line("replay")))
    return ok


# ------------------------------------------------------------------------------ C02

class C02(Check):
    pid = "C02"
    lean_modules = ["MTProps.C02", "MTProps.CodeVertices", "MTProps.CodeAffinity"]

    def body(self):
        rng = self.rng
        n_state = 150 if self.tier == "quick" else 1500
        n_traj = 40 if self.tier == "quick" else 400
        # (a) function level, arbitrary states
        cases, meta = [], {}
        for n in range(n_state):
            directed, assort = rng.random() < 0.5, rng.random() < 0.5
            K = rng.randint(2, 4)
            if n % 19 == 7 and n < 400:
                K = rng.choice([1, 8, 31, 32, 33, 40, 65])   # the equations hold for any number of groups (a handful of cases:
                                                             # the Lean model needs seconds for each of them)
            wt = rng.choice("uuur")
            recs, L = gen.records(rng, wt=wt)
            if n % 50 == 11 and n < 160:
                recs, L = gen.records(rng, wt="u", N=rng.randint(2, 4), nrec=rng.randint(2, 4), heavy="wide")
                wt = "u"
            net = ref.PyNet(recs, L, directed, real=(wt == "r"))
            reach = (net.U, net.V) if rng.random() < 0.6 else None
            u, v, w = gen.random_state(rng, net.N, K, L, assort, directed, reach)
            if K > 4:
                # many groups: plain values away from the guards (with hundreds of entries some would sit on a threshold
                # and the reference map would have to skip the case)
                u = [x and 0.05 + rng.random() for x in u]
                v = [x and 0.05 + rng.random() for x in v]
                w = [0.05 + rng.random() for _ in w]
            cid = "st%d" % n
            cases.append(gen.case_sweep(cid, directed, assort, K, recs, L, wt, net.N, u, v, w))
            meta[cid] = (directed, assort, K, recs, L, wt, net, u, v, w)
            self.dist("state:%s%s" % ("D" if directed else "U", "A" if assort else "G"))
        io, mo = self.correspond("sweep", cases, keys=["u1", "v1", "w1", "loop_u", "loop_v", "loop_w"])
        for cid, (directed, assort, K, recs, L, wt, net, u, v, w) in meta.items():
            if cid in io and "u1" in io[cid]:
                self.ref_check(cid, io[cid], directed, assort, K, recs, L, wt, net, u, v, w, "loop_")
        # (b) reachable states: transitions of real trajectories; the model sweep is applied to the
        # implementation's own state t (locality rule)
        runs = {}
        for n in range(n_traj):
            # several realizations too: the update must be the same map in every realization of a call
            rc = random_run(rng, tr=2, variants=ALL_VARIANTS, maxit=rng.choice([2, 3, 6, 12]), r=rng.choice([1, 1, 2, 3]))
            runs["tr%d" % n] = rc
        if self.bdir:
            outs, crashes = C.run_impl(self.bdir, [rc.line(cid) for cid, rc in runs.items()])
            for cid, line, err, code in crashes:
                self.on_crash("run", cid, line, err, code)
            cases2, meta2 = [], {}
            for cid, rc in runs.items():
                o = outs.get(cid)
                if not o or o.get("err") != ["0"]:
                    continue
                net = rc.net()
                for ri, seq in trace_states(rc, o, net).items():
                    for t in range(len(seq) - 1):
                        if rng.random() < 0.5 and t > 0:
                            continue
                        u, v, w = flat_state(seq[t][1], net, rc.K, rc.L, rc.assort, rc.directed)
                        c2 = "%s.r%d.%d" % (cid, ri, t)
                        cases2.append(gen.case_sweep(c2, rc.directed, rc.assort, rc.K, rc.recs, rc.L, rc.wt, net.N, u, v, w))
                        meta2[c2] = (rc, net, u, v, w, seq[t + 1][1])
                        self.dist("transition:" + rc.variant() + (":later-realization" if ri else ""))
            io2, mo2 = self.correspond("sweep@trace", cases2, keys=["loop_u", "loop_v", "loop_w"])
            for c2, (rc, net, u, v, w, nxt) in meta2.items():
                o = io2.get(c2)
                if not o or "loop_u" not in o:
                    continue
                # the private-function result on state t must be the run's own state t+1
                nu, nv, nw = flat_state(nxt, net, rc.K, rc.L, rc.assort, rc.directed)
                if floats(o["loop_u"]) != nu or floats(o["loop_w"]) != nw or (rc.directed and floats(o["loop_v"]) != nv):
                    self.corr_broken.append(("sweep@trace", c2, "loop vs run", "loop() on state t differs from the run's state t+1", ""))
                self.ref_check(c2, o, rc.directed, rc.assort, rc.K, rc.recs, rc.L, rc.wt, net, u, v, w, "loop_")
                # ... and the transition the run itself made (any realization) must be the published map as well
                run_transition_check(self, "sweep-differs-from-published-update", rc, net, c2, u, v, w, nu, nv, nw)
        # (c) realistic size: the repository's own golden inputs (N=300, thousands of records) through model and code
        self.golden()
        # (d) the update is a function of the network handed to THIS run: a Solver object that has run on another network
        # before (often a rewiring: same vertices, layers and number of edges) must end where a fresh one ends
        from .props_b import solver_reuse_stage
        solver_reuse_stage(self, "update-with-reused-solver")
        self.cov["rule"] = ("random multigraphs (N 2-7, L 1-3, K 2-4; parallel records, weights 0/1/2/>2 and real, self-loops, "
                            "source-/sink-only vertices) x all variants; arbitrary states (values around 1e-6, zero rows/columns) "
                            "and transitions of real trajectories; a case is non-trivial if at least one entry changed in the sweep; "
                            "distinct by (variant, records, state)")

    def golden(self):
        import os
        cfgs = [("main", "adjacency.dat", True, False, "r", 2, None, 1),
                ("undirected", "adjacency.dat", False, False, "r", 2, None, 1),
                ("assortative", "adjacency_assortative_k3L4.dat", True, True, "r", 3, None, 1),
                ("multi_real", "adjacency_k2L4.dat", True, False, "f", 2, "w_k2_k2L4_r2.dat", 2)]
        if self.tier == "quick":
            cfgs = cfgs[:1]
        lines = []
        for name, adj, directed, assort, init, K, wfile, r in cfgs:
            path = os.path.join(C.REPO, "data", name, adj)
            if not os.path.exists(path):
                continue
            recs = []
            for l in open(path):
                t = l.split()
                if len(t) >= 3:
                    recs.append((int(t[0]), int(t[1]), [int(x) for x in t[2:]]))
            L = len(recs[0][2])
            aff = None
            if wfile:
                aff = [0.0] * (K * K * L)
                for l in open(os.path.join(C.REPO, "data", name, wfile)):
                    t = l.split()
                    if t and t[0] != "#":
                        for g in range(K):
                            aff[g + g * K + int(t[0]) * K * K] = float(t[1 + g])
            rc = RunCase(directed, assort, init, K, recs, L, r=r, maxit=3 if self.tier == "quick" else 25,
                         nconv=10, seed=5489, aff=aff)
            lines.append(rc.line("golden_" + name))
            self.dist("golden input " + name)
        self.correspond("run@golden", lines, keys=["u", "v", "aff", "L2s", "iters", "reasons", "labels"])

    def ref_check(self, cid, o, directed, assort, K, recs, L, wt, net, u, v, w, pre):
        st = ref.state_of(u, v if directed else u, w, net.N, K, L, assort, directed)
        nxt, amb = ref.ref_sweep(net, st, K, assort)
        self.monitor("reference-map evaluations")
        if amb:
            self.monitor("threshold-ambiguous (skipped)")
            return
        ru, rv, rw = flat_state(nxt, net, K, L, assort, directed)
        iu, iw = floats(o[pre + "u"]), floats(o[pre + "w"])
        iv = floats(o[pre + "v"]) if directed else []
        if iu != u or iw != w:
            self.nontrivial((directed, assort, K, str(recs), tuple(u), tuple(w)))
        ok = ref.vec_close(iu, ru, 1e-10, 1e-300) and ref.vec_close(iw, rw, 1e-10, 1e-300) and \
            (not directed or ref.vec_close(iv, rv, 1e-10, 1e-300))
        self.sample({"variant": (directed, assort), "K": K, "L": L, "records": recs[:4], "u_in": u[:4], "u_out": iu[:4]})
        if not ok:
            self.violate("sweep-differs-from-published-update",
                         "next state != reference map(state) beyond 1e-10 relative",
                         {"op": "sweep", "directed": directed, "assortative": assort, "K": K, "L": L, "records": recs,
                          "weight_type": wt, "u": u, "v": v, "w": w,
                          "impl_next": {"u": iu, "v": iv, "w": iw}, "reference_next": {"u": ru, "v": rv, "w": rw},
                          "case": gen.case_sweep("replay", directed, assort, K, recs, L, wt, net.N, u, v, w)})


# ------------------------------------------------------------------------------ C06

class C06(Check):
    pid = "C06"
    lean_modules = ["MTProps.C06", "MTProps.CodeLikelihood", "MTProps.CodeControl"]

    def body(self):
        rng = self.rng
        n_state = 150 if self.tier == "quick" else 1500
        n_traj = 40 if self.tier == "quick" else 300
        cases, meta = [], {}
        for n in range(n_state):
            directed, assort = rng.random() < 0.5, rng.random() < 0.5
            K = rng.randint(2, 4)
            wt = rng.choice("uuur")
            recs, L = gen.records(rng, wt=wt, maxw=4)
            net = ref.PyNet(recs, L, directed, real=(wt == "r"))
            u, v, w = gen.random_state(rng, net.N, K, L, assort, directed, (net.U, net.V) if rng.random() < 0.5 else None)
            cid = "lk%d" % n
            cases.append(gen.case_sweep(cid, directed, assort, K, recs, L, wt, net.N, u, v, w))
            meta[cid] = (directed, assort, K, recs, L, wt, net, u, v, w)
            self.dist("state:%s%s" % ("D" if directed else "U", "A" if assort else "G"))
        # lik0 = the likelihood function on the given state (C06's subject); lik1 (after one sweep) would drag the update
        # functions in, which are C02's subject
        io, mo = self.correspond("lik", cases, keys=["lik0"])
        for cid, (directed, assort, K, recs, L, wt, net, u, v, w) in meta.items():
            o = io.get(cid)
            if not o or "lik0" not in o:
                continue
            st = ref.state_of(u, v if directed else u, w, net.N, K, L, assort, directed)
            self.lik_check(unhex(o["lik0"][0]), net, st, K, assort, {"directed": directed, "assortative": assort, "K": K, "L": L,
                           "records": recs, "weight_type": wt, "u": u, "v": v, "w": w}, "state")
        # cadence: the reported value is the evaluation after sweep 10*floor((n-1)/10)+1
        # a third of the calls hand in non-zero output containers, several realizations, and a vertex without
        # out-edges: whatever the work matrices then hold, the reported value is the likelihood of the factors
        runs = {}
        for n in range(n_traj):
            rc = random_run(rng, tr=2, variants=ALL_VARIANTS, maxit=rng.choice([1, 7, 10, 11, 12, 21, 25]),
                            nconv=rng.choice([1, 2, 3]), r=rng.choice([1, 2, 3]), prior=rng.choice([0.0, 0.0, 2.5]))
            if rc.prior and rng.random() < 0.8:
                rc.recs = rc.recs + [(rc.recs[0][0], 997, [1] * rc.L)]
            runs["cd%d" % n] = rc
        # the value reported by a Solver object that has run on another network before (a rewiring of the same size)
        from .props_b import solver_reuse_stage
        solver_reuse_stage(self, "likelihood-with-reused-solver")
        io2, mo2 = self.correspond("run", [rc.line(c) for c, rc in runs.items()], keys=["L2s", "iters", "reasons"], drift=True)
        for cid, rc in runs.items():
            o = io2.get(cid)
            if not o or o.get("err") != ["0"]:
                continue
            net = rc.net()
            tr = trace_states(rc, o, net)
            for i, seq in tr.items():
                n = len(seq) - 1
                if n < 1 or i >= len(o["L2s"]):
                    continue
                last_eval = 10 * ((n - 1) // 10) + 1
                st = seq[last_eval][1]
                self.dist("cadence:n=%d" % n)
                self.lik_check(unhex(o["L2s"][i]), net, st, rc.K, rc.assort,
                               dict(rc.describe(), realization=i, sweeps=n, evaluated_after_sweep=last_eval), "reported")
                # L2 may change only in sweeps 1, 11, 21, ...
                for t in range(2, n + 1):
                    if (t - 1) % 10 != 0 and seq[t][2] != seq[t - 1][2]:
                        self.violate("evaluation-cadence", "likelihood re-evaluated outside sweeps 1,11,21,…",
                                     dict(rc.describe(), realization=i, sweep=t, case=rc.line("replay")))
        self.cov["rule"] = ("states over random multigraphs with parallel records, weights>1, self-loops, both orientations, undirected "
                            "double counting, assortative on undirected, K up to 4; reported likelihoods of real runs with n around multiples "
                            "of 10; oracle = closed form sum A ln M - M from the edge list (math.fsum); non-trivial = at least one observed "
                            "pair with rate > 1e-6; distinct by (variant, records, state)")

    def lik_check(self, impl, net, st, K, assort, desc, kind):
        self.monitor("closed-form evaluations")
        # pairs within rounding of the guard are ambiguous
        for a in range(net.L):
            for i in range(net.N):
                for j in range(net.N):
                    if net.A[a][i][j]:
                        m = ref.rate(st, a, i, j, K, assort)
                        if abs(m - ref.EPS) <= 1e-9 * ref.EPS:
                            self.monitor("threshold-ambiguous (skipped)")
                            return
        expect = ref.loglik(net, st, K, assort)
        if any(net.A[a][i][j] and ref.rate(st, a, i, j, K, assort) > ref.EPS
               for a in range(net.L) for i in range(net.N) for j in range(net.N)):
            self.nontrivial((kind, str(desc.get("records")), str(desc.get("u", desc.get("seed"))), desc.get("realization")))
        self.sample({"kind": kind, "impl": impl, "closed_form": expect, "variant": desc.get("variant", (desc.get("directed"), desc.get("assortative")))})
        if not ref.close(impl, expect, 1e-10, 1e-12):
            self.violate("likelihood-not-poisson", "%s likelihood %r != closed form %r" % (kind, impl, expect),
                         dict(desc, impl_likelihood=impl, closed_form=expect))


# ------------------------------------------------------------------------------ C01 / C09 (trajectory monitors)

class TrajCheck(Check):
    """shared: runs real trajectories with full traces, compares them with the model"""

    def trajectories(self, n, maxit_choices, variants=ALL_VARIANTS, r_choices=(1, 2), **over):
        rng = self.rng
        runs = {}
        for k in range(n):
            # a third of the trajectories start from non-zero caller buffers (hold-out style reuse)
            runs["tj%d" % k] = random_run(rng, tr=2, variants=variants, maxit=rng.choice(maxit_choices),
                                          r=rng.choice(r_choices), nconv=rng.choice([2, 10]),
                                          prior=rng.choice([0.0, 0.0, 2.5]), **over)
        # a few long realizations (the command line's default limit is 500 sweeps): anything that happens only every
        # so many sweeps, or only late, is inside the observed window
        for k in range(6 if self.tier == "quick" else 40):
            runs["long%d" % k] = random_run(rng, tr=2, variants=variants, maxit=rng.choice([260, 520]), r=1, nconv=1000,
                                            N=rng.randint(3, 5), nrec=rng.randint(3, 8), heavy=False, **over)
        # hubs: a vertex with hundreds of parallel edges in one layer, followed for a hundred sweeps (whatever is done per
        # block of edges, or drifts by one edge in a few hundred, shows near the fixed point)
        for k in range(4 if self.tier == "quick" else 24):
            runs["hub%d" % k] = random_run(rng, tr=2, variants=variants, maxit=rng.choice([60, 100, 120]), r=1, nconv=1000,
                                           N=rng.randint(4, 9), nrec=rng.randint(3, 9), K=2, heavy=rng.choice(["hub", "hub", True]),
                                           ltwt=("u", "u"), **over)
        io, mo = self.correspond("run", [rc.line(c) for c, rc in runs.items()])
        res = []
        for cid, rc in runs.items():
            o = io.get(cid)
            if o and o.get("err") == ["0"]:
                res.append((cid, rc, o))
                self.dist(rc.variant() + (":long" if cid.startswith("long") else ":hub" if cid.startswith("hub") else ""))
        return res


def rates_ok(net, st, K, assort):
    """every observed edge has rate > 1e-6; returns (ok, ambiguous)"""
    ok, amb = True, False
    for a in range(net.L):
        for i in range(net.N):
            for j in range(net.N):
                if net.A[a][i][j]:
                    m = ref.rate(st, a, i, j, K, assort)
                    if abs(m - ref.EPS) <= 1e-9 * ref.EPS:
                        amb = True
                    if not m > ref.EPS:
                        ok = False
    return ok, amb


def snapped(before, after, net, K, L, assort, directed):
    """an entry that was non-zero became zero in this step"""
    b = flat_state(before, net, K, L, assort, directed)
    a = flat_state(after, net, K, L, assort, directed)
    for xs, ys in zip(b, a):
        for x, y in zip(xs, ys):
            if x != 0 and y == 0:
                return True
    return False


def w_symmetric(st, K, L):
    return all(st.w[a][k][q] == st.w[a][q][k] for a in range(L) for k in range(K) for q in range(K))


class C01(TrajCheck):
    pid = "C01"
    lean_modules = ["MTProps.C01", "MTProps.C01NonVacuity", "MTProps.CodeVertices", "MTProps.CodeAffinity", "MTProps.CodeLikelihood"]

    def body(self):
        n = 120 if self.tier == "quick" else 2000
        trajs = self.trajectories(n, [8, 15, 25] if self.tier == "quick" else [15, 30, 60])
        # the known-finding witness and a symmetric-start variant of the same family run every time
        wit = RunCase(False, False, "f", 2, [(2, 0, [1]), (1, 2, [2]), (2, 2, [2]), (1, 1, [1])], 1, r=1, maxit=4,
                      nconv=10, seed=30, tr=2, aff=[0.9, 0.6, 0.2, 0.5])
        outs, _ = C.run_impl(self.bdir, [wit.line("wit")])
        if outs.get("wit", {}).get("err") == ["0"]:
            trajs.append(("wit", wit, outs["wit"]))
        for cid, rc, o in trajs:
            net = rc.net()
            for i, seq in trace_states(rc, o, net).items():
                self.ascent(rc, net, i, seq)
        self.cov["rule"] = ("real trajectories (all 8 variants, K 2-4, integer/real weights, multigraph features), every pair of consecutive "
                            "sweeps; exact log-likelihood recomputed from the edge list (math.fsum); a step is non-trivial if it is free of "
                            "both exceptions (no entry snapped to zero, every observed rate > 1e-6 in every sub-step) and changed the state; "
                            "distinct by (variant, records, seed, realization, sweep)")

    def ascent(self, rc, net, i, seq):
        K, L = rc.K, rc.L
        prev_ll = None
        for t in range(len(seq) - 1):
            s0, s1 = seq[t][1], seq[t + 1][1]
            self.monitor("steps examined")
            # sub-step states: (u', v, w), (u', v', w)
            if rc.directed:
                mids = [ref.St(s1.u, s0.v, s0.w), ref.St(s1.u, s1.v, s0.w)]
            else:
                mids = [ref.St(s1.u, s1.u, s0.w)]
            exc = snapped(s0, s1, net, K, L, rc.assort, rc.directed)
            amb = False
            for st in [s0] + mids + [s1]:
                ok, a = rates_ok(net, st, K, rc.assort)
                exc = exc or not ok
                amb = amb or a
            l0 = ref.loglik(net, s0, K, rc.assort, guard=0.0) if not exc else None
            if exc or amb:
                self.monitor("steps with an admissible exception (skipped)")
                continue
            l1 = ref.loglik(net, s1, K, rc.assort, guard=0.0)
            if s0.u != s1.u or s0.w != s1.w:
                self.nontrivial((rc.variant(), str(rc.recs), rc.seed, i, t))
            if len(self.cov["samples"]) < 4:
                self.sample({"variant": rc.variant(), "sweep": t + 1, "L_before": l0, "L_after": l1})
            if l1 < l0 - 1e-9 * max(1.0, abs(l0)):
                undirected_general = (not rc.directed) and (not rc.assort)
                if undirected_general and not w_symmetric(seq[0][1], K, L):
                    key = "undirected+general+asymmetric-start"
                else:
                    key = "decrease:" + rc.variant()
                self.violate(key, "log-likelihood decreased %r -> %r in sweep %d of realization %d (%s), no exception in this step"
                             % (l0, l1, t + 1, i, rc.variant()),
                             dict(rc.describe(), realization=i, sweep=t + 1, L_before=l0, L_after=l1, case=rc.line("replay")))


class C09(TrajCheck):
    pid = "C09"
    lean_modules = ["MTProps.C09", "MTProps.CodeVertices", "MTProps.CodeAffinity"]

    def body(self):
        n = 120 if self.tier == "quick" else 1500
        trajs = self.trajectories(n, [3, 8, 15] if self.tier == "quick" else [8, 20, 40])
        for cid, rc, o in trajs:
            net = rc.net()
            K, L = rc.K, rc.L
            for i, seq in trace_states(rc, o, net).items():
                for t in range(len(seq) - 1):
                    s0, s1 = seq[t][1], seq[t + 1][1]
                    self.monitor("iterations examined")
                    pre = ref.St(s1.u, s1.v if rc.directed else s1.u, s0.w)
                    ok, amb = rates_ok(net, pre, K, rc.assort)                      # (i)
                    wvals = ref.flat_w(s0.w, K, L, rc.assort)
                    ok = ok and all(x == 0 or x > ref.EPS for x in wvals)          # (ii)
                    amb = amb or any(abs(x - ref.EPS) <= 1e-9 * ref.EPS for x in wvals)
                    Du = [math.fsum(s1.u[i2][k] for i2 in net.U) for k in range(K)]
                    vv = s1.v if rc.directed else s1.u
                    Dv = [math.fsum(vv[j][q] for j in net.V) for q in range(K)]
                    pairs = [(k, k) for k in range(K)] if rc.assort else [(k, q) for k in range(K) for q in range(K)]
                    for a in range(L):
                        for (k, q) in pairs:
                            if s0.w[a][k][q] > 0:
                                z = Du[k] * Dv[q]
                                ok = ok and z > ref.EPS                            # (iii)
                                amb = amb or abs(z - ref.EPS) <= 1e-9 * ref.EPS
                    if not ok or amb:
                        self.monitor("iterations outside the precondition (skipped)")
                        continue
                    for a in range(L):
                        expected = math.fsum(ref.rate(s1, a, i2, j, K, rc.assort) for i2 in range(net.N) for j in range(net.N))
                        observed = sum(net.A[a][i2][j] for i2 in range(net.N) for j in range(net.N))
                        # mass of entries snapped to zero in this step: each is < 1e-6 before truncation
                        slack = sum(Du[k] * Dv[q] * ref.EPS for (k, q) in pairs if s0.w[a][k][q] > 0 and s1.w[a][k][q] == 0)
                        self.nontrivial((rc.variant(), str(rc.recs), rc.seed, i, t, a))
                        if len(self.cov["samples"]) < 4:
                            self.sample({"variant": rc.variant(), "layer": a, "expected_edges": expected, "observed_edges": observed})
                        if expected > observed + 1e-9 * max(1, observed) or expected < observed - slack - 1e-9 * max(1, observed):
                            self.violate("mass-balance", "layer %d: sum of rates %r != observed edges %d (snapped slack %g) after sweep %d"
                                         % (a, expected, observed, slack, t + 1),
                                         dict(rc.describe(), realization=i, sweep=t + 1, layer=a, expected=expected,
                                              observed=observed, case=rc.line("replay")))
        self.cov["rule"] = ("every iteration t->t+1 of real trajectories (all 8 variants) that satisfies the property's three preconditions, "
                            "per layer; non-trivial = precondition holds; distinct by (variant, records, seed, realization, sweep, layer)")
