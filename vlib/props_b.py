"""Checks C03 C04 C05 C07 C08 C10 C11 C12 C15 C17 C18."""
import itertools
import math
import os

from . import common as C
from . import gen, ref
from .base import Check
from .common import hexf, unhex
from .props_a import (ALL_VARIANTS, RunCase, TrajCheck, flat_state, floats, random_run, trace_states)

NUMERIC_KEYS = ["u", "v", "aff", "iters", "reasons", "L2s", "adopted", "maxL2", "nreal"]


def finite(x):
    return x == x and abs(x) != float("inf")


# ------------------------------------------------------------------------------ C03

class C03(Check):
    pid = "C03"
    lean_modules = ["MTProps.C03", "MTProps.CodeRun", "MTProps.CodeMain"]

    def body(self):
        rng = self.rng
        n = 250 if self.tier == "quick" else 3000
        runs = {"wf%d" % k: random_run(rng, variants=ALL_VARIANTS, ltwt=rng.choice([("u", "u"), ("u", "u"), ("u", "r"), ("u", "l"), ("i", "u"), ("s", "u")]))
                for k in range(n)}
        # degenerate supports: user-supplied affinities of extreme scale truncate whole matrices to zero
        for k, rc in enumerate(runs.values()):
            if k % 5 == 1:
                # the caller's containers are outputs: whatever they hold on entry (a sentinel, an earlier result), the
                # rows of vertices without edges come back zero - also after several realizations
                rc.prior = rng.choice([-1.0, 0.01, 0.5, 7.0])
                rc.r = rng.choice([2, 3, 4])
                if rng.random() < 0.7:
                    rc.recs = rc.recs + [(rc.recs[0][0], rc.recs[0][0], [0] * rc.L)] if rc.lt != "u" else rc.recs + [(rc.recs[0][0], 987654, [1] * rc.L)]
            if rc.init == "f" and k % 4 == 0:
                sc = rng.choice([1e9, 1e6, 1e3, 1e-9, 1e12])
                rc.aff = [x * sc for x in rc.aff]
                self.dist("extreme affinity scale")
        io, mo = self.correspond("run", [rc.line(c) for c, rc in runs.items()], drift=True)
        for cid, rc in runs.items():
            o = io.get(cid)
            if not o:
                continue
            self.dist(rc.variant())
            if o.get("err") != ["0"]:
                self.violate("rejected-valid-input", "accepted-by-contract input was rejected with error %s" % o.get("err"),
                             dict(rc.describe(), case=rc.line("replay")))
                continue
            net = rc.net()
            K, N = rc.K, net.N
            bad = []
            if o["labels"] != [str(x) for x in net.labels]:
                bad.append("labels %s != first-appearance order %s" % (o["labels"], net.labels))
            u = floats(o["u"])
            v = floats(o["v"])
            aff = floats(o["aff"])
            if len(u) != N * K:
                bad.append("u has %d entries, expected N*K=%d" % (len(u), N * K))
            if rc.directed and len(v) != N * K:
                bad.append("v has %d entries" % len(v))
            if len(aff) != (K if rc.assort else K * K) * rc.L:
                bad.append("affinity has %d entries" % len(aff))
            vals = u + aff + (v if rc.directed else [])
            if not all(finite(x) for x in vals + floats(o["L2s"])):
                bad.append("non-finite value")
            if not all(x >= 0 for x in vals):
                bad.append("negative value")
            if len(u) == N * K:
                for i in range(N):
                    if i not in net.U and any(u[k * N + i] != 0 for k in range(K)):
                        bad.append("vertex %s has no out-edge but a non-zero out-membership row" % net.labels[i])
                    if rc.directed and len(v) == N * K and i not in net.V and any(v[k * N + i] != 0 for k in range(K)):
                        bad.append("vertex %s has no in-edge but a non-zero in-membership row" % net.labels[i])
            if len(net.U) < N or (rc.directed and len(net.V) < N):
                self.nontrivial((rc.variant(), str(rc.recs), rc.seed))
            self.sample({"variant": rc.variant(), "labels": o["labels"], "N": N, "K": K, "U": net.U, "V": net.V})
            self.monitor("results examined")
            if bad:
                self.violate("ill-formed-result", "; ".join(bad), dict(rc.describe(), impl_output={k: o[k] for k in ("labels", "u", "v", "aff", "L2s")},
                                                                      case=rc.line("replay")))
        self.cov["rule"] = ("random accepted inputs, all 8 variants x label types size_t/int/string x weight types, zero-initialised outputs; "
                            "non-trivial = some vertex lacks out- or in-edges (zero-row clause exercised); distinct by (variant, records, seed)")


# ------------------------------------------------------------------------------ C04

class C04(Check):
    pid = "C04"
    lean_modules = ["MTProps.C04", "MTProps.CodeRun"]

    def body(self):
        rng = self.rng
        maxr = 4 if self.tier == "quick" else 5
        # (a) scripted likelihoods: every ordering / tie pattern
        runs = {}
        for r in range(1, maxr + 1):
            for pat in itertools.product(range(r), repeat=r):
                if sorted(set(pat)) != list(range(len(set(pat)))):
                    continue  # canonical weak orderings only
                directed, assort, init = rng.choice(ALL_VARIANTS)
                rc = random_run(rng, tr=2, variants=[(directed, assort, init)], r=r, maxit=1, nconv=1, ltwt=("u", "u"),
                                script=[-10.0 + p for p in pat])
                runs["ord%d_%s" % (r, "".join(map(str, pat)))] = rc
        # evaluations that are not finite (overflowed or undefined likelihoods) are reported like any other
        inf, nan = float("inf"), float("nan")
        for n, sc in enumerate([[inf], [-inf], [nan], [-3.0, inf, -2.0], [nan, -4.0], [-4.0, nan], [-inf, -5.0], [inf, inf],
                                [-5.0, -inf, nan, -1.0], [nan, nan, -7.0]]):
            directed, assort, init = rng.choice(ALL_VARIANTS)
            runs["nonfinite%d" % n] = random_run(rng, tr=2, variants=[(directed, assort, init)], r=len(sc), maxit=1, nconv=1,
                                                 ltwt=("u", "u"), script=sc)
        self.cov["exhaustive_orderings_up_to_r"] = maxr
        # the report and the selection of a run made with a Solver object that has run before
        solver_reuse_stage(self, "selection-with-reused-solver")
        # the report prefix across calls that share one generator object (r' realizations, then r)
        generator_reuse_stage(self, "prefix-with-shared-generator")
        # (b) real runs
        for k in range(60 if self.tier == "quick" else 600):
            runs["real%d" % k] = random_run(rng, tr=2, variants=ALL_VARIANTS, r=rng.randint(2, 5), maxit=rng.choice([1, 3, 11]))
            if k % 2:
                # the caller's containers are outputs: whatever shape they arrive in, they leave as the best realization's factors
                runs["real%d" % k].vshape = rng.choice([1, 2, 3, 4])
                runs["real%d" % k].ushape = rng.choice([0, 1, 2, 3])
            if k % 3 == 0 and runs["real%d" % k].lt == "u" and runs["real%d" % k].wt == "u":
                # a generator that returns chosen draws: values at and below 1e-6 (entries the updates never touch), zero,
                # values next to one
                nd = rng.randint(5, 37)
                runs["real%d" % k].draws = [rng.choice([0.0, 1e-7, 5e-7, 1e-6, 9.99e-7, 0.9999999]) if rng.random() < 0.3 else rng.random()
                                            for _ in range(nd)]
        # scripted runs: the whole selection logic is independent of the numbers -> compared strictly;
        # real runs: the model's numbers are compared under the locality rule (drift), the monitor decides
        scripted = {c: rc for c, rc in runs.items() if rc.script}
        realr = {c: rc for c, rc in runs.items() if not rc.script}
        io, mo = self.correspond("run@scripted", [rc.line(c) for c, rc in scripted.items()],
                                 keys=["iters", "reasons", "L2s", "adopted", "maxL2", "nreal", "err", "labels"])
        io_r, _ = self.correspond("run", [rc.line(c) for c, rc in realr.items()], drift=True)
        io.update(io_r)
        for cid, rc in runs.items():
            o = io.get(cid)
            if not o or o.get("err") != ["0"]:
                continue
            self.selection(cid, rc, o)
        # (c) prefix property: r' < r with the same seed
        pairs = {}
        for k in range(40 if self.tier == "quick" else 400):
            rc = random_run(rng, variants=ALL_VARIANTS, r=rng.randint(2, 5), maxit=rng.choice([1, 4, 11]))
            if k % 2:
                # containers recycled from an earlier call (non-zero on entry) and a vertex without out-edges: the shorter run
                # is still the prefix of the longer one, down to a single realization
                rc.prior = rng.choice([0.25, -1.0, 3.0])
                rc.recs = rc.recs + [(rc.recs[0][0], 987654 if rc.lt == "u" else rc.recs[0][0], [1] * rc.L)]
            r2 = rng.randint(1, rc.r - 1) if k % 4 != 1 else 1
            d = dict(rc.__dict__)
            d["r"] = r2
            rc2 = RunCase(**d)
            pairs["pf%d" % k] = (rc, rc2)
        lines = []
        for cid, (a, b) in pairs.items():
            lines += [a.line(cid + "a"), b.line(cid + "b")]
        # end to end on record lists without any edge (every weight 0): the network has the labelled
        # vertices, no edges and empty source/target lists, and the run goes through in every variant
        zero = {}
        for n, (directed, assort, init) in enumerate(ALL_VARIANTS * (1 if self.tier == "quick" else 4)):
            rc = random_run(rng, variants=[(directed, assort, init)], ltwt=rng.choice([("u", "u"), ("u", "r"), ("s", "u")]),
                            maxit=rng.choice([1, 11]))
            d2 = dict(rc.__dict__)
            d2["recs"] = [(s, d, [0] * len(ws)) for s, d, ws in rc.recs]
            zero["z%d" % n] = RunCase(**d2)
            lines.append(zero["z%d" % n].line("z%d" % n))
        io2, _ = self.correspond("run", lines, drift=True)
        for cid, rc in zero.items():
            o = io2.get(cid)
            if not o:
                continue
            self.monitor("edge-less end-to-end runs")
            net = rc.net()
            if o.get("labels") != [str(x) for x in net.labels]:
                self.violate("edge-less-run", "labels %s of an edge-less run differ from the distinct labels %s" % (o.get("labels"), net.labels),
                             {"run": rc.describe(), "case": rc.line("replay")})
        for cid, (a, b) in pairs.items():
            oa, ob = io2.get(cid + "a"), io2.get(cid + "b")
            if not oa or not ob or oa.get("err") != ["0"] or ob.get("err") != ["0"]:
                continue
            self.monitor("prefix pairs")
            r2 = b.r
            bad = []
            for key in ("iters", "reasons", "L2s"):
                if oa[key][:r2] != ob[key]:
                    bad.append("%s: first %d entries %s != %s" % (key, r2, oa[key][:r2], ob[key]))
            if unhex(ob["maxL2"][0]) > unhex(oa["maxL2"][0]):
                bad.append("best likelihood decreased with more realizations")
            self.nontrivial(("prefix", str(a.recs), a.seed, a.r, r2))
            if bad:
                self.violate("report-prefix", "; ".join(bad), {"run_r": a.describe(), "run_r_prime": b.describe(),
                                                             "case_r": a.line("replay"), "case_r_prime": b.line("replay")})
        self.cov["rule"] = ("(a) every weak ordering (ties included) of the likelihoods of up to %d realizations, scripted through the "
                            "likelihood_computed hook on the real selection code, random variant and network each; (b) real runs with 2-5 "
                            "realizations; (c) r' < r pairs with the same seed; non-trivial = r >= 2; distinct by (ordering | records, seed, r)" % maxr)

    def selection(self, cid, rc, o):
        L2 = floats(o["L2s"])
        self.monitor("selections examined")
        bad = []
        if len(L2) != rc.r or len(o["iters"]) != rc.r or len(o["reasons"]) != rc.r:
            bad.append("report has %d/%d/%d entries for r=%d" % (len(L2), len(o["iters"]), len(o["reasons"]), rc.r))
        if rc.script and o["L2s"] != [hexf(x) for x in rc.script]:
            bad.append("reported likelihoods %s != evaluated ones %s" % (L2, list(rc.script)))
        if L2 and all(finite(x) for x in L2):
            best = max(L2)
            bi = L2.index(best)
            if unhex(o["maxL2"][0]) != best:
                bad.append("report maximum %r != %r" % (unhex(o["maxL2"][0]), best))
            net = rc.net()
            tr = trace_states(rc, o, net)
            if bi in tr and len(tr[bi]) > 1:
                fin = tr[bi][-1][1]
                u, v, w = flat_state(fin, net, rc.K, rc.L, rc.assort, rc.directed)
                if floats(o["u"]) != u:
                    bad.append("returned out-memberships are not the final ones of realization %d (first maximum)" % bi)
                if rc.directed and floats(o["v"]) != v:
                    bad.append("returned in-memberships are not the final ones of realization %d" % bi)
                if floats(o["aff"]) != w:
                    bad.append("returned affinity is not the final one of realization %d" % bi)
                want_dims = [str(net.N), str(rc.K)]
                if o.get("udims") != want_dims or (rc.directed and o.get("vdims") != want_dims):
                    bad.append("returned membership containers have dimensions %s / %s, the best realization's are %s"
                               % (o.get("udims"), o.get("vdims") if rc.directed else "-", want_dims))
                if int(o["iters"][bi]) != len(tr[bi]) - 1:
                    bad.append("reported iterations of realization %d" % bi)
            expect_adopt = []
            cur = ref.LOWEST
            for x in L2:
                expect_adopt.append("1" if x > cur else "0")
                cur = max(cur, x)
            if o["adopted"] != expect_adopt:
                bad.append("adoption pattern %s != %s" % (o["adopted"], expect_adopt))
        if rc.r >= 2:
            self.nontrivial((tuple(rc.script), str(rc.recs), rc.seed, rc.r))
        self.sample({"variant": rc.variant(), "r": rc.r, "likelihoods": L2, "adopted": o["adopted"]})
        if bad:
            self.violate("selection", "; ".join(bad), dict(rc.describe(), report={k: o[k] for k in ("L2s", "iters", "reasons", "adopted", "maxL2")},
                                                           case=rc.line("replay")))


# ------------------------------------------------------------------------------ C05

def script_for(word, first=None):
    """likelihood values realising a pass/fail word (first evaluation compares with lowest()); `first`: the value of
    the first evaluation when that one fails (any value but lowest() fails there)"""
    vals = []
    prev = ref.LOWEST
    alt = 0
    for n, ok in enumerate(word):
        if ok:
            v = prev
        elif n == 0 and first is not None and first != ref.LOWEST:
            v = first
        else:
            alt += 1
            v = -100.0 - alt if prev == ref.LOWEST or prev > -1000 else -50.0
            if v == prev:
                v -= 1.0
        vals.append(v)
        prev = v
    return vals


class C05(Check):
    pid = "C05"
    lean_modules = ["MTProps.C05", "MTProps.CodeControl"]

    def body(self):
        rng = self.rng
        maxlen = 5 if self.tier == "quick" else 9
        runs = {}
        maxits = [1, 2, 9, 10, 11, 12, 20, 21, 22, 30, 31, 32, 41, 50, 51, 61, 71, 81, 91]
        net_rc = random_run(rng, variants=[(True, False, "r")], K=2, N=3, L=1, nrec=3, ltwt=("u", "u"))
        for maxit in maxits:
            nev = (maxit + 9) // 10
            if nev > maxlen:
                continue
            for nconv in (1, 2, 3, 4):
                for word in itertools.product((True, False), repeat=nev):
                    d = dict(net_rc.__dict__)
                    d.update(r=1, maxit=maxit, nconv=nconv, script=script_for(word), tr=0, seed=7)
                    runs["w%d_%d_%s" % (maxit, nconv, "".join("P" if x else "F" for x in word))] = (RunCase(**d), word)
        self.cov["exhaustive_words_up_to_length"] = maxlen
        # limits that mean "no limit": above INT_MAX, above 2^32, the largest size_t
        for n, big in enumerate([2 ** 31, 2 ** 31 + 5, 2 ** 32, 2 ** 32 + 7, 3 * 10 ** 9, 2 ** 63, 2 ** 64 - 1]):
            for word, nconv in (((False, True, True), 2), ((False, False, True, True, True), 3), ((True,), 1)):
                d = dict(net_rc.__dict__)
                d.update(r=1, maxit=big, nconv=nconv, script=script_for(word), tr=0, seed=7)
                runs["bigmax%d_%d" % (n, nconv)] = (RunCase(**d), word)
            for maxit in (1, 21, 32):
                word = (False,) + (True,) * ((maxit + 9) // 10 - 1)
                d = dict(net_rc.__dict__)
                d.update(r=1, maxit=maxit, nconv=big, script=script_for(word), tr=0, seed=7)
                runs["bigconv%d_%d" % (n, maxit)] = (RunCase(**d), word)
        # random long words on random variants
        for k in range(60 if self.tier == "quick" else 600):
            maxit = rng.randint(1, 200)
            nev = (maxit + 9) // 10
            p = rng.choice([0.3, 0.6, 0.9])
            word = tuple(rng.random() < p for _ in range(nev))
            rc = random_run(rng, variants=ALL_VARIANTS, N=3, nrec=3, K=2, r=1, maxit=maxit, nconv=rng.randint(1, 6),
                            script=script_for(word), ltwt=("u", "u"))
            runs["rw%d" % k] = (rc, word)
        # several realizations in one call: every realization follows the rule on its own evaluations, whatever the
        # previous realization ended with - in particular when its first likelihood IS the previous one's last
        multi = {}
        for k in range(60 if self.tier == "quick" else 500):
            maxit = rng.choice([1, 5, 11, 12, 21, 25, 31, 45, 61])
            nev = (maxit + 9) // 10
            r = rng.randint(2, 4)
            p = rng.choice([0.4, 0.7, 0.9])
            words, script, last = [], [], None
            for j in range(r):
                w = [rng.random() < p for _ in range(nev)]
                if j > 0 or rng.random() < 0.7:
                    w[0] = False
                vals = script_for(w, first=last if rng.random() < 0.7 else None)
                words.append(tuple(w))
                script += vals
                last = vals[-1]
            rc = random_run(rng, variants=ALL_VARIANTS, N=3, nrec=3, K=2, r=r, maxit=maxit, nconv=rng.randint(1, 3),
                            script=script, ltwt=("u", "u"))
            multi["mr%d" % k] = (rc, words)
        iom, _ = self.correspond("run", [rc.line(c) for c, (rc, w) in multi.items()], keys=["iters", "reasons", "L2s", "err"])
        for cid, (rc, words) in multi.items():
            o = iom.get(cid)
            if not o or o.get("err") != ["0"]:
                continue
            self.monitor("scripted runs with several realizations")
            self.nontrivial((rc.maxit, rc.nconv, tuple(words)))
            for j, word in enumerate(words):
                n, reason = ref.stop_rule(rc.maxit, rc.nconv, list(word))
                got = (int(o["iters"][j]), o["reasons"][j])
                if got != (n, reason):
                    self.violate("stopping-rule-later-realization",
                                 "max_it=%d n_conv=%d realization %d of %d, outcomes=%s: stopped after %d (%s), documented rule says %d (%s)"
                                 % (rc.maxit, rc.nconv, j, len(words), "".join("P" if x else "F" for x in word), got[0], got[1], n, reason),
                                 dict(rc.describe(), words=[list(w) for w in words], realization=j, expected=[n, reason], got=list(got),
                                      case=rc.line("replay")))
                    break
        io, mo = self.correspond("run", [rc.line(c) for c, (rc, w) in runs.items()], keys=["iters", "reasons", "L2s", "err"])
        for cid, (rc, word) in runs.items():
            o = io.get(cid)
            if not o or o.get("err") != ["0"]:
                continue
            self.monitor("scripted runs")
            n, reason = ref.stop_rule(rc.maxit, rc.nconv, list(word))
            got = (int(o["iters"][0]), o["reasons"][0])
            self.nontrivial((rc.maxit, rc.nconv, word))
            self.dist("expected:" + reason)
            self.sample({"max_it": rc.maxit, "n_conv": rc.nconv, "word": "".join("P" if x else "F" for x in word), "iterations": got[0], "reason": got[1]})
            if got != (n, reason) or not (1 <= got[0] <= rc.maxit):
                self.violate("stopping-rule", "max_it=%d n_conv=%d outcomes=%s: stopped after %d (%s), documented rule says %d (%s)"
                             % (rc.maxit, rc.nconv, "".join("P" if x else "F" for x in word), got[0], got[1], n, reason),
                             dict(rc.describe(), word=list(word), expected=[n, reason], got=list(got), case=rc.line("replay")))
        # unscripted real runs: pass/fail computed from the likelihoods the run itself evaluated
        real = {"rr%d" % k: random_run(rng, tr=2, variants=ALL_VARIANTS, r=1, maxit=rng.choice([5, 25, 60, 120]),
                                       nconv=rng.choice([1, 2, 3])) for k in range(30 if self.tier == "quick" else 300)}
        io2, _ = self.correspond("run", [rc.line(c) for c, rc in real.items()], drift=True)
        for cid, rc in real.items():
            o = io2.get(cid)
            if not o or o.get("err") != ["0"]:
                continue
            seq = trace_states(rc, o, rc.net())[0]
            evals = [seq[t][2] for t in range(1, len(seq)) if (t - 1) % 10 == 0]
            prev = ref.LOWEST
            word = []
            amb = False
            for L in evals:
                rel = abs(prev - L) / abs(prev) if prev != 0 else float("inf")
                if abs(rel - ref.EPS_LIK) < 1e-9 * ref.EPS_LIK:
                    amb = True
                word.append(rel < ref.EPS_LIK)
                prev = L
            if amb:
                continue
            self.monitor("real runs")
            n, reason = ref.stop_rule(rc.maxit, rc.nconv, word + [False] * 50)
            got = (int(o["iters"][0]), o["reasons"][0])
            self.dist("real:" + got[1])
            if got != (n, reason) or got[0] != len(seq) - 1:
                self.violate("stopping-rule", "real run: stopped after %d (%s), rule says %d (%s); sweeps applied %d"
                             % (got[0], got[1], n, reason, len(seq) - 1), dict(rc.describe(), word=word, case=rc.line("replay")))
        # the pass test itself on floats
        cases, meta = [], {}
        base = random_run(rng, variants=[(True, False, "r")], K=2, N=3, L=1, nrec=3, ltwt=("u", "u"))
        net = base.net()
        u, v, w = gen.random_state(rng, net.N, 2, 1, False, True, (net.U, net.V))
        probe = gen.case_sweep("probe", True, False, 2, base.recs, 1, "u", net.N, u, v, w)
        po, _ = C.run_impl(self.bdir, [probe])
        if "probe" in po and "lik1" in po["probe"]:
            L1 = unhex(po["probe"]["lik1"][0])
            olds = [L1, L1 * (1 + 0.99e-4), L1 * (1 + 1.01e-4), L1 * (1 - 0.5e-4), -L1, 0.0, L1 * 2, ref.LOWEST, L1 * (1 + 1e-4)]
            for n, lo in enumerate(olds):
                for co0 in (0, 1):
                    cid = "pt%d_%d" % (n, co0)
                    cases.append(gen.case_sweep(cid, True, False, 2, base.recs, 1, "u", net.N, u, v, w, it0=0, co0=co0, l20=lo, maxit=100, nconv=5))
                    meta[cid] = (lo, co0, L1)
            io3, _ = self.correspond("ctl-step", cases, keys=["loop_co", "loop_it", "loop_reason", "loop_L2"])
            for cid, (lo, co0, L1) in meta.items():
                o = io3.get(cid)
                if not o:
                    continue
                rel = abs(lo - L1) / abs(lo) if lo != 0 else float("nan")
                if rel == rel and abs(rel - ref.EPS_LIK) < 1e-6 * ref.EPS_LIK:
                    continue
                exp = co0 + 1 if (rel == rel and rel < ref.EPS_LIK) else 0
                self.monitor("pass-test probes")
                if int(o["loop_co"][0]) != exp:
                    self.violate("pass-test", "L_old=%r L_new=%r: consecutive-pass counter %s, documented test gives %d" % (lo, L1, o["loop_co"][0], exp),
                                 {"L_old": lo, "L_new": L1, "coincide_before": co0, "case": [c for c in cases if c.startswith(cid + " ")][0]})
        self.cov["rule"] = ("every pass/fail word of length <= %d x n_conv 1..4 x max_it around every multiple of 10, scripted through the hook "
                            "on the real loop; random long words; real runs; the pass test on chosen floats; oracle = the documented rule; "
                            "distinct by (max_it, n_conv, word)" % maxlen)


# ------------------------------------------------------------------------------ C07

def solver_reuse_stage(self, key):
    """histories at the level of the public class `solver::Solver`: run on problem A, then on problem B"""
    rng = self.rng
    # one solver object, two runs: the public class `solver::Solver` run on problem A and then on problem B must
    # give for B what a fresh solver gives (nothing of A may survive inside the object)
    n2 = 30 if self.tier == "quick" else 250
    two, lines2 = {}, []
    for k in range(n2):
        directed, assort, init = rng.choice(ALL_VARIANTS)
        r, maxit, nconv = rng.randint(1, 4), rng.choice([1, 3, 11, 21]), rng.choice([1, 2, 10])
        a = random_run(rng, variants=[(directed, assort, init)], ltwt=("u", "u"), r=r, maxit=maxit, nconv=nconv, heavy=False)
        b = random_run(rng, variants=[(directed, assort, init)], ltwt=("u", "u"), r=r, maxit=maxit, nconv=nconv, heavy=False)
        t = rng.random()
        if t < 0.35:
            # make the first problem the "easier" one (tiny network: higher likelihoods than the second)
            a.recs, a.L = [(0, 1, [1] * a.L)], a.L
        elif t < 0.75:
            # the first problem is a rewiring of the second: same vertices, layers, number of edges, other neighbours
            labs = gen.first_appearance(b.recs)
            perm = labs[1:] + labs[:1]
            mp = dict(zip(labs, perm))
            a.K, a.L, a.aff = b.K, b.L, list(b.aff)
            a.recs = [(s, mp[d], ws) for s, d, ws in b.recs]
        two["s%d" % k] = (a, b)
        lines2.append(gen.case_run2("s%d.two" % k, directed, assort, init, r, maxit, nconv,
                                    [(a.K, a.recs, a.L, a.seed, a.aff), (b.K, b.recs, b.L, b.seed, b.aff)]))
        lines2.append(b.line("s%d.fresh" % k))
    if self.bdir:
        o2, cr2 = C.run_impl(self.bdir, lines2)
        self.cov["evaluations"] += len(lines2)
        for cid, line, err, code in cr2:
            self.on_crash("run2", cid, line, err, code)
        for k, (a, b) in two.items():
            x, y = o2.get(k + ".two"), o2.get(k + ".fresh")
            if not x or not y or y.get("err") != ["0"]:
                continue
            self.monitor("solver-object histories")
            self.nontrivial(("solver-reuse", str(a.recs), str(b.recs), b.seed))
            diff = [f for f in ("u", "aff", "iters", "reasons", "L2s", "maxL2", "nreal") + (("v",) if b.directed else ())
                    if x.get(f) != y.get(f)]
            if diff:
                self.violate(key, "a Solver object that has already run another problem gives different %s than a fresh one"
                             % ",".join(diff),
                             {"variant": b.variant(), "first_problem": a.describe(), "second_problem": b.describe(),
                              "reused": {f: x.get(f) for f in diff}, "fresh": {f: y.get(f) for f in diff},
                              "case": [l for l in lines2 if l.startswith(k + ".two ")][0]})


def generator_reuse_stage(self, key):
    """the generator is a by-value parameter of `multitensor_factorization`: a caller who keeps one generator object
    built from the seed and hands it to a call with r1 realizations and then to a call with r2 gets from the second
    call what a call with a fresh generator of that seed gives (same report prefix, same best)"""
    rng = self.rng
    n = 24 if self.tier == "quick" else 200
    pairs, lines = {}, []
    for k in range(n):
        directed, assort, init = rng.choice(ALL_VARIANTS)
        b = random_run(rng, variants=[(directed, assort, init)], ltwt=("u", "u"), r=rng.randint(1, 4),
                       maxit=rng.choice([1, 3, 11, 21]), nconv=rng.choice([1, 2, 10]), heavy=False)
        r1 = rng.randint(1, 3)
        pairs["g%d" % k] = (b, r1)
        lines.append(gen.case_runshared("g%d.shared" % k, directed, assort, init, b.K, b.recs, b.L, r1, b.r, b.maxit, b.nconv,
                                        b.seed, b.aff))
        lines.append(b.line("g%d.fresh" % k))
    if not self.bdir:
        return
    o2, cr2 = C.run_impl(self.bdir, lines)
    self.cov["evaluations"] += len(lines)
    for cid, line, err, code in cr2:
        self.on_crash("runshared", cid, line, err, code)
    for k, (b, r1) in pairs.items():
        x, y = o2.get(k + ".shared"), o2.get(k + ".fresh")
        if not x or not y or y.get("err") != ["0"]:
            continue
        self.monitor("generator-object histories")
        self.nontrivial(("generator-reuse", str(b.recs), b.seed, r1, b.r))
        diff = [f for f in ("labels", "u", "aff", "iters", "reasons", "L2s", "maxL2", "nreal") + (("v",) if b.directed else ())
                if x.get(f) != y.get(f)]
        if diff:
            self.violate(key, "a call handed a generator object that an earlier call (r=%d) was handed too gives different %s "
                              "than a call with a fresh generator of the same seed" % (r1, ",".join(diff)),
                         {"variant": b.variant(), "problem": b.describe(), "realizations_of_the_earlier_call": r1,
                          "with_reused_generator": {f: x.get(f) for f in diff}, "fresh": {f: y.get(f) for f in diff},
                          "case": [l for l in lines if l.startswith(k + ".shared ")][0]})


def order_independence_stage(self, key):
    """every call is a function of its arguments: a mixed bag of calls (factorizations of networks that are rewirings of
    each other - same vertices, layers, number of edges, same buffer sizes -, argument validations, graph constructions,
    file readers on equally long files, initialisers) executed in one process in one order, in the reverse order, and
    one by one in fresh processes must give the same answer call by call.  Catches whatever is carried from call to
    call inside the library (static or thread-local caches, memoised sizes, buffers that keep their shape)."""
    rng = self.rng
    from .common import hexbytes
    lines = []
    nb = 4 if self.tier == "quick" else 24
    for b in range(nb):
        directed, assort, init = rng.choice(ALL_VARIANTS)
        base = random_run(rng, variants=[(directed, assort, init)], ltwt=("u", "u"), r=rng.randint(1, 3),
                          maxit=rng.choice([1, 3, 11, 21]), nconv=rng.choice([1, 2, 10]), heavy=False)
        labs = gen.first_appearance(base.recs)
        for j in range(3):
            # rewirings: targets rotated by j positions in the label list (same N, L, E, same vector lengths)
            mp = dict(zip(labs, labs[j:] + labs[:j]))
            d = dict(base.__dict__)
            d["recs"] = [(s0, mp[t0], ws) for s0, t0, ws in base.recs]
            rc = RunCase(**d)
            lines.append(rc.line("oi%d.run%d" % (b, j)))
            lines.append(gen.case_net("oi%d.net%d" % (b, j), directed, "u", rc.recs, rc.L, "u"))
            # the same problem under the other variants of direction
            d2 = dict(d)
            d2["directed"] = not directed
            lines.append(RunCase(**d2).line("oi%d.flip%d" % (b, j)))
        # argument validations with equal vector lengths and different numbers of distinct labels
        ne = rng.randint(2, 5)
        for nd in range(1, 5):
            for usz in (nd * base.K, (nd + 1) * base.K):
                lines.append("oi%d.val%d_%d validate %d %d r %d %d %d %d %d %d 1 1 1"
                             % (b, nd, usz, int(directed), int(assort), ne, ne, ne * base.L,
                                (base.K if assort else base.K * base.K) * base.L, nd, usz))
        # readers on files of equal length
        for j in range(3):
            recs = [(rng.randint(0, 9), rng.randint(0, 9), [rng.randint(0, 3) for _ in range(2)]) for _ in range(4)]
            lines.append("oi%d.radj%d readadj %s" % (b, j, hexbytes("".join("%d %d %s\n" % (s0, t0, " ".join(map(str, ws))) for s0, t0, ws in recs))))
            K = 2
            lines.append("oi%d.raff%d readaff 0 %d %d %s" % (b, j, K, K * K * 2, hexbytes("".join("%d 0.%d 0.%d\n" % (a, rng.randint(1, 9), rng.randint(1, 9)) for a in ([0, 1] if j != 1 else [1, 0])))))
        ds = [rng.random() for _ in range(7)]
        aff = [rng.random() for _ in range(2 * 2 * 2)]
        for j in range(2):
            lines.append(" ".join(["oi%d.init%d" % (b, j), "initf", "f", "0", "2", "2", str(j + 1)] + gen.flist(ds) + gen.flist(aff[j:] + aff[:j])))
    # one network of a size where a library might switch strategy (threads, blocking): the same call four times
    Nb, Lb = rng.randint(1030, 1060), 8
    brecs = [(rng.randrange(Nb), rng.randrange(Nb), [rng.choice([0, 0, 1, 1, 2]) for _ in range(Lb)]) for _ in range(rng.randint(2500, 4000))]
    big = RunCase(rng.random() < 0.5, rng.random() < 0.5, "r", 2, brecs, Lb, r=1, maxit=1, seed=rng.randint(0, 2 ** 32))
    nrep = 8 if self.tier == "quick" else 16
    biglines = [big.line("oibig%d" % j) for j in range(nrep)]
    if not self.bdir:
        return
    bo, bcr = C.run_impl(self.bdir, biglines)
    for cid, line, err, code in bcr:
        self.on_crash("history", cid, line, err, code)
    self.cov["evaluations"] += nrep
    if "oibig0" in bo:
        self.monitor("repetitions of one large call (N > 1024, 8 layers)", nrep - 1)
        for j in range(1, nrep):
            x = bo.get("oibig%d" % j)
            diff = [f for f in sorted(set(bo["oibig0"]) | set(x or {})) if (x or {}).get(f) != bo["oibig0"].get(f)]
            if x is not None and diff:
                self.violate(key, "the same call on a network with %d vertices and %d layers, repeated in one process, gives different %s "
                             "(repetition %d vs the first)" % (Nb, Lb, ",".join(diff[:6]), j),
                             {"case": biglines[0], "differing_fields": diff, "first": {f: bo["oibig0"].get(f) for f in diff[:3]},
                              "repetition": {f: x.get(f) for f in diff[:3]}})
                break
    fwd, cr1 = C.run_impl(self.bdir, lines)
    rev, cr2 = C.run_impl(self.bdir, lines[::-1])
    for cid, line, err, code in cr1 + cr2:
        self.on_crash("history", cid, line, err, code)
    sample = rng.sample(lines, min(len(lines), 25 if self.tier == "quick" else 120))
    alone = {}
    for l in sample:
        o, cr = C.run_impl(self.bdir, [l])
        alone.update(o)
    self.cov["evaluations"] += 2 * len(lines) + len(sample)
    skip = ("duration",)
    for l in lines:
        cid = l.split(" ", 1)[0]
        a = fwd.get(cid)
        if a is None:
            continue
        self.monitor("calls compared across execution orders")
        self.nontrivial(("order", l))
        for name, other in (("executed in the reverse order", rev.get(cid)), ("executed alone in a fresh process", alone.get(cid))):
            if other is None:
                continue
            diff = [f for f in sorted(set(a) | set(other)) if f not in skip and a.get(f) != other.get(f)]
            if diff:
                pos = lines.index(l)
                self.violate(key, "call %s (%s) answers differently when %s than after the %d calls that preceded it in one process: %s differ"
                             % (cid, l.split(" ")[1], name, pos, ",".join(diff[:6])),
                             {"case": l, "history_same_process": lines[max(0, pos - 40):pos], "differing_fields": diff,
                              "after_history": {f: a.get(f) for f in diff[:4]}, "otherwise": {f: other.get(f) for f in diff[:4]}})
                return


class C07(Check):
    pid = "C07"
    lean_modules = ["MTProps.C07", "MTProps.CodeRun", "MTProps.CodeMain", "MTProps.CodeState"]

    def body(self):
        rng = self.rng
        n = 40 if self.tier == "quick" else 300
        priors = [0.0, 5.0, -5.0, float("nan"), 1e300]
        targets = {}
        lines = []
        for k in range(n):
            rc = random_run(rng, variants=ALL_VARIANTS, r=rng.randint(2, 4), maxit=rng.choice([1, 3, 11]))
            if k < 6:   # boundary seeds always present: 0, 1, around 2^31 and 2^32
                rc.seed = [0, 1, 2 ** 31, 2 ** 32 - 1, 2 ** 32, 2 ** 32 + 7][k]
            # make a vertex without out-edges likely: add a fresh sink
            if rng.random() < 0.7:
                rc.recs = rc.recs + [(rc.recs[0][0], 999, [1] * rc.L)]
            targets["h%d" % k] = rc
            order = list(range(len(priors)))
            rng.shuffle(order)
            for pi in order:
                d = dict(rc.__dict__)
                d["prior"] = priors[pi]
                d["vshape"] = pi   # the caller's in-membership container also arrives in 5 different shapes
                d["lprior"] = [0, 1, 4, 2, 3][pi]   # and the label container empty, partly right, the vertex set in another order, too long, stale
                d["ushape"] = pi % 4   # and the out-membership container (N*K elements) as N x K, K x N, N*K x 1, 1 x N*K
                lines.append(RunCase(**d).line("h%d.p%d" % (k, pi)))
                if rng.random() < 0.5:  # an unrelated call in between
                    lines.append(random_run(rng, variants=ALL_VARIANTS).line("h%d.x%d" % (k, pi)))
            lines.append(rc.line("h%d.again" % k))
        io, mo = self.correspond("run-history", lines, keys=lambda a, b: [x for x in NUMERIC_KEYS + ["labels", "seed", "err", "udims", "vdims"] if x in a or x in b], drift=True)
        # fresh process per call
        fresh = {}
        for k in list(targets)[: (8 if self.tier == "quick" else 40)]:
            o, cr = C.run_impl(self.bdir, [targets[k].line(k + ".fresh")])
            fresh[k] = o.get(k + ".fresh")
        for k, rc in targets.items():
            base = io.get(k + ".p0")
            if not base or base.get("err") != ["0"]:
                continue
            self.dist(rc.variant())
            net = rc.net()
            if len(net.U) < net.N:
                self.nontrivial((rc.variant(), str(rc.recs), rc.seed))
            self.monitor("histories")
            keys = ["u", "udims", "aff", "iters", "reasons", "L2s", "seed", "labels"] + (["v", "vdims"] if rc.directed else [])
            if base["seed"] != [str(rc.seed)]:
                self.violate("seed-echo", "report seed %s != supplied %d" % (base["seed"], rc.seed), dict(rc.describe(), case=rc.line("replay")))
            others = [(".p%d" % pi, io.get("%s.p%d" % (k, pi)), priors[pi]) for pi in range(1, len(priors))]
            others.append((".again", io.get(k + ".again"), 0.0))
            if k in fresh:
                others.append((".fresh", fresh[k], 0.0))
            for suffix, o, prior in others:
                if not o:
                    continue
                diff = [x for x in keys if o.get(x) != base.get(x)]
                if diff:
                    self.violate("impure" if suffix.startswith(".p") else "nondeterministic",
                                 "same call gives different %s %s" % (",".join(diff),
                                 "with output containers pre-filled with %r (and the in-membership container pre-shaped as variant %s) instead of 0 / N x K"
                                 % (prior, suffix[2:]) if suffix.startswith(".p")
                                 else "when repeated (%s)" % suffix[1:]),
                                 dict(rc.describe(), prior_fill_a=0.0, prior_fill_b=prior, differing_fields=diff,
                                      result_a={x: base.get(x) for x in diff}, result_b={x: o.get(x) for x in diff},
                                      case_a=rc.line("replay_a"),
                                      case_b=RunCase(**dict(rc.__dict__, prior=prior, vshape=int(suffix[2:]) if suffix.startswith(".p") else 0)).line("replay_b")))
                    break
            if not rc.directed:
                # undirected: the in-membership argument is returned as it was
                for pi, p in enumerate(priors):
                    o = io.get("%s.p%d" % (k, pi))
                    if not o or "v" not in o:
                        continue
                    N = len(o.get("labels", []))
                    shape = {0: (N, rc.K), 1: (rc.K, N), 2: (N * rc.K, 1), 3: (0, 0), 4: (N + 1, rc.K)}[pi]
                    if (len(o["v"]) != shape[0] * shape[1] or any(t != hexf(p) for t in o["v"])
                            or o.get("vdims") != [str(shape[0]), str(shape[1])]):
                        self.violate("v-touched", "undirected run modified the in-membership argument (contents or shape)",
                                     dict(rc.describe(), prior=p, prior_v_shape=list(shape), returned_dims=o.get("vdims"),
                                          case=RunCase(**dict(rc.__dict__, prior=p, vshape=pi)).line("replay")))
                        break
        solver_reuse_stage(self, "solver-object-state")
        generator_reuse_stage(self, "generator-object-state")
        order_independence_stage(self, "call-order-dependent")
        self.sample({"history": [l.split(" ")[0] for l in lines[:12]], "priors": [str(p) for p in priors]})
        self.cov["rule"] = ("histories in one process: the same call under 5 different prior contents of the output containers (0, 5, -5, NaN, 1e300) and 5 prior shapes of the unvalidated in-membership container (N x K, K x N, NK x 1, empty, (N+1) x K), 4 shapes of the out-membership container (N*K elements), 4 prior contents of the label vector, "
                            "in shuffled order, interleaved with unrelated calls of other variants, then repeated, then in a fresh process; one Solver object run on two problems vs a fresh one; "
                            "implementation-vs-implementation bit identity; non-trivial = some vertex has no out-edge and r >= 2; "
                            "distinct by (variant, records, seed)")


# ------------------------------------------------------------------------------ C08

class C08(Check):
    pid = "C08"
    lean_modules = ["MTProps.C08", "MTProps.CodeGraph"]

    def enum_lists(self, N, L, maxrec, weights=(0, 1, 2)):
        """all record lists over labels 0..N-1 in canonical first-appearance order"""
        pairs = [(s, d) for s in range(N) for d in range(N)]
        wvecs = list(itertools.product(weights, repeat=L))
        one = [(s, d, list(w)) for (s, d) in pairs for w in wvecs]
        for n in range(1, maxrec + 1):
            for recs in itertools.product(one, repeat=n):
                seen = gen.first_appearance(recs)
                if seen == list(range(len(seen))):
                    yield list(recs)

    def body(self):
        rng = self.rng
        cases, meta = [], {}
        k = 0
        plans = [(3, 1, 2), (2, 2, 2)] if self.tier == "quick" else [(3, 1, 3), (3, 2, 2)]
        for (N, L, maxrec) in plans:
            for recs in self.enum_lists(N, L, maxrec):
                for directed in (True, False):
                    cid = "e%d" % k
                    k += 1
                    cases.append(gen.case_net(cid, directed, "u", recs, L, "u"))
                    meta[cid] = (directed, "u", "u", recs, L)
        self.cov["exhaustive"] = False
        self.cov["exhaustive_part"] = "all record lists with %s (N<=,L,records<=), weights {0,1,2}, both directions" % plans
        nexh = len(cases)
        for n in range(300 if self.tier == "quick" else 3000):
            directed = rng.random() < 0.5
            lt, wt = rng.choice([("u", "u"), ("u", "r"), ("u", "l"), ("i", "u"), ("s", "u")])
            labels = None
            N = rng.randint(2, 7)
            if lt == "i":
                labels = rng.sample(range(-50, 50), N)
            elif lt == "s":
                labels = rng.sample(["a", "b", "zz", "A", "node7", "x_y", "10", "9", "é"], N)
            elif rng.random() < 0.3:
                labels = rng.sample([0, 7, 2 ** 40, 2 ** 63, 12345678901, 3, 999], N)
            recs, L = gen.records(rng, N=N, wt=wt, labels=labels, maxw=4, ensure_two=False,
                                  heavy=("wide" if rng.random() < 0.03 else True if rng.random() < 0.15 else None))
            if lt in "ui" and rng.random() < 0.15:
                # the very first label is the largest value of its type (a -1 read as 2^64-1; a sentinel)
                top = 2 ** 64 - 1 if lt == "u" else 2 ** 31 - 1
                old0 = recs[0][0]
                if top not in [x for r0 in recs for x in r0[:2]]:
                    recs = [(top if s0 == old0 else s0, top if d0 == old0 else d0, ws) for s0, d0, ws in recs]
            cid = "r%d" % n
            cases.append(gen.case_net(cid, directed, lt, recs, L, wt))
            meta[cid] = (directed, lt, wt, recs, L)
        io, mo = self.correspond("net", cases)
        for cid, (directed, lt, wt, recs, L) in meta.items():
            o = io.get(cid)
            if not o or "N" not in o:
                continue
            self.monitor("networks examined")
            net = ref.PyNet(recs, L, directed, real=(wt == "r"))
            bad = []
            if int(o["N"][0]) != net.N or o["labels"] != [str(x) for x in net.labels]:
                bad.append("vertices %s != distinct labels in first-appearance order %s" % (o["labels"], net.labels))
            else:
                for a in range(L):
                    for i in range(net.N):
                        lst = [int(x) for x in o.get("out.%d.%d" % (a, i), [])]
                        for j in range(net.N):
                            if lst.count(j) != net.A[a][i][j]:
                                bad.append("layer %d: %d parallel edges %s->%s, the records give %d"
                                           % (a, lst.count(j), net.labels[i], net.labels[j], net.A[a][i][j]))
                        if directed:
                            lin = [int(x) for x in o.get("in.%d.%d" % (a, i), [])]
                            for j in range(net.N):
                                if lin.count(j) != net.A[a][j][i]:
                                    bad.append("layer %d: in-list of %s has %d copies of %s, records give %d"
                                               % (a, net.labels[i], lin.count(j), net.labels[j], net.A[a][j][i]))
                if [int(x) for x in o["U"]] != net.U:
                    bad.append("source list %s != vertices with an out-edge %s" % (o["U"], net.U))
                if [int(x) for x in o["V"]] != net.V:
                    bad.append("target list %s != vertices with an in-edge %s" % (o["V"], net.V))
                if int(o["E"][0]) != net.nedges:
                    bad.append("edge count %s != %d" % (o["E"][0], net.nedges))
                if int(o["numv"][0]) != net.N:
                    bad.append("vertex count from label union %s != %d" % (o["numv"][0], net.N))
            if net.nedges > 0:
                self.nontrivial((directed, lt, wt, str(recs)))
            self.dist("%s/%s%s" % ("D" if directed else "U", lt, wt))
            if bad:
                self.violate("network-construction", "; ".join(bad[:4]),
                             {"directed": directed, "label_type": lt, "weight_type": wt, "L": L, "records": recs,
                              "case": gen.case_net("replay", directed, lt, recs, L, wt)})
        self.sample({"records": meta["e5"][3], "directed": meta["e5"][0], "impl": {k2: v for k2, v in io.get("e5", {}).items()}})
        # end to end: integer weight m == m consecutive unit-weight records
        pairs = {}
        for n in range(40 if self.tier == "quick" else 400):
            rc = random_run(rng, variants=ALL_VARIANTS, ltwt=("u", "u"), maxit=rng.choice([1, 4, 11]))
            exp = []
            for s, d, ws in rc.recs:
                m = max(ws) if ws else 0
                if m == 0:
                    exp.append((s, d, ws))
                for t in range(m):
                    exp.append((s, d, [1 if w > t else 0 for w in ws]))
            d2 = dict(rc.__dict__)
            d2["recs"] = exp
            pairs["x%d" % n] = (rc, RunCase(**d2))
        lines = []
        for cid, (a, b) in pairs.items():
            lines += [a.line(cid + "a"), b.line(cid + "b")]
        # end to end on record lists without any edge (every weight 0): the network has the labelled
        # vertices, no edges and empty source/target lists, and the run goes through in every variant
        zero = {}
        for n, (directed, assort, init) in enumerate(ALL_VARIANTS * (1 if self.tier == "quick" else 4)):
            rc = random_run(rng, variants=[(directed, assort, init)], ltwt=rng.choice([("u", "u"), ("u", "r"), ("s", "u")]),
                            maxit=rng.choice([1, 11]))
            d2 = dict(rc.__dict__)
            d2["recs"] = [(s, d, [0] * len(ws)) for s, d, ws in rc.recs]
            zero["z%d" % n] = RunCase(**d2)
            lines.append(zero["z%d" % n].line("z%d" % n))
        io2, _ = self.correspond("run", lines, drift=True)
        for cid, rc in zero.items():
            o = io2.get(cid)
            if not o:
                continue
            self.monitor("edge-less end-to-end runs")
            net = rc.net()
            if o.get("labels") != [str(x) for x in net.labels]:
                self.violate("edge-less-run", "labels %s of an edge-less run differ from the distinct labels %s" % (o.get("labels"), net.labels),
                             {"run": rc.describe(), "case": rc.line("replay")})
        for cid, (a, b) in pairs.items():
            oa, ob = io2.get(cid + "a"), io2.get(cid + "b")
            if not oa or not ob:
                continue
            self.monitor("weight-expansion pairs")
            diff = [x for x in NUMERIC_KEYS + ["labels"] if oa.get(x) != ob.get(x)]
            if any(w > 1 for r in a.recs for w in r[2]):
                self.nontrivial(("expand", str(a.recs), a.seed))
            if diff:
                self.violate("weight-expansion", "weight m and m unit records give different %s" % diff,
                             {"weighted": a.describe(), "expanded": b.describe(), "case_a": a.line("a"), "case_b": b.line("b")})
        self.cov["rule"] = ("exhaustive small record lists (canonical labels) in both directions + random lists with label types size_t/int/string "
                            "(sparse, huge, negative) and weight types size_t/long/double; monitor recomputes multiplicities, vertex lists and "
                            "counts from the records; end-to-end weight-expansion pairs compared bitwise; non-trivial = at least one edge; "
                            "distinct by (direction, types, records); exhaustive part: %d cases" % nexh)


# ------------------------------------------------------------------------------ C10

class C10(Check):
    pid = "C10"
    lean_modules = ["MTProps.C10", "MTProps.CodeVertices", "MTProps.CodeAffinity", "MTProps.CodeLikelihood"]

    def body(self):
        rng = self.rng
        pairs = {}
        for n in range(80 if self.tier == "quick" else 800):
            directed = rng.random() < 0.5
            K = rng.randint(2, 4)
            wt = rng.choice("uuur")
            recs, L = gen.records(rng, wt=wt)
            # zeros and strictly positive values at / below / just above the truncation threshold included
            diag = [rng.choice([rng.random() * 2, rng.random(), rng.random(), 0.0, 5e-7, 1e-6, 9.9e-7, 1.01e-6, 2e-6])
                    for _ in range(K * L)]
            if rng.random() < 0.3:
                # affinities on another scale (un-normalised counts, rates per million): memberships then live near the guards
                sc = rng.choice([1e3, 1e4, 1e5, 1e-3])
                diag = [x * sc for x in diag]
            full = [0.0] * (K * K * L)
            for a in range(L):
                for k in range(K):
                    full[a * K * K + k * K + k] = diag[a * K + k]
            kw = dict(K=K, recs=recs, L=L, wt=wt, r=1, maxit=rng.choice([1, 2, 5, 11, 23]), nconv=rng.choice([1, 2, 10]),
                      seed=rng.randint(0, 2 ** 32), tr=0)
            pairs["d%d" % n] = (RunCase(directed, False, "x", aff=full, **kw), RunCase(directed, True, "x", aff=diag, **kw))
        lines = []
        for cid, (g, a) in pairs.items():
            lines += [g.line(cid + "g"), a.line(cid + "a")]
        io, mo = self.correspond("run", lines)
        for cid, (g, a) in pairs.items():
            og, oa = io.get(cid + "g"), io.get(cid + "a")
            if not og or not oa or og.get("err") != ["0"] or oa.get("err") != ["0"]:
                continue
            self.monitor("pairs examined")
            K, L = g.K, g.L
            wg, wa = floats(og["aff"]), floats(oa["aff"])
            bad = []
            if not ref.vec_close(floats(og["u"]), floats(oa["u"]), 1e-10, 1e-300):
                bad.append("out-memberships differ")
            if g.directed and not ref.vec_close(floats(og["v"]), floats(oa["v"]), 1e-10, 1e-300):
                bad.append("in-memberships differ")
            dg = [wg[a2 * K * K + k * K + k] for a2 in range(L) for k in range(K)]
            if not ref.vec_close(dg, wa, 1e-10, 1e-300):
                bad.append("diagonal affinities differ")
            off = [wg[a2 * K * K + q * K + k] for a2 in range(L) for k in range(K) for q in range(K) if k != q]
            if any(x != 0 for x in off):
                bad.append("an off-diagonal affinity became non-zero")
            if not ref.vec_close(floats(og["L2s"]), floats(oa["L2s"]), 1e-10, 1e-12) or og["iters"] != oa["iters"] or og["reasons"] != oa["reasons"]:
                bad.append("reports differ: %s/%s vs %s/%s" % (floats(og["L2s"]), og["iters"], floats(oa["L2s"]), oa["iters"]))
            self.nontrivial((g.directed, K, str(g.recs), g.seed, tuple(a.aff)))
            self.dist("%s bit-identical=%s" % ("D" if g.directed else "U", og["u"] == oa["u"] and og["L2s"] == oa["L2s"]))
            self.sample({"directed": g.directed, "K": K, "diag": a.aff, "maxit": g.maxit, "L2_general": floats(og["L2s"]), "L2_assortative": floats(oa["L2s"])})
            if bad:
                self.violate("assortative-vs-diagonal-general", "; ".join(bad),
                             {"general": g.describe(), "assortative": a.describe(), "case_general": g.line("g"), "case_assortative": a.line("a")})
        # one sweep from arbitrary states (groups that have almost died out, entries around the guards): the sweep of the
        # assortative code on (u, v, d) and of the general code on (u, v, diag d) give the same memberships and diagonal
        sl, smeta = [], {}
        for n in range(100 if self.tier == "quick" else 1000):
            directed = rng.random() < 0.5
            K = rng.randint(2, 4)
            wt = rng.choice("uuur")
            recs, L = gen.records(rng, wt=wt)
            net = ref.PyNet(recs, L, directed, real=(wt == "r"))
            u, v, d = gen.random_state(rng, net.N, K, L, True, directed, (net.U, net.V) if rng.random() < 0.6 else None)
            full = [0.0] * (K * K * L)
            for a in range(L):
                for k in range(K):
                    full[a * K * K + k * K + k] = d[a * K + k]
            sl.append(gen.case_sweep("sw%da" % n, directed, True, K, recs, L, wt, net.N, u, v, d))
            sl.append(gen.case_sweep("sw%dg" % n, directed, False, K, recs, L, wt, net.N, u, v, full))
            smeta["sw%d" % n] = (directed, K, L, recs, wt, u, v, d)
        ios, _ = self.correspond("sweep@diagonal", sl, keys=["loop_u", "loop_v", "loop_w"])
        for cid, (directed, K, L, recs, wt, u, v, d) in smeta.items():
            oa, og = ios.get(cid + "a"), ios.get(cid + "g")
            if not oa or not og or "loop_u" not in oa or "loop_u" not in og:
                continue
            self.monitor("sweep pairs examined")
            self.nontrivial(("sweep", directed, K, str(recs), tuple(u), tuple(d)))
            wg, wa = floats(og["loop_w"]), floats(oa["loop_w"])
            bad = []
            if not ref.vec_close(floats(og["loop_u"]), floats(oa["loop_u"]), 1e-10, 1e-300):
                bad.append("out-memberships differ")
            if directed and not ref.vec_close(floats(og["loop_v"]), floats(oa["loop_v"]), 1e-10, 1e-300):
                bad.append("in-memberships differ")
            dg = [wg[a2 * K * K + k * K + k] for a2 in range(L) for k in range(K)]
            if not ref.vec_close(dg, wa, 1e-10, 1e-300):
                bad.append("diagonal affinities differ: general %s, assortative %s" % (dg[:4], wa[:4]))
            if any(wg[a2 * K * K + q * K + k] != 0 for a2 in range(L) for k in range(K) for q in range(K) if k != q):
                bad.append("an off-diagonal affinity became non-zero")
            if bad:
                self.violate("sweep-assortative-vs-diagonal-general", "one sweep from the same state: " + "; ".join(bad),
                             {"directed": directed, "K": K, "L": L, "records": recs, "weight_type": wt, "u": u, "v": v, "diagonal": d,
                              "case_assortative": [c for c in sl if c.startswith(cid + "a ")][0],
                              "case_general": [c for c in sl if c.startswith(cid + "g ")][0]})
        self.cov["rule"] = ("paired real runs (directed and undirected, K 2-4, zeros allowed on the diagonal, iteration limits 1-23) started from the "
                            "same memberships through a caller-supplied initialiser type that installs the affinity exactly; distinct by "
                            "(direction, K, records, seed, diagonal)")


# ------------------------------------------------------------------------------ C11

class C11(Check):
    pid = "C11"
    lean_modules = ["MTProps.C11", "MTProps.CodeGraph"]

    def body(self):
        rng = self.rng
        pairs = {}
        sym = {}
        for n in range(80 if self.tier == "quick" else 800):
            assort, init = rng.random() < 0.5, rng.choice("rrf")
            heavy = rng.random() < 0.25   # thousands of parallel edges: few sweeps, the cost is per edge
            rc = random_run(rng, variants=[(False, assort, init)], prior=rng.choice([0.0, 7.5, -3.0]),
                            maxit=rng.choice([1, 3] if heavy else [1, 4, 11, 25]), heavy=(True if heavy else None),
                            **({"r": 1} if heavy else {}))
            # reverse a subset of records, keeping the order of first appearance
            seen = set()
            rev = []
            for (s, d, ws) in rc.recs:
                can = s == d or s in seen or d in seen or True
                # reversing (s,d) -> (d,s) keeps first-appearance order iff both already seen, or s == d
                ok = (s == d) or (s in seen and d in seen)
                if ok and rng.random() < 0.7:
                    rev.append((d, s, ws))
                else:
                    rev.append((s, d, ws))
                seen.add(s)
                seen.add(d)
            d2 = dict(rc.__dict__)
            d2["recs"] = rev
            # ... and the in-membership container handed to the second call has some other shape (K x N, N*K x 1, empty,
            # one row too many): it is neither read nor written, so nothing may depend on it
            d2["vshape"] = rng.choice([0, 1, 2, 3, 4, 4])
            pairs["o%d" % n] = (rc, RunCase(**d2))
        lines = []
        for cid, (a, b) in pairs.items():
            lines += [a.line(cid + "a"), b.line(cid + "b")]
        # net-level: the built graphs are identical
        netl = []
        for cid, (a, b) in pairs.items():
            netl += [gen.case_net(cid + "na", False, a.lt, a.recs, a.L, a.wt), gen.case_net(cid + "nb", False, b.lt, b.recs, b.L, b.wt)]
        ion, _ = self.correspond("net", netl)
        io, mo = self.correspond("run", lines, drift=True)
        for cid, (a, b) in pairs.items():
            oa, ob = io.get(cid + "a"), io.get(cid + "b")
            if not oa or not ob or oa.get("err") != ["0"]:
                continue
            self.monitor("reversal pairs")
            if ob.get("err") != ["0"]:
                self.violate("v-read", "the undirected call depends on the in-membership argument: handed a container of shape #%d "
                             "(0: NxK, 1: KxN, 2: N*Kx1, 3: empty, 4: (N+1)xK) it fails (error code %s), with an NxK one it runs"
                             % (b.vshape, ob.get("err")), {"original": a.describe(), "second": b.describe(), "case_a": a.line("a"), "case_b": b.line("b")})
                continue
            Nv = len(oa.get("labels", []))
            vr, vc = {0: (Nv, a.K), 1: (a.K, Nv), 2: (Nv * a.K, 1), 3: (0, 0), 4: (Nv + 1, a.K)}[b.vshape]
            if ob.get("vdims") != [str(vr), str(vc)] or len(ob.get("v", [])) != vr * vc or any(t != hexf(b.prior) for t in ob.get("v", [])):
                self.violate("v-touched", "undirected run modified the in-membership argument (shape #%d before the call, dims %s after)"
                             % (b.vshape, ob.get("vdims")), dict(b.describe(), case=b.line("replay")))
            nrev = sum(1 for x, y in zip(a.recs, b.recs) if x != y)
            if nrev:
                self.nontrivial((a.variant(), str(a.recs), str(b.recs), a.seed))
            diff = [x for x in NUMERIC_KEYS + ["labels"] if x != "v" and oa.get(x) != ob.get(x)]
            if ion.get(cid + "na") != ion.get(cid + "nb"):
                diff.append("network")
            self.sample({"variant": a.variant(), "records": a.recs[:5], "reversed": b.recs[:5], "identical": not diff})
            if diff:
                self.violate("orientation-dependent", "reversing %d records changes %s" % (nrev, diff),
                             {"original": a.describe(), "reversed": b.describe(), "case_a": a.line("a"), "case_b": b.line("b")})
            nk = len(oa.get("labels", [])) * a.K
            if len(oa.get("v", [])) != nk or any(t != hexf(a.prior) for t in oa.get("v", [])):
                self.violate("v-touched", "undirected run modified the in-membership argument", dict(a.describe(), case=a.line("replay")))
            self.dist(a.variant())
        # the random start itself on scripted draws (values at and below 1e-6 included): mirrored entries share one draw
        init_functor_stage(self, "asymmetric-random-start", ["r"])
        # symmetric affinity from the random start (general model)
        runs = {"sy%d" % n: random_run(rng, variants=[(False, False, "r")], K=rng.choice([2, 3, 4]), maxit=rng.choice([1, 5, 20, 40]))
                for n in range(60 if self.tier == "quick" else 600)}
        io2, _ = self.correspond("run", [rc.line(c) for c, rc in runs.items()], drift=True)
        for cid, rc in runs.items():
            o = io2.get(cid)
            if not o or o.get("err") != ["0"]:
                continue
            self.monitor("symmetry examined")
            w = floats(o["aff"])
            K, L = rc.K, rc.L
            for a in range(L):
                for k in range(K):
                    for q in range(k):
                        x, y = w[a * K * K + q * K + k], w[a * K * K + k * K + q]
                        if not ref.close(x, y, 1e-9, 0.0):
                            # one side snapped, the other within rounding of the threshold
                            if (x == 0 and abs(y - ref.EPS) < 1e-9 * ref.EPS) or (y == 0 and abs(x - ref.EPS) < 1e-9 * ref.EPS):
                                continue
                            self.violate("asymmetric-affinity", "layer %d: w[%d][%d]=%r != w[%d][%d]=%r from the random start" % (a, k, q, x, q, k, y),
                                         dict(rc.describe(), case=rc.line("replay")))
            self.nontrivial(("sym", str(rc.recs), rc.seed, rc.K))
        self.cov["rule"] = ("undirected runs (general and assortative, random and user-supplied start, K 2-4): each paired with a copy in which a random "
                            "subset of records whose endpoints were both seen before (or self-loops) is reversed; outputs and built graphs compared bitwise; "
                            "in-membership argument pre-filled with sentinels; symmetry of the inferred affinity from the random start (1e-9 relative); "
                            "non-trivial = at least one record reversed; distinct by (variant, records, reversed records, seed)")


# ------------------------------------------------------------------------------ C12

class C12(Check):
    pid = "C12"
    lean_modules = ["MTProps.C12", "MTProps.CodeGraph", "MTProps.CodeMain"]

    def body(self):
        rng = self.rng
        trip = {}
        for n in range(60 if self.tier == "quick" else 600):
            rc = random_run(rng, variants=ALL_VARIANTS, ltwt=("u", "u"), maxit=rng.choice([1, 4, 11]))
            labs = gen.first_appearance(rc.recs)
            maps = []
            # order-reversing, sparse/huge, negative ints, strings
            big = rng.sample(range(10 ** 3, 2 ** 62), len(labs))
            maps.append(("u", dict(zip(labs, sorted(big, reverse=True)))))
            maps.append(("u", dict(zip(labs, [2 ** 63 + 5 * i for i in range(len(labs))][::-1]))))
            neg = rng.sample(range(-2 ** 31 + 1, 2 ** 31 - 1), len(labs))
            maps.append(("i", dict(zip(labs, neg))))
            names = rng.sample(["zeta", "alpha", "M", "m", "10", "9", "_", "node-1", "Z9", "b", "aa", "a"], len(labs)) if len(labs) <= 12 else None
            if names:
                maps.append(("s", dict(zip(labs, names))))
            # floating-point labels: distinct doubles are distinct vertices however close they are
            fl = rng.choice([lambda i: i + 0.5, lambda i: 4.0e6 + i, lambda i: 0.25 + i * 2.0 ** -22, lambda i: 1e300 * (1 + i * 2.0 ** -40),
                             lambda i: -3.5 + i * 1e-9])
            maps.append(("d", dict(zip(labs, [float(fl(i)) for i in rng.sample(range(len(labs) + 3), len(labs))]))))
            trip["l%d" % n] = (rc, maps)
        # one input of realistic size: more records than any 16-bit counter or small-input shortcut covers
        for n in range(1 if self.tier == "quick" else 3):
            N = rng.randint(120, 260)
            recs = [(rng.randrange(N), rng.randrange(N), [rng.choice([0, 1, 1, 2])]) for _ in range(rng.randint(66000, 72000))]
            rc = RunCase(rng.random() < 0.5, False, "r", 2, recs, 1, r=1, maxit=1, seed=rng.randint(0, 2 ** 32))
            labs = gen.first_appearance(recs)
            big = rng.sample(range(10 ** 3, 2 ** 62), len(labs))
            trip["big%d" % n] = (rc, [("u", dict(zip(labs, sorted(big, reverse=True)))), ("s", {x: "n%d" % (7 * x % 1009) + "x" * (x % 3) + str(x) for x in labs})])
        lines = []
        for cid, (rc, maps) in trip.items():
            lines.append(rc.line(cid + ".0"))
            for mi, (lt, mp) in enumerate(maps):
                d2 = dict(rc.__dict__)
                d2["lt"] = lt
                d2["recs"] = [(mp[s], mp[d], ws) for s, d, ws in rc.recs]
                # the caller's label container is not always empty: reused from an earlier run, partly right, too long
                d2["lprior"] = (mi + len(rc.recs)) % 5
                lines.append(RunCase(**d2).line("%s.%d" % (cid, mi + 1)))
        io, mo = self.correspond("run", lines, drift=True)
        for cid, (rc, maps) in trip.items():
            base = io.get(cid + ".0")
            if not base or base.get("err") != ["0"]:
                continue
            for mi, (lt, mp) in enumerate(maps):
                o = io.get("%s.%d" % (cid, mi + 1))
                if not o:
                    continue
                self.monitor("relabelled pairs")
                diff = [x for x in NUMERIC_KEYS if o.get(x) != base.get(x)]
                want = [hexf(mp[int(x)]) if lt == "d" else str(mp[int(x)]) for x in base["labels"]]
                if o.get("labels") != want:
                    diff.append("labels %s != %s" % (o.get("labels"), want))
                self.nontrivial((lt, str(sorted(mp.items())), str(rc.recs), rc.seed))
                self.dist("label type " + lt)
                self.sample({"label_type": lt, "map": {str(k): str(v) for k, v in list(mp.items())[:4]}, "identical": not diff})
                if diff:
                    self.violate("label-dependent", "relabelling (type %s) changes %s" % (lt, diff),
                                 dict(rc.describe(), label_map={str(k): str(v) for k, v in mp.items()}, new_label_type=lt,
                                      case_original=rc.line("a")))
        self.cli_relabel(rng)
        self.cov["rule"] = ("each run paired with 3-4 injective relabellings of the same records: order-reversing huge size_t (up to 2^63+), negative int, "
                            "std::string; numeric results compared bitwise, rows must carry the mapped labels; distinct by (label type, map, records, seed)")


def _c12_cli_relabel(self, rng):
    """the same property through the command line: adjacency files that differ only by an injective
    relabelling (incl. labels >= 2^31, >= 2^32) must give files that differ only in the row labels"""
    import os
    import shutil
    from .props_c import render_adjacency, run_cli, read_tokens
    work = os.path.join(self.bdir, "scratch", "p%d_" % os.getpid() + "cli12")
    for k in range(6 if self.tier == "quick" else 40):
        directed, assort = rng.random() < 0.5, rng.random() < 0.5
        K = rng.choice([2, 3])
        recs, L = gen.records(rng, wt="u", N=rng.randint(3, 6))
        labs = gen.first_appearance(recs)
        pool = [2 ** 31, 2 ** 31 + 7, 2 ** 32, 2 ** 32 + 5, 3000000000, 10 ** 12, 2 ** 62, 2 ** 63 + 11, 4, 99]
        if k % 2:
            # composite ids (shard << 32 | local): different labels that agree in their low 32 bits, or in their high ones
            pool = [101, 2 ** 32 + 101, 2 ** 33 + 101, 7, 2 ** 32 + 7, 5 * 2 ** 32 + 7, 2 ** 40 + 3, 2 ** 40 + 2 ** 32 + 3, 2 ** 63 + 101, 2 ** 32]
        mp = dict(zip(labs, rng.sample(pool, len(labs))))
        recs2 = [(mp[s], mp[d], ws) for s, d, ws in recs]
        argv = ["--k", str(K), "--s", "17", "--maxit", "6"] + ([] if directed else ["--undirected"]) + (["--assortative"] if assort else [])
        style = {"blank": False, "indent": False, "trailing": False, "eol": "\n", "final_newline": True}
        ra = run_cli(self.bdir, argv, {"adjacency.dat": render_adjacency(rng, recs, style)}, os.path.join(work, "a%d" % k))
        rb = run_cli(self.bdir, argv, {"adjacency.dat": render_adjacency(rng, recs2, style)}, os.path.join(work, "b%d" % k))
        self.cov["evaluations"] += 2
        self.monitor("command-line relabelled pairs")
        replay = {"argv": argv, "files": {"adjacency.dat": render_adjacency(rng, recs2, style)}, "label_map": {str(a): str(b) for a, b in mp.items()},
                  "original_records": recs}
        if ra.rc != 0 or rb.rc != 0:
            self.violate("label-dependent", "command line fails on a relabelled file (status %s / %s): %s" % (ra.rc, rb.rc, rb.err[-200:]), replay)
            continue
        bad = []
        for name in sorted(set(ra.files) | set(rb.files)):
            if name not in ra.files or name not in rb.files:
                bad.append("file %s missing on one side" % name)
                continue
            ta, tb = read_tokens(ra.files[name]), read_tokens(rb.files[name])
            if name.endswith("run_info.dat"):
                ta = [l for l in ta if l[:2] != ["#", "Duration"]]
                tb = [l for l in tb if l[:2] != ["#", "Duration"]]
            if name.endswith("u_out.dat") or name.endswith("v_out.dat"):
                ta = [[str(mp.get(int(l[0]), l[0]))] + l[1:] if l and l[0] != "#" else l for l in ta]
            if ta != tb:
                bad.append("%s differs beyond the row labels" % name)
        self.nontrivial(("cli", str(recs2)))
        if bad:
            self.violate("label-dependent", "command line: relabelling with huge labels changes the result: " + "; ".join(bad), replay)
    shutil.rmtree(work, ignore_errors=True)


C12.cli_relabel = _c12_cli_relabel


# ------------------------------------------------------------------------------ C15

class C15(Check):
    pid = "C15"
    lean_modules = ["MTProps.C15", "MTProps.CodeMain", "MTProps.CodeCli"]

    def body(self):
        rng = self.rng
        cases, meta = [], {}
        n = 0
        # a valid centre and one-off values of every size around it
        centres = [(3, 2, 2, 3), (2, 1, 2, 2), (4, 1, 3, 3)] if self.tier == "quick" else [(3, 2, 2, 3), (2, 1, 2, 2), (4, 1, 3, 3), (5, 3, 4, 4), (3, 1, 2, 3)]
        for (E, L, K, N) in centres:
            for directed in (True, False):
                for assort in (False, True):
                    for init in "rf":
                        aff = K * L if assort else K * K * L
                        base = dict(nstart=E, nend=E, nweights=E * L, naff=aff, ndistinct=N, usize=N * K, r=1, maxit=1, nconv=1)
                        variants = [base]
                        for key, vals in (("nstart", [0, E - 1, E + 1]), ("nend", [0, E - 1, E + 1]),
                                          ("nweights", [0, E * L - 1, E * L + 1, E * (L + 1), E * max(L - 1, 0)]),
                                          ("naff", [0, aff - 1, aff + 1, (1 if assort else 1) * L, (K + 1) * L if assort else (K + 1) * (K + 1) * L, 2 * L if assort else 4 * L]),
                                          ("ndistinct", [1, N - 1, N + 1, 2]), ("usize", [0, N * K - 1, N * K + 1, N, K]),
                                          ("r", [0, 2]), ("maxit", [0, 2]), ("nconv", [0, 2])):
                            for v in vals:
                                if v < 0:
                                    continue
                                d = dict(base)
                                d[key] = v
                                variants.append(d)
                        # the values of the out-membership container moved out (a results store took them): it holds nothing
                        variants.append(dict(base, umoved=1))
                        # pairs of simultaneous deviations (the order of the checks matters)
                        for _ in range(6):
                            d = dict(base)
                            for key in rng.sample(list(base), 2):
                                d[key] = max(0, d[key] + rng.choice([-1, 1]))
                            variants.append(d)
                        for d in variants:
                            tot = d["nstart"] + d["nend"]
                            if tot and (d["ndistinct"] > tot or d["ndistinct"] < 1):
                                continue
                            if tot == 0:
                                d["ndistinct"] = 1
                            # usize must stay consistent with ndistinct when only ndistinct moves: keep as given
                            cid = "v%d" % n
                            n += 1
                            t = [cid, "validate", int(directed), int(assort), init] + [d[k] for k in
                                 ("nstart", "nend", "nweights", "naff", "ndistinct", "usize", "r", "maxit", "nconv")]
                            if d.get("umoved"):
                                t.append(1)
                            cases.append(" ".join(map(str, t)))
                            meta[cid] = (directed, assort, init, d)
        io, mo = self.correspond("validate", cases, keys=["err"])
        for cid, (directed, assort, init, d) in meta.items():
            o = io.get(cid)
            if not o or "err" not in o:
                continue
            self.monitor("shape vectors")
            E, W, A = d["nstart"], d["nweights"], d["naff"]
            # the documented acceptance predicate
            ok = E >= 1 and d["nend"] == E and W % E == 0 and W // E >= 1
            if ok:
                L = W // E
                if assort:
                    Kk = A // L
                    ok = A % L == 0 and Kk >= 2
                else:
                    Kk = math.isqrt(A // L)
                    ok = Kk >= 2 and Kk * Kk * L == A
                ok = ok and d["ndistinct"] >= 2 and d["usize"] == d["ndistinct"] * Kk and d["r"] >= 1 and d["maxit"] >= 1 and d["nconv"] >= 1
                ok = ok and not d.get("umoved")     # a container whose values were moved out holds 0 elements
            accepted = o["err"] == ["0"]
            self.nontrivial((directed, assort, init, tuple(sorted(d.items()))))
            self.dist("accepted" if accepted else "rejected:%s" % o["err"][0])
            if len(self.cov["samples"]) < 4 and not accepted:
                self.sample({"shapes": d, "variant": (directed, assort, init), "error": o["err"][0], "untouched": o.get("untouched")})
            if accepted != ok:
                self.violate("validation", "shapes %s (%s): %s, documented predicate says %s" % (d, (directed, assort, init), "accepted" if accepted else "rejected", "accept" if ok else "reject"),
                             {"shapes": d, "directed": directed, "assortative": assort, "init": init, "case": [c for c in cases if c.startswith(cid + " ")][0]})
            if not accepted and o.get("untouched") != ["1"]:
                self.violate("outputs-modified-on-reject", "a rejected call modified an output argument", {"shapes": d, "directed": directed, "assortative": assort, "init": init,
                                                                                                          "case": [c for c in cases if c.startswith(cid + " ")][0]})
        self.cli_rejections(rng)
        self.cov["rule"] = ("shape vectors with every size at boundary-1, boundary, boundary+1 around valid centres (and random pairs of deviations) x all 8 variants; "
                            "outputs pre-filled with sentinels; oracle = the documented acceptance predicate; distinct by (variant, shape vector)")


def _c15_cli_rejections(self, rng):
    """invalid invocations of the binary: abnormal termination, no result file created or altered"""
    import hashlib
    import os
    import shutil
    from .props_c import render_adjacency, render_affinity, run_cli, sanitizer_report
    work = os.path.join(self.bdir, "scratch", "p%d_" % os.getpid() + "cli15")
    good_recs = [(0, 1, [1, 0]), (1, 2, [1, 1]), (2, 0, [0, 2]), (0, 2, [1, 0])]
    adj = render_adjacency(rng, good_recs, {"blank": False})
    cases = [
        ("k=1", ["--k", "1", "--s", "3"], {"adjacency.dat": adj}),
        ("no --k", ["--s", "3"], {"adjacency.dat": adj}),
        ("r=0", ["--k", "2", "--r", "0", "--s", "3"], {"adjacency.dat": adj}),
        ("maxit=0", ["--k", "2", "--maxit", "0", "--s", "3"], {"adjacency.dat": adj}),
        ("y=0", ["--k", "2", "--y", "0", "--s", "3"], {"adjacency.dat": adj}),
        ("one vertex", ["--k", "2", "--s", "3"], {"adjacency.dat": "4 4 1 1\n4 4 2 0\n"}),
        ("missing adjacency file", ["--k", "2", "--s", "3", "--a", "nope.dat"], {"adjacency.dat": adj}),
        ("affinity file with wrong K", ["--k", "3", "--s", "3", "--w", "w.dat"],
         {"adjacency.dat": adj, "w.dat": render_affinity(rng, [[0.5, 0.4], [0.3, 0.2]], 2, 2)}),
        ("affinity file with wrong L", ["--k", "2", "--s", "3", "--w", "w.dat", "--assortative"],
         {"adjacency.dat": adj, "w.dat": render_affinity(rng, [[0.5, 0.4]], 2, 1)}),
        ("missing affinity file", ["--k", "2", "--s", "3", "--w", "nope.dat"], {"adjacency.dat": adj}),
        ("ragged weights", ["--k", "2", "--s", "3"], {"adjacency.dat": "0 1 1 0\n1 2 1\n2 0 0 2\n"}),
    ]
    mlines = []
    for n, (what, argv, files) in enumerate(cases):
        aff = files.get("w.dat")
        adjname = "nope.dat" if "nope.dat" in argv and "--a" in argv else "adjacency.dat"
        adjbytes = files.get(adjname)
        if adjbytes is None:
            continue
        mlines.append(" ".join(["cr%d" % n, "clirun", str(len(argv) + 1), "Multitensor"] + argv +
                               [C.hexbytes(adjbytes), "1" if aff is not None else "0", C.hexbytes(aff or "")]))
    try:
        mo = C.run_model(mlines)
    except C.BuildError:
        mo = {}
    for n, (what, argv, files) in enumerate(cases):
        for pre in (False, True):
            wd = os.path.join(work, "c%d_%d" % (n, int(pre)))
            allfiles = dict(files)
            if pre:  # results of an earlier run are present and must stay as they are
                allfiles["results/u_out.dat"] = "# earlier\n0 1 2\n"
                allfiles["results/run_info.dat"] = "# earlier info\n"
                os.makedirs(os.path.join(wd, "results"), exist_ok=True)
            shutil.rmtree(wd, ignore_errors=True)
            os.makedirs(os.path.join(wd, "results")) if pre else None
            r = run_cli(self.bdir, argv, {k: v for k, v in allfiles.items() if "/" not in k}, wd) if not pre else None
            if pre:
                # run_cli wipes the directory: create the earlier results after it prepared the inputs
                os.makedirs(wd, exist_ok=True)
                for name, content in allfiles.items():
                    pth = os.path.join(wd, name)
                    os.makedirs(os.path.dirname(pth), exist_ok=True)
                    open(pth, "w").write(content)
                before = {f: hashlib.sha1(open(os.path.join(wd, f), "rb").read()).hexdigest() for f in ("results/u_out.dat", "results/run_info.dat")}
                env = dict(os.environ)
                env.update(C.SAN_ENV)
                env["ASAN_OPTIONS"] += ":detect_leaks=0"
                import subprocess
                p = subprocess.run([os.path.join(self.bdir, "Multitensor")] + argv, cwd=wd, stdout=subprocess.PIPE, stderr=subprocess.PIPE, text=True, env=env)
                rc, err = p.returncode, p.stderr
                created = [f for f in os.listdir(os.path.join(wd, "results")) if "results/" + f not in before]
                after = {f: (hashlib.sha1(open(os.path.join(wd, f), "rb").read()).hexdigest()
                             if os.path.exists(os.path.join(wd, f)) else "<deleted>") for f in before}
                altered = created or after != before
            else:
                rc, err = r.rc, r.err
                altered = bool(r.files)
            self.cov["evaluations"] += 1
            self.monitor("invalid command lines")
            self.nontrivial(("cli", what, pre))
            replay = {"what": what, "argv": argv, "files": files, "exit_status": rc, "stderr": err[-800:]}
            if sanitizer_report(err) and "division by zero" not in err:
                self.violate("cli-memory-error", "invalid invocation (%s) hits a sanitizer/assertion failure" % what, replay)
            elif rc == 0:
                self.violate("cli-accepts-invalid", "invalid invocation (%s) terminated normally" % what, replay)
            elif altered:
                self.violate("cli-partial-files", "invalid invocation (%s) created, altered or deleted result files" % what, replay)
        m = mo.get("cr%d" % n)
        if m is not None and m.get("exit") != ["error"]:
            self.corr_broken.append(("clirun", "cr%d" % n, "exit", "model accepts the invalid invocation (%s)" % what, " ".join(argv)))
    shutil.rmtree(work, ignore_errors=True)


C15.cli_rejections = _c15_cli_rejections


# ------------------------------------------------------------------------------ C17

def init_functor_stage(self, key, kinds):
    """the initialisers of initialization.hpp called directly on a scripted stream of draws (tiny values, zeros and values
    next to one included), several calls in a row on one generator and one functor object.  What each call must
    leave is the documented closed form; the model runs the same lines (correspondence)."""
    rng = self.rng
    n = 60 if self.tier == "quick" else 600
    tiny = [0.0, 1e-7, 5e-7, 1e-6, 9.99999e-7, 1.0000001e-6, 0.9999999, 1e-300]
    cases, meta = [], {}
    for k in range(n):
        kind = rng.choice(kinds)
        assort = rng.random() < 0.5 and kind != "m"
        K, L, ncalls = rng.randint(1, 4), rng.randint(1, 4), rng.randint(1, 3)
        nd = rng.randint(3, 40)
        ds = [rng.choice(tiny) if rng.random() < 0.25 else rng.random() for _ in range(nd)]
        if kind == "m":
            N = L = rng.randint(1, 6)
            els = sorted(rng.sample(range(N), rng.randint(0, N)))
            rng.shuffle(els)
            tail = [str(len(els))] + [str(e) for e in els]
            aff = els
        else:
            aff = [rng.choice([rng.random(), rng.random(), 0.0, 1e-7]) for _ in range((K if assort else K * K) * L)]
            tail = gen.flist(aff)
        cid = "if%d" % k
        cases.append(" ".join([cid, "initf", kind, str(int(assort)), str(K), str(L), str(ncalls)] + gen.flist(ds) + tail))
        meta[cid] = (kind, assort, K, L, ncalls, ds, aff)
    io, mo = self.correspond("initf", cases)
    for cid, (kind, assort, K, L, ncalls, ds, aff) in meta.items():
        o = io.get(cid)
        if not o or "t0" not in o:
            continue
        self.monitor("initialiser calls on scripted draws", ncalls)
        self.nontrivial(("initf", kind, assort, K, L, ncalls, tuple(ds), tuple(aff)))
        self.dist("initialiser " + kind + ("/diagonal" if assort else ""))
        d = lambda t: ds[t % len(ds)]
        pos = 0
        prev = [0.0] * (L * K)
        for i in range(ncalls):
            got = floats(o["t%d" % i])
            if kind == "r":
                if assort:
                    want = [d(pos + a * K + k2) for a in range(L) for k2 in range(K)]
                    used = L * K
                else:
                    tri = K * (K + 1) // 2
                    def tp(i2, j2):
                        lo, hi = min(i2, j2), max(i2, j2)
                        return lo * K - lo * (lo - 1) // 2 + (hi - lo)
                    want = [d(pos + a * tri + tp(k2, q)) for a in range(L) for q in range(K) for k2 in range(K)]
                    used = L * tri
            elif kind == "f":
                if assort:
                    want = [aff[a * K + k2] + ref.NOISE * d(pos + a * K + k2) for a in range(L) for k2 in range(K)]
                    used = L * K
                else:
                    want = [aff[a * K * K + q * K + k2] + ref.NOISE * d(pos + a * K * K + k2 * K + q)
                            for a in range(L) for q in range(K) for k2 in range(K)]
                    used = L * K * K
            else:
                N, els = L, aff
                want = list(prev)
                for k2 in range(K):
                    for n2, j in enumerate(els):
                        want[k2 * N + j] = d(pos + k2 * len(els) + n2)
                used = K * len(els)
                prev = want
            pos += used
            bad = []
            if got != want:
                bad.append("tensor after the call is %s, documented start is %s" % (got[:8], want[:8]))
            if int(o["pos%d" % i][0]) != pos:
                bad.append("%s draws consumed so far, documented %d" % (o["pos%d" % i][0], pos))
            if bad:
                self.violate(key, "initialiser %s%s, K=%d L=%d, call %d of %d on one generator: %s"
                             % ({"r": "init_symmetric_tensor_random", "f": "init_symmetric_tensor_from_initial", "m": "init_tensor_rows_random"}[kind],
                                " (diagonal tensor)" if assort else "", K, L, i + 1, ncalls, "; ".join(bad)),
                             {"kind": kind, "assortative": assort, "K": K, "L_or_rows": L, "draws": ds, "tensor_or_rows": aff, "call": i,
                              "case": [c for c in cases if c.startswith(cid + " ")][0]})
                break


class C17(Check):
    pid = "C17"
    lean_modules = ["MTProps.C17", "MTProps.CodeRun", "MTProps.CodeInit"]

    def body(self):
        rng = self.rng
        # (i) the generator model itself, bit-exact against libstdc++ (and the Python reference)
        seeds = [0, 1, 5489, 2 ** 31, 2 ** 32 - 1, 2 ** 32, 2 ** 32 + 5489, 2 ** 40 + 3] + [rng.randint(0, 2 ** 34) for _ in range(8)]
        nd = 2000 if self.tier == "quick" else 10000
        cases = ["g%d rng %d %d" % (i, s, nd) for i, s in enumerate(seeds)]
        io, mo = self.correspond("rng", cases)
        for i, s in enumerate(seeds):
            o = io.get("g%d" % i)
            if not o:
                continue
            st = ref.mt19937_stream(s)
            want = [next(st) for _ in range(nd)]
            self.monitor("stream comparisons")
            if floats(o["d"]) != want:
                self.violate("stream", "uniform stream for seed %d differs from mt19937/uniform[0,1)" % s, {"seed": s})
        # (i') the initialisers themselves on scripted draws (values at and below 1e-6, zero, next to one)
        init_functor_stage(self, "initialiser-on-scripted-draws", ["r", "r", "m", "f"])
        # (ii) starts of real runs: multiset per realization == i-th consecutive segment
        # a third of the calls hand in non-zero output containers: starts must not depend on them
        runs = {"in%d" % k: random_run(rng, tr=1, variants=ALL_VARIANTS, r=rng.randint(1, 5), maxit=1,
                                       prior=rng.choice([0.0, 0.0, 4.0]),
                                       seed=rng.choice([rng.randint(0, 2 ** 32), 2 ** 32 + rng.randint(0, 1000)]))
                for k in range(120 if self.tier == "quick" else 1500)}
        for k, rc in enumerate(runs.values()):
            if k % 5 == 2:
                rc.ushape = rng.choice([1, 2, 3])    # the caller's out-membership container in another shape (N*K elements)
                rc.vshape = rng.choice([0, 1, 2, 3, 4])
        io2, mo2 = self.correspond("run", [rc.line(c) for c, rc in runs.items()],
                                   keys=lambda a, b: [k for k in a if k[0] == "s" and k != "seed"], drift=True)
        for cid, rc in runs.items():
            o = io2.get(cid)
            if not o or o.get("err") != ["0"]:
                continue
            net = rc.net()
            K, L, N = rc.K, rc.L, net.N
            st = ref.mt19937_stream(rc.seed)
            self.dist(rc.variant())
            for i in range(rc.r):
                u, v, w = floats(o["s%d.u" % i]), floats(o["s%d.v" % i]), floats(o["s%d.w" % i])
                self.monitor("starts examined")
                bad = []
                # expected number of draws
                if rc.init == "r":
                    nw = L * K if rc.assort else L * K * (K + 1) // 2
                else:
                    nw = L * K if rc.assort else L * K * K
                nv = K * len(net.V) if rc.directed else 0
                nu = K * len(net.U)
                seg = [next(st) for _ in range(nw + nv + nu)]
                # memberships: rows of U / V are draws, others zero
                um = [u[k * N + i2] for k in range(K) for i2 in net.U]
                uz = [u[k * N + i2] for k in range(K) for i2 in range(N) if i2 not in net.U]
                if any(x != 0 for x in uz):
                    bad.append("a vertex without out-edges starts with a non-zero row")
                got = list(um)
                if rc.directed:
                    vm = [v[k * N + i2] for k in range(K) for i2 in net.V]
                    vz = [v[k * N + i2] for k in range(K) for i2 in range(N) if i2 not in net.V]
                    if any(x != 0 for x in vz):
                        bad.append("a vertex without in-edges starts with a non-zero row")
                    got += vm
                # affinity
                if rc.init == "r":
                    if rc.assort:
                        got += w
                    else:
                        for a in range(L):
                            for k in range(K):
                                for q in range(k, K):
                                    x, y = w[a * K * K + q * K + k], w[a * K * K + k * K + q]
                                    if x != y:
                                        bad.append("random affinity start not symmetric")
                                    got.append(x)
                    if not all(0 <= x < 1 for x in w):
                        bad.append("random affinity entry outside [0,1)")
                else:
                    noise = [x - a0 for x, a0 in zip(w, rc.aff)]
                    if not all(-1e-12 <= x < ref.NOISE + 1e-12 for x in noise):
                        bad.append("noise outside [0,0.1): %s" % noise[:4])
                    # compare noise against 0.1*draw by reconstruction: file value + 0.1*draw, exactly
                    wseg = seg[:nw]
                    cand = sorted(a0 + ref.NOISE * d for a0, d in zip(rc.aff, wseg))
                    # position-agnostic: the multiset of (entry - file value) must be {0.1*draw}
                    if sorted(noise) != sorted(x - a0 for x, a0 in zip([a0 + ref.NOISE * d for a0, d in zip(rc.aff, wseg)], rc.aff)):
                        # tolerate a different assignment of draws to entries: compare multisets of recovered draws
                        rec = sorted((x - a0) / ref.NOISE for x, a0 in zip(w, rc.aff))
                        if not ref.vec_close(rec, sorted(wseg), 1e-9, 1e-12):
                            bad.append("user-supplied start is not file value + 0.1 x (next draws)")
                    seg = seg[nw:]
                if sorted(got) != sorted(seg):
                    bad.append("the multiset of initial entries of realization %d is not the %d-th consecutive segment of the stream" % (i, i))
                if not all(0 <= x < 1 for x in um):
                    bad.append("membership start outside [0,1)")
                if rc.r >= 2:
                    self.nontrivial((rc.variant(), str(rc.recs), rc.seed, i))
                if len(self.cov["samples"]) < 3:
                    self.sample({"variant": rc.variant(), "seed": rc.seed, "realization": i, "draws_consumed": nw + nv + nu, "first_draws": seg[:3]})
                if bad:
                    self.violate("initialisation", "; ".join(bad), dict(rc.describe(), realization=i, case=rc.line("replay")))
                    break
        self.cov["rule"] = ("(i) %d draws for 16 seeds (incl. >= 2^32, truncated as the code does): C++ vs Lean model vs an independent Python stream, bitwise; "
                            "(ii) realization_start events of real runs (all variants, r 1-5) vs the reference stream as multisets per realization; "
                            "non-trivial = r >= 2; distinct by (variant, records, seed, realization)" % nd)


# ------------------------------------------------------------------------------ C18

class C18(Check):
    pid = "C18"
    lean_modules = ["MTProps.C18"]

    def big_tensors(self):
        """tensors with 2^32 elements and more (one byte each, 4.3 GB; unsanitized build of harness/bigidx.cpp): the
        theorem is for all dimensions, the exhaustive accessor correspondence stops at 6"""
        import subprocess
        import tempfile
        exe = os.path.join(tempfile.mkdtemp(prefix="bigidx"), "bigidx")
        r = C.run(["g++", "-std=c++17", "-O1", "-I" + os.path.join(C.REPO, "include"), os.path.join(C.VERIF, "harness", "bigidx.cpp"), "-o", exe])
        if r.returncode != 0:
            self.corr_broken.append(("bigidx", "-", "-", "harness/bigidx.cpp does not compile against the tree:\n" + r.stdout[-1500:], ""))
            return
        try:
            p = subprocess.run([exe], stdout=subprocess.PIPE, stderr=subprocess.STDOUT, text=True, timeout=600)
            out, rc = p.stdout, p.returncode
        except subprocess.TimeoutExpired:
            out, rc = "TIMEOUT", -999
        finally:
            import shutil
            shutil.rmtree(os.path.dirname(exe), ignore_errors=True)
        self.cov["evaluations"] += 3
        self.monitor("tensors of 2^32 elements and more probed", 3)
        if rc != 0:
            bad = [l for l in out.splitlines() if not l.endswith(": ok")]
            self.violate("layout-beyond-2^32", "; ".join(bad[:3]) or "probe aborted (status %s)" % rc,
                         {"program": "harness/bigidx.cpp (g++ -O1, no sanitizers)", "output": out[-1500:]})

    def search(self):
        self.big_tensors()
        Check.search(self)

    def body(self):
        if self.tier == "thorough" and not getattr(self, "_big_done", False):
            self._big_done = True
            self.big_tensors()
        # the Python front end as a user of the layout: the affinity blocks it hands back (the statements after the dispatch of
        # multitensor.pyx, run as Python with a numpy stand-in)
        from . import pyxsim
        try:
            fe = pyxsim.search_epilogue(open(os.path.join(C.REPO, "python", "package", "multitensor.pyx")).read())
        except Exception:
            fe = None
        self.cov["pyx_epilogue_simulated"] = fe is not None
        for f in [x for x in (fe or []) if "affinity block" in x["what"]][:2]:
            self.violate("python-affinity-layout", "after a run with %s: %s" % (f["case"], f["what"]), f)
        # where the initialiser puts the entries of a caller-supplied tensor (every call of a functor object, not only the first)
        init_functor_stage(self, "initial-tensor-entries-misplaced", ["f"])
        D = 6
        cases = ["i%d_%d_%d idx %d %d %d" % (R, Cc, T, R, Cc, T) for R in range(1, D + 1) for Cc in range(1, D + 1) for T in range(1, D + 1)]
        io, mo = self.correspond("idx", cases)
        for R in range(1, D + 1):
            for Cc in range(1, D + 1):
                for T in range(1, D + 1):
                    o = io.get("i%d_%d_%d" % (R, Cc, T))
                    if not o or "pos" not in o:
                        continue
                    self.monitor("dimension triples")
                    want = [a * R * Cc + j * R + i for i in range(R) for j in range(Cc) for a in range(T)]
                    got = [int(x) for x in o["pos"]]
                    bad = []
                    if got != want:
                        bad.append("element (i,j,a) not at a*R*C + j*R + i")
                    if sorted(got) != list(range(R * Cc * T)):
                        bad.append("not a bijection onto 0..size-1")
                    wantT = [a * R * Cc + i * R + j for i in range(Cc) for j in range(R) for a in range(T)]
                    if [int(x) for x in o["tpos"]] != wantT:
                        bad.append("transposed view does not expose (i,j,a) as (j,i,a)")
                    if [int(x) for x in o["mpos"]] != [j * R + i for i in range(R) for j in range(Cc)]:
                        bad.append("matrix accessor")
                    if [int(x) for x in o["dpos"]] != [a * R + i for i in range(R) for a in range(T)]:
                        bad.append("diagonal-tensor accessor (C=1)")
                    if o.get("copies") != ["1"]:
                        bad.append("a copy (constructed, assigned into another shape, moved) of a tensor / matrix / diagonal / symmetric tensor differs from the original")
                    if [int(x) for x in o.get("pos2", [])] != [j * R + i for i in range(R) for j in range(Cc)]:
                        bad.append("two-index form t(i,j) of a tensor is not element (i,j) of layer 0 (const and non-const accessor)")
                    if [int(x) for x in o.get("tpos2", [])] != [i * R + j for i in range(Cc) for j in range(R)]:
                        bad.append("two-index form of the transposed view does not expose (i,j) as (j,i) of layer 0")
                    self.nontrivial((R, Cc, T))
                    if bad:
                        self.violate("layout", "R=%d C=%d T=%d: %s" % (R, Cc, T, "; ".join(bad)), {"R": R, "C": Cc, "T": T, "case": "replay idx %d %d %d" % (R, Cc, T)})
        # multi-step use: a sized tensor resized to another shape (same or different element count)
        rcases = []
        shapes = [(R, Cc, T) for R in range(1, 4) for Cc in range(1, 4) for T in range(1, 4)]
        for (R, Cc, T) in shapes:
            for (R2, C2, T2) in shapes:
                if (R, Cc, T) != (R2, C2, T2) and (R * Cc * T == R2 * C2 * T2 or (R + Cc + T2) % 5 == 0):
                    rcases.append("rt%d%d%d_%d%d%d idxr t %d %d %d %d %d %d" % (R, Cc, T, R2, C2, T2, R, Cc, T, R2, C2, T2))
        for kind in "msd":
            for (R, T) in [(2, 3), (3, 2), (1, 4), (4, 1), (2, 2), (6, 1), (1, 6), (3, 4), (4, 3), (2, 6)]:
                for (R2, T2) in [(3, 2), (2, 3), (4, 1), (1, 4), (6, 1), (2, 2), (4, 3), (3, 4), (6, 2)]:
                    rcases.append("r%s%d%d_%d%d idxr %s %d %d %d %d %d %d" % (kind, R, T, R2, T2, kind, R, T, T, R2, T2, T2))
        ior, _ = self.correspond("idx-after-resize", rcases)
        for line in rcases:
            cid = line.split()[0]
            o = ior.get(cid)
            if not o or "pos" not in o:
                continue
            self.monitor("resized tensors")
            dims = [int(x) for x in o["dims"]]
            R2, C2, T2 = dims
            want = [a * R2 * C2 + j * R2 + i for i in range(R2) for j in range(C2) for a in range(T2)]
            self.nontrivial(("resize", cid))
            if [int(x) for x in o["pos"]] != want or int(o["size"][0]) != R2 * C2 * T2:
                self.violate("layout-after-resize", "after a resize the element (i,j,a) is not at a*R*C + j*R + i of the new shape %s" % dims,
                             {"case": line})
        # the writer
        wcases, meta = [], {}
        for K in range(1, 7):
            for L in range(1, 5):
                for assort in (False, True):
                    if K == 1 and not assort:
                        continue  # K*K*L == K*L: the writer cannot tell the layouts apart (and K >= 2 is required)
                    n = (K if assort else K * K) * L
                    vals = [float(p + 1) for p in range(n)]
                    cid = "w%d_%d_%d" % (K, L, int(assort))
                    wcases.append(" ".join([cid, "waff", str(K), str(L), "1", hexf(-3.5)] + gen.flist(vals)))
                    meta[cid] = (K, L, assort)
        io2, mo2 = self.correspond("waff", wcases, rtol=1e-5)
        for cid, (K, L, assort) in meta.items():
            o = io2.get(cid)
            if not o:
                continue
            self.monitor("writer layouts")
            bad = []
            line = 1
            for a in range(L):
                if o.get("l%d" % line) != ["a=", str(a)]:
                    bad.append("block header of layer %d" % a)
                line += 1
                for k in range(K):
                    row = o.get("l%d" % line, [])
                    want = [float(k + a * K + 1)] if assort else [float(k + q * K + a * K * K + 1) for q in range(K)]
                    try:
                        got = [unhex(t) for t in row]
                    except Exception:
                        got = None
                    if got != want:
                        bad.append("layer %d row %d: %s, expected entries at flat k+q*K+a*K*K: %s" % (a, k, got, want))
                    line += 1
                line += 1
            self.nontrivial(("writer", K, L, assort))
            if bad:
                self.violate("writer-layout", "K=%d L=%d assortative=%s: %s" % (K, L, assort, "; ".join(bad[:3])),
                             {"K": K, "L": L, "assortative": assort, "case": [c for c in wcases if c.startswith(cid + " ")][0]})
        # the initial-affinity reader as a user of the layout: value g of the line of layer a lands at flat a*K*K + g*K + g
        # (general) / a*K + g (assortative), whatever the order of the lines in the file
        from .common import hexbytes as _hb
        rl, rmeta = [], {}
        for K in (2, 3, 4):
            for L in (2, 3, 4):
                for assort in (False, True):
                    for order in ("reversed", "rotated"):
                        ids = list(range(L))[::-1] if order == "reversed" else list(range(1, L)) + [0]
                        text = "".join("%d %s\n" % (a, " ".join(str(100 * a + g + 1) for g in range(K))) for a in ids)
                        cid = "ra%d%d%d%s" % (K, L, int(assort), order[:3])
                        size = (K if assort else K * K) * L
                        rl.append(" ".join([cid, "readaff", str(int(assort)), str(K), str(size), _hb(text)]))
                        rmeta[cid] = (K, L, assort, text)
        ioa, _ = self.correspond("readaff@layout", rl, rtol=1e-12)
        for cid, (K, L, assort, text) in rmeta.items():
            o = ioa.get(cid)
            if not o or o.get("err") != ["0"]:
                continue
            self.monitor("reader layouts")
            self.nontrivial(("reader", K, L, assort, cid))
            w = [unhex(t) for t in o["w"]]
            bad = [(a, g) for a in range(L) for g in range(K)
                   if w[(a * K + g) if assort else (a * K * K + g * K + g)] != float(100 * a + g + 1)]
            if bad:
                self.violate("affinity-vector-layout", "K=%d L=%d %s: value of (layer, group) %s of the file is not at its flat position"
                             % (K, L, "assortative" if assort else "general", bad[:3]), {"K": K, "L": L, "assortative": assort, "file": text,
                                                                                       "case": [c for c in rl if c.startswith(cid + " ")][0]})
        # the views in use: whole calls (several realizations, every sweep observed) in the variants that read the
        # affinity through the transposed view (directed + general); each observed in-membership update must be the
        # update that reads w(q,k,a) at flat q + k*K + a*K*K of the *current* affinity
        from .props_a import random_run, trace_states, flat_state, run_transition_check
        rng = self.rng
        nuse = 10 if self.tier == "quick" else 80
        runs = {"tv%d" % k: random_run(rng, tr=2, variants=[(True, False, "r"), (True, False, "r"), (True, False, "f")],
                                       r=rng.choice([2, 3, 4]), maxit=rng.choice([2, 3, 5, 11]), K=rng.choice([2, 3, 3, 4]))
                for k in range(nuse)}
        iou, mou = self.correspond("run@transposed-view", [rc.line(c) for c, rc in runs.items()],
                                   keys=lambda a, b: [x for x in a if x.endswith(".v") or x == "v"], drift=True)
        for c, rc in runs.items():
            o = iou.get(c)
            if not o or o.get("err") != ["0"]:
                continue
            net = rc.net()
            for ri, seq in trace_states(rc, o, net).items():
                ok = True
                for t in range(len(seq) - 1):
                    u, v, w = flat_state(seq[t][1], net, rc.K, rc.L, rc.assort, rc.directed)
                    nu, nv, nw = flat_state(seq[t + 1][1], net, rc.K, rc.L, rc.assort, rc.directed)
                    self.monitor("transposed-view transitions")
                    self.nontrivial(("view-in-use", str(rc.recs), rc.seed, ri, t))
                    ok = run_transition_check(self, "transposed-view-in-use", rc, net, "realization %d sweep %d" % (ri, t + 1),
                                              u, v, w, nu, nv, nw,
                                              what="an update made through the tensor views inside a call is not the update of the "
                                                   "documented layout (transposed view = (j,i,a) of the current affinity)")
                    if not ok:
                        break
                if not ok:
                    break
        self.cov["exhaustive"] = True
        self.sample({"R": 2, "C": 3, "T": 2, "positions (i,j,a lexicographic)": io.get("i2_3_2", {}).get("pos")})
        self.cov["rule"] = ("exhaustive: all dimensions R,C,T <= 6 and all index triples through the real accessors (tensor, transposed view, matrix, diagonal tensor) "
                            "on position-encoding data; the real writer for all K <= 6, L <= 4, both layouts; distinct by dimensions")
