"""Checks for the front-end properties C13 C14 C16 C19."""
import json
import math
import os
import re
import shutil
import subprocess

from . import common as C
from . import gen, ref
from .base import Check
from .common import hexf, unhex, hexbytes
from .props_a import ALL_VARIANTS, RunCase, floats, random_run


# ------------------------------------------------------------------------------ file rendering

BIG_LABELS = [2 ** 53, 2 ** 53 + 1, 2 ** 53 + 2, 2 ** 53 + 3, 1234567890123456789, 1234567890123456790,
              2 ** 63 - 1, 2 ** 63, 2 ** 63 + 1, 2 ** 64 - 2, 2 ** 64 - 1, 7, 2 ** 32 + 7, 5 * 2 ** 32 + 7, 101, 2 ** 32 + 101]


def render_adjacency(rng, recs, style=None):
    """a well-formed adjacency file in a random layout allowed by the grammar"""
    style = style or {}
    eol = style.get("eol", rng.choice(["\n", "\n", "\r\n"]))
    lines = []
    for s, d, ws in recs:
        sep = lambda: rng.choice([" ", " ", "\t", "  ", " \t"])
        indent = rng.choice(["", "", " ", "\t", "   "]) if style.get("indent", True) else ""
        line = indent + str(s) + sep() + str(d)
        for w in ws:
            line += sep() + str(w)
        line += rng.choice(["", "", " ", "   "]) if style.get("trailing", True) else ""
        lines.append(line)
        if style.get("blank", True) and rng.random() < 0.15:
            lines.append(rng.choice(["", "", " ", "   ", "\t", " \t "]))
    text = eol.join(lines)
    if style.get("final_newline", rng.random() < 0.8):
        text += eol
    if style.get("blank", True) and rng.random() < 0.1:
        text = eol + text
    return text


def fmt6(x):
    return "%.6g" % x


def render_affinity(rng, diag, K, L, comments=True, shuffle=True):
    rows = []
    for a in range(L):
        sep = rng.choice([" ", " ", "\t", "  "])
        rows.append(str(a) + sep + sep.join(fmt6(diag[a][k]) for k in range(K)) + rng.choice(["", " ", " "]))
    if shuffle and rng.random() < 0.3:
        rng.shuffle(rows)
    out = []
    if comments and rng.random() < 0.6:
        out.append("# Max likelihood= -86883 N_real=1")
    for r in rows:
        out.append(r)
        t = rng.random()
        if t < 0.1:
            out.append("")
        elif comments and t < 0.2:
            # comments and blank-only lines are skipped wherever they stand: between the layers, after the last one
            out.append(rng.choice(["# layer %s done" % r.split()[0], "#", "   ", "\t", "# w_1 w_2"]))
    text = "\n".join(out) + ("\n" if rng.random() < 0.85 else "")
    if comments and rng.random() < 0.15:
        text = text.replace("\n", "\r\n")
    return text


def read_tokens(path):
    with open(path, errors="replace") as f:
        return [l.split() for l in f.read().split("\n")]


class CliRun:
    def __init__(self, rc, out, err, files, trace):
        self.rc, self.out, self.err, self.files, self.trace = rc, out, err, files, trace


def run_cli(bdir, argv, files, workdir, timeout=120, fresh=True, mtime=None):
    """runs the sanitized Multitensor binary in workdir with the given input files (fresh=False: the directory is kept
    as the previous invocation left it and the input files are replaced in place; mtime: the time stamp they get)"""
    if fresh:
        shutil.rmtree(workdir, ignore_errors=True)
    os.makedirs(workdir, exist_ok=True)
    for name, content in files.items():
        with open(os.path.join(workdir, name), "wb") as f:
            f.write(content.encode("utf-8") if isinstance(content, str) else content)
        if mtime is not None:
            os.utime(os.path.join(workdir, name), (mtime, mtime))
    env = dict(os.environ)
    env.update(C.SAN_ENV)
    env["ASAN_OPTIONS"] += ":detect_leaks=0"
    env["MULTITENSOR_VERIF_TRACE"] = os.path.join(workdir, "trace.txt")
    try:
        p = subprocess.run([os.path.join(bdir, "Multitensor")] + argv, cwd=workdir, stdout=subprocess.PIPE,
                           stderr=subprocess.PIPE, text=True, env=env, timeout=timeout, errors="replace")
        rc, so, se = p.returncode, p.stdout, p.stderr
    except subprocess.TimeoutExpired:
        rc, so, se = -999, "", "TIMEOUT"
    produced = {}
    for root, _, fs in os.walk(workdir):
        for f in fs:
            rel = os.path.relpath(os.path.join(root, f), workdir)
            if rel not in files and rel != "trace.txt":
                produced[rel] = os.path.join(root, f)
    trace = None
    tp = os.path.join(workdir, "trace.txt")
    if os.path.exists(tp):
        trace = open(tp).read()
    return CliRun(rc, so, se, produced, trace)


def parse_trace_call(trace):
    """the call_start record of the trace file"""
    if not trace:
        return None
    m = re.search(r"call_start (.*)\nrecords (\d+)(.*)\nweights (\d+)(.*)\naffinity (\d+)(.*)\n", trace)
    if not m:
        return None
    d = dict(kv.split("=") for kv in m.group(1).split())
    rec = m.group(3).split()
    d["starts"] = rec[0::2]
    d["ends"] = rec[1::2]
    d["weights"] = [unhex(t) for t in m.group(5).split()]
    d["affinity"] = [unhex(t) for t in m.group(7).split()]
    return d


def sanitizer_report(err):
    return ("ERROR: AddressSanitizer" in err or "runtime error:" in err or "Assertion" in err and "failed" in err
            or "ERROR: LeakSanitizer" in err)


def close6(a, b):
    """equal at 6 significant digits"""
    if a == b:
        return True
    return abs(a - b) <= 5.5e-6 * max(abs(a), abs(b)) + 1e-300


# ------------------------------------------------------------------------------ C13

class C13(Check):
    pid = "C13"
    lean_modules = ["MTProps.C13", "MTProps.CodeCli", "MTProps.CodeWriters", "MTProps.CodeReaders", "MTProps.CodeReaderAff"]

    def body(self):
        rng = self.rng
        n = 70 if self.tier == "quick" else 600
        work = os.path.join(self.bdir, "scratch", "p%d_" % os.getpid() + "cli13")
        cases = []
        for k in range(n):
            directed, assort, wfile = rng.random() < 0.5, rng.random() < 0.5, rng.random() < 0.4
            K = rng.choice([2, 2, 3, 4])
            N = rng.randint(2, 6)
            labels = rng.sample([0, 1, 2, 3, 5, 8, 13, 21, 100, 4096, 123456789, 2 ** 31, 2 ** 32 + 3, 3000000000, 10 ** 15], N)
            if rng.random() < 0.2:
                # full 64-bit ids (hashes, database keys): neighbours that differ below the precision of a double
                labels = rng.sample(BIG_LABELS, N)
            recs, L = gen.records(rng, N=N, wt="u", labels=labels)
            opts = {"k": K}
            if rng.random() < 0.6:
                opts["r"] = rng.randint(1, 3)
            if rng.random() < 0.7:
                opts["maxit"] = rng.choice([1, 5, 11, 21, 40])
            if rng.random() < 0.6:
                opts["y"] = rng.choice([1, 1, 2, 3])
            opts["s"] = rng.choice([rng.randint(0, 2 ** 31 - 1)] * 6 + [0, 1, 2 ** 31 - 1, -1, -7, -2 ** 31]) if k >= 5 else [0, 1, 2 ** 31 - 1, -7, -1][k]
            if rng.random() < 0.5:
                opts["o"] = rng.choice(["out", "results", "res_dir"])
            adjname = rng.choice(["adjacency.dat", "adj.txt"])
            # numbers as scripts write them: a quarter of the runs zero-pad their numeric option values (decimal!)
            pad = rng.random() < 0.25

            def num(x):
                if pad and isinstance(x, int) and x < 10 ** 6:
                    return "%0*d" % (rng.choice([2, 3, 4]), x)
                return str(x)
            argv = ["--k", num(K)]
            if adjname != "adjacency.dat" or rng.random() < 0.5:
                argv += ["--a", adjname]
            files = {adjname: render_adjacency(rng, recs)}
            diag = None
            if wfile:
                diag = [[round(rng.random(), 5) for _ in range(K)] for _ in range(L)]
                files["w_in.dat"] = render_affinity(rng, diag, K, L)
                argv += ["--w", "w_in.dat"]
            elif rng.random() < 0.1:
                argv += ["--w", ""]       # an empty name is no file (a script's unset variable): random start
            if not directed:
                argv += ["--undirected"]
            if assort:
                argv += ["--assortative"]
            for o in ("r", "maxit", "y", "s", "o"):
                if o in opts:
                    argv += ["--" + o, num(opts[o]) if o != "o" else str(opts[o])]
            # shuffle option order (pairs stay together)
            chunks, i = [], 0
            while i < len(argv):
                if argv[i] in ("--undirected", "--assortative"):
                    chunks.append([argv[i]])
                    i += 1
                else:
                    chunks.append(argv[i:i + 2])
                    i += 2
            rng.shuffle(chunks)
            argv = [x for ch in chunks for x in ch]
            pre = rng.random() < 0.3 and "o" in opts
            cases.append(dict(cid="c%d" % k, argv=argv, files=files, recs=recs, L=L, K=K, directed=directed, assort=assort,
                              wfile=wfile, diag=diag, opts=opts, adjname=adjname, pre=pre))
        # model call records
        mlines = []
        for c in cases:
            aff = c["files"].get("w_in.dat")
            mlines.append(" ".join([c["cid"], "cli", str(len(c["argv"]) + 1), "Multitensor"] + [a if a != "" else '""' for a in c["argv"]] +
                                   [hexbytes(c["files"][c["adjname"]]), "1" if aff is not None else "0", hexbytes(aff or "")]))
        try:
            mo = C.run_model(mlines)
        except C.BuildError as e:
            self.corr_broken.append(("cli", "-", "-", e.what + e.output, ""))
            mo = {}
        # the whole command line as one model function: exit status and the four files
        mrun = {}
        try:
            mrun = C.run_model([l.replace(" cli ", " clirun ", 1) for l in mlines])
        except C.BuildError as e:
            self.corr_broken.append(("clirun", "-", "-", e.what + e.output, ""))
        lib_lines = []
        results = {}
        for c in cases:
            wd = os.path.join(work, c["cid"])
            if c["pre"]:
                os.makedirs(os.path.join(wd, c["opts"]["o"]), exist_ok=True)
            r = run_cli(self.bdir, c["argv"], c["files"], wd)
            results[c["cid"]] = r
            self.cov["evaluations"] += 1
            self.dist("%s%s%s" % ("D" if c["directed"] else "U", "A" if c["assort"] else "G", "F" if c["wfile"] else "R"))
            replay = {"argv": c["argv"], "files": c["files"], "records": c["recs"], "exit_status": r.rc, "stderr": r.err[-1500:]}
            if sanitizer_report(r.err):
                self.violate("cli-memory-error", "the command line hit a sanitizer/assertion failure on a well-formed invocation", replay)
                continue
            if r.rc != 0:
                self.violate("cli-failed-on-wellformed-input", "well-formed invocation terminated with status %s: %s" % (r.rc, r.err[-300:].strip()), replay)
                continue
            # ---- (1) the call the binary made vs the model's call record vs the documented meaning of the options
            call = parse_trace_call(r.trace)
            m = mo.get(c["cid"], {})
            exp = {"dir": int(c["directed"]), "assort": int(c["assort"]), "initfile": int(c["wfile"]), "K": c["K"],
                   "r": c["opts"].get("r", 1), "maxit": c["opts"].get("maxit", 500), "nconv": c["opts"].get("y", 10),
                   "seed": c["opts"]["s"]}
            if call is None:
                self.corr_broken.append(("cli", c["cid"], "trace", "no call_start event in the trace", " ".join(c["argv"])))
                continue
            got = {"dir": int(call["dir"]), "assort": int(call["assort"]), "initfile": int(call["initfile"]), "K": int(call["K"]),
                   "r": int(call["r"]), "maxit": int(call["maxit"]), "nconv": int(call["nconv"]), "seed": int(call["seed"])}
            self.monitor("call records compared")
            bad = ["--%s: library called with %s=%s, option says %s" % ({"nconv": "y", "seed": "s", "K": "k", "dir": "undirected", "assort": "assortative", "initfile": "w"}.get(k2, k2), k2, got[k2], exp[k2])
                   for k2 in exp if got[k2] != exp[k2]]
            want_s = [str(s) for s, d, ws in c["recs"]]
            want_e = [str(d) for s, d, ws in c["recs"]]
            want_w = [float(w) for s, d, ws in c["recs"] for w in ws]
            if call["starts"] != want_s or call["ends"] != want_e or call["weights"] != want_w:
                bad.append("records passed to the library differ from the file's records: %s/%s/%s" % (call["starts"][:6], call["ends"][:6], call["weights"][:6]))
            if bad:
                self.violate("cli-option-or-reader", "; ".join(bad), replay)
                continue
            # model agreement (correspondence).  A negative seed is outside the model's domain (its `stoi` is the decimal
            # naturals; std::stoi also reads a sign and the generator takes the value modulo 2^32): such command lines are
            # judged on the implementation side only - the call record above, the files against the library below
            outside = c["opts"]["s"] < 0
            if outside:
                self.dist("outside the model's domain: negative seed")
            elif m.get("exit") != ["run"]:
                self.corr_broken.append(("cli", c["cid"], "exit", "model says %s, binary ran" % m.get("exit"), " ".join(c["argv"])))
            else:
                for k2 in ("dir", "assort", "initfile", "K", "r", "maxit", "nconv", "seed"):
                    mv = m[k2]
                    if len(mv) == 1 and mv[0].lstrip("-").isdigit():
                        mv = [str(int(mv[0]))]      # the model keeps the seed as the option's text ("007"): compare the number
                    if mv != [str(got[k2])]:
                        self.corr_broken.append(("cli", c["cid"], k2, "impl=%s model=%s" % (got[k2], m[k2]), " ".join(c["argv"])))
                if m["starts"] != call["starts"] or m["ends"] != call["ends"] or [float(x) for x in m["weights"]] != call["weights"]:
                    self.corr_broken.append(("cli", c["cid"], "records", "model reader differs", " ".join(c["argv"])))
                if not ref.vec_close(floats(m["aff"]), call["affinity"], 1e-12, 0):
                    self.corr_broken.append(("cli", c["cid"], "aff", "impl=%s model=%s" % (call["affinity"][:6], floats(m["aff"])[:6]), " ".join(c["argv"])))
            # ---- (1b) the files the binary wrote vs the files of the model's `cliMain`
            if not outside:
                self.model_files(c, r, mrun.get(c["cid"], {}))
            # ---- (2) library run with an independently built call
            if c["wfile"]:
                aff = []
                Kk = c["K"]
                for a in range(c["L"]):
                    if c["assort"]:
                        aff += [float(fmt6(x)) for x in c["diag"][a]]
                    else:
                        blk = [0.0] * (Kk * Kk)
                        for g in range(Kk):
                            blk[g + g * Kk] = float(fmt6(c["diag"][a][g]))
                        aff += blk
            else:
                aff = None
            rcase = RunCase(c["directed"], c["assort"], "f" if c["wfile"] else "r", c["K"], c["recs"], c["L"], r=exp["r"],
                            maxit=exp["maxit"], nconv=exp["nconv"], seed=exp["seed"], aff=aff)
            c["rcase"] = rcase
            lib_lines.append(rcase.line(c["cid"]))
        lo, crashes = C.run_impl(self.bdir, lib_lines) if lib_lines else ({}, [])
        for c in cases:
            r = results[c["cid"]]
            lib = lo.get(c["cid"])
            if "rcase" not in c or not lib or lib.get("err") != ["0"]:
                continue
            self.files_vs_library(c, r, lib)
        self.cli_histories(rng, cases, work)
        shutil.rmtree(work, ignore_errors=True)
        # writers: model vs implementation on random data
        wl = []
        for k in range(40):
            K, L = rng.randint(2, 5), rng.randint(1, 4)
            assort = rng.random() < 0.5
            vals = [rng.choice([rng.random(), 0.0, rng.random() * 1e-5, rng.random() * 100]) for _ in range((K if assort else K * K) * L)]
            wl.append(" ".join(["wa%d" % k, "waff", str(K), str(L), str(rng.randint(1, 4)), hexf(-rng.random() * 1000)] + gen.flist(vals)))
            N = rng.randint(2, 6)
            labs = rng.sample(range(1000), N)
            wl.append(" ".join(["wm%d" % k, "wmem", str(N), str(K), "2", hexf(-rng.random() * 50)] + [str(x) for x in labs] +
                               gen.flist([rng.choice([rng.random(), rng.random(), 0.0, rng.random() * 1e-6, 6.67e-7, 1e-6, 1e-9]) for _ in range(N * K)])))
            nr = rng.randint(1, 4)
            wl.append(" ".join(["wi%d" % k, "winfo", str(nr), str(rng.choice([0, 7, 5489, 2 ** 31 - 1])), str(nr)] +
                               [x for i in range(nr) for x in (str(rng.randint(1, 500)), rng.choice(["MAX_ITER", "CONVERGED"]),
                                                              hexf(-rng.random() * 10 ** rng.randint(0, 5)))] +
                               [hexf(rng.choice([0.0, 1e-4, 2.5, 59.99, 3599.9, 3600.0, 7384.2, 86400.0, 1.5e6]))]))
        wio, _ = self.correspond("writers", wl, rtol=1e-5)
        # the info writer: one row per realization with index, iterations, reason, likelihood - whatever the run's duration was
        for line in wl:
            t = line.split(" ")
            if t[1] != "winfo":
                continue
            o = wio.get(t[0])
            if not o:
                continue
            nr = int(t[4])
            self.monitor("info files compared with the report handed to the writer")
            rows = [o.get("l%d" % (5 + i), []) for i in range(nr)]
            for i in range(nr):
                it, reason, l2 = t[5 + 3 * i], t[6 + 3 * i], unhex(t[7 + 3 * i])
                row = rows[i]
                ok = len(row) == 4 and row[0] == str(i) and row[1] == it and row[2] == reason
                try:
                    ok = ok and close6(unhex(row[3]), l2)
                except Exception:
                    ok = False
                if not ok:
                    self.violate("writer-values", "run_info row %d is %s, the report says realization %d: %s iterations, %s, likelihood %r (duration of the run: %r s)"
                                 % (i, row, i, it, reason, l2, unhex(t[5 + 3 * nr]) if len(t) > 5 + 3 * nr else 0.0), {"case": line, "row": i, "written": row})
                    break
        # what the membership writer wrote against what it was given: label, then every value to 6 significant digits
        for line in wl:
            t = line.split(" ")
            if t[1] != "wmem":
                continue
            o = wio.get(t[0])
            if not o:
                continue
            N, K = int(t[2]), int(t[3])
            labs = t[6:6 + N]
            vals = [unhex(x) for x in t[6 + N + 1:6 + N + 1 + N * K]]
            self.monitor("membership files compared with the values handed to the writer")
            for i in range(N):
                row = o.get("l%d" % (i + 1), [])
                want = [vals[q * N + i] for q in range(K)]
                try:
                    got = [unhex(x) for x in row[1:]]
                except Exception:
                    got = None
                if not row or row[0] != labs[i] or got is None or len(got) != K or not all(close6(a, b) for a, b in zip(got, want)):
                    self.violate("writer-values", "membership file row %d is %s, the matrix row is label %s and %s (6 significant digits)"
                                 % (i, row[:1] + (got or row[1:]), labs[i], want), {"case": line, "row": i, "written": row, "values": want})
                    break
        self.cov["rule"] = ("random command lines: all 8 flag combinations of --undirected/--assortative/--w, K 2-4, --r/--maxit/--y/--s/--o present or absent in shuffled order, "
                            "adjacency files rendered in random layouts of the grammar (indentation, tabs, trailing blanks, blank-only lines, CRLF, final newline or not, sparse labels); "
                            "the binary built from the working tree is observed through its call_start trace event and its files, compared with the model's call record and with an "
                            "in-process library run; non-trivial = every run that reached the library; distinct by (argv, files)")

    def cli_histories(self, rng, cases, work):
        """successive invocations in one working directory: the adjacency file is replaced in place by other content of
        the same length with the same time stamp (`cp -p` of equally sized folds), the options stay; the second
        invocation must write what it writes in a directory it has never seen"""
        def masked(path):
            return [l for l in read_tokens(path) if l and l[:2] != ["#", "Duration"]]
        n = 0
        for c in cases:
            if n >= (8 if self.tier == "quick" else 60):
                break
            text = c["files"][c["adjname"]]
            lines = text.split("\n")
            cand = [i for i, l in enumerate(lines) if len(l.split()) >= 3 and len(l.split()[-1]) == 1 and l.split()[-1].isdigit()]
            if not cand:
                continue
            i = rng.choice(cand)
            l = lines[i]
            j = len(l.rstrip()) - 1
            d = int(l[j])
            lines[i] = l[:j] + str(d % 3 + 1) + l[j + 1:]
            files2 = dict(c["files"])
            files2[c["adjname"]] = "\n".join(lines)
            if len(files2[c["adjname"]]) != len(text) or files2[c["adjname"]] == text:
                continue
            n += 1
            stamp = 1700000000 + n
            wd = os.path.join(work, "hist%d" % n)
            r1 = run_cli(self.bdir, c["argv"], c["files"], wd, mtime=stamp)
            r2 = run_cli(self.bdir, c["argv"], files2, wd, fresh=False, mtime=stamp)
            r3 = run_cli(self.bdir, c["argv"], files2, os.path.join(work, "hist%d_fresh" % n), mtime=stamp)
            self.cov["evaluations"] += 3
            if r1.rc != 0 or r3.rc != 0:
                continue
            self.monitor("command-line histories (same directory, input replaced in place)")
            self.nontrivial(("history", tuple(c["argv"]), files2[c["adjname"]]))
            outdir = c["opts"].get("o", "results")
            bad = []
            if r2.rc != r3.rc:
                bad.append("exit status %s, in a fresh directory %s" % (r2.rc, r3.rc))
            for rel in sorted(f for f in r3.files if f.startswith(outdir + "/")):
                if rel not in r2.files:
                    bad.append(rel + " not written")
                elif masked(r2.files[rel]) != masked(r3.files[rel]):
                    bad.append(rel + " differs")
            if bad:
                self.violate("cli-history", "second invocation in a used directory (adjacency file replaced by %d other bytes, same time stamp) "
                             "does not write what it writes in a fresh directory: %s" % (len(text), "; ".join(bad)),
                             {"argv": c["argv"], "files_first_invocation": c["files"], "files": files2, "time_stamp_of_the_inputs": stamp})

    def model_files(self, c, r, m):
        outdir = c["opts"].get("o", "results")
        if m.get("exit") != ["ok"]:
            self.corr_broken.append(("clirun", c["cid"], "exit", "model says %s, binary wrote files" % m.get("exit"), " ".join(c["argv"])))
            return
        self.monitor("file sets compared with the model's cliMain")
        want = set(m.get("files", []))
        got = {os.path.basename(f) for f in r.files if f.startswith(outdir + "/")}
        if want != got:
            self.corr_broken.append(("clirun", c["cid"], "files", "impl=%s model=%s" % (sorted(got), sorted(want)), " ".join(c["argv"])))
            return
        for rel, path in r.files.items():
            if not rel.startswith(outdir + "/"):
                continue
            name = os.path.basename(rel)
            impl_lines = [l for l in read_tokens(path) if l]
            model_lines = []
            i = 0
            while "%s.l%d" % (name, i) in m:
                if m["%s.l%d" % (name, i)]:
                    model_lines.append(m["%s.l%d" % (name, i)])
                i += 1
            if len(impl_lines) != len(model_lines):
                self.corr_broken.append(("clirun", c["cid"], name, "%d lines vs model %d" % (len(impl_lines), len(model_lines)), " ".join(c["argv"])))
                continue
            for li, (a, b) in enumerate(zip(impl_lines, model_lines)):
                if a[:2] == ["#", "Duration"]:
                    continue
                # structure (token count, labels, keywords) is compared strictly; the *numbers* of a whole run are compared
                # under the locality rule: C13 says the files serialise what the library returns (files_vs_library decides
                # that against the real library), not that the model predicts the library's numbers
                ok = len(a) == len(b)
                numeric_only = True
                if ok:
                    for pos, (x, y) in enumerate(zip(a, b)):
                        if name == "run_info.dat" and a[0] != "#" and pos in (1, 2):
                            # iterations and reason of a realization follow from the run's numbers
                            if x != y:
                                ok = False
                            continue
                        if C.is_hex(y):
                            try:
                                if not close6(float(x), unhex(y)):
                                    ok = False
                            except ValueError:
                                ok = False
                                numeric_only = False
                        elif x != y:
                            ok = False
                            numeric_only = False
                else:
                    numeric_only = False
                if not ok and numeric_only:
                    st = self.cov["correspondence"].setdefault("clirun", {})
                    st["model_drift"] = st.get("model_drift", 0) + 1
                elif not ok:
                    self.corr_broken.append(("clirun", c["cid"], "%s line %d" % (name, li), "impl=%s model=%s" % (a, [("%.7g" % unhex(y)) if C.is_hex(y) else y for y in b]), " ".join(c["argv"])))
                    break

    def files_vs_library(self, c, r, lib):
        outdir = c["opts"].get("o", "results")
        K, L = c["K"], c["L"]
        self.monitor("file sets compared with the library")
        self.nontrivial((tuple(c["argv"]), str(c["files"])))
        replay = {"argv": c["argv"], "files": c["files"], "records": c["recs"], "library_case": c["rcase"].line("lib")}
        bad = []
        want_files = {outdir + "/u_out.dat", outdir + "/w_out.dat", outdir + "/run_info.dat"} | ({outdir + "/v_out.dat"} if c["directed"] else set())
        # the result files are those of the output folder (what else the binary leaves elsewhere is reported as coverage)
        in_out = {f for f in r.files if f.startswith(outdir + "/")}
        for f in sorted(set(r.files) - in_out):
            self.dist("file outside the output folder: " + os.path.basename(f))
        if in_out != want_files:
            bad.append("files written %s, expected %s" % (sorted(in_out), sorted(want_files)))
        N = len(lib["labels"])
        u = floats(lib["u"])
        v = floats(lib["v"])
        aff = floats(lib["aff"])
        maxL2 = unhex(lib["maxL2"][0])

        def header_ok(toks):
            return toks[:3] == ["#", "Max", "likelihood="] and len(toks) == 5 and int(toks[3]) == int(maxL2) and toks[4] == "N_real=%d" % c["rcase"].r

        def membership(path, mat):
            t = [x for x in read_tokens(path) if x]
            if not t or not header_ok(t[0]):
                return "header %s" % (t[0] if t else None)
            rows = t[1:]
            if len(rows) != N:
                return "%d rows for %d vertices" % (len(rows), N)
            for i, row in enumerate(rows):
                if row[0] != lib["labels"][i] or len(row) != K + 1:
                    return "row %d is %s, expected label %s and %d values" % (i, row, lib["labels"][i], K)
                for k in range(K):
                    if not close6(float(row[1 + k]), mat[k * N + i]):
                        return "row %d column %d: %s, library value %r" % (i, k, row[1 + k], mat[k * N + i])
            return None

        up = r.files.get(outdir + "/u_out.dat")
        if up:
            e = membership(up, u)
            if e:
                bad.append("u_out.dat: " + e)
        vp = r.files.get(outdir + "/v_out.dat")
        if vp and c["directed"]:
            e = membership(vp, v)
            if e:
                bad.append("v_out.dat: " + e)
        wp = r.files.get(outdir + "/w_out.dat")
        if wp:
            t = [x for x in read_tokens(wp) if x]
            if not t or not header_ok(t[0]):
                bad.append("w_out.dat header")
            else:
                pos = 1
                for a in range(L):
                    if pos >= len(t) or t[pos] != ["a=", str(a)]:
                        bad.append("w_out.dat: block header of layer %d" % a)
                        break
                    pos += 1
                    for k in range(K):
                        row = t[pos] if pos < len(t) else []
                        want = [aff[a * K + k]] if c["assort"] else [aff[a * K * K + q * K + k] for q in range(K)]
                        if len(row) != len(want) or not all(close6(float(x), y) for x, y in zip(row, want)):
                            bad.append("w_out.dat: layer %d row %d is %s, library entries (k,q) are %s" % (a, k, row, want))
                        pos += 1
        ip = r.files.get(outdir + "/run_info.dat")
        if ip:
            txt = open(ip).read()
            ms = re.search(r"# Seed = (-?\d+)", txt)
            if not ms or int(ms.group(1)) != c["rcase"].seed:
                bad.append("run_info.dat: seed")
            rows = [l.split() for l in txt.split("\n") if l and not l.startswith("#")]
            L2 = floats(lib["L2s"])
            if len(rows) != len(L2):
                bad.append("run_info.dat: %d realization rows for %d realizations" % (len(rows), len(L2)))
            else:
                for i, row in enumerate(rows):
                    if len(row) != 4 or row[0] != str(i) or row[1] != lib["iters"][i] or row[2] != lib["reasons"][i] or not close6(float(row[3]), L2[i]):
                        bad.append("run_info.dat: row %s, library (%s, %s, %r)" % (row, lib["iters"][i], lib["reasons"][i], L2[i]))
        self.sample({"argv": c["argv"], "files_written": sorted(r.files), "ok": not bad})
        if bad:
            self.violate("cli-files-differ-from-library", "; ".join(bad[:4]), replay)


# ------------------------------------------------------------------------------ C14

class C14(Check):
    pid = "C14"
    lean_modules = ["MTProps.C14", "MTProps.CodeRun", "MTProps.CodeInit", "MTProps.CodeReaderAff"]

    def body(self):
        rng = self.rng
        # the from-file initialiser itself: several calls on one functor object (as the realizations of a run make them),
        # full tensors with unequal mirrored entries, scripted draws
        from .props_b import init_functor_stage
        init_functor_stage(self, "start-not-tensor-plus-noise", ["f"])
        cases, meta = [], {}
        n = 0
        maxK, maxL = (5, 4)
        reps = 2 if self.tier == "quick" else 10
        # (K, L) exhaustively up to (5, 4), and a few networks with many layers (two-digit layer ids)
        shapes = [(K, L) for K in range(2, maxK + 1) for L in range(1, maxL + 1)] + [(2, 10), (2, 11), (3, 12), (2, 25)]
        for K, L in shapes:
            if True:
                for assort in (False, True):
                    for _ in range(reps if L <= maxL else 1):
                        diag = [[round(rng.random() * rng.choice([1, 1, 10]), 5) for _ in range(K)] for _ in range(L)]
                        if rng.random() < 0.12:
                            # a file of zeros is a file: every realization starts from noise alone, on and off the diagonal
                            diag = [[0.0] * K for _ in range(L)]
                        text = render_affinity(rng, diag, K, L)
                        size = (K if assort else K * K) * L
                        cid = "a%d" % n
                        n += 1
                        cases.append(" ".join([cid, "readaff", str(int(assort)), str(K), str(size), hexbytes(text)]))
                        meta[cid] = ("ok", assort, K, L, diag, text, size)
                    # shape mismatches: columns, layers, layer id out of range
                    for kind in ("cols+", "cols-", "layers+", "layers-", "layerid", "ragged", "compensated-last", "compensated-first"):
                        Kf, Lf = K, L
                        if kind == "cols+":
                            Kf = K + 1
                        elif kind == "cols-":
                            Kf = K - 1
                        elif kind == "layers+":
                            Lf = L + 1
                        elif kind == "layers-":
                            Lf = L - 1
                        if Kf < 1 or Lf < 1:
                            continue
                        diag = [[round(rng.random(), 4) for _ in range(Kf)] for _ in range(Lf)]
                        text = render_affinity(rng, diag, Kf, Lf, shuffle=False)
                        if kind == "layerid":
                            text = re.sub(r"(?m)^%d(\s)" % (Lf - 1), r"%d\1" % (L + rng.randint(0, 3)), text)
                        if kind.startswith("compensated"):
                            # one line a value short, another a value long: the total is still K*L
                            if L < 2:
                                continue
                            rows = [[str(a2)] + [fmt6(x) for x in diag[a2]] for a2 in range(L)]
                            src_row, dst_row = (0, L - 1) if kind.endswith("last") else (L - 1, 0)
                            rows[dst_row].append(rows[src_row].pop())
                            text = "\n".join(" ".join(r) for r in rows) + "\n"
                        if kind == "ragged":
                            lines = text.rstrip("\n").split("\n")
                            i = rng.randrange(len(lines))
                            if lines[i].startswith("#") or not lines[i]:
                                continue
                            lines[i] = lines[i].rstrip() + " 0.5"
                            text = "\n".join(lines) + "\n"
                        size = (K if assort else K * K) * L
                        cid = "a%d" % n
                        n += 1
                        cases.append(" ".join([cid, "readaff", str(int(assort)), str(K), str(size), hexbytes(text)]))
                        meta[cid] = ("bad:" + kind, assort, K, L, diag, text, size)
        io, mo = self.correspond("readaff", cases, rtol=1e-12)
        for cid, (kind, assort, K, L, diag, text, size) in meta.items():
            o = io.get(cid)
            if not o:
                continue
            self.monitor("files read")
            self.dist(kind + ("/assortative" if assort else "/general"))
            replay = {"assortative": assort, "K": K, "L": L, "file": text, "case": [c for c in cases if c.startswith(cid + " ")][0]}
            if kind == "ok":
                want = [0.0] * size
                for a in range(L):
                    for k in range(K):
                        want[(k + a * K) if assort else (k + k * K + a * K * K)] = float(fmt6(diag[a][k]))
                self.nontrivial((assort, K, L, text))
                if len(self.cov["samples"]) < 3:
                    self.sample({"K": K, "L": L, "assortative": assort, "file": text, "vector": floats(o.get("w", []))})
                if o.get("err") != ["0"]:
                    self.violate("affinity-file-rejected", "well-formed initial-affinity file rejected (K=%d L=%d %s)" % (K, L, "assortative" if assort else "general"), replay)
                elif not ref.vec_close(floats(o["w"]), want, 1e-12, 0.0):
                    self.violate("affinity-file-misread", "K=%d L=%d %s: start vector %s, the file means %s" % (K, L, "assortative" if assort else "general", floats(o["w"]), want), replay)
            else:
                self.nontrivial((kind, assort, K, L, text))
                if o.get("err") == ["0"]:
                    self.violate("affinity-shape-mismatch-accepted", "file with mismatching shape (%s) was read instead of rejected" % kind, replay)
        # layer ids as numeric tools write them (1.0, 2.000000, 0.000000000000000000e+00 — savetxt style, ids below 10 so
        # that the leading digits are the id): the file still means the same; implementation-side monitor only (the
        # Lean reader model covers the stated lexical class, decimal naturals)
        flines, fmeta = [], {}
        for n2 in range(24 if self.tier == "quick" else 200):
            K, L = rng.randint(2, 4), rng.randint(1, 4)
            assort = rng.random() < 0.5
            diag = [[round(rng.random() * rng.choice([1, 10]), 5) + 0.001 for _ in range(K)] for _ in range(L)]
            style = rng.choice(["%d.0", "%d.000000", "%.18e"])
            order = list(range(L))
            rng.shuffle(order)
            text = "".join("%s %s\n" % ((style % a), " ".join(fmt6(x) for x in diag[a])) for a in order)
            size = (K if assort else K * K) * L
            cid = "fl%d" % n2
            flines.append(" ".join([cid, "readaff", str(int(assort)), str(K), str(size), hexbytes(text)]))
            fmeta[cid] = (assort, K, L, diag, text, size)
        if self.bdir:
            fo, fcr = C.run_impl(self.bdir, flines)
            self.cov["evaluations"] += len(flines)
            for cid, line, err, code in fcr:
                self.on_crash("readaff", cid, line, err, code)
            for cid, (assort, K, L, diag, text, size) in fmeta.items():
                o = fo.get(cid)
                if not o:
                    continue
                self.monitor("files with floating-point layer ids")
                self.nontrivial(("float-ids", assort, K, L, text))
                want = [0.0] * size
                for a in range(L):
                    for k in range(K):
                        want[(k + a * K) if assort else (k + k * K + a * K * K)] = float(fmt6(diag[a][k]))
                replay = {"assortative": assort, "K": K, "L": L, "file": text, "case": [c for c in flines if c.startswith(cid + " ")][0]}
                if o.get("err") != ["0"]:
                    self.violate("affinity-file-rejected", "initial-affinity file with floating-point layer ids rejected (K=%d L=%d)" % (K, L), replay)
                elif not ref.vec_close(floats(o["w"]), want, 1e-12, 0.0):
                    self.violate("affinity-file-misread", "K=%d L=%d %s, layer ids written with a decimal point: start vector %s, the file means %s"
                                 % (K, L, "assortative" if assort else "general", floats(o["w"]), want), replay)
        # noise and restart, through realization_start
        runs = {}
        for k in range(60 if self.tier == "quick" else 500):
            directed, assort = rng.random() < 0.5, rng.random() < 0.5
            rc = random_run(rng, tr=1, variants=[(directed, assort, "f")], r=rng.randint(2, 4), maxit=rng.choice([1, 5, 11]), K=rng.choice([2, 3, 4]))
            # a file-like start: diagonal given, rest zero
            K, L = rc.K, rc.L
            diag = [[round(rng.random(), 5) for _ in range(K)] for _ in range(L)]
            if assort:
                rc.aff = [diag[a][k] for a in range(L) for k in range(K)]
            else:
                rc.aff = [diag[a][k] if k == q else 0.0 for a in range(L) for q in range(K) for k in range(K)]
            runs["n%d" % k] = rc
        io2, _ = self.correspond("run", [rc.line(c) for c, rc in runs.items()], drift=True)
        for cid, rc in runs.items():
            o = io2.get(cid)
            if not o or o.get("err") != ["0"]:
                continue
            st = ref.mt19937_stream(rc.seed)
            net = rc.net()
            K, L = rc.K, rc.L
            nw = L * K if rc.assort else L * K * K
            nrest = (K * len(net.V) if rc.directed else 0) + K * len(net.U)
            for i in range(rc.r):
                w = floats(o["s%d.w" % i])
                seg = [next(st) for _ in range(nw + nrest)][:nw]
                self.monitor("realization starts examined")
                self.nontrivial((rc.variant(), str(rc.recs), rc.seed, i))
                noise = [x - a0 for x, a0 in zip(w, rc.aff)]
                rec = sorted(noise)
                ok = all(-1e-12 <= x < ref.NOISE + 1e-12 for x in noise) and ref.vec_close(rec, sorted(ref.NOISE * d for d in seg), 1e-9, 1e-12)
                if not ok:
                    self.violate("start-not-file-plus-noise", "realization %d starts from %s; file values %s plus fresh noise in [0,0.1) expected (independent of earlier realizations)" % (i, w, rc.aff),
                                 dict(rc.describe(), realization=i, case=rc.line("replay")))
                    break
        # end to end through the command line for K >= 3 and both layouts
        work = os.path.join(self.bdir, "scratch", "p%d_" % os.getpid() + "cli14")
        for k in range(16 if self.tier == "quick" else 80):
            assort = rng.random() < 0.5
            directed = rng.random() < 0.5
            K = rng.choice([2, 3, 3, 4])
            recs, L = gen.records(rng, wt="u", N=rng.randint(3, 5), labels=None)
            diag = [[round(rng.random(), 5) for _ in range(K)] for _ in range(L)]
            files = {"adjacency.dat": render_adjacency(rng, recs, {"blank": False}), "w.dat": render_affinity(rng, diag, K, L)}
            argv = ["--k", str(K), "--w", "w.dat", "--s", "11", "--maxit", "1"] + (["--assortative"] if assort else []) + ([] if directed else ["--undirected"])
            r = run_cli(self.bdir, argv, files, os.path.join(work, "e%d" % k))
            self.cov["evaluations"] += 1
            replay = {"argv": argv, "files": files, "stderr": r.err[-1500:], "exit_status": r.rc}
            if sanitizer_report(r.err):
                self.violate("affinity-reader-memory-error", "sanitizer/assertion failure while reading a well-formed initial-affinity file (K=%d L=%d %s)" % (K, L, "assortative" if assort else "general"), replay)
                continue
            call = parse_trace_call(r.trace)
            if r.rc != 0 or call is None:
                self.violate("affinity-file-rejected", "command line failed on a well-formed initial-affinity file: %s" % r.err[-200:], replay)
                continue
            want = [0.0] * ((K if assort else K * K) * L)
            for a in range(L):
                for g in range(K):
                    want[(g + a * K) if assort else (g + g * K + a * K * K)] = float(fmt6(diag[a][g]))
            self.monitor("command-line starts examined")
            if not ref.vec_close(call["affinity"], want, 1e-12, 0):
                self.violate("affinity-file-misread", "command line passes start %s to the library, the file means %s" % (call["affinity"], want), replay)
        shutil.rmtree(work, ignore_errors=True)
        self.cov["rule"] = ("reader in-process under ASan for all K 2-5, L 1-4, both layouts: well-formed files in random layouts (comments, shuffled layers, blank lines) and six kinds of "
                            "shape mismatch; realization_start events of runs with r 2-4 (noise = 0.1 x next draws, restart from file values); command line end to end; "
                            "distinct by (layout, K, L, file)")


# ------------------------------------------------------------------------------ C16

def mutate(rng, text):
    """byte/token-level mutation of a file"""
    kind = rng.choice(["ragged", "extra", "missing", "nonnum", "huge", "blank", "cr", "comment", "byte", "neg", "empty", "dupe", "float", "trunc",
                       "movetok", "movetok", "glue", "glue"])
    lines = text.split("\n")
    i = rng.randrange(len(lines)) if lines else 0
    toks = lines[i].split() if lines else []
    if kind == "glue":
        # a fixed-width table whose negative (or signed) column ran into its neighbour: two or three numbers in one field,
        # the number of fields unchanged; mostly on the last data line
        idx = [n for n, l in enumerate(lines) if len(l.split()) >= 2 and not l.lstrip().startswith("#")]
        if idx:
            j = idx[-1] if rng.random() < 0.7 else rng.choice(idx)
            tk = lines[j].split()
            p = rng.randrange(1, len(tk))
            tk[p] = tk[p] + "".join(rng.choice(["-0.0625", "+0.25", "-1", "-3e-2"]) for _ in range(rng.randint(1, 3)))
            lines[j] = " ".join(tk)
    elif kind == "ragged" and toks:
        lines[i] = " ".join(toks[:rng.randint(0, len(toks))])
    elif kind == "extra":
        lines[i] = lines[i] + " " + " ".join(str(rng.randint(0, 3)) for _ in range(rng.randint(1, 4)))
    elif kind == "missing" and len(toks) > 1:
        del toks[rng.randrange(len(toks))]
        lines[i] = " ".join(toks)
    elif kind == "nonnum" and toks:
        toks[rng.randrange(len(toks))] = rng.choice(["x", "abc", "1e", "--", "NaN", "inf", "0x10", "1.2.3", "E"])
        lines[i] = " ".join(toks)
    elif kind == "huge" and toks:
        toks[rng.randrange(len(toks))] = rng.choice(["99999999999999999999999", "18446744073709551615", "4294967296", "1e308", "1e999"])
        lines[i] = " ".join(toks)
    elif kind == "blank":
        lines.insert(i, rng.choice([" ", "\t", "   ", "\r", " \r", ""]))
    elif kind == "cr":
        lines = [l + "\r" for l in lines]
    elif kind == "comment":
        lines.insert(i, rng.choice(["# comment", "#comment", "% x", "// y"]))
    elif kind == "byte":
        b = bytearray("\n".join(lines), "utf-8", "replace")
        if b:
            b[rng.randrange(len(b))] = rng.randrange(256)
        return bytes(b)
    elif kind == "neg" and toks:
        toks[rng.randrange(len(toks))] = str(-rng.randint(1, 5))
        lines[i] = " ".join(toks)
    elif kind == "empty":
        return rng.choice(["", "\n", " \n", "\n\n"])
    elif kind == "dupe":
        lines.insert(i, lines[i])
    elif kind == "float" and toks:
        toks[rng.randrange(len(toks))] = rng.choice(["1.5", "0.25", "2.0", ".5", "1e-7"])
        lines[i] = " ".join(toks)
    elif kind == "movetok":
        # move the last token of one line to the end of another (counts compensate)
        idx = [n for n, l in enumerate(lines) if len(l.split()) >= 2 and not l.lstrip().startswith("#")]
        if len(idx) >= 2:
            a, b = rng.sample(idx, 2)
            if rng.random() < 0.5:
                a, b = min(a, b), max(a, b)
            ta = lines[a].split()
            lines[b] = lines[b].rstrip() + " " + ta.pop()
            lines[a] = " ".join(ta)
    elif kind == "trunc":
        t = "\n".join(lines)
        return t[:rng.randrange(len(t) + 1)]
    return "\n".join(lines)


class C16(Check):
    pid = "C16"
    lean_modules = ["MTProps.C16", "MTProps.CodeReaders", "MTProps.CodeReaderAff", "MTProps.CodeSafe"]

    def on_crash(self, op, cid, line, err, rc):
        # for C16 the crash itself is the failing input
        kind = "memory-or-assertion:" + op
        self.violate(kind, "op %s aborted (rc=%s): %s" % (op, rc, summarise(err)), {"case": line, "stderr": err[-2500:]})

    def body(self):
        rng = self.rng
        # (a) valid inputs x all variants through the whole library, sanitized + assertions
        n = 200 if self.tier == "quick" else 3000
        runs = {"m%d" % k: random_run(rng, variants=ALL_VARIANTS, ltwt=rng.choice([("u", "u"), ("u", "r"), ("u", "l"), ("i", "u"), ("s", "u")]),
                                      prior=rng.choice([0.0, 0.0, 3.0])) for k in range(n)}
        for k, rc in enumerate(runs.values()):
            # the containers a caller hands in are not always fresh: the in-membership one (never validated) in other
            # shapes, some with exactly N*K elements; the label vector already filled; several realizations
            if k % 3 == 0:
                rc.vshape, rc.lprior, rc.r = rng.choice([1, 2, 3, 4]), rng.choice([0, 1, 2, 3, 4]), rng.choice([1, 2, 3])
            if k % 6 == 1:
                # the out-membership container is validated by its element count only: N*K elements in another shape
                rc.ushape = rng.choice([1, 2, 3])
            if k % 7 == 2 and rc.lt in "ui":
                # labels at both ends of their type's range (a -1 in a file is 2^64-1; hashes; sentinels)
                ext = {"u": [0, 2 ** 64 - 1, 1, 2 ** 63, 2 ** 64 - 2, 2 ** 63 - 1, 7, 2 ** 32],
                       "i": [-2 ** 31, 2 ** 31 - 1, 0, -1, 1, -2 ** 31 + 1, 2 ** 31 - 2, 5]}[rc.lt]
                labs = gen.first_appearance(rc.recs)
                if len(labs) <= len(ext):
                    mp = dict(zip(labs, ext))
                    rc.recs = [(mp[s0], mp[d0], ws) for s0, d0, ws in rc.recs]
        io, mo = self.correspond("run", [rc.line(c) for c, rc in runs.items()], keys=["err"])
        for c, rc in runs.items():
            self.dist("run:" + rc.variant())
            self.nontrivial((rc.variant(), str(rc.recs), rc.seed))
        # (b) the readers on mutated files (in-process, ASan + UBSan + assertions)
        lines, meta = [], {}
        nm = 400 if self.tier == "quick" else 5000
        for k in range(nm):
            recs, L = gen.records(rng, wt="u", N=rng.randint(2, 5))
            text = render_adjacency(rng, recs)
            for _ in range(rng.randint(1, 3)):
                text = mutate(rng, text if isinstance(text, str) else text.decode("utf-8", "replace"))
            cid = "ra%d" % k
            lines.append(" ".join([cid, "readadj", hexbytes(text)]))
            meta[cid] = ("adjacency", text)
            K, L2 = rng.randint(2, 4), rng.randint(1, 3)
            assort = rng.random() < 0.5
            diag = [[round(rng.random(), 4) for _ in range(K)] for _ in range(L2)]
            text = render_affinity(rng, diag, K, L2)
            if rng.random() < 0.8:
                for _ in range(rng.randint(1, 3)):
                    text = mutate(rng, text if isinstance(text, str) else text.decode("utf-8", "replace"))
            # the vector is sized by K and the *adjacency* layer count, which need not match the file
            Ka, La = rng.choice([K, K, K + 1, max(2, K - 1)]), rng.choice([L2, L2, L2 + 1, max(1, L2 - 1)])
            size = (Ka if assort else Ka * Ka) * La
            cid = "rf%d" % k
            lines.append(" ".join([cid, "readaff", str(int(assort)), str(Ka), str(size), hexbytes(text)]))
            meta[cid] = ("affinity assort=%s K=%d L=%d" % (assort, Ka, La), text)
        outs, crashes = C.run_impl(self.bdir, lines)
        self.cov["evaluations"] += len(lines)
        for cid, line, err, rc in crashes:
            kind, text = meta.get(cid, ("?", ""))
            self.violate("reader-memory-error:" + kind.split()[0], "%s reader aborted on a file (rc=%s): %s" % (kind, rc, summarise(err)),
                         {"reader": kind, "file": text if isinstance(text, str) else text.decode("latin1"), "case": line, "stderr": err[-2500:]})
        for cid, (kind, text) in meta.items():
            o = outs.get(cid)
            if o is None:
                continue
            self.monitor("mutated files read")
            self.nontrivial((kind, text))
            self.dist("reader:%s:%s" % (kind.split()[0], "error" if o.get("err") == ["1"] else "read"))
            # records read from an adjacency file must be internally consistent
            if kind == "adjacency" and o.get("err") == ["0"]:
                if len(o["starts"]) != len(o["ends"]):
                    self.violate("reader-inconsistent", "adjacency reader returned %d sources and %d targets" % (len(o["starts"]), len(o["ends"])),
                                 {"file": text if isinstance(text, str) else text.decode("latin1")})
        self.sample({"reader": "adjacency", "file": next(t for k2, (kd, t) in meta.items() if kd == "adjacency")})
        # (c) uninitialised reads: valgrind memcheck on an unsanitized reader binary
        self.valgrind_pass(rng, 25 if self.tier == "quick" else 150)
        # (d) the whole command line (sanitized binary) on shape-correct initial-affinity files whose *values* are
        # extreme (huge, tiny, negative, zero): whatever the numbers do to the likelihood, no memory error / UB
        self.frontend_pass(rng, 24 if self.tier == "quick" else 200)
        self.wide_rows_pass(rng)
        self.cov["rule"] = ("(a) valid inputs x all variants/label/weight types through the library under ASan+UBSan+LSan with assertions and _GLIBCXX_ASSERTIONS; "
                            "(b) 14 kinds of token/byte mutations of adjacency and affinity files through the real readers in-process, vector sized independently of the file; "
                            "(c) valgrind memcheck (uninitialised values) on an unsanitized build of the readers; "
                            "(d) the sanitized command-line binary end to end on shape-correct affinity files with extreme values (1e308, -1e308, denormals, negatives, > 2^31); distinct by (reader, file bytes) / (variant, records, seed)")

    def wide_rows_pass(self, rng):
        """many groups on a network of a hundred and more vertices, stopped after one or two sweeps: membership rows of about a
        hundred small values (1e-5 .. 1e-2: eleven to fourteen characters each), the widest lines the writers produce"""
        for k in range(1 if self.tier == "quick" else 3):
            N = rng.randint(48, 60)
            K = rng.choice([88, 96, 100])
            recs = [(i, (i + 1) % N, [1, rng.choice([0, 1])]) for i in range(N)] + \
                   [(rng.randrange(N), rng.randrange(N), [rng.choice([0, 1]), 1]) for _ in range(N // 3)]
            adj = "".join("%s %s %s\n" % (s0, d0, " ".join(str(w) for w in ws)) for s0, d0, ws in recs)
            argv = ["--a", "adj.dat", "--k", str(K), "--maxit", "1", "--s", str(rng.randint(0, 999)), "--o", "out"]
            if rng.random() < 0.3:
                argv.append("--undirected")
            wd = os.path.join(self.bdir, "scratch", "p%d_" % os.getpid() + ("wide%d" % k))
            res = run_cli(self.bdir, argv, {"adj.dat": adj}, wd, timeout=900)
            self.cov["evaluations"] += 1
            self.monitor("command-line runs with about a hundred groups on a hundred and more vertices")
            self.nontrivial(("wide", adj, tuple(argv)))
            bad = None
            if res.rc == -999:
                # the run did not finish in time (a loaded machine): inconclusive, not a finding
                self.dist("wide rows: timeout (inconclusive)")
                shutil.rmtree(wd, ignore_errors=True)
                continue
            if res.rc < 0 or res.rc in (77, 78, 134, 139) or sanitizer_report(res.err):
                bad = "%s (status %s)" % (summarise(res.err), res.rc)
            elif res.rc == 0:
                for name in ("out/u_out.dat",) + (() if "--undirected" in argv else ("out/v_out.dat",)):
                    rows = [l for l in read_tokens(res.files.get(name, "/nonexistent")) if l and l[0] != "#"] if name in res.files else []
                    if len(rows) != N or any(len(r0) != K + 1 for r0 in rows):
                        bad = "%s has %d rows (lengths %s), expected %d rows of a label and %d values" % (name, len(rows), sorted({len(r0) for r0 in rows})[:4], N, K)
            if bad:
                self.violate("frontend-memory-or-ub", "command line with %d groups on %d vertices: %s" % (K, N, bad),
                             {"argv": argv, "files": {"adj.dat": adj}, "status": res.rc, "stderr": res.err[-2500:]})
            shutil.rmtree(wd, ignore_errors=True)

    def frontend_pass(self, rng, n):
        extreme = ["1e308", "-1e308", "-1.7e308", "1.7e308", "1e154", "-1e154", "1e12", "1e-320", "4.9e-324", "0", "-0",
                   "-1", "-0.05", "1e-7", "3e9", "2147483648", "1e19"]
        for k in range(n):
            K, L = rng.randint(2, 3), rng.randint(1, 3)
            if k % 6 == 5:
                K = rng.choice([40, 85, 90, 100, 101, 128])    # many groups: wide rows in the membership files
            recs, L = gen.records(rng, wt="u", N=rng.randint(3, 5), L=L, nrec=rng.randint(2, 6), heavy=False)
            undirected, assort = rng.random() < 0.4, rng.random() < 0.4
            mode = rng.choice(["one", "one", "row", "all", "none"])
            diag = [[fmt6(rng.random()) for _ in range(K)] for _ in range(L)]
            if mode == "one":
                diag[rng.randrange(L)][rng.randrange(K)] = rng.choice(extreme)
            elif mode == "row":
                diag[rng.randrange(L)] = [rng.choice(extreme) for _ in range(K)]
            elif mode == "all":
                x = rng.choice(extreme)
                diag = [[x] * K for _ in range(L)]
            wtext = "".join("%d %s\n" % (a, " ".join(diag[a])) for a in range(L))
            adj = "".join("%s %s %s\n" % (s, d, " ".join(str(w) for w in ws)) for s, d, ws in recs)
            argv = ["--a", "adj.dat", "--k", str(K), "--w", "w.dat", "--r", str(rng.choice([1, 2, 3]) if K < 10 else 1),
                    "--maxit", str(rng.choice([1, 5, 12, 30]) if K < 10 else rng.choice([1, 2])), "--s", str(rng.randint(0, 99)), "--o", "out"]
            if undirected:
                argv.append("--undirected")
            if assort:
                argv.append("--assortative")
            res = run_cli(self.bdir, argv, {"adj.dat": adj, "w.dat": wtext}, os.path.join(self.bdir, "scratch", "p%d_" % os.getpid() + ("fe%d" % k)), timeout=600)
            self.cov["evaluations"] += 1
            self.monitor("command-line runs on extreme affinity values")
            self.dist("frontend:%s:%s" % (mode, "ok" if res.rc == 0 else "status %s" % res.rc))
            self.nontrivial(("frontend", wtext, adj, tuple(argv)))
            if res.rc == -999:
                self.dist("frontend: timeout (inconclusive)")   # a loaded machine; a hang is not what C16 speaks about
            elif res.rc < 0 or res.rc in (77, 78, 134, 139) or sanitizer_report(res.err):
                self.violate("frontend-memory-or-ub", "command line on a shape-correct affinity file with extreme values: %s (status %s)"
                             % (summarise(res.err), res.rc),
                             {"argv": argv, "files": {"adj.dat": adj, "w.dat": wtext}, "status": res.rc, "stderr": res.err[-2500:]})
            shutil.rmtree(os.path.join(self.bdir, "scratch", "p%d_" % os.getpid() + ("fe%d" % k)), ignore_errors=True)

    def valgrind_pass(self, rng, n):
        src = os.path.join(C.VERIF, "harness", "reader_main.cpp")
        exe = os.path.join(self.bdir, "reader_main")
        if not os.path.exists(exe):
            inc = ["-I" + os.path.join(C.REPO, "include"), "-I" + os.path.join(C.REPO, "applications/include")]
            r = C.run(["g++", "-std=c++17", "-O0", "-g", "-DMULTITENSOR_VERIF"] + inc +
                      [src, os.path.join(C.REPO, "applications/src/app_utils.cpp"), "-lboost_filesystem", "-lboost_system", "-o", exe])
            if r.returncode != 0:
                self.corr_broken.append(("build", "reader_main", "-", r.stdout[-1500:], ""))
                return
        d = os.path.join(self.bdir, "scratch", "p%d_" % os.getpid() + "vg")
        shutil.rmtree(d, ignore_errors=True)
        os.makedirs(d)
        files = []
        for k in range(n):
            recs, L = gen.records(rng, wt="u", N=rng.randint(2, 4), nrec=rng.randint(1, 4))
            text = render_adjacency(rng, recs)
            if k % 3:
                text = mutate(rng, text)
            p = os.path.join(d, "adj%d.dat" % k)
            with open(p, "wb") as f:
                f.write(text.encode("utf-8", "replace") if isinstance(text, str) else text)
            files.append(("adj", p, text))
            K, L2 = rng.randint(2, 3), rng.randint(1, 2)
            text = render_affinity(rng, [[0.5] * K for _ in range(L2)], K, L2)
            if k % 3:
                text = mutate(rng, text)
            p = os.path.join(d, "aff%d.dat" % k)
            with open(p, "wb") as f:
                f.write(text.encode("utf-8", "replace") if isinstance(text, str) else text)
            files.append(("aff", p, text))
        for kind, p, text in files:
            r = subprocess.run(["valgrind", "-q", "--error-exitcode=9", "--undef-value-errors=yes", "--track-origins=no", exe, kind, p, "2", "8"],
                               stdout=subprocess.PIPE, stderr=subprocess.PIPE, text=True, errors="replace")
            self.cov["evaluations"] += 1
            self.monitor("valgrind runs")
            if r.returncode == 9 or "uninitialised" in r.stderr or "Invalid" in r.stderr:
                self.violate("reader-uninitialised-or-invalid-access:" + kind, "valgrind: %s" % summarise(r.stderr),
                             {"reader": kind, "file": text if isinstance(text, str) else text.decode("latin1"), "valgrind": r.stderr[-2500:]})
        shutil.rmtree(d, ignore_errors=True)


def summarise(err):
    for pat in (r"ERROR: AddressSanitizer: [^\n]*", r"runtime error: [^\n]*", r"Assertion [^\n]*failed[^\n]*", r"ERROR: LeakSanitizer[^\n]*",
                r"Conditional jump[^\n]*", r"Use of uninitialised[^\n]*", r"Invalid (read|write)[^\n]*", r"terminate called[^\n]*"):
        m = re.search(pat, err)
        if m:
            loc = re.search(r"(/repo/[^\s:]+:\d+)", err[m.start():])
            return m.group(0)[:200] + (" at " + loc.group(1) if loc else "")
    return err.strip()[-200:]


# ------------------------------------------------------------------------------ C19

class C19(Check):
    pid = "C19"
    lean_modules = ["MTProps.C19"]

    def cli_agreement(self, t):
        """the selection the command line binary really makes (its call_start trace event) against the row the .pyx
        table selects for the same arguments, with Python's truth rules for the file name (None, "" -> no file)"""
        if not self.bdir:
            return
        adj = "0 1 1 1\n1 2 1 0\n2 0 0 1\n2 1 1 1\n"
        work = os.path.join(self.bdir, "scratch", "p%d_" % os.getpid() + "cli19")
        for directed in (True, False):
            for assort in (True, False):
                for wname, wtext in ((None, None), ("", None), ("w.dat", "0 0.3 0.4\n1 0.5 0.6\n"), ("w0.dat", "0 0 0\n1 0 0\n")):
                    argv = ["--a", "adj.dat", "--k", "2", "--maxit", "1", "--s", "3"]
                    if wname is not None:
                        argv = ["--w", wname] + argv
                    if not directed:
                        argv.append("--undirected")
                    if assort:
                        argv.insert(0, "--assortative")
                    files = {"adj.dat": adj}
                    if wtext:
                        files[wname] = wtext
                    r = run_cli(self.bdir, argv, files, work)
                    self.cov["evaluations"] += 1
                    call = parse_trace_call(r.trace)
                    self.monitor("command-line selections compared with the .pyx table")
                    rows = [x for x in t["pyx"] if (x["cWint"], x["cDirected"], x["cAssort"], x["cFile"]) == (True, directed, assort, bool(wname))]
                    if len(rows) != 1:
                        continue   # reported by the table evaluation above
                    inst = rows[0]["inst"]
                    if call is None:
                        self.violate("cli-vs-python-selection", "Multitensor %s did not reach the library (status %s) where the Python front end runs the %s variant"
                                     % (" ".join(repr(a) for a in argv), r.rc, inst), {"argv": argv, "files": files, "stderr": r.err[-800:]})
                        continue
                    got = (bool(int(call["dir"])), bool(int(call["assort"])), bool(int(call["initfile"])))
                    want = (inst["directed"], inst["assort"], inst["fromFile"])
                    if got != want:
                        self.violate("cli-vs-python-selection",
                                     "Multitensor %s runs (directed, assortative, start from file) = %s, the Python front end with the same arguments %s"
                                     % (" ".join(repr(a) for a in argv), got, want), {"argv": argv, "files": files})
        shutil.rmtree(work, ignore_errors=True)

    def body(self):
        # evaluate the extracted tables directly (failing-input search and evidence); the theorem is
        # MTProps.C19 by `decide` over the same generated tables
        p = os.path.join(C.LEAN, "MT", "Generated", "tables.json")
        t = json.load(open(p))
        cli = {r["sel"]: r for r in t["cli"]}
        # a block whose guard the translator did not recognise is missing from the table (lost anchor `pyx block`: the
        # obligations fail): the table then says nothing about the code, and the failing-input search is the simulation below
        complete = t.get("pyxBlockCount") == len(t["pyx"])
        self.cov["pyx_table_complete"] = complete
        for wint in ((True, False) if complete else ()):
            for directed in (True, False):
                for assort in (True, False):
                    for wfile in (True, False):
                        cfg = {"int_weights": wint, "directed": directed, "assortative": assort, "affinity_file": wfile}
                        self.cov["evaluations"] += 1
                        self.nontrivial(tuple(cfg.values()))
                        rows = [r for r in t["pyx"] if (r["cWint"], r["cDirected"], r["cAssort"], r["cFile"]) == (wint, directed, assort, wfile)]
                        bad = []
                        if len(rows) != 1:
                            bad.append("%d blocks fire" % len(rows))
                        else:
                            r = rows[0]
                            i = r["inst"]
                            if i["directed"] != directed:
                                bad.append("graph direction")
                            if i["assort"] != assort:
                                bad.append("affinity tensor type")
                            if i["fromFile"] != wfile or (wfile and i["initInner"] != assort):
                                bad.append("affinity initialiser")
                            if r["wint"] != wint or r["wcastInt"] != wint:
                                bad.append("weight type")
                            if r["allocV"] != directed:
                                bad.append("in-membership allocation")
                            sel = int(directed) + 2 * int(assort) + 4 * int(wfile)
                            c = cli.get(sel)
                            if not c or c["inst"] != i:
                                bad.append("disagrees with the command line's case %d" % sel)
                        if len(self.cov["samples"]) < 3:
                            self.sample({"config": cfg, "block": rows[0] if rows else None})
                        if bad:
                            self.violate("python-dispatch", "arguments %s: %s" % (cfg, ", ".join(bad)), {"config": cfg, "blocks_firing": rows})
        # the statements before the dispatch: do the guards see what the caller passed, are the weights cast as named?
        from . import pyxsim
        try:
            found = pyxsim.search(open(os.path.join(C.REPO, "python", "package", "multitensor.pyx")).read())
        except Exception:
            found = None
        self.cov["prologue_simulated"] = found is not None
        if found is not None:
            self.cov["evaluations"] += 48
            self.monitor("prologue runs (3 files x 16 argument combinations, numpy stand-in)", 48)
        # ... and the dispatch itself, run as Python: flags spelled True/False, 1/0, None; file name None, "", a name
        try:
            found2 = pyxsim.search_dispatch(open(os.path.join(C.REPO, "python", "package", "multitensor.pyx")).read())
        except Exception:
            found2 = None
        self.cov["dispatch_simulated"] = found2 is not None
        if found2 is not None:
            self.cov["evaluations"] += 100
            self.monitor("dispatch runs (16 combinations x spellings of the flags and of the file name, numpy stand-in)", 100)
        for f in (found2 or [])[:3]:
            self.violate("python-dispatch-run", "run(%s): %s" % (", ".join("%s=%s" % (k, v) for k, v in f["call"].items() if k != "adjacency_file"), f["what"]), f)
        # ... and the statements after the dispatch: how u, v, the affinity and the report are handed back
        try:
            found3 = pyxsim.search_epilogue(open(os.path.join(C.REPO, "python", "package", "multitensor.pyx")).read())
        except Exception:
            found3 = None
        self.cov["epilogue_simulated"] = found3 is not None
        if found3 is not None:
            self.cov["evaluations"] += 75
            self.monitor("epilogue runs (3 shapes x spellings of the two flags, numpy stand-in)", 75)
        for f in (found3 or [])[:3]:
            self.violate("python-epilogue", "after a run with %s: %s" % (f["case"], f["what"]), f)
        for f in (found or [])[:3]:
            self.violate("python-prologue", "run(%s): %s" % (", ".join("%s=%r" % (k, v) for k, v in f["call"].items() if k not in ("adjacency_file", "init_affinity_file")), f["what"]), f)
        self.cli_agreement(t)
        if not t["pyxVNoneUnlessDirected"]:
            self.violate("python-dispatch", "epilogue does not return None as in-membership for undirected runs", {"epilogue": False})
        self.cov["exhaustive"] = True
        self.cov["rule"] = "all 16 argument combinations, on the tables extracted from multitensor.pyx / multitensor.cpp on this run; distinct by configuration"
