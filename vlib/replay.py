"""check.py replay <file> — re-runs the recorded failing input of a replay file on the current tree
(implementation and model side by side) and prints what each side produces."""
import json
import os
import sys

from . import common as C


def show(label, out):
    for cid, fields in out.items():
        print("  [%s] %s" % (label, cid))
        for k, v in fields.items():
            s = ",".join(v)
            print("      %s = %s" % (k, s if len(s) < 300 else s[:300] + "…"))


def replay(path):
    rep = json.load(open(path))
    print("property:", rep.get("property"), "| key:", rep.get("key"))
    print("what:", rep.get("what"))
    C.generate()
    ok, out = C.lake_build(["MT", "mtdriver"])
    if not ok:
        print("model does not build:\n", out[-1500:])
    try:
        bdir = C.build_native()
    except C.BuildError as e:
        print("native build failed:", e.what, e.output[-1500:])
        return 1
    lines = list(rep.get("history_same_process") or [])
    for key in ("case", "case_a", "case_b", "case_general", "case_assortative", "case_r", "case_r_prime",
                "case_original", "library_case"):
        v = rep.get(key)
        if isinstance(v, str) and len(v.split()) >= 2:
            lines.append(v)
    for b in rep.get("broken_correspondence", []):
        if b.get("case"):
            lines.append(b["case"])
    rc = 0
    if lines:
        io, crashes = C.run_impl(bdir, lines)
        show("implementation", io)
        for cid, line, err, code in crashes:
            print("  [implementation] %s ABORTED rc=%s\n%s" % (cid, code, err[-1500:]))
            rc = 1
        if ok:
            try:
                show("model", C.run_model(lines))
            except C.BuildError as e:
                print("model driver failed:", e.output[-800:])
    if rep.get("argv") is not None and rep.get("files") is not None:
        from .props_c import run_cli
        wd = os.path.join(bdir, "scratch", "p%d_" % os.getpid() + "replay")
        r = run_cli(bdir, rep["argv"], rep["files"], wd)
        print("  [command line] Multitensor", " ".join(rep["argv"]))
        print("      exit status:", r.rc)
        print("      files written:", sorted(r.files))
        print("      stderr tail:", r.err[-600:].strip())
        if r.trace:
            print("      trace head:", r.trace[:400].replace("\n", " | "))
    if rep.get("broken_theorems_or_obligations"):
        print("  proof obligations that no longer check:")
        for b in rep["broken_theorems_or_obligations"]:
            print("    -", b.get("what"))
            print("      ", (b.get("detail") or "")[-600:].replace("\n", "\n       "))
    if not lines and rep.get("argv") is None and not rep.get("broken_theorems_or_obligations"):
        print("  (no executable case recorded in this replay file; see its fields)")
        print(json.dumps({k: v for k, v in rep.items() if k not in ("stderr",)}, indent=1)[:3000])
    return rc
