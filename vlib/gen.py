"""Input generators.  Every random choice derives from one random.Random(seed)."""
import random

from .common import hexf, hexbytes


def records(rng, N=None, L=None, nrec=None, wt="u", maxw=3, labels=None, ensure_two=True, heavy=None):
    """structured, mostly-valid edge list: list of (src, dst, [w_1..w_L]) over label list"""
    N = N or rng.randint(2, 7)
    L = L or rng.randint(1, 3)
    nrec = nrec or rng.randint(1, 12)
    labels = labels or list(range(N))
    # vertex roles: some source-only, some sink-only
    roles = [rng.choice("bbbso") for _ in range(N)]
    srcs = [i for i in range(N) if roles[i] in "bs"] or [0]
    dsts = [i for i in range(N) if roles[i] in "bo"] or [N - 1]
    recs = []
    # real weights: in one list out of five every positive weight is a fraction in (1e-6, 1)
    fractional = wt == "r" and rng.random() < 0.2
    for _ in range(nrec):
        kind = rng.random()
        if recs and kind < 0.12:          # parallel record (same pair again)
            s, d, _ = rng.choice(recs)
            s, d = labels.index(s), labels.index(d)
        elif recs and kind < 0.2:         # the other orientation of an existing record
            d, s, _ = rng.choice(recs)
            s, d = labels.index(s), labels.index(d)
        elif kind < 0.28:                 # self-loop
            s = d = rng.randrange(N)
        else:
            s, d = rng.choice(srcs), rng.choice(dsts)
        ws = []
        allzero = rng.random() < 0.08
        for _a in range(L):
            if allzero:
                w = 0
            else:
                w = rng.choice([0, 1, 1, 1, 2, rng.randint(1, maxw)])
            if wt == "r":
                if w and fractional:
                    w = rng.choice([0.5, 0.25, 0.999, 2e-6, 0.1 + 0.8 * rng.random()])
                elif w and rng.random() < 0.5:
                    # incl. values a hair above / below an integer: rounding *up* must give n + 1 for n + 5e-7
                    w = rng.choice([w - rng.random() * 0.9, w + 0.0, 1e-7, 0.5, 2.5,
                                    w + 5e-7, w + 1e-9, w + 1e-6, w + 2e-6, w - 1e-9, w + 1e-12])
                w = float(w)
                if rng.random() < 0.03:
                    w = float("nan")      # not a number: no edge in this layer (every comparison with it is false), the end points exist
            elif wt == "l" and rng.random() < 0.05:
                w = -rng.randint(0, 2)
            ws.append(w)
        recs.append((labels[s], labels[d], ws))
    # a heavy run: one record repeated consecutively with large integer weights (hundreds to thousands of
    # parallel edges between one pair, spread over several records)
    if heavy is None:
        heavy = wt in "ul" and rng.random() < 0.06
    if heavy and heavy != "hub" and recs and wt in "ul":
        at = rng.randrange(len(recs))
        s0, d0, _ = recs[at]
        a0 = rng.randrange(L)
        run = []
        for _ in range(rng.randint(2, 3)):
            ws = [rng.choice([0, 1]) for _ in range(L)]
            # (heavy == "wide": more parallel edges than a 16-bit counter holds; only asked for where one sweep is run)
            ws[a0] = rng.choice([400, 700, 1001, 1500]) if heavy != "wide" else rng.choice([65535, 65536, 66000])
            run.append((s0, d0, ws))
        recs[at + 1:at + 1] = run
    if heavy == "hub" and recs and wt in "ul":
        # a hub: one vertex with 130-400 edges in one layer made of many light records to changing targets, so that its
        # 64th, 128th, 256th ... edge is some ordinary single edge
        hub = rng.randrange(N)
        a0 = rng.randrange(L)
        left = rng.randint(130, 400)
        run = []
        while left > 0:
            wgt = min(left, rng.choice([1, 1, 1, 2, 3, rng.randint(1, 60)]))
            ws = [0] * L
            ws[a0] = wgt
            tgt = rng.randrange(N)
            pair = (labels[hub], labels[tgt]) if rng.random() < 0.8 else (labels[tgt], labels[hub])
            run.append((pair[0], pair[1], ws))
            left -= wgt
        at = rng.randrange(len(recs) + 1)
        recs[at:at] = run
    if ensure_two and len({x for r in recs for x in r[:2]}) < 2:
        recs.append((labels[0], labels[1], [1] * L))
    return recs, L


def fmt_w(w, wt):
    return hexf(w) if wt == "r" else str(int(w))


def recs_tokens(recs, L, wt):
    t = [wt, str(len(recs)), str(L)]
    lab = lambda x: hexf(x) if isinstance(x, float) else str(x)   # floating-point labels travel as bit patterns
    for s, d, ws in recs:
        t += [lab(s), lab(d)] + [fmt_w(w, wt) for w in ws]
    return t


def first_appearance(recs):
    seen = []
    for s, d, _ in recs:
        for x in (s, d):
            if x not in seen:
                seen.append(x)
    return seen


def rand_val(rng, kind):
    r = rng.random()
    if kind == "init":
        return rng.random()
    if r < 0.08:
        return 0.0
    if r < 0.12:
        return rng.choice([9e-7, 1.1e-6, 1e-6, 5e-7, 2e-6])
    if r < 0.2:
        return rng.random() * 1e-3
    return rng.random() * rng.choice([1, 1, 2, 5])


def flist(xs):
    return [str(len(xs))] + [hexf(x) for x in xs]


def case_net(cid, directed, lt, recs, L, wt):
    return " ".join([cid, "net", str(int(directed)), lt] + recs_tokens(recs, L, wt))


def case_sweep(cid, directed, assort, K, recs, L, wt, N, u, v, w, it0=0, co0=0, l20=-1.7976931348623157e308,
               maxit=100, nconv=10):
    t = [cid, "sweep", str(int(directed)), str(int(assort)), str(K), "u"] + recs_tokens(recs, L, wt)
    t += [str(N)] + flist(u) + flist(v) + flist(w)
    t += [str(it0), str(co0), hexf(l20), str(maxit), str(nconv)]
    return " ".join(t)


def case_run(cid, directed, assort, init, K, lt, recs, L, wt, r, maxit, nconv, seed, prior=0.0, tr=0,
             script=(), aff=None, vshape=0, lprior=0, ushape=0, draws=()):
    if aff is None:
        aff = [0.0] * ((K if assort else K * K) * L)
    t = [cid, "run", str(int(directed)), str(int(assort)), init, str(K), lt] + recs_tokens(recs, L, wt)
    t += [str(r), str(maxit), str(nconv), str(seed), hexf(prior), str(tr)] + flist(list(script)) + flist(aff)
    if vshape or lprior or ushape or draws:
        t.append(str(vshape))   # prior shape of the in-membership container (see harness op_run_t)
    if lprior or ushape or draws:
        t.append(str(lprior))   # prior contents of the label container
    if ushape or draws:
        t.append(str(ushape))   # shape of the out-membership container (always N*K elements)
    if draws:
        t += flist(list(draws))  # the generator returns these draws (cyclically) instead of the stream of the seed
    return " ".join(t)


def case_runshared(cid, directed, assort, init, K, recs, L, r1, r2, maxit, nconv, seed, aff):
    """one generator object handed to two successive calls (r1 realizations, then r2); size_t labels and weights"""
    t = [cid, "runshared", str(int(directed)), str(int(assort)), init, str(K), "u"] + recs_tokens(recs, L, "u")
    t += [str(r1), str(r2), str(maxit), str(nconv), str(seed)] + flist(aff)
    return " ".join(t)


def case_run2(cid, directed, assort, init, r, maxit, nconv, parts):
    """one Solver object, two runs; parts = [(K, recs, L, seed, aff)] * 2 (size_t labels and weights)"""
    t = [cid, "run2", str(int(directed)), str(int(assort)), init, str(r), str(maxit), str(nconv)]
    for K, recs, L, seed, aff in parts:
        t += [str(K), "u"] + recs_tokens(recs, L, "u") + [str(seed)] + flist(aff)
    return " ".join(t)


def random_state(rng, N, K, L, assort, directed, reachable=None):
    """(u, v, w) flat column-major; `reachable` = (U, V) index lists: rows outside are zero"""
    u = [rand_val(rng, "s") for _ in range(N * K)]
    v = [rand_val(rng, "s") for _ in range(N * K)] if directed else []
    if reachable:
        U, V = reachable
        for i in range(N):
            for k in range(K):
                if i not in U:
                    u[k * N + i] = 0.0
                if directed and i not in V:
                    v[k * N + i] = 0.0
    if rng.random() < 0.25:
        # a group that has almost died out: its column sums are small but above the 1e-6 guard, their product is not
        k = rng.randrange(K)
        for m in ([u, v] if directed else [u]):
            tot = sum(m[k * N:(k + 1) * N])
            if tot > 0:
                f = 10 ** -rng.uniform(3.0, 5.5) / tot
                for i in range(N):
                    m[k * N + i] *= f
    if assort:
        w = [rand_val(rng, "s") for _ in range(K * L)]
    else:
        w = [rand_val(rng, "s") for _ in range(K * K * L)]
        mode = rng.random()
        for a in range(L):
            # all layers symmetric / every layer on its own symmetric, zero or not (e.g. the first symmetric, a later one not)
            kind = "sym" if mode < 0.4 else ("any" if mode < 0.6 else rng.choice(["sym", "zero", "any", "any"]))
            for k in range(K):
                for q in range(K):
                    if kind == "zero":
                        w[a * K * K + q * K + k] = 0.0
                    elif kind == "sym" and q < k:
                        w[a * K * K + q * K + k] = w[a * K * K + k * K + q]
    return u, v, w
