"""Shared machinery of the checks: building (Lean, harness, CLI), running the two sides of the
line protocol, comparing, evidence, violations, known findings."""
import hashlib
import json
import os
import re
import shutil
import struct
import subprocess
import sys
import time

VERIF = os.path.dirname(os.path.dirname(os.path.abspath(__file__)))
REPO = os.environ.get("VERIF_REPO", "/repo")
LEAN = os.path.join(VERIF, "lean")
CACHE = os.path.join(VERIF, ".cache")
EVID = os.path.join(VERIF, "evidence")
REPLAYS = os.path.join(VERIF, "replays")
KNOWN = os.path.join(VERIF, "KNOWN_FINDINGS.txt")
NCPU = os.cpu_count() or 4

SRC_DIRS = ["include/multitensor", "applications/include", "applications/src"]
CXXFLAGS = ["-std=c++17", "-O1", "-g", "-fsanitize=address,undefined,float-cast-overflow", "-fno-sanitize-recover=all",
            "-D_GLIBCXX_ASSERTIONS", "-DMULTITENSOR_VERIF", "-fno-omit-frame-pointer"]
SAN_ENV = {"ASAN_OPTIONS": "detect_leaks=1:abort_on_error=0:exitcode=77:allocator_may_return_null=1",
           "UBSAN_OPTIONS": "print_stacktrace=1:halt_on_error=1:exitcode=78"}

STD_AXIOMS = {"propext", "Classical.choice", "Quot.sound"}
FORBIDDEN = re.compile(r"\bsorry\b|\badmit\b|^axiom\s|\bnative_decide\b|\bbv_decide\b|implemented_by|\bunsafe\s|maxHeartbeats\s+0\b")


def log(*a):
    print(*a, file=sys.stderr, flush=True)


# ------------------------------------------------------------------------------------ hashing

def tree_hash(extra_files=()):
    h = hashlib.sha256()
    for d in SRC_DIRS:
        base = os.path.join(REPO, d)
        for root, _, files in sorted(os.walk(base)):
            for f in sorted(files):
                p = os.path.join(root, f)
                h.update(os.path.relpath(p, REPO).encode())
                with open(p, "rb") as fh:
                    h.update(fh.read())
    for p in extra_files:
        with open(p, "rb") as fh:
            h.update(fh.read())
    h.update(" ".join(CXXFLAGS).encode())
    return h.hexdigest()[:16]


# ------------------------------------------------------------------------------------ builds

class BuildError(Exception):
    def __init__(self, what, output):
        super().__init__(what)
        self.what = what
        self.output = output


def run(cmd, **kw):
    return subprocess.run(cmd, stdout=subprocess.PIPE, stderr=subprocess.STDOUT, text=True, **kw)


def prune_cache(keep):
    """keep the cache small (disk is limited): the two most recently used build dirs survive besides `keep`,
    so that a concurrent check working on another tree state does not lose its binaries"""
    if not os.path.isdir(CACHE):
        return
    ds = [os.path.join(CACHE, d) for d in os.listdir(CACHE) if d.startswith("build-")]
    ds = [d for d in ds if d != keep]
    ds.sort(key=lambda d: os.path.getmtime(d), reverse=True)
    for d in ds[2:]:
        shutil.rmtree(d, ignore_errors=True)


class FileLock:
    """inter-process lock (several checks may run at the same time on a tree that needs rebuilding)"""

    def __init__(self, name):
        os.makedirs(CACHE, exist_ok=True)
        self.path = os.path.join(CACHE, name + ".lock")

    def __enter__(self):
        import fcntl
        self.fh = open(self.path, "w")
        fcntl.flock(self.fh, fcntl.LOCK_EX)
        return self

    def __exit__(self, *a):
        import fcntl
        fcntl.flock(self.fh, fcntl.LOCK_UN)
        self.fh.close()


def build_native():
    with FileLock("native"):
        return _build_native()


def _build_native():
    """harness + Multitensor CLI from /repo's working tree, guard on, sanitizers on.
    Cached by content hash of the sources and of the harness."""
    hsrc = os.path.join(VERIF, "harness", "harness.cpp")
    key = tree_hash([hsrc])
    bdir = os.path.join(CACHE, "build-" + key)
    stamp = os.path.join(bdir, "OK")
    if os.path.exists(stamp) and os.path.exists(os.path.join(bdir, "harness")):
        os.utime(bdir, None)
        return bdir
    prune_cache(bdir)
    shutil.rmtree(bdir, ignore_errors=True)
    os.makedirs(bdir)
    inc = ["-I" + os.path.join(REPO, "include"), "-I" + os.path.join(REPO, "applications/include")]
    jobs = []
    for k in range(7):
        jobs.append(("part%d" % k, ["g++"] + CXXFLAGS + inc + ["-DHARNESS_PART=%d" % k, "-c", hsrc,
                                                              "-o", os.path.join(bdir, "part%d.o" % k)]))
    jobs.append(("app_utils", ["g++"] + CXXFLAGS + inc + ["-c", os.path.join(REPO, "applications/src/app_utils.cpp"),
                                                         "-o", os.path.join(bdir, "app_utils.o")]))
    jobs.append(("cli", ["g++"] + CXXFLAGS + inc + ["-c", os.path.join(REPO, "applications/src/multitensor.cpp"),
                                                   "-o", os.path.join(bdir, "cli.o")]))
    t0 = time.time()
    procs = [(n, subprocess.Popen(c, stdout=subprocess.PIPE, stderr=subprocess.STDOUT, text=True)) for n, c in jobs]
    errs = []
    for n, p in procs:
        out, _ = p.communicate()
        if p.returncode != 0:
            errs.append((n, out))
    if errs:
        raise BuildError("native build failed: " + ",".join(n for n, _ in errs), "\n".join(o[-4000:] for _, o in errs))
    libs = ["-lboost_filesystem", "-lboost_system"]
    r = run(["g++", "-fsanitize=address,undefined"] + [os.path.join(bdir, "part%d.o" % k) for k in range(7)] +
            [os.path.join(bdir, "app_utils.o")] + libs + ["-o", os.path.join(bdir, "harness")])
    if r.returncode != 0:
        raise BuildError("harness link failed", r.stdout[-4000:])
    r = run(["g++", "-fsanitize=address,undefined", os.path.join(bdir, "cli.o"), os.path.join(bdir, "app_utils.o")] +
            libs + ["-o", os.path.join(bdir, "Multitensor")])
    if r.returncode != 0:
        raise BuildError("CLI link failed", r.stdout[-4000:])
    for k in range(7):
        os.remove(os.path.join(bdir, "part%d.o" % k))
    os.remove(os.path.join(bdir, "cli.o"))
    os.remove(os.path.join(bdir, "app_utils.o"))
    open(stamp, "w").write("built in %.1fs\n" % (time.time() - t0))
    log("native build %.1fs -> %s" % (time.time() - t0, bdir))
    return bdir


def generate():
    """run the translator; returns list of lost anchors [(name, why)]"""
    with FileLock("lean"):
        r = run([sys.executable, os.path.join(VERIF, "tools", "gen_from_source.py")])
    lost = []
    for line in r.stdout.splitlines():
        m = re.match(r"LOST-ANCHOR (.*?): (.*)", line)
        if m:
            lost.append((m.group(1), m.group(2)))
    if r.returncode not in (0, 3):
        raise BuildError("translator crashed", r.stdout[-3000:])
    return lost


def lake_build(targets):
    """returns (ok, output)"""
    with FileLock("lean"):
        r = run(["lake", "build"] + list(targets), cwd=LEAN)
    return r.returncode == 0, r.stdout


def driver_path():
    return os.path.join(LEAN, ".lake", "build", "bin", "mtdriver")


_lean_src_cache = {}


def lean_source_audit():
    """forbidden tokens outside comments in every .lean file of the project"""
    hits = []
    for root, dirs, files in os.walk(LEAN):
        if ".lake" in root:
            continue
        for f in files:
            if not f.endswith(".lean"):
                continue
            p = os.path.join(root, f)
            src = open(p, encoding="utf-8").read()
            # strip block comments (non-nested is enough for our files) and line comments
            s = re.sub(r"/-.*?-/", lambda m: "\n" * m.group(0).count("\n"), src, flags=re.S)
            s = re.sub(r"--[^\n]*", "", s)
            for i, line in enumerate(s.splitlines(), 1):
                if FORBIDDEN.search(line):
                    hits.append("%s:%d: %s" % (os.path.relpath(p, VERIF), i, line.strip()))
    return hits


def theorems_of(module):
    """names of the theorems declared in lean/<module path>.lean, with their namespace"""
    p = os.path.join(LEAN, module.replace(".", "/") + ".lean")
    src = open(p, encoding="utf-8").read()
    s = re.sub(r"/-.*?-/", lambda m: "\n" * m.group(0).count("\n"), src, flags=re.S)
    names = []
    ns = []
    for line in s.splitlines():
        m = re.match(r"namespace\s+(\S+)", line)
        if m:
            ns.append(m.group(1))
            continue
        m = re.match(r"end\s+(\S+)", line)
        if m and ns and ns[-1] == m.group(1):
            ns.pop()
            continue
        m = re.match(r"(?:@\[[^\]]*\]\s*)?(?:protected\s+)?theorem\s+(\S+)", line)
        if m:
            names.append(".".join(ns + [m.group(1)]))
    return names


def axiom_audit(module, theorems):
    """`#print axioms` for every property theorem; returns {theorem: [axioms]} or raises"""
    if not theorems:
        return {}
    d = os.path.join(CACHE, "audit")
    os.makedirs(d, exist_ok=True)
    f = os.path.join(d, module.replace(".", "_") + ".lean")
    with open(f, "w") as fh:
        fh.write("import %s\n" % module)
        for t in theorems:
            fh.write("#print axioms %s\n" % t)
    r = run(["lake", "env", "lean", f], cwd=LEAN)
    if r.returncode != 0:
        raise BuildError("axiom audit failed for " + module, r.stdout[-3000:])
    res = {}
    for m in re.finditer(r"'([^']+)' depends on axioms: \[([^\]]*)\]", r.stdout):
        res[m.group(1)] = [a.strip() for a in m.group(2).replace("\n", " ").split(",") if a.strip()]
    for m in re.finditer(r"'([^']+)' does not depend on any axioms", r.stdout):
        res[m.group(1)] = []
    return res


# ------------------------------------------------------------------------------------ protocol

def hexf(x):
    return "x%016x" % struct.unpack("<Q", struct.pack("<d", float(x)))[0]


def unhex(t):
    return struct.unpack("<d", struct.pack("<Q", int(t[1:], 16)))[0]


def is_hex(t):
    return len(t) == 17 and t[0] == "x"


def hexbytes(b):
    if isinstance(b, str):
        b = b.encode("utf-8", "surrogateescape")
    return b.hex() if b else "-"


def parse_out(text):
    """{id: {key: [tokens]}}"""
    res = {}
    for line in text.splitlines():
        parts = line.split(" ")
        if not parts or not parts[0]:
            continue
        d = {}
        for fld in parts[1:]:
            if "=" not in fld:
                continue
            k, v = fld.split("=", 1)
            d[k] = v.split(",") if v != "" else []
        res[parts[0]] = d
    return res


def run_model(case_lines):
    """the model is a pure function of each case line: the lines are spread over several driver processes"""
    lines = list(case_lines)
    nproc = max(1, min(NCPU - 2, 12, (len(lines) + 3) // 4))
    chunks = [lines[k::nproc] for k in range(nproc)]
    procs = []
    for ch in chunks:
        pr = subprocess.Popen([driver_path()], stdin=subprocess.PIPE, stdout=subprocess.PIPE, stderr=subprocess.PIPE, text=True)
        procs.append((pr, ch))
    import threading
    results = [None] * len(procs)

    def feed(k, pr, ch):
        results[k] = pr.communicate("\n".join(ch) + "\n")
    threads = [threading.Thread(target=feed, args=(k, pr, ch)) for k, (pr, ch) in enumerate(procs)]
    for t in threads:
        t.start()
    for t in threads:
        t.join()
    out = {}
    for k, (pr, ch) in enumerate(procs):
        so, se = results[k]
        if pr.returncode != 0:
            raise BuildError("model driver crashed", (se or "")[-2000:])
        out.update(parse_out(so))
    return out


HISTORY = {}


def run_impl(bdir, case_lines, timeout=3600):
    """runs the harness; a sanitizer abort / crash is a result: returns (outputs, crashes) where
    crashes = [(case_id, case_line, stderr_excerpt, returncode)]"""
    env = dict(os.environ)
    env.update(SAN_ENV)
    scratch = os.path.join(bdir, "scratch")
    os.makedirs(scratch, exist_ok=True)
    outs = {}
    crashes = []
    remaining = list(case_lines)
    while remaining:
        try:
            p = subprocess.run([os.path.join(bdir, "harness"), scratch], input="\n".join(remaining) + "\n",
                               stdout=subprocess.PIPE, stderr=subprocess.PIPE, text=True, env=env, timeout=timeout)
            rc, so, se = p.returncode, p.stdout, p.stderr
        except subprocess.TimeoutExpired as e:
            rc, so, se = -999, (e.stdout or b"").decode() if isinstance(e.stdout, bytes) else (e.stdout or ""), "TIMEOUT"
        got = parse_out(so)
        outs.update(got)
        if rc == 0:
            break
        if rc == -999:
            # the harness did not finish its batch in time (a loaded machine): what it answered is used, the rest is
            # inconclusive - not a crash of any particular case
            log("harness batch timed out after %d s: %d of %d cases answered, the rest inconclusive" % (timeout, len(got), len(remaining)))
            break
        # first case without output is the one that died
        idx = None
        for i, line in enumerate(remaining):
            if line.split(" ", 1)[0] not in got:
                idx = i
                break
        if idx is None:
            # died after the last case (e.g. leak report at exit)
            crashes.append(("<exit>", "", se[-3000:], rc))
            break
        crashes.append((remaining[idx].split(" ", 1)[0], remaining[idx], se[-3000:], rc))
        HISTORY[remaining[idx]] = remaining[:idx]   # what the same process had executed before it died
        remaining = remaining[idx + 1:]
    return outs, crashes


def cmp_tokens(a, b, rtol=1e-9, atol=0.0):
    """'exact' | 'tol' | 'diff'"""
    if a == b:
        return "exact"
    if len(a) != len(b):
        return "diff"
    worst = "exact"
    for x, y in zip(a, b):
        if x == y:
            continue
        if is_hex(x) and is_hex(y):
            fx, fy = unhex(x), unhex(y)
            if fx != fx and fy != fy:
                continue
            if fx == fy:  # +0 / -0
                continue
            if abs(fx - fy) <= atol + rtol * max(abs(fx), abs(fy)):
                worst = "tol"
                continue
        return "diff"
    return worst


# ------------------------------------------------------------------------------------ results

class Violation:
    def __init__(self, key, what, replay, failing_input=True):
        self.key = key
        self.what = what
        self.replay = replay  # dict, written to a file
        self.failing_input = failing_input


def known_findings(pid):
    res = []
    if os.path.exists(KNOWN):
        for line in open(KNOWN):
            m = re.match(r"finding:\s+property=(\S+)\s+key=(\S+)\s+(.*)", line.strip())
            if m and m.group(1) == pid:
                res.append((m.group(2), m.group(3)))
    return res


def write_evidence(pid, tier, seed, t0, coverage, assumptions, violations):
    os.makedirs(EVID, exist_ok=True)
    if not coverage.get("obligations"):
        coverage = {k: v for k, v in coverage.items() if k not in ("obligations", "discharged")}
    ev = {"property_id": pid, "tier": tier, "seed": seed, "level": "proof", "coverage": coverage,
          "assumptions": assumptions, "wall_s": round(time.time() - t0, 2), "violations": violations}
    with open(os.path.join(EVID, pid + ".json"), "w") as f:
        json.dump(ev, f, indent=1)


def report(pid, violations):
    """prints KNOWN-FINDING / VIOLATION lines, writes replay files; returns exit code"""
    os.makedirs(REPLAYS, exist_ok=True)
    known = known_findings(pid)
    rc = 0
    seen_known = set()
    n = 0
    for v in violations:
        hit = [k for k in known if k[0] == v.key]
        if hit:
            if v.key not in seen_known:
                seen_known.add(v.key)
                print("KNOWN-FINDING: property=%s %s" % (pid, hit[0][1]))
            continue
        n += 1
        if n > 5:
            continue
        path = os.path.join(REPLAYS, "%s_%s_%d.json" % (pid, re.sub(r"[^A-Za-z0-9_.-]", "_", v.key)[:60], n))
        rep = dict(v.replay)
        rep.update({"property": pid, "key": v.key, "what": v.what})
        with open(path, "w") as f:
            json.dump(rep, f, indent=1)
        print("VIOLATION property=%s replay=%s%s" % (pid, path, "" if v.failing_input else " no-failing-input-found"))
        log("  -> " + v.what[:400])
        rc = 1
    return rc, n
