/-
Scalar abstraction of the model.  Every model definition is generic in a type `α`
with the arithmetic of `double` that the C++ uses: `+ - * /`, `<`, `abs`, `log`,
conversion from counts, and the documented constants.  Two instances exist:
`Float` (this file; executable, compared with the C++ on every check) and `ℝ`
(`MTProofs/RealScalar.lean`; theorems).  No Mathlib import here: the driver links.
-/
import MT.Generated.Params

namespace MT

/-- the non-arithmetic part of the scalar interface -/
class MTExtra (α : Type) where
  zero : α
  abs : α → α
  log : α → α
  ofNat : Nat → α
  /-- `EPS_PRECISION` -/
  eps : α
  /-- `EPS_PRECISION_LIKELIHOOD` -/
  epsLik : α
  /-- `EPS_NOISE` -/
  noise : α
  /-- `std::numeric_limits<double>::lowest()` -/
  lowest : α

def sciFloat (m : Nat) (e : Int) : Float :=
  Float.ofScientific m (e < 0) e.natAbs

instance : MTExtra Float where
  zero := 0.0
  abs := Float.abs
  log := Float.log
  ofNat := Float.ofNat
  eps := sciFloat Params.epsMant Params.epsExp
  epsLik := sciFloat Params.epsLikMant Params.epsLikExp
  noise := sciFloat Params.noiseMant Params.noiseExp
  lowest := Float.ofBits 0xffefffffffffffff

section
variable {α : Type} [Add α] [MTExtra α] {ι : Type}

/-- `acc = 0; for x in l: acc += f x` — the C++ accumulation order -/
def sumL (l : List ι) (f : ι → α) : α :=
  l.foldl (fun acc x => acc + f x) MTExtra.zero

end

/-- the index pairs of two nested `for (m..K) for (l..K)` loops sharing one accumulator -/
def pairs (m n : Nat) : List (Nat × Nat) :=
  (List.range m).flatMap fun a => (List.range n).map fun b => (a, b)

end MT
