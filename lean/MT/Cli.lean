/-
The command-line front end (applications/src/multitensor.cpp, app_utils.hpp/.cpp): option
scanning, the two file readers, the dispatch to a library instantiation, the writers.

iostream extraction is modelled at token level for a stated lexical class: labels, layer ids
and integer weights are decimal naturals; real values are `[+-]?digits[.digits][e[+-]digits]`.
Anything else belongs to the malformed stream (exercised under sanitizers only).
-/
import MT.Proto
import MT.Generated.Dispatch

namespace MT.Cli
open MT MT.Proto

/-! ### lexical layer -/

/-- `isspace` in the "C" locale -/
def isSpace (c : Char) : Bool :=
  c = ' ' || c = '\t' || c = '\n' || c = '\r' || c = '\x0b' || c = '\x0c'

/-- whitespace-delimited tokens, as `operator>>` sees them (on characters) -/
def tokensL : List Char → List (List Char)
  | [] => []
  | c :: cs =>
    if isSpace c then tokensL cs
    else match cs with
      | [] => [[c]]
      | d :: _ =>
        if isSpace d then [c] :: tokensL cs
        else match tokensL cs with
          | t :: ts => (c :: t) :: ts
          | [] => [[c]]

def tokens (s : String) : List String := (tokensL s.toList).map String.ofList

/-- pieces between line feeds -/
def splitOnNL : List Char → List (List Char)
  | [] => [[]]
  | c :: cs =>
    if c = '\n' then [] :: splitOnNL cs
    else match splitOnNL cs with
      | l :: ls => (c :: l) :: ls
      | [] => [[c]]

/-- `line.erase(line.find_last_not_of(" ") + 1)` -/
def stripTrailingSpaces (l : List Char) : List Char := (l.reverse.dropWhile (· = ' ')).reverse

/-- the pieces `std::getline` yields in a `while (!in.eof())` loop, empty ones dropped, trailing
blanks erased -/
def fileLinesL (content : List Char) : List (List Char) :=
  ((splitOnNL content).filter (· ≠ [])).map stripTrailingSpaces

def fileLines (content : String) : List String := (fileLinesL content.toList).map String.ofList

def isNatTok (s : String) : Bool := !s.isEmpty && s.toList.all Char.isDigit

/-- decimal naturals on characters -/
def isNatL (l : List Char) : Bool := !l.isEmpty && l.all Char.isDigit

def natOfL (l : List Char) : Nat := l.foldl (fun acc c => acc * 10 + (c.toNat - '0'.toNat)) 0

/-- `[+-]?digits[.digits][e[+-]digits]` → nearest double (`Float.ofScientific`) -/
def parseDecimal (s : String) : Option Float :=
  let cs := s.toList
  let (neg, cs) := match cs with
    | '-' :: r => (true, r)
    | '+' :: r => (false, r)
    | r => (false, r)
  let ip := cs.takeWhile Char.isDigit
  let cs := cs.dropWhile Char.isDigit
  let (fp, cs) := match cs with
    | '.' :: r => (r.takeWhile Char.isDigit, r.dropWhile Char.isDigit)
    | r => ([], r)
  if ip.isEmpty && fp.isEmpty then none else
  let expPart : Option Int := match cs with
    | [] => some 0
    | e :: r =>
      if e = 'e' || e = 'E' then
        let (eneg, r) := match r with
          | '-' :: r => (true, r)
          | '+' :: r => (false, r)
          | r => (false, r)
        if r.isEmpty || !r.all Char.isDigit then none
        else
          let v : Int := (String.ofList r).toNat!
          some (if eneg then -v else v)
      else none
  match expPart with
  | none => none
  | some ex =>
    let mant := (String.ofList (ip ++ fp)).toNat!
    let e10 : Int := ex - fp.length
    let x := Float.ofScientific mant (e10 < 0) e10.natAbs
    some (if neg then -x else x)

/-! ### read_adjacency_data (app_utils.hpp:54-114) -/

structure Adj where
  starts : List Nat
  ends : List Nat
  weights : List Nat
deriving Repr, DecidableEq

/-- one line: two labels, then weights while they extract; a line on which the two labels
cannot be extracted is skipped -/
def adjLineL (l : List Char) : Option (Nat × Nat × List Nat) :=
  match tokensL l with
  | a :: b :: rest =>
    if isNatL a && isNatL b then
      some (natOfL a, natOfL b, (rest.takeWhile isNatL).map natOfL)
    else none
  | _ => none

def parseAdjacencyL (content : List Char) : Adj :=
  let rows := (fileLinesL content).filterMap adjLineL
  { starts := rows.map (·.1), ends := rows.map (·.2.1), weights := rows.flatMap (·.2.2) }

def parseAdjacency (content : String) : Adj := parseAdjacencyL content.toList

/-! ### read_affinity_data (app_utils.cpp:37-121) -/

/-- a non-comment line: layer id token and the values that extract -/
def affLine (l : String) : Option (String × List Float) :=
  match tokens l with
  | [] => none
  | t :: rest =>
    if t = "#" then none
    else some (t, (rest.map parseDecimal).takeWhile Option.isSome |>.filterMap id)

/-- second pass, one line: the `g`-th value of the line of layer `layer` is written to flat
position `Gen.readerIdx` (the regenerated index expression of app_utils.cpp) -/
def placeRow {α : Type} (assort : Bool) (K : Nat) (w : Array α) (layer : Nat) (vals : List α) : Array α :=
  vals.zipIdx.foldl (fun w p => w.setIfInBounds (Gen.readerIdx assort K p.2 layer) p.1) w

/-- second pass, all lines in file order, starting from the pre-sized zero vector -/
def placeRows {α : Type} (assort : Bool) (K : Nat) (w0 : Array α) (rows : List (Nat × List α)) : Array α :=
  rows.foldl (fun w r => placeRow assort K w r.1 r.2) w0

/-- why a file is rejected -/
inductive AffErr where
  | size | columns | layers | layerId
deriving DecidableEq, Repr

/-- entries of one layer in the flat vector -/
def perLayer (assort : Bool) (K : Nat) : Nat := if assort then K else K * K

/-- the shape checks: every line carries `K` values, there are exactly `L = size / perLayer` lines,
every layer id is a natural below `L` -/
def checkRows (assort : Bool) (K size : Nat) (rows : List (String × List Float)) : Except AffErr Nat :=
  if K = 0 || size % perLayer assort K ≠ 0 then .error .size
  else if rows.any (fun r => r.2.length ≠ K) then .error .columns
  else if rows.length ≠ size / perLayer assort K then .error .layers
  else if rows.any (fun r => !isNatTok r.1 || r.1.toNat! ≥ size / perLayer assort K) then .error .layerId
  else .ok (size / perLayer assort K)

/-- the reader: `size` is the size of the pre-sized (zero) vector -/
def readAffinity (assort : Bool) (K size : Nat) (content : String) : Except AffErr (Array Float) :=
  let rows := (fileLines content).filterMap affLine
  match checkRows assort K size rows with
  | .error e => .error e
  | .ok _ => .ok (placeRows assort K (Array.replicate size 0.0) (rows.map fun r => (r.1.toNat!, r.2)))

/-! ### option scanning (multitensor.cpp:28-141, app_utils.cpp:22-35) -/

structure Opts where
  k : Nat
  adjacency : String := "adjacency.dat"
  affinity : String := ""
  output : String := "results"
  directed : Bool := true
  assortative : Bool := false
  r : Nat := 1
  maxit : Nat := 500
  y : Nat := 10
  seed : String := "random"
deriving Repr

inductive ArgResult where
  | help | version | error (msg : String) | run (o : Opts)
deriving Repr

/-- `get_cmd_option`: the token after the first occurrence -/
def getOpt (argv : List String) (name : String) : Option String :=
  match argv.dropWhile (· ≠ name) with
  | _ :: v :: _ => some v
  | _ => none

def hasOpt (argv : List String) (name : String) : Bool := argv.contains name

/-- `std::stoi` on the lexical class of decimal naturals (anything else: error) -/
def stoi (s : Option String) : Except String Nat :=
  match s with
  | some t => if isNatTok t then pure t.toNat! else throw s!"stoi({t})"
  | none => throw "stoi(null)"

/-- a natural-valued option: the documented default when absent, `stoi` of the next token otherwise -/
def optNat (argv : List String) (name : String) (dflt : Nat) : Except String Nat :=
  if hasOpt argv name then stoi (getOpt argv name) else pure dflt

/-- a string-valued option -/
def optStr (argv : List String) (name : String) (dflt : String) : Except String String :=
  if hasOpt argv name then
    match getOpt argv name with
    | some v => pure v
    | none => throw "null"
  else pure dflt

/-- multitensor.cpp:101-141: every documented option, in the order the code reads them -/
def parseOpts (argv : List String) : Except String Opts :=
  if !hasOpt argv "--k" then .error "Please specify the number of groups (--k option)."
  else
    match stoi (getOpt argv "--k"), optStr argv "--a" "adjacency.dat", optStr argv "--w" "",
          optStr argv "--o" "results", optNat argv "--r" 1, optStr argv "--s" "random",
          optNat argv "--maxit" 500, optNat argv "--y" 10 with
    | .ok k, .ok a, .ok w, .ok o, .ok r, .ok s, .ok maxit, .ok y =>
      .ok { k, adjacency := a, affinity := w, output := o, directed := !hasOpt argv "--undirected",
            assortative := hasOpt argv "--assortative", r, maxit, y, seed := s }
    | _, _, _, _, _, _, _, _ => .error "bad option value"

def parseArgs (argv : List String) : ArgResult :=
  if hasOpt argv "--help" then .help
  else if hasOpt argv "--version" then .version
  else
    match parseOpts argv with
    | .ok o => .run o
    | .error e => .error e

/-- the library call the command line makes -/
structure CallRecord where
  inst : Gen.Inst
  allocV : Bool
  K : Nat
  r : Nat
  maxit : Nat
  nconv : Nat
  seed : String
  adj : Adj
  affinity : Array Float

/-- the initial affinity vector handed to the library: zeros, or the file's diagonal values -/
def cliAffinity (o : Opts) (size : Nat) (affContent : Option String) : Except String (Array Float) :=
  if o.affinity != "" then
    match affContent with
    | some c =>
      match readAffinity o.assortative o.k size c with
      | .ok w => .ok w
      | .error _ => .error "affinity file rejected"
    | none => .error "cannot open affinity file"
  else .ok (Array.replicate size 0.0)

def cliCall (o : Opts) (adjContent : String) (affContent : Option String) :
    Except String CallRecord :=
  let adj := parseAdjacency adjContent
  if adj.starts.length = 0 then .error "no records"   -- division by zero at multitensor.cpp:148
  else
    let nL := adj.weights.length / adj.starts.length
    let size := if o.assortative then o.k * nL else o.k * o.k * nL
    match cliAffinity o size affContent with
    | .error e => .error e
    | .ok aff =>
      match Gen.cliTable.lookup
          (Gen.cliSelection o.directed.toNat o.assortative.toNat (o.affinity != "").toNat) with
      | none => .error "selection"
      | some (inst, allocV) =>
        .ok { inst, allocV, K := o.k, r := o.r, maxit := o.maxit, nconv := o.y, seed := o.seed,
              adj, affinity := aff }

/-! ### writers (app_utils.hpp:137-235, app_utils.cpp:123-143) -/

/-- a file as lines of tokens; numbers are kept as doubles (formatting is not modelled) -/
inductive Tok where
  | s (x : String) | n (x : Nat) | f (x : Float)

def Tok.show : Tok → String
  | .s x => x
  | .n x => toString x
  | .f x => showF x

/-- `static_cast<int>(x)` for values in range -/
def truncF (x : Float) : Float := if x < 0 then x.ceil else x.floor

def headerLine (maxL2 : Float) (r : Nat) : List Tok :=
  [.s "#", .s "Max", .s "likelihood=", .f (truncF maxL2), .s s!"N_real={r}"]

def writeAffinity (aff : Array Float) (K L : Nat) (maxL2 : Float) (r : Nat) : List (List Tok) :=
  let assort := aff.size == Gen.writerAssortSize K L
  headerLine maxL2 r ::
  (List.range L).flatMap fun a =>
    [.s "a=", .n a] ::
    ((List.range K).map fun k =>
      if assort then [Tok.f (aff.getD (Gen.writerIdxAssort K L k a) 0.0)]
      else (List.range K).map fun q => Tok.f (aff.getD (Gen.writerIdxGeneral K L k q a) 0.0))
    ++ [[]]

def writeMembership (labels : List String) (m : Tens Float) (maxL2 : Float) (r : Nat) :
    List (List Tok) :=
  headerLine maxL2 r ::
  (List.range m.R).map fun k =>
    Tok.s (labels.getD k "?") :: (List.range m.C).map fun q => Tok.f (m.get k q 0)

/-- app_utils.cpp:123-143 `write_info_file`: header lines (number of realizations, maximum likelihood,
duration, seed, column titles), then one row per realization: index, iterations, reason, likelihood -/
def writeInfo (r : Nat) (maxL2 : Float) (seed : Int) (iters : List Nat) (reasons : List String)
    (L2s : List Float) : List (List Tok) :=
  [[.s "#", .s "Number", .s "of", .s "realization", .s "=", .n r],
   [.s "#", .s "Maximum", .s "Likelihood", .s "=", .f maxL2],
   [.s "#", .s "Duration", .s "(s)", .s "=", .s "-"],
   [.s "#", .s "Seed", .s "=", .s (toString seed)],
   [.s "#", .s "real", .s "num_iters", .s "term_reason", .s "L2"]] ++
  (List.range iters.length).map fun i =>
    [.n i, .n (iters.getD i 0), .s (reasons.getD i "?"), .f (L2s.getD i 0.0)]

def showLines (ls : List (List Tok)) : List String :=
  ls.zipIdx.map fun (l, i) => s!"l{i}=" ++ ",".intercalate (l.map Tok.show)

/-! ### driver ops -/

def bytesP : P String := do
  let t ← tok
  if t = "-" then return ""
  let cs := t.toList
  let rec go (cs : List Char) (acc : List Char) : Option (List Char) :=
    match cs with
    | [] => some acc.reverse
    | a :: b :: r => do
      let x ← hexDigit a; let y ← hexDigit b
      go r (Char.ofNat (x * 16 + y) :: acc)
    | _ => none
  match go cs [] with
  | some l => pure (String.ofList l)
  | none => throw "bad hex bytes"

def kv (k v : String) : String := k ++ "=" ++ v

def opReadAdj : P (List String) := do
  let c ← bytesP
  let a := parseAdjacency c
  pure [kv "err" "0", kv "starts" (showNats a.starts), kv "ends" (showNats a.ends),
        kv "weights" (showNats a.weights)]

def opReadAff : P (List String) := do
  let assort ← bool; let K ← nat; let size ← nat
  let c ← bytesP
  match readAffinity assort K size c with
  | .ok w => pure [kv "err" "0", kv "w" (showFs w.toList)]
  | .error _ => pure [kv "err" "1"]

def opWaff : P (List String) := do
  let K ← nat; let L ← nat; let r ← nat; let maxL2 ← flt
  let aff ← flts
  pure (showLines (writeAffinity aff.toArray K L maxL2 r))

def opWmem : P (List String) := do
  let N ← nat; let K ← nat; let r ← nat; let maxL2 ← flt
  let labels ← many N tok
  let d ← flts
  pure (showLines (writeMembership labels ⟨N, K, 1, d.toArray⟩ maxL2 r))

def opWinfo : P (List String) := do
  let r ← nat; let seed ← int; let n ← nat
  let mut iters : Array Nat := #[]
  let mut reasons : Array String := #[]
  let mut l2 : Array Float := #[]
  for _ in [0:n] do
    iters := iters.push (← nat)
    reasons := reasons.push (← tok)
    l2 := l2.push (← flt)
  -- optional: the duration of the run — not an input of `writeInfo` (its line is written as `-`)
  let c ← get
  if c.pos < c.toks.size then let _ ← flt
  pure (showLines (writeInfo r (maxL2 l2.toList) seed iters.toList reasons.toList l2.toList))

/-- `cli <nargs> args… <adjbytes> <affbytes|->` → the call record -/
def opCli : P (List String) := do
  let n ← nat
  let argv := (← many n tok).map fun a => if a = "\"\"" then "" else a   -- `""` stands for an empty argument
  let adj ← bytesP
  let hasAff ← bool
  let aff ← bytesP
  match parseArgs argv with
  | .help => pure [kv "exit" "help"]
  | .version => pure [kv "exit" "version"]
  | .error _ => pure [kv "exit" "error"]
  | .run o =>
    match cliCall o adj (if hasAff then some aff else none) with
    | .error _ => pure [kv "exit" "error"]
    | .ok c =>
      pure [kv "exit" "run", kv "dir" (toString c.inst.directed.toNat),
            kv "assort" (toString c.inst.assort.toNat),
            kv "initfile" (toString c.inst.fromFile.toNat),
            kv "allocv" (toString c.allocV.toNat),
            kv "K" (toString c.K), kv "r" (toString c.r), kv "maxit" (toString c.maxit),
            kv "nconv" (toString c.nconv), kv "seed" c.seed,
            kv "starts" (showNats c.adj.starts), kv "ends" (showNats c.adj.ends),
            kv "weights" (showNats c.adj.weights), kv "aff" (showFs c.affinity.toList),
            kv "out" o.output]

end MT.Cli
