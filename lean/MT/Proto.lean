/- Line protocol helpers shared by the driver ops (core Lean only). -/
import MT.Main
import MT.Rng

namespace MT.Proto

def hexDigit (c : Char) : Option Nat :=
  if '0' ≤ c ∧ c ≤ '9' then some (c.toNat - '0'.toNat)
  else if 'a' ≤ c ∧ c ≤ 'f' then some (c.toNat - 'a'.toNat + 10)
  else none

def parseHexNat (s : String) : Option Nat :=
  s.toList.foldl (fun acc c => do let a ← acc; let d ← hexDigit c; pure (a * 16 + d)) (some 0)

/-- `x` + 16 hex digits = bit pattern of a double -/
def parseF (s : String) : Option Float :=
  match s.toList with
  | 'x' :: rest => if rest.length = 16 then (parseHexNat (String.ofList rest)).map fun n => Float.ofBits n.toUInt64 else none
  | _ => none

def hexOfNat (n : Nat) (digits : Nat) : String :=
  let rec go (n : Nat) (k : Nat) (acc : List Char) : List Char :=
    match k with
    | 0 => acc
    | k + 1 => go (n / 16) k (Nat.digitChar (n % 16) :: acc)
  String.ofList (go n digits [])

def showF (x : Float) : String := "x" ++ hexOfNat x.toBits.toNat 16

def showFs (xs : List Float) : String := ",".intercalate (xs.map showF)
def showNats (xs : List Nat) : String := ",".intercalate (xs.map toString)

/-- a token cursor -/
structure Cur where
  toks : Array String
  pos : Nat

abbrev P := StateT Cur (Except String)

def tok : P String := do
  let c ← get
  if h : c.pos < c.toks.size then
    set { c with pos := c.pos + 1 }
    pure c.toks[c.pos]
  else throw "unexpected end of line"

def nat : P Nat := do
  let t ← tok
  match t.toNat? with
  | some n => pure n
  | none => throw s!"not a natural: {t}"

/-- an optional trailing natural number (`dflt` when the line has ended) -/
def optNat (dflt : Nat) : P Nat := do
  let c ← get
  if c.pos < c.toks.size then nat else pure dflt

def int : P Int := do
  let t ← tok
  match t.toInt? with
  | some n => pure n
  | none => throw s!"not an integer: {t}"

def flt : P Float := do
  let t ← tok
  match parseF t with
  | some x => pure x
  | none => throw s!"not a hex double: {t}"

def bool : P Bool := do
  let n ← nat
  pure (n != 0)

def many {α : Type} (n : Nat) (p : P α) : P (List α) := do
  let mut out : Array α := #[]
  for _ in [0:n] do
    out := out.push (← p)
  pure out.toList

def flts : P (List Float) := do
  let n ← nat
  many n flt

end MT.Proto
