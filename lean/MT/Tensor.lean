/-
Tensors as in tensor.hpp: three dimensions plus a flat array in the code's layout.
The flat position is the *generated* `Gen.getIndexSrc` (the text of `get_index`).
-/
import MT.Scalar
import MT.Generated.Index

namespace MT

structure Tens (α : Type) where
  R : Nat
  C : Nat
  T : Nat
  data : Array α
deriving Repr

namespace Tens
variable {α : Type} [MTExtra α]

/-- `operator()(i, j, alpha)`; out-of-range reads (asserted against in the C++) give 0 -/
def get (t : Tens α) (i j a : Nat) : α :=
  t.data.getD (Gen.getIndexSrc t.R t.C t.T i j a) MTExtra.zero

/-- tensor whose entry `(i,j,a)` is `f i j a`, stored in the code's layout -/
def ofFn (R C T : Nat) (f : Nat → Nat → Nat → α) : Tens α :=
  ⟨R, C, T, Array.ofFn (n := R * C * T) fun p => f (p.val % R) (p.val / R % C) (p.val / (R * C))⟩

/-- `resize`: all zero -/
def zeros (R C T : Nat) : Tens α := ⟨R, C, T, Array.replicate (R * C * T) MTExtra.zero⟩

/-- constructor from a flat vector (size checked by the caller, as in tensor.hpp:94-108) -/
def ofData (R C T : Nat) (d : Array α) : Tens α := ⟨R, C, T, d⟩

def size (t : Tens α) : Nat := t.data.size

end Tens

/-- accessor of a matrix (`Matrix::operator()(i,j)`) -/
abbrev Tens.at2 {α : Type} [MTExtra α] (t : Tens α) (i j : Nat) : α := t.get i j 0

end MT
