/-
solver.hpp — `update_vertices`, `update_affinity`, `calculate_likelyhood`, `loop`, `run`.

Each C++ update computes every new entry from frozen copies of the old values, so an
update is `Tens.ofFn (entry formula)`.  Inside one entry the C++ accumulation order is
kept: every `sumL` below corresponds to one C++ accumulator and runs over the index list
in the order the C++ loops visit it (an accumulator threaded through two nested loops
becomes one `sumL` over the flattened index list).
-/
import MT.Tensor
import MT.Graph

namespace MT

section
variable {α : Type} [Add α] [Sub α] [Mul α] [Div α] [LT α] [DecidableLT α] [MTExtra α]

/-- `if (std::abs(x) < EPS_PRECISION) x = 0;` -/
def snap (x : α) : α := if MTExtra.abs x < MTExtra.eps then MTExtra.zero else x

/-- second group index visited together with `k`: all groups (general), `k` only (assortative) -/
def cols (assort : Bool) (K k : Nat) : List Nat := if assort then [k] else List.range K

/-- group pairs of one shared accumulator: all pairs (general), the diagonal (assortative) -/
def gpairs (assort : Bool) (K : Nat) : List (Nat × Nat) :=
  if assort then (List.range K).map fun k => (k, k) else pairs K K

/-- how the solver reads the affinity: `w(k,l,a)`, `wT(k,l,a) = w(l,k,a)`, or `w(k,a)` -/
def wView (assort transposed : Bool) (W : Tens α) (k l a : Nat) : α :=
  if assort then W.get k 0 a else if transposed then W.get l k a else W.get k l a

/-! ### update_vertices (solver.hpp:61-199) -/

section vertices
variable (assort : Bool) (K L : Nat) (numList denList : List Nat)
  (nbr : Nat → Nat → List Nat) (wf : Nat → Nat → Nat → α)
  (fixedOld old : Nat → Nat → α)

/-- `Z` for group `k` (solver.hpp:99-130) -/
def vZ (k : Nat) : α :=
  sumL (cols assort K k) fun l =>
    sumL (List.range L) (fun a => wf k l a) * sumL denList (fun i => fixedOld i l)

/-- `Zij_a` (solver.hpp:148-163) -/
def vZij (i j a : Nat) : α :=
  sumL (gpairs assort K) fun p => old i p.1 * fixedOld j p.2 * wf p.1 p.2 a

/-- `rho_ijkq` after the division (solver.hpp:166-178) -/
def vRho (i k j a : Nat) : α :=
  sumL (cols assort K k) (fun q => fixedOld j q * wf k q a) / vZij assort K wf fixedOld old i j a

/-- the (layer, neighbour) pairs visited by the two loops sharing `val_ik` -/
def edgePairs (i : Nat) : List (Nat × Nat) :=
  (List.range L).flatMap fun a => (nbr a i).map fun j => (a, j)

/-- `val_ik` (solver.hpp:140-182) -/
def vVal (i k : Nat) : α :=
  sumL ((edgePairs L nbr i).filter fun p =>
          MTExtra.eps < vZij assort K wf fixedOld old i p.2 p.1)
    fun p => vRho assort K wf fixedOld old i k p.2 p.1

/-- new value of entry `(i,k)` -/
def updVEntry (i k : Nat) : α :=
  if MTExtra.eps < vZ assort K L denList wf fixedOld k ∧ i ∈ numList ∧ MTExtra.eps < old i k then
    snap (old i k / vZ assort K L denList wf fixedOld k * vVal assort K L nbr wf fixedOld old i k)
  else old i k

end vertices

/-- `update_vertices`: `N` = number of rows of the matrix being updated -/
def updateVertices (assort : Bool) (K L N : Nat) (numList denList : List Nat)
    (nbr : Nat → Nat → List Nat) (wf : Nat → Nat → Nat → α)
    (fixedOld : Nat → Nat → α) (old : Tens α) : Tens α :=
  Tens.ofFn N K 1 fun i k _ =>
    updVEntry assort K L numList denList nbr wf fixedOld (fun i k => old.get i k 0) i k

/-! ### update_affinity (solver.hpp:220-353) -/

section affinity
variable (assort : Bool) (K L N : Nat) (uList vList : List Nat)
  (out : Nat → Nat → List Nat) (u v : Nat → Nat → α) (wOld : Nat → Nat → Nat → α)

/-- `Z_kq = Du * Dv` (solver.hpp:243-252, 298-307) -/
def wZ (k q : Nat) : α :=
  sumL uList (fun i => u i k) * sumL vList (fun i => v i q)

/-- `Zij_a` (solver.hpp:270-274, 325-332) -/
def wZij (i j a : Nat) : α :=
  sumL (gpairs assort K) fun p => u i p.1 * v j p.2 * wOld p.1 p.2 a

/-- `rho_w` for vertex `i` (solver.hpp:266-279, 321-337) -/
def wRho (i q a : Nat) : α :=
  sumL ((out a i).filter fun j => MTExtra.eps < wZij assort K u v wOld i j a)
    fun j => v j q / wZij assort K u v wOld i j a

/-- `w_kqa` (solver.hpp:262-282, 317-340) -/
def wAcc (k q a : Nat) : α :=
  sumL (List.range N) fun i => u i k * wRho assort K out u v wOld i q a

/-- new value of entry `(k,q,a)`; the assortative tensor has the entries `(k,k,a)` only -/
def updWEntry (k q a : Nat) : α :=
  if MTExtra.eps < wZ uList vList u v k q ∧ MTExtra.eps < wOld k q a then
    snap (wOld k q a / wZ uList vList u v k q * wAcc assort K N out u v wOld k q a)
  else wOld k q a

end affinity

/-- `update_affinity`: K×K×L (general) or K×1×L (assortative) -/
def updateAffinity (assort : Bool) (K L N : Nat) (uList vList : List Nat)
    (out : Nat → Nat → List Nat) (u v : Nat → Nat → α) (W : Tens α) : Tens α :=
  let wOld := wView assort false W
  if assort then
    Tens.ofFn K 1 L fun k _ a => updWEntry assort K N uList vList out u v wOld k k a
  else
    Tens.ofFn K K L fun k q a => updWEntry assort K N uList vList out u v wOld k q a

/-! ### calculate_likelyhood (solver.hpp:370-441) -/

/-- one `(alpha,i,j)` cell: subtract every `uvw`, collect `log_arg` if the edge exists, then
add `nof_parallel_edges * log(log_arg)` -/
def likCell (assort : Bool) (K : Nat) (out : Nat → Nat → List Nat)
    (u v : Nat → Nat → α) (wf : Nat → Nat → Nat → α) (l : α) (a i j : Nat) : α :=
  let hasEdge := (out a i).contains j
  let r := (gpairs assort K).foldl
    (fun (acc : α × α) p =>
      let uvw := u i p.1 * v j p.2 * wf p.1 p.2 a
      (acc.1 - uvw, if hasEdge then acc.2 + uvw else acc.2))
    (l, MTExtra.zero)
  if MTExtra.eps < r.2 then
    r.1 + MTExtra.ofNat ((out a i).count j) * MTExtra.log r.2
  else r.1

def likelihood (assort : Bool) (K L N : Nat) (out : Nat → Nat → List Nat)
    (u v : Nat → Nat → α) (wf : Nat → Nat → Nat → α) : α :=
  (List.range L).foldl (fun l a =>
    (List.range N).foldl (fun l i =>
      (List.range N).foldl (fun l j => likCell assort K out u v wf l a i j) l) l) MTExtra.zero

/-! ### one sweep: `loop` without the control part (solver.hpp:475-493) -/

/-- the working factors; `v` is unused (and empty) when undirected -/
structure State (α : Type) where
  u : Tens α
  v : Tens α
  w : Tens α

/-- what the solver needs from the network -/
structure NetView where
  directed : Bool
  nL : Nat
  out : Nat → Nat → List Nat
  inn : Nat → Nat → List Nat
  uList : List Nat
  vList : List Nat

/-- adjacency lists tabulated once (so that the executable model does not rebuild them at
every access); extensionally `n.out`, `n.inn` (MTProofs.Graph `view_out`, `view_inn`) -/
def Net.view {β : Type} (n : Net β) : NetView :=
  let outA : Array (Array (List Nat)) :=
    ((List.range n.nL).map fun a => ((List.range n.nV).map fun i => n.out a i).toArray).toArray
  -- in-edge lists exist for directed graphs only (undirected code never asks for them)
  let innA : Array (Array (List Nat)) :=
    if n.directed then
      ((List.range n.nL).map fun a => ((List.range n.nV).map fun i => n.inn a i).toArray).toArray
    else #[]
  { directed := n.directed, nL := n.nL,
    out := fun a i => (outA.getD a #[]).getD i [],
    inn := fun a i => (innA.getD a #[]).getD i [],
    uList := n.uList, vList := n.vList }

/-- u-step -/
def stepU (assort : Bool) (K : Nat) (nv : NetView) (s : State α) : State α :=
  let fixed := if nv.directed then s.v else s.u
  let u' := updateVertices assort K nv.nL s.u.R nv.uList nv.vList nv.out
    (wView assort false s.w) (fun i k => fixed.get i k 0) s.u
  { s with u := u' }

/-- v-step (directed only): in-edges, transposed affinity view, the *new* `u` fixed -/
def stepV (assort : Bool) (K : Nat) (nv : NetView) (s : State α) : State α :=
  if nv.directed then
    let v' := updateVertices assort K nv.nL s.v.R nv.vList nv.uList nv.inn
      (wView assort true s.w) (fun i k => s.u.get i k 0) s.v
    { s with v := v' }
  else s

/-- w-step: when undirected the single matrix plays both roles -/
def stepW (assort : Bool) (K : Nat) (nv : NetView) (s : State α) : State α :=
  let v := if nv.directed then s.v else s.u
  let w' := updateAffinity assort K nv.nL s.u.R nv.uList nv.vList nv.out
    (fun i k => s.u.get i k 0) (fun i k => v.get i k 0) s.w
  { s with w := w' }

def sweep (assort : Bool) (K : Nat) (nv : NetView) (s : State α) : State α :=
  stepW assort K nv (stepV assort K nv (stepU assort K nv s))

/-- likelihood of a state -/
def stateLik (assort : Bool) (K : Nat) (nv : NetView) (s : State α) : α :=
  let v := if nv.directed then s.v else s.u
  likelihood assort K nv.nL s.u.R nv.out (fun i k => s.u.get i k 0) (fun i k => v.get i k 0)
    (wView assort false s.w)

/-! ### control part of `loop` and the `while` of `run` (solver.hpp:496-523, 617-640) -/

inductive Reason where
  | noTermination | maxIter | converged
deriving DecidableEq, Repr

def Reason.code : Reason → Nat
  | .noTermination => 0 | .maxIter => 1 | .converged => 2

def Reason.name : Reason → String
  | .noTermination => "NO_TERMINATION" | .maxIter => "MAX_ITER" | .converged => "CONVERGED"

structure Ctl (α : Type) where
  iteration : Nat
  coincide : Nat
  L2 : α

/-- `std::abs(L2_old - L2)/std::abs(L2_old) < EPS_PRECISION_LIKELIHOOD` -/
def passes (lOld lNew : α) : Bool :=
  decide (MTExtra.abs (lOld - lNew) / MTExtra.abs lOld < MTExtra.epsLik)

/-- control part of one `loop` call, given the likelihood `lNew` that an evaluation in this
sweep yields (used only when `iteration % 10 = 0`) -/
def ctlStep (maxIt nConv : Nat) (c : Ctl α) (lNew : α) : Ctl α × Reason :=
  let ev := c.iteration % 10 = 0
  let L2 := if ev then lNew else c.L2
  let coincide := if ev then (if passes c.L2 lNew then c.coincide + 1 else 0) else c.coincide
  let iteration := c.iteration + 1
  let reason :=
    if coincide = nConv then Reason.converged
    else if iteration = maxIt then Reason.maxIter
    else Reason.noTermination
  ({ iteration, coincide, L2 }, reason)

/-- one `loop` call; `evalL it s` is the likelihood an evaluation at sweep index `it` reports
(the real one is `fun _ s => stateLik …`; the `likelihood_computed` hook may script it) -/
def loopStep (assort : Bool) (K : Nat) (nv : NetView) (maxIt nConv : Nat)
    (evalL : Nat → State α → α) (s : State α) (c : Ctl α) : State α × Ctl α × Reason :=
  let s' := sweep assort K nv s
  let r := ctlStep maxIt nConv c (evalL c.iteration s')
  (s', r.1, r.2)

/-- the `while (term_reason == NO_TERMINATION)` loop; `fuel` = `max_nof_iterations` suffices
because `iteration` meets it exactly (proved in MTProps.C05) -/
def runLoop (assort : Bool) (K : Nat) (nv : NetView) (maxIt nConv : Nat)
    (evalL : Nat → State α → α) : Nat → State α → Ctl α → State α × Ctl α × Reason
  | 0, s, c => (s, c, Reason.noTermination)
  | fuel + 1, s, c =>
    let r := loopStep assort K nv maxIt nConv evalL s c
    if r.2.2 = Reason.noTermination then runLoop assort K nv maxIt nConv evalL fuel r.1 r.2.1
    else r

def ctlInit : Ctl α := { iteration := 0, coincide := 0, L2 := MTExtra.lowest }

/-! ### report and selection (utils.hpp:55-66, solver.hpp:646-657) -/

structure Report (α : Type) where
  iters : List Nat
  reasons : List Reason
  L2s : List α

/-- `Report::max_L2`: `lowest` when empty, else `*std::max_element` (first maximum) -/
def maxL2 (l : List α) : α :=
  match l with
  | [] => MTExtra.lowest
  | x :: xs => xs.foldl (fun best y => if best < y then y else best) x

end

end MT
