/-
main.hpp `multitensor_factorization` and solver.hpp `Solver::run`: validation, network,
realizations, selection of the best one, report.
-/
import MT.Solver
import MT.Init

namespace MT

/-- which check of main.hpp:77-179 (or tensor.hpp:101) rejected the call -/
inductive Err where
  | noEdges | endsMismatch | weightsNotMultiple | noLayers | groupsLt2 | affinitySize
  | verticesLt2 | uSize | realizationsLt1 | iterationsLt1 | convergencesLt1
deriving DecidableEq, Repr

def Err.code : Err → Nat
  | .noEdges => 1 | .endsMismatch => 2 | .weightsNotMultiple => 3 | .noLayers => 4
  | .groupsLt2 => 5 | .affinitySize => 6 | .verticesLt2 => 7 | .uSize => 8
  | .realizationsLt1 => 9 | .iterationsLt1 => 10 | .convergencesLt1 => 11

/-- the text with which the `std::runtime_error` of each check begins (main.hpp; tensor.hpp for the last) -/
def Err.message : Err → String
  | .noEdges => "[multitensor] Number of edges should be at least 1, intead got "
  | .endsMismatch => "[multitensor] Inconsitent edges: "
  | .weightsNotMultiple => "[multitensor] Number of weights should be a multiple of the number of edges, intead got "
  | .noLayers => "[multitensor] Number of layers should be at least 1, intead got "
  | .groupsLt2 => "[multitensor] Number of groups should be at least 2, intead got "
  | .affinitySize => "[multitensor] W size should have the form (k x k x nof_layers) with k = "
  | .verticesLt2 => "[multitensor] Number of vertices should be at least 2, intead got "
  | .uSize => "[multitensor] U size should have the form (k x nof_vertices) with k = "
  | .realizationsLt1 => "[multitensor] Number of realizations should be at least 1, intead got "
  | .iterationsLt1 => "[multitensor] Maximum number of iterations should be at least 1, intead got "
  | .convergencesLt1 => "[multitensor] Number of convergences should be at least 1, intead got "

/-- the sizes the validation looks at -/
structure Shapes where
  assort : Bool
  nStarts : Nat
  nEnds : Nat
  nWeights : Nat
  nAffinity : Nat
  nDistinct : Nat
  uSize : Nat
  r : Nat
  maxIt : Nat
  nConv : Nat

/-- number of groups inferred from the affinity size (main.hpp:111-124) -/
def inferK (assort : Bool) (nAffinity nL : Nat) : Nat :=
  if assort then nAffinity / nL else Nat.sqrt (nAffinity / nL)

/-- expected affinity size (main.hpp:117, 123) -/
def affSize (assort : Bool) (K nL : Nat) : Nat := if assort then K * nL else K * K * nL

/-- main.hpp:77-179, in order; returns `(L, K)` -/
def validate (sh : Shapes) : Except Err (Nat × Nat) :=
  if sh.nStarts < 1 then .error .noEdges
  else if sh.nStarts ≠ sh.nEnds then .error .endsMismatch
  else if sh.nWeights % sh.nStarts ≠ 0 then .error .weightsNotMultiple
  else if sh.nWeights / sh.nStarts < 1 then .error .noLayers
  else if inferK sh.assort sh.nAffinity (sh.nWeights / sh.nStarts) < 2 then .error .groupsLt2
  else if affSize sh.assort (inferK sh.assort sh.nAffinity (sh.nWeights / sh.nStarts))
      (sh.nWeights / sh.nStarts) ≠ sh.nAffinity then .error .affinitySize
  else if sh.nDistinct < 2 then .error .verticesLt2
  else if sh.nDistinct * inferK sh.assort sh.nAffinity (sh.nWeights / sh.nStarts) ≠ sh.uSize then
    .error .uSize
  else if sh.r < 1 then .error .realizationsLt1
  else if sh.maxIt < 1 then .error .iterationsLt1
  else if sh.nConv < 1 then .error .convergencesLt1
  else .ok (sh.nWeights / sh.nStarts, inferK sh.assort sh.nAffinity (sh.nWeights / sh.nStarts))

/-- the three initialiser types: the two shipped ones and a caller-supplied one that installs
the given affinity exactly and consumes no draw (public template parameter; used by C10) -/
inductive InitKind where
  | random | fromInitial | exact
deriving DecidableEq, Repr

section
variable {α : Type} [Add α] [Sub α] [Mul α] [Div α] [LT α] [DecidableLT α] [MTExtra α]

/-- the affinity initialiser selected by the template argument -/
def initAff (assort : Bool) (ik : InitKind) (K nL : Nat) (userW : Tens α) (d : Nat → α) : Tens α × Nat :=
  match ik with
  | .random => initAffRandom assort K nL d
  | .fromInitial => initAffFromInitial assort userW d
  | .exact => (userW, 0)

/-- start of one realization from stream position 0 of `d` (solver.hpp:601-614): affinity,
then in-membership rows (directed), then out-membership rows.  Returns the draws consumed. -/
def realizationStart (assort : Bool) (ik : InitKind) (K N : Nat) (nv : NetView)
    (userW : Tens α) (d : Nat → α) : State α × Nat :=
  let wi := initAff assort ik K nv.nL userW d
  let vi : Tens α × Nat :=
    if nv.directed then initRows N K nv.vList (fun _ _ => MTExtra.zero) (fun t => d (wi.2 + t))
    else (Tens.zeros 0 0 0, 0)
  let ui := initRows N K nv.uList (fun _ _ => MTExtra.zero) (fun t => d (wi.2 + vi.2 + t))
  ({ u := ui.1, v := vi.1, w := wi.1 }, wi.2 + vi.2 + ui.2)

/-- result of one realization -/
structure RealOut (α : Type) where
  start : State α
  final : State α
  iters : Nat
  reason : Reason
  L2 : α
  used : Nat

def runRealization (assort : Bool) (ik : InitKind) (K N : Nat) (nv : NetView)
    (maxIt nConv : Nat) (evalL : Nat → State α → α) (userW : Tens α) (d : Nat → α) :
    RealOut α :=
  let st := realizationStart assort ik K N nv userW d
  let r := runLoop assort K nv maxIt nConv evalL maxIt st.1 ctlInit
  { start := st.1, final := r.1, iters := r.2.1.iteration, reason := r.2.2,
    L2 := r.2.1.L2, used := st.2 }

/-- carried between realizations: best-so-far factors (initially the caller's containers),
report, stream position -/
structure RunAcc (α : Type) where
  best : State α
  report : Report α
  pos : Nat
  adopted : List Bool

/-- one pass of the `for` over realizations (solver.hpp:597-658); `evalL i` scripts the
likelihood of realization `i` -/
def runOne (assort : Bool) (ik : InitKind) (K N : Nat) (nv : NetView) (maxIt nConv : Nat)
    (evalL : Nat → Nat → State α → α) (userW : Tens α) (d : Nat → α)
    (acc : RunAcc α) (i : Nat) : RunAcc α :=
  let o := runRealization assort ik K N nv maxIt nConv (evalL i) userW (fun t => d (acc.pos + t))
  let adopt : Bool := decide (maxL2 acc.report.L2s < o.L2)
  let fin : State α := if nv.directed then o.final else { o.final with v := acc.best.v }
  { best := if adopt then fin else acc.best,
    report := { iters := acc.report.iters ++ [o.iters],
                reasons := acc.report.reasons ++ [o.reason],
                L2s := acc.report.L2s ++ [o.L2] },
    pos := acc.pos + o.used,
    adopted := acc.adopted ++ [adopt] }

def runAll (assort : Bool) (ik : InitKind) (K N : Nat) (nv : NetView) (r maxIt nConv : Nat)
    (evalL : Nat → Nat → State α → α) (userW : Tens α) (d : Nat → α) (prior : State α) :
    RunAcc α :=
  (List.range r).foldl (runOne assort ik K N nv maxIt nConv evalL userW d)
    { best := prior, report := ⟨[], [], []⟩, pos := 0, adopted := [] }

/-- the arguments of `multitensor_factorization` (the generator is the stream `d`) -/
structure Input (β ω α : Type) where
  directed : Bool
  assort : Bool
  ik : InitKind
  starts : List β
  ends : List β
  weights : List ω
  r : Nat
  maxIt : Nat
  nConv : Nat
  affinity : Array α
  priorU : Tens α
  priorV : Tens α

structure Output (β α : Type) where
  labels : List β
  u : Tens α
  v : Tens α
  affinity : Array α
  report : Report α
  adopted : List Bool

def Input.shapes {β ω : Type} [DecidableEq β] (inp : Input β ω α) : Shapes :=
  { assort := inp.assort, nStarts := inp.starts.length, nEnds := inp.ends.length,
    nWeights := inp.weights.length, nAffinity := inp.affinity.size,
    nDistinct := numVertices inp.starts inp.ends, uSize := inp.priorU.size,
    r := inp.r, maxIt := inp.maxIt, nConv := inp.nConv }

/-- `multitensor_factorization`; `evalL` is the likelihood evaluation (scriptable by the hook) -/
def factorizeWith {β ω : Type} [DecidableEq β] [Weight ω] (inp : Input β ω α) (d : Nat → α)
    (evalL : Bool → Nat → NetView → Nat → Nat → State α → α) : Except Err (Output β α) := do
  let (nL, K) ← validate inp.shapes
  let net := build inp.directed inp.starts inp.ends inp.weights
  let nv := net.view
  let userW : Tens α := Tens.ofData K (if inp.assort then 1 else K) nL inp.affinity
  let acc := runAll inp.assort inp.ik K inp.priorU.R nv inp.r inp.maxIt inp.nConv
    (evalL inp.assort K nv) userW d { u := inp.priorU, v := inp.priorV, w := userW }
  return { labels := net.labels, u := acc.best.u, v := acc.best.v, affinity := acc.best.w.data,
           report := acc.report, adopted := acc.adopted }

def factorize {β ω : Type} [DecidableEq β] [Weight ω] (inp : Input β ω α) (d : Nat → α) :
    Except Err (Output β α) :=
  factorizeWith inp d fun assort K nv _ _ s => stateLik assort K nv s

end

end MT
