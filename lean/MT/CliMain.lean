/-
The whole command line as one function (applications/src/multitensor.cpp `main`): options, readers,
dispatch, the library call with a seeded generator, and the four result files — which are produced
only after the factorization returned.
-/
import MT.Cli
import MT.Rng

namespace MT.Cli
open MT

/-- result files: name ↦ lines of tokens -/
abbrev Files := List (String × List (List Tok))

/-- number of draws `r` realizations can consume (upper bound used to tabulate the stream) -/
def drawBudget (r nL K N : Nat) : Nat := r * (nL * K * K + 2 * N * K)

/-- the files written for a result (multitensor.cpp:259-269): info, affinity, out-membership, and the
in-membership file exactly for directed runs -/
def resultFiles (directed : Bool) (K nL r : Nat) (seed : Int) (o : Output Nat Float) : Files :=
  let m := maxL2 o.report.L2s
  let labels := o.labels.map toString
  [("run_info.dat", writeInfo r m seed o.report.iters (o.report.reasons.map Reason.name) o.report.L2s),
   ("w_out.dat", writeAffinity o.affinity K nL m r),
   ("u_out.dat", writeMembership labels o.u m r)] ++
  (if directed then [("v_out.dat", writeMembership labels o.v m r)] else [])

/-- `main`: either an error (nothing is written) or the result files -/
def cliMain (argv : List String) (adjContent : String) (affContent : Option String) : Except String Files :=
  match parseArgs argv with
  | .help => .ok []
  | .version => .ok []
  | .error e => .error e
  | .run o =>
    match cliCall o adjContent affContent with
    | .error e => .error e
    | .ok c =>
      if !isNatTok c.seed then .error "seed is not a decimal natural (\"random\" uses the clock: not modelled)"
      else
        let seed : Nat := c.seed.toNat!
        let N := numVertices c.adj.starts c.adj.ends
        let nL := c.adj.weights.length / c.adj.starts.length
        let inp : Input Nat Nat Float :=
          { directed := c.inst.directed, assort := c.inst.assort,
            ik := if c.inst.fromFile then InitKind.fromInitial else InitKind.random,
            starts := c.adj.starts, ends := c.adj.ends, weights := c.adj.weights,
            r := c.r, maxIt := c.maxit, nConv := c.nconv, affinity := c.affinity,
            priorU := Tens.zeros N c.K 1,
            priorV := if c.allocV then Tens.zeros N c.K 1 else Tens.zeros 0 0 0 }
        let ds := (Mt19937.seed (UInt32.ofNat (seed % 4294967296))).draws (drawBudget c.r nL c.K N)
        match factorize inp (fun t => ds.getD t 0.0) with
        | .error e => .error s!"library error {e.code}"
        | .ok out => .ok (resultFiles c.inst.directed c.K nL c.r seed out)

def showFiles (fs : Files) : List String :=
  fs.flatMap fun f => (f.2.zipIdx.map fun (l, i) => s!"{f.1}.l{i}=" ++ ",".intercalate (l.map Tok.show))

/-- `clirun <nargs> args… <adjbytes> <hasAff> <affbytes|->` → exit status and the files -/
def opCliRun : Proto.P (List String) := do
  let n ← Proto.nat
  let argv := (← Proto.many n Proto.tok).map fun a => if a = "\"\"" then "" else a   -- `""` stands for an empty argument
  let adj ← bytesP
  let hasAff ← Proto.bool
  let aff ← bytesP
  match cliMain argv adj (if hasAff then some aff else none) with
  | .error _ => pure [kv "exit" "error"]
  | .ok fs => pure (kv "exit" "ok" :: kv "files" (",".intercalate (fs.map (·.1))) :: showFiles fs)

end MT.Cli
