/-
std::mt19937 and libstdc++'s `uniform_real_distribution<double>(0,1)` (two 32-bit draws,
`(x0 + x1·2³²)/2⁶⁴`, clamped below 1) — used by the driver only.  The model's
initialisers take an abstract stream `Nat → α`; nothing proved depends on this file.
Bit-exactness against libstdc++ is checked by the `rng` correspondence on every run.
-/
namespace MT

structure Mt19937 where
  mt : Array UInt32
  idx : Nat

namespace Mt19937

def seed (s : UInt32) : Mt19937 := Id.run do
  let mut mt : Array UInt32 := Array.replicate 624 0
  mt := mt.set! 0 s
  for i in [1:624] do
    let prev := mt[i-1]!
    mt := mt.set! i ((1812433253 : UInt32) * (prev ^^^ (prev >>> 30)) + i.toUInt32)
  return { mt, idx := 624 }

def twist (g : Mt19937) : Mt19937 := Id.run do
  let mut mt := g.mt
  for i in [0:624] do
    let y := (mt[i]! &&& 0x80000000) ||| (mt[(i+1) % 624]! &&& 0x7fffffff)
    let mut v := mt[(i + 397) % 624]! ^^^ (y >>> 1)
    if y &&& 1 != 0 then v := v ^^^ 0x9908b0df
    mt := mt.set! i v
  return { mt, idx := 0 }

def next (g : Mt19937) : UInt32 × Mt19937 :=
  let g := if g.idx >= 624 then g.twist else g
  let y := g.mt[g.idx]!
  let y := y ^^^ (y >>> 11)
  let y := y ^^^ ((y <<< 7) &&& 0x9d2c5680)
  let y := y ^^^ ((y <<< 15) &&& 0xefc60000)
  let y := y ^^^ (y >>> 18)
  (y, { g with idx := g.idx + 1 })

/-- one `uniform_real_distribution<double>` draw: `generate_canonical<double,53>` -/
def uniform (g : Mt19937) : Float × Mt19937 :=
  let (x0, g) := g.next
  let (x1, g) := g.next
  let sum := Float.ofNat x0.toNat + Float.ofNat x1.toNat * 4294967296.0
  let r := sum / 18446744073709551616.0
  let r := if r >= 1.0 then Float.ofBits 0x3fefffffffffffff else r
  (r, g)

/-- the first `n` draws -/
def draws (g : Mt19937) (n : Nat) : Array Float := Id.run do
  let mut g := g
  let mut out : Array Float := Array.mkEmpty n
  for _ in [0:n] do
    let (x, g') := g.uniform
    out := out.push x
    g := g'
  return out

end Mt19937
end MT
