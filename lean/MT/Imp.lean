/-
Combinators used by the generated, statement-by-statement translations of the C++ loop nests
(MT/Generated/SolverCode.lean, produced by tools/cxx2lean.py).  A C++ `for` is a left fold over its
index list; a write `M(i,k) = x` is a point update of a function.  Core Lean only.
-/
namespace MT.Imp

/-- `for (size_t i = 0; i < n; i++) body` -/
abbrev forRange {S : Type} (n : Nat) (body : Nat → S → S) (s : S) : S :=
  (List.range n).foldl (fun s i => body i s) s

/-- `for (size_t j = lo; j < hi; j++) body` -/
abbrev forFrom {S : Type} (lo hi : Nat) (body : Nat → S → S) (s : S) : S :=
  ((List.range (hi - lo)).map (lo + ·)).foldl (fun s i => body i s) s

/-- `for (auto i : l) body` and the edge-iteration loops (the list is what the iterator yields, in order) -/
abbrev forList {S : Type} (l : List Nat) (body : Nat → S → S) (s : S) : S :=
  l.foldl (fun s i => body i s) s

/-- `while (c) body`, given a bound on the number of passes (the caller says why the bound suffices) -/
def whileFuel {S : Type} : Nat → (S → Bool) → (S → S) → S → S
  | 0, _, _, s => s
  | n + 1, c, body, s => if c s then whileFuel n c body (body s) else s

/-- `M(i,k) = x` -/
def setAt2 {α : Type} (f : Nat → Nat → α) (i k : Nat) (x : α) : Nat → Nat → α :=
  fun i' k' => if i' = i ∧ k' = k then x else f i' k'

/-- `T(k,q,a) = x` -/
def setAt3 {α : Type} (f : Nat → Nat → Nat → α) (k q a : Nat) (x : α) : Nat → Nat → Nat → α :=
  fun k' q' a' => if k' = k ∧ q' = q ∧ a' = a then x else f k' q' a'

/-- `list(a)(i).push_back(x)`: append to one of the per-layer, per-vertex lists -/
def appendAt (f : Nat → Nat → List Nat) (a i x : Nat) : Nat → Nat → List Nat :=
  fun a' i' => if a' = a ∧ i' = i then f a i ++ [x] else f a' i'

/-- append to one of the per-layer lists -/
def pushAt {β : Type} (f : Nat → List β) (a : Nat) (x : β) : Nat → List β :=
  fun a' => if a' = a then f a ++ [x] else f a'

end MT.Imp
