/-
graph.hpp `Network` — the multilayer multigraph built from three flat vectors.

boost semantics modelled (checked by the `net` correspondence on every run):
`adjacency_list<vecS, vecS, D>` keeps out- and in-edge lists in insertion order; an
undirected `add_edge(a,b)` appends `b` to the list of `a` and `a` to the list of `b`
(a self-loop therefore appears twice); `std::map` is used only to find the index that a
label received when it was first seen.
-/
import MT.Scalar

namespace MT

/-- how many parallel edges a weight produces: graph.hpp:129-139
`if (weight > EPS_PRECISION) for (weight_t w = 0; w < weight; w++) add_edge` -/
class Weight (ω : Type) where
  units : ω → Nat

instance : Weight Nat := ⟨id⟩
instance : Weight Int := ⟨Int.toNat⟩
instance : Weight Float :=
  ⟨fun w => if w > (MTExtra.eps : Float) then w.ceil.toUInt64.toNat else 0⟩

section
variable {β : Type} [DecidableEq β]

/-- distinct elements in order of first appearance -/
def firstApp : List β → List β
  | [] => []
  | x :: xs => x :: (firstApp xs).filter (· ≠ x)

/-- `edges_start[0], edges_end[0], edges_start[1], …` — the order of `add_vertex` calls -/
def interleave (starts ends : List β) : List β :=
  (starts.zip ends).flatMap fun p => [p.1, p.2]

end

/-- one input record with its labels already replaced by vertex indices -/
structure IRec where
  src : Nat
  dst : Nat
  /-- units per layer -/
  un : List Nat
deriving Repr, DecidableEq

structure Net (β : Type) where
  directed : Bool
  nL : Nat
  labels : List β
  recs : List IRec

namespace Net
variable {β : Type}

def nV (n : Net β) : Nat := if n.nL = 0 then 0 else n.labels.length

def unitsAt (r : IRec) (a : Nat) : Nat := r.un.getD a 0

/-- targets of the out-edges of vertex `i` in layer `a`, in boost iteration order -/
def out (n : Net β) (a i : Nat) : List Nat :=
  n.recs.flatMap fun r =>
    (if r.src = i then List.replicate (unitsAt r a) r.dst else []) ++
    (if !n.directed && r.dst = i then List.replicate (unitsAt r a) r.src else [])

/-- sources of the in-edges of vertex `j` in layer `a` (directed graphs) -/
def inn (n : Net β) (a j : Nat) : List Nat :=
  n.recs.flatMap fun r =>
    if r.dst = j then List.replicate (unitsAt r a) r.src else []

/-- `num_edges()` -/
def nedges (n : Net β) : Nat :=
  (n.recs.map fun r => ((List.range n.nL).map (unitsAt r)).sum).sum

/-- `extract_vertices_with_edges`, first list -/
def uList (n : Net β) : List Nat :=
  (List.range n.nV).filter fun i => (List.range n.nL).any fun a => !(n.out a i).isEmpty

/-- second list: vertices with an in-edge; the *same* list when undirected -/
def vList (n : Net β) : List Nat :=
  if n.directed then
    (List.range n.nV).filter fun i => (List.range n.nL).any fun a => !(n.inn a i).isEmpty
  else n.uList

end Net

section
variable {β ω : Type} [DecidableEq β] [Weight ω]

/-- the `i`-th chunk of `nL` weights, as units -/
def chunkUnits (weights : List ω) (nL i : Nat) : List Nat :=
  ((weights.drop (i * nL)).take nL).map Weight.units

/-- `Network(edges_start, edges_end, edges_weight)` -/
def build (directed : Bool) (starts ends : List β) (weights : List ω) : Net β :=
  let nL := if starts.length = 0 then 0 else weights.length / starts.length
  let labels := firstApp (interleave starts ends)
  let recs := (starts.zip ends).zipIdx.map fun p =>
    { src := labels.idxOf p.1.1, dst := labels.idxOf p.1.2,
      un := chunkUnits weights nL p.2 : IRec }
  { directed, nL, labels, recs }

/-- `utils::get_num_vertices` -/
def numVertices (starts ends : List β) : Nat :=
  (firstApp (starts ++ ends)).length

end

end MT
