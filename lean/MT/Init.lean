/-
initialization.hpp — the three initialisers, over an abstract stream of uniform draws
`d : Nat → α` (`d t` = the t-th draw consumed by this initialiser call).  Each returns the
tensor and the number of draws consumed.
-/
import MT.Tensor

namespace MT

section
variable {α : Type} [Add α] [Mul α] [MTExtra α]

/-- number of draws made before row `i` of one layer: rows `0..i-1` make `K, K-1, …` draws
(`for i: for j ≥ i`, initialization.hpp:57-78) -/
def rowStart (K : Nat) : Nat → Nat
  | 0 => 0
  | i + 1 => rowStart K i + (K - i)

/-- position (within one layer) of the draw shared by entries `(i,j)` and `(j,i)`:
`for i: for j ≥ i: T(i,j)=T(j,i)=draw` -/
def triPos (K i j : Nat) : Nat :=
  rowStart K (min i j) + (max i j - min i j)

/-- `init_symmetric_tensor_random` -/
def initAffRandom (assort : Bool) (K L : Nat) (d : Nat → α) : Tens α × Nat :=
  if assort then
    (Tens.ofFn K 1 L fun i _ a => d (a * K + i), L * K)
  else
    (Tens.ofFn K K L fun i j a => d (a * rowStart K K + triPos K i j), L * rowStart K K)

/-- `init_symmetric_tensor_from_initial`: the cached user tensor plus `EPS_NOISE * draw` per
entry, `for alpha: for k: (for q:)` (initialization.hpp:112-145) -/
def initAffFromInitial (assort : Bool) (init : Tens α) (d : Nat → α) : Tens α × Nat :=
  let K := init.R
  let L := init.T
  if assort then
    (Tens.ofFn K 1 L fun k _ a => init.get k 0 a + MTExtra.noise * d (a * K + k), L * K)
  else
    (Tens.ofFn K K L fun k q a => init.get k q a + MTExtra.noise * d (a * K * K + k * K + q),
      L * K * K)

/-- `init_tensor_rows_random`: `for k < ncols: for j in elements: mat(j,k) = draw`; other rows
keep `prev` (initialization.hpp:164-178) -/
def initRows (N K : Nat) (elems : List Nat) (prev : Nat → Nat → α) (d : Nat → α) : Tens α × Nat :=
  (Tens.ofFn N K 1 fun j k _ =>
      if j ∈ elems then d (k * elems.length + elems.idxOf j) else prev j k,
   K * elems.length)

end
end MT
