/-
Refinement of the *translated C++ loop nests* (MT/Generated/SolverCode.lean, rewritten from
solver.hpp on every run by tools/cxx2lean.py) to the model's entry formulas (MT/Solver.lean).

Everything here is proved for an arbitrary scalar type with the bare operations — no algebraic law
is used, only the structure of the loops — so the statements hold for `Float` (the instance that
is compared with the C++ on every run) exactly as they hold for `ℝ` (the instance the property
theorems are about).  Core Lean only.
-/
import MTProofs.CodeRefine

set_option linter.unusedSectionVars false
set_option linter.unusedVariables false

namespace MT.CodeRefine
open MT MT.Imp MT.Gen

section
variable {α : Type} [Add α] [Sub α] [Mul α] [Div α] [LT α] [DecidableLT α] [MTExtra α]

/-! ### update_affinity -/
section uw
variable (assort : Bool) (K L N : Nat) (uList vList : List Nat) (out : Nat → Nat → List Nat)
  (u v : Nat → Nat → α) (wOld : Nat → Nat → Nat → α)

local notation "uw1" => updateAffinityCode_1 assort K L N uList vList out u v (diag2 wOld) wOld
local notation "uw11" => updateAffinityCode_1_1 assort K L N uList vList out u v (diag2 wOld) wOld
local notation "uw12" => updateAffinityCode_1_2 assort K L N uList vList out u v (diag2 wOld) wOld
local notation "uw13" => updateAffinityCode_1_3 assort K L N uList vList out u v (diag2 wOld) wOld
local notation "uw131" => updateAffinityCode_1_3_1 assort K L N uList vList out u v (diag2 wOld) wOld
local notation "uw1311" => updateAffinityCode_1_3_1_1 assort K L N uList vList out u v (diag2 wOld) wOld
local notation "uw13111" => updateAffinityCode_1_3_1_1_1 assort K L N uList vList out u v (diag2 wOld) wOld
local notation "uw14" => updateAffinityCode_1_4 assort K L N uList vList out u v (diag2 wOld) wOld
local notation "uw141" => updateAffinityCode_1_4_1 assort K L N uList vList out u v (diag2 wOld) wOld
local notation "uw142" => updateAffinityCode_1_4_2 assort K L N uList vList out u v (diag2 wOld) wOld
local notation "uw143" => updateAffinityCode_1_4_3 assort K L N uList vList out u v (diag2 wOld) wOld
local notation "uw1431" => updateAffinityCode_1_4_3_1 assort K L N uList vList out u v (diag2 wOld) wOld
local notation "uw14311" => updateAffinityCode_1_4_3_1_1 assort K L N uList vList out u v (diag2 wOld) wOld
local notation "uw143111" => updateAffinityCode_1_4_3_1_1_1 assort K L N uList vList out u v (diag2 wOld) wOld
local notation "uw1431111" => updateAffinityCode_1_4_3_1_1_1_1 assort K L N uList vList out u v (diag2 wOld) wOld
local notation "uwTop" => updateAffinityCode assort K L N uList vList out u v (diag2 wOld) wOld

theorem uw_fold_Dv {ι : Type} (l : List ι) (g : ι → α) (s : UWLoc α) :
    l.foldl (fun (s : UWLoc α) i => { s with Dv := s.Dv + g i }) s = { s with Dv := accL l g s.Dv } := by
  induction l generalizing s with
  | nil => rfl
  | cons x xs ih => simp only [List.foldl_cons]; rw [ih]; rfl

theorem uw_fold_Du {ι : Type} (l : List ι) (g : ι → α) (s : UWLoc α) :
    l.foldl (fun (s : UWLoc α) i => { s with Du := s.Du + g i }) s = { s with Du := accL l g s.Du } := by
  induction l generalizing s with
  | nil => rfl
  | cons x xs ih => simp only [List.foldl_cons]; rw [ih]; rfl

theorem uw_fold_Zij {ι : Type} (l : List ι) (zf : ι → α → α) (s : UWLoc α) :
    l.foldl (fun (s : UWLoc α) i => { s with Zij_a := zf i s.Zij_a }) s
      = { s with Zij_a := l.foldl (fun a i => zf i a) s.Zij_a } := by
  induction l generalizing s with
  | nil => rfl
  | cons x xs ih => simp only [List.foldl_cons]; rw [ih]

/-- fields `Zij_a`, `rho_w`, `w_kqa` each evolving on their own -/
theorem uw_fold_ZRW {ι : Type} (l : List ι) (zf rf wf' : ι → α → α) (s : UWLoc α) :
    l.foldl (fun (s : UWLoc α) i =>
        { s with Zij_a := zf i s.Zij_a, rho_w := rf i s.rho_w, w_kqa := wf' i s.w_kqa }) s
      = { s with Zij_a := l.foldl (fun a i => zf i a) s.Zij_a,
                 rho_w := l.foldl (fun a i => rf i a) s.rho_w,
                 w_kqa := l.foldl (fun a i => wf' i a) s.w_kqa } := by
  induction l generalizing s with
  | nil => rfl
  | cons x xs ih => simp only [List.foldl_cons]; rw [ih]

theorem uw_fold_ZR {ι : Type} (l : List ι) (zf rf : ι → α → α) (s : UWLoc α) :
    l.foldl (fun (s : UWLoc α) i => { s with Zij_a := zf i s.Zij_a, rho_w := rf i s.rho_w }) s
      = { s with Zij_a := l.foldl (fun a i => zf i a) s.Zij_a,
                 rho_w := l.foldl (fun a i => rf i a) s.rho_w } := by
  induction l generalizing s with
  | nil => rfl
  | cons x xs ih => simp only [List.foldl_cons]; rw [ih]

/-- `Zij_a` as `update_affinity` accumulates it -/
theorem wZij_unfold (i j a : Nat) :
    wZij assort K u v wOld i j a
      = if assort then accL (List.range K) (fun m => u i m * v j m * wOld m m a) MTExtra.zero
        else (List.range K).foldl (fun z m =>
          accL (List.range K) (fun l => u i m * v j l * wOld m l a) z) MTExtra.zero := by
  cases assort
  · simp [wZij, gpairs, pairs, sumL, accL, List.foldl_flatMap, List.foldl_map]
  · simp [wZij, gpairs, sumL, accL, List.foldl_map]

/-- `rho_w` of vertex `i` as the code accumulates it -/
theorem wRho_unfold (i q a : Nat) :
    (out a i).foldl (fun r j => if MTExtra.eps < wZij assort K u v wOld i j a
        then r + v j q / wZij assort K u v wOld i j a else r) MTExtra.zero
      = wRho assort K out u v wOld i q a := by
  simp [wRho, sumL, List.foldl_filter]

theorem setAt3_self (f : Nat → Nat → Nat → α) (k q a : Nat) (x : α) : setAt3 f k q a x k q a = x := by
  simp [setAt3]

theorem setAt3_setAt3 (f : Nat → Nat → Nat → α) (k q a : Nat) (x y : α) :
    setAt3 (setAt3 f k q a x) k q a y = setAt3 f k q a y := by
  funext k' q' a'; by_cases h : k' = k ∧ q' = q ∧ a' = a <;> simp [setAt3, h]

/-! #### general affinity -/

theorem uw_g_mloop (k q a i j : Nat) (s : UWLoc α) :
    List.foldl (fun s m => uw143111 k q a i j m s) s (List.range K)
      = { s with Zij_a := (List.range K).foldl (fun z m =>
            accL (List.range K) (fun l => u i m * v j l * wOld m l a) z) s.Zij_a } := by
  have : (fun (s : UWLoc α) m => uw143111 k q a i j m s)
      = fun s m => { s with Zij_a := accL (List.range K) (fun l => u i m * v j l * wOld m l a) s.Zij_a } := by
    funext s m
    unfold updateAffinityCode_1_4_3_1_1_1 updateAffinityCode_1_4_3_1_1_1_1
    exact uw_fold_Zij (List.range K) (fun l z => z + u i m * v j l * wOld m l a) s
  rw [this]
  exact uw_fold_Zij (List.range K) (fun m z => accL (List.range K) (fun l => u i m * v j l * wOld m l a) z) s

theorem uw_g_jbody (hA : assort = false) (k q a i j : Nat) (s : UWLoc α) :
    uw14311 k q a i j s
      = { s with
                 Zij_a := wZij assort K u v wOld i j a,
                 rho_w := if MTExtra.eps < wZij assort K u v wOld i j a
                          then s.rho_w + v j q / wZij assort K u v wOld i j a else s.rho_w } := by
  unfold updateAffinityCode_1_4_3_1_1
  simp only [uw_g_mloop]
  rw [wZij_unfold]
  subst hA
  simp only [Bool.false_eq_true, if_false]
  split <;> rfl

theorem uw_g_ibody (hA : assort = false) (k q a i : Nat) (s : UWLoc α) :
    uw1431 k q a i s
      = { s with
                 Zij_a := (out a i).foldl (fun _ j => wZij assort K u v wOld i j a) s.Zij_a,
                 rho_w := wRho assort K out u v wOld i q a,
                 w_kqa := s.w_kqa + u i k * wRho assort K out u v wOld i q a } := by
  unfold updateAffinityCode_1_4_3_1
  have : (fun (s : UWLoc α) j => uw14311 k q a i j s)
      = fun s j => { s with
                 Zij_a := wZij assort K u v wOld i j a,
                 rho_w := (if MTExtra.eps < wZij assort K u v wOld i j a
                          then s.rho_w + v j q / wZij assort K u v wOld i j a else s.rho_w) } := by
    funext s j; exact uw_g_jbody assort K L N uList vList out u v wOld hA k q a i j s
  simp only [forList, this]
  have h := uw_fold_ZR (out a i) (fun j _ => wZij assort K u v wOld i j a)
    (fun j r => if MTExtra.eps < wZij assort K u v wOld i j a
                          then r + v j q / wZij assort K u v wOld i j a else r)
    ({ s with rho_w := MTExtra.zero } : UWLoc α)
  simp only [] at h
  rw [h]
  simp only [wRho_unfold]

theorem wAcc_unfold (k q a : Nat) :
    accL (List.range N) (fun i => u i k * wRho assort K out u v wOld i q a) MTExtra.zero
      = wAcc assort K N out u v wOld k q a := rfl

/-- layer body: `Z_kq` untouched, entry `(k,q,a)` receives the update -/
theorem uw_g_abody (hA : assort = false) (k q a : Nat) (s : UWLoc α) :
    (uw143 k q a s).Z_kq = s.Z_kq ∧
    (uw143 k q a s).w3 =
      if MTExtra.eps < wOld k q a then
        setAt3 s.w3 k q a (snap (wOld k q a / s.Z_kq * wAcc assort K N out u v wOld k q a))
      else s.w3 := by
  unfold updateAffinityCode_1_4_3
  by_cases hg : MTExtra.eps < wOld k q a
  · simp only [hg, if_true]
    have : (fun (s : UWLoc α) i => uw1431 k q a i s)
        = fun s i => { s with
                 Zij_a := (out a i).foldl (fun _ j => wZij assort K u v wOld i j a) s.Zij_a,
                 rho_w := wRho assort K out u v wOld i q a,
                 w_kqa := s.w_kqa + u i k * wRho assort K out u v wOld i q a } := by
      funext s i; exact uw_g_ibody assort K L N uList vList out u v wOld hA k q a i s
    simp only [forRange, this]
    have h := uw_fold_ZRW (List.range N)
      (fun i z => (out a i).foldl (fun _ j => wZij assort K u v wOld i j a) z)
      (fun i _ => wRho assort K out u v wOld i q a)
      (fun i w => w + u i k * wRho assort K out u v wOld i q a)
      ({ s with w_kqa := MTExtra.zero } : UWLoc α)
    simp only [] at h
    rw [h]
    simp only [setAt3_self]
    unfold snap
    have hw : List.foldl (fun a_1 i => a_1 + u i k * wRho assort K out u v wOld i q a) MTExtra.zero (List.range N)
        = wAcc assort K N out u v wOld k q a := rfl
    rw [hw]
    by_cases hs : MTExtra.abs (wOld k q a / s.Z_kq * wAcc assort K N out u v wOld k q a) < MTExtra.eps
    · simp [hs, setAt3_setAt3]
    · simp [hs]
  · simp [hg]

/-- the tensor as a function of the index triple -/
def un3 (f : Nat → Nat → Nat → α) : Nat × Nat × Nat → α := fun x => f x.1 x.2.1 x.2.2

theorem un3_setAt3 (f : Nat → Nat → Nat → α) (k q a : Nat) (y : α) (x : Nat × Nat × Nat) :
    un3 (setAt3 f k q a y) x = if x.2.2 = a ∧ (x.1 = k ∧ x.2.1 = q) then y else un3 f x := by
  unfold un3 setAt3
  by_cases h1 : x.1 = k <;> by_cases h2 : x.2.1 = q <;> by_cases h3 : x.2.2 = a <;> simp [h1, h2, h3]

/-- the loop over the layers for one pair `(k,q)` -/
theorem uw_g_aloop (hA : assort = false) (k q : Nat) (s : UWLoc α) (x : Nat × Nat × Nat) :
    un3 (List.foldl (fun s a => uw143 k q a s) s (List.range L)).w3 x
      = if x.2.2 < L ∧ ((x.1 = k ∧ x.2.1 = q) ∧ MTExtra.eps < wOld k q x.2.2) then
          snap (wOld k q x.2.2 / s.Z_kq * wAcc assort K N out u v wOld k q x.2.2)
        else un3 s.w3 x := by
  have h := foldl_proj (fun s : UWLoc α => (s.Z_kq, un3 s.w3)) (fun s a => uw143 k q a s)
    (fun (p : α × (Nat × Nat × Nat → α)) a => (p.1, fun x =>
        if x.2.2 = a ∧ ((x.1 = k ∧ x.2.1 = q) ∧ MTExtra.eps < wOld k q a) then
          snap (wOld k q a / p.1 * wAcc assort K N out u v wOld k q a) else p.2 x))
    (fun s a => by
      obtain ⟨h1, h2⟩ := uw_g_abody assort K L N uList vList out u v wOld hA k q a s
      simp only [h1, h2]
      congr 1
      funext x
      by_cases hg : MTExtra.eps < wOld k q a
      · simp only [hg, if_true, un3_setAt3, and_true]
      · simp only [hg, if_false, and_false]) (List.range L) s
  rw [foldl_pair_const (List.range L) (fun (z : α) (m : Nat × Nat × Nat → α) a => fun x =>
        if x.2.2 = a ∧ ((x.1 = k ∧ x.2.1 = q) ∧ MTExtra.eps < wOld k q a) then
          snap (wOld k q a / z * wAcc assort K N out u v wOld k q a) else m x)] at h
  have h2 := congrArg Prod.snd h
  simp only [] at h2
  rw [h2]
  exact foldl_select L (fun x : Nat × Nat × Nat => x.2.2)
    (fun a x => (x.1 = k ∧ x.2.1 = q) ∧ MTExtra.eps < wOld k q a)
    (fun a _ => snap (wOld k q a / s.Z_kq * wAcc assort K N out u v wOld k q a)) (un3 s.w3) x

theorem uw_g_vloop (k q : Nat) (s : UWLoc α) :
    List.foldl (fun s i => uw141 k q i s) s vList = { s with Dv := accL vList (fun i => v i q) s.Dv } := by
  unfold updateAffinityCode_1_4_1
  exact uw_fold_Dv vList (fun i => v i q) s

theorem uw_g_uloop (k q : Nat) (s : UWLoc α) :
    List.foldl (fun s i => uw142 k q i s) s uList = { s with Du := accL uList (fun i => u i k) s.Du } := by
  unfold updateAffinityCode_1_4_2
  exact uw_fold_Du uList (fun i => u i k) s

theorem wZ_unfold (k q : Nat) :
    wZ uList vList u v k q
      = accL uList (fun i => u i k) MTExtra.zero * accL vList (fun i => v i q) MTExtra.zero := rfl

/-- body of the loop over `q`, seen through the tensor -/
theorem uw_g_qbody (hA : assort = false) (k q : Nat) (s : UWLoc α) (x : Nat × Nat × Nat) :
    un3 (uw14 k q s).w3 x
      = if x.2.1 = q ∧ (x.2.2 < L ∧ (x.1 = k ∧
            (MTExtra.eps < wZ uList vList u v k q ∧ MTExtra.eps < wOld k q x.2.2))) then
          snap (wOld k q x.2.2 / wZ uList vList u v k q * wAcc assort K N out u v wOld k q x.2.2)
        else un3 s.w3 x := by
  unfold updateAffinityCode_1_4
  simp only [forList, forRange, uw_g_vloop, uw_g_uloop]
  rw [wZ_unfold]
  split
  · rename_i hz
    rw [uw_g_aloop assort K L N uList vList out u v wOld hA]
    by_cases h1 : x.2.1 = q <;> by_cases h2 : x.1 = k <;> simp [hz, h1, h2]
  · rename_i hz
    simp [hz]

/-- body of the loop over `k` (general affinity), seen through the tensor -/
theorem uw_g_kbody (hA : assort = false) (k : Nat) (s : UWLoc α) (x : Nat × Nat × Nat) :
    un3 (uw1 k s).w3 x
      = if x.1 = k ∧ (x.2.1 < K ∧ (x.2.2 < L ∧
            (MTExtra.eps < wZ uList vList u v k x.2.1 ∧ MTExtra.eps < wOld k x.2.1 x.2.2))) then
          snap (wOld k x.2.1 x.2.2 / wZ uList vList u v k x.2.1 * wAcc assort K N out u v wOld k x.2.1 x.2.2)
        else un3 s.w3 x := by
  unfold updateAffinityCode_1
  have hA' := hA
  subst hA'
  simp only [Bool.false_eq_true, if_false, forRange]
  have h := foldl_proj (fun s : UWLoc α => un3 s.w3) (fun s q => updateAffinityCode_1_4 false K L N uList vList out u v (diag2 wOld) wOld k q s)
    (fun (m : Nat × Nat × Nat → α) q => fun x =>
      if x.2.1 = q ∧ (x.2.2 < L ∧ (x.1 = k ∧
            (MTExtra.eps < wZ uList vList u v k q ∧ MTExtra.eps < wOld k q x.2.2))) then
          snap (wOld k q x.2.2 / wZ uList vList u v k q * wAcc false K N out u v wOld k q x.2.2)
        else m x)
    (fun s q => by funext x; exact uw_g_qbody false K L N uList vList out u v wOld rfl k q s x)
    (List.range K) s
  rw [h]
  rw [foldl_select K (fun x : Nat × Nat × Nat => x.2.1)
    (fun q x => x.2.2 < L ∧ (x.1 = k ∧ (MTExtra.eps < wZ uList vList u v k q ∧ MTExtra.eps < wOld k q x.2.2)))
    (fun q x => snap (wOld k q x.2.2 / wZ uList vList u v k q * wAcc false K N out u v wOld k q x.2.2))]
  by_cases h1 : x.1 = k <;> simp [h1]

/-- **`update_affinity` (general affinity), as written in solver.hpp, computes the model's entry formula** -/
theorem updateAffinityCode_refines_general (hA : assort = false) (s0 : UWLoc α)
    (h0 : ∀ k q a, s0.w3 k q a = wOld k q a) (k q a : Nat) :
    (uwTop s0).w3 k q a =
      if k < K ∧ q < K ∧ a < L then updWEntry assort K N uList vList out u v wOld k q a else wOld k q a := by
  unfold updateAffinityCode
  simp only [forRange]
  have h := foldl_proj (fun s : UWLoc α => un3 s.w3) (fun s k => uw1 k s)
    (fun (m : Nat × Nat × Nat → α) k => fun x =>
      if x.1 = k ∧ (x.2.1 < K ∧ (x.2.2 < L ∧
            (MTExtra.eps < wZ uList vList u v k x.2.1 ∧ MTExtra.eps < wOld k x.2.1 x.2.2))) then
          snap (wOld k x.2.1 x.2.2 / wZ uList vList u v k x.2.1 * wAcc assort K N out u v wOld k x.2.1 x.2.2)
        else m x)
    (fun s k => by funext x; exact uw_g_kbody assort K L N uList vList out u v wOld hA k s x)
    (List.range K) s0
  have h2 := congrFun h (k, q, a)
  simp only [un3] at h2
  rw [h2]
  have h3 := foldl_select K (fun x : Nat × Nat × Nat => x.1)
    (fun k x => x.2.1 < K ∧ (x.2.2 < L ∧
            (MTExtra.eps < wZ uList vList u v k x.2.1 ∧ MTExtra.eps < wOld k x.2.1 x.2.2)))
    (fun k x => snap (wOld k x.2.1 x.2.2 / wZ uList vList u v k x.2.1 * wAcc assort K N out u v wOld k x.2.1 x.2.2))
    (un3 s0.w3) (k, q, a)
  simp only [] at h3
  rw [h3]
  simp only [un3, h0]
  unfold updWEntry
  by_cases hk : k < K <;> by_cases hq : q < K <;> by_cases ha : a < L <;>
    by_cases h4 : MTExtra.eps < wZ uList vList u v k q <;> by_cases h5 : MTExtra.eps < wOld k q a <;>
    simp [hk, hq, ha, h4, h5]

/-! #### assortative affinity -/

theorem uw_a_mloop (k a i j : Nat) (s : UWLoc α) :
    List.foldl (fun s m => uw13111 k a i j m s) s (List.range K)
      = { s with Zij_a := accL (List.range K) (fun m => u i m * v j m * wOld m m a) s.Zij_a } := by
  unfold updateAffinityCode_1_3_1_1_1
  exact uw_fold_Zij (List.range K) (fun m z => z + u i m * v j m * wOld m m a) s

theorem uw_a_jbody (hA : assort = true) (k a i j : Nat) (s : UWLoc α) :
    uw1311 k a i j s
      = { s with
                 Zij_a := wZij assort K u v wOld i j a,
                 rho_w := if MTExtra.eps < wZij assort K u v wOld i j a
                          then s.rho_w + v j k / wZij assort K u v wOld i j a else s.rho_w } := by
  unfold updateAffinityCode_1_3_1_1
  simp only [forRange, uw_a_mloop]
  rw [wZij_unfold]
  subst hA
  simp only [if_true]
  split <;> rfl

theorem uw_a_ibody (hA : assort = true) (k a i : Nat) (s : UWLoc α) :
    uw131 k a i s
      = { s with
                 Zij_a := (out a i).foldl (fun _ j => wZij assort K u v wOld i j a) s.Zij_a,
                 rho_w := wRho assort K out u v wOld i k a,
                 w_kqa := s.w_kqa + u i k * wRho assort K out u v wOld i k a } := by
  unfold updateAffinityCode_1_3_1
  have : (fun (s : UWLoc α) j => uw1311 k a i j s)
      = fun s j => { s with
                 Zij_a := wZij assort K u v wOld i j a,
                 rho_w := (if MTExtra.eps < wZij assort K u v wOld i j a
                          then s.rho_w + v j k / wZij assort K u v wOld i j a else s.rho_w) } := by
    funext s j; exact uw_a_jbody assort K L N uList vList out u v wOld hA k a i j s
  simp only [forList, this]
  have h := uw_fold_ZR (out a i) (fun j _ => wZij assort K u v wOld i j a)
    (fun j r => if MTExtra.eps < wZij assort K u v wOld i j a
                          then r + v j k / wZij assort K u v wOld i j a else r)
    ({ s with rho_w := MTExtra.zero } : UWLoc α)
  simp only [] at h
  rw [h]
  simp only [wRho_unfold]

/-- layer body (assortative): `Z_kq` untouched, entry `(k,a)` receives the update -/
theorem uw_a_abody (hA : assort = true) (k a : Nat) (s : UWLoc α) :
    (uw13 k a s).Z_kq = s.Z_kq ∧
    (uw13 k a s).w2 =
      if MTExtra.eps < wOld k k a then
        setAt2 s.w2 k a (snap (wOld k k a / s.Z_kq * wAcc assort K N out u v wOld k k a))
      else s.w2 := by
  unfold updateAffinityCode_1_3
  by_cases hg : MTExtra.eps < wOld k k a
  · simp only [diag2, hg, if_true]
    have : (fun (s : UWLoc α) i => uw131 k a i s)
        = fun s i => { s with
                 Zij_a := (out a i).foldl (fun _ j => wZij assort K u v wOld i j a) s.Zij_a,
                 rho_w := wRho assort K out u v wOld i k a,
                 w_kqa := s.w_kqa + u i k * wRho assort K out u v wOld i k a } := by
      funext s i; exact uw_a_ibody assort K L N uList vList out u v wOld hA k a i s
    simp only [forRange, this]
    have h := uw_fold_ZRW (List.range N)
      (fun i z => (out a i).foldl (fun _ j => wZij assort K u v wOld i j a) z)
      (fun i _ => wRho assort K out u v wOld i k a)
      (fun i w => w + u i k * wRho assort K out u v wOld i k a)
      ({ s with w_kqa := MTExtra.zero } : UWLoc α)
    simp only [] at h
    rw [h]
    simp only [setAt2_self]
    unfold snap
    have hw : List.foldl (fun a_1 i => a_1 + u i k * wRho assort K out u v wOld i k a) MTExtra.zero (List.range N)
        = wAcc assort K N out u v wOld k k a := rfl
    rw [hw]
    by_cases hs : MTExtra.abs (wOld k k a / s.Z_kq * wAcc assort K N out u v wOld k k a) < MTExtra.eps
    · simp [hs, setAt2_setAt2]
    · simp [hs]
  · simp [diag2, hg]

/-- the two-index tensor as a function of the index pair -/
def un2 (f : Nat → Nat → α) : Nat × Nat → α := fun x => f x.1 x.2

theorem un2_setAt2 (f : Nat → Nat → α) (k a : Nat) (y : α) (x : Nat × Nat) :
    un2 (setAt2 f k a y) x = if x.2 = a ∧ x.1 = k then y else un2 f x := by
  unfold un2 setAt2
  by_cases h1 : x.1 = k <;> by_cases h3 : x.2 = a <;> simp [h1, h3]

theorem uw_a_aloop (hA : assort = true) (k : Nat) (s : UWLoc α) (x : Nat × Nat) :
    un2 (List.foldl (fun s a => uw13 k a s) s (List.range L)).w2 x
      = if x.2 < L ∧ (x.1 = k ∧ MTExtra.eps < wOld k k x.2) then
          snap (wOld k k x.2 / s.Z_kq * wAcc assort K N out u v wOld k k x.2)
        else un2 s.w2 x := by
  have h := foldl_proj (fun s : UWLoc α => (s.Z_kq, un2 s.w2)) (fun s a => uw13 k a s)
    (fun (p : α × (Nat × Nat → α)) a => (p.1, fun x =>
        if x.2 = a ∧ (x.1 = k ∧ MTExtra.eps < wOld k k a) then
          snap (wOld k k a / p.1 * wAcc assort K N out u v wOld k k a) else p.2 x))
    (fun s a => by
      obtain ⟨h1, h2⟩ := uw_a_abody assort K L N uList vList out u v wOld hA k a s
      simp only [h1, h2]
      congr 1
      funext x
      by_cases hg : MTExtra.eps < wOld k k a
      · simp only [hg, if_true, un2_setAt2, and_true]
      · simp only [hg, if_false, and_false]) (List.range L) s
  rw [foldl_pair_const (List.range L) (fun (z : α) (m : Nat × Nat → α) a => fun x =>
        if x.2 = a ∧ (x.1 = k ∧ MTExtra.eps < wOld k k a) then
          snap (wOld k k a / z * wAcc assort K N out u v wOld k k a) else m x)] at h
  have h2 := congrArg Prod.snd h
  simp only [] at h2
  rw [h2]
  exact foldl_select L (fun x : Nat × Nat => x.2)
    (fun a x => x.1 = k ∧ MTExtra.eps < wOld k k a)
    (fun a _ => snap (wOld k k a / s.Z_kq * wAcc assort K N out u v wOld k k a)) (un2 s.w2) x

theorem uw_a_vloop (k : Nat) (s : UWLoc α) :
    List.foldl (fun s i => uw11 k i s) s vList = { s with Dv := accL vList (fun i => v i k) s.Dv } := by
  unfold updateAffinityCode_1_1
  exact uw_fold_Dv vList (fun i => v i k) s

theorem uw_a_uloop (k : Nat) (s : UWLoc α) :
    List.foldl (fun s i => uw12 k i s) s uList = { s with Du := accL uList (fun i => u i k) s.Du } := by
  unfold updateAffinityCode_1_2
  exact uw_fold_Du uList (fun i => u i k) s

/-- body of the loop over `k` (assortative), seen through the tensor -/
theorem uw_a_kbody (hA : assort = true) (k : Nat) (s : UWLoc α) (x : Nat × Nat) :
    un2 (uw1 k s).w2 x
      = if x.1 = k ∧ (x.2 < L ∧ (MTExtra.eps < wZ uList vList u v k k ∧ MTExtra.eps < wOld k k x.2)) then
          snap (wOld k k x.2 / wZ uList vList u v k k * wAcc assort K N out u v wOld k k x.2)
        else un2 s.w2 x := by
  unfold updateAffinityCode_1
  have hA' := hA
  subst hA'
  simp only [if_true, forRange, forList, uw_a_vloop, uw_a_uloop]
  rw [wZ_unfold]
  split
  · rename_i hz
    rw [uw_a_aloop true K L N uList vList out u v wOld rfl]
    by_cases h2 : x.1 = k <;> simp [hz, h2]
  · rename_i hz
    simp [hz]

/-- **`update_affinity` (assortative), as written in solver.hpp, computes the model's entry formula** -/
theorem updateAffinityCode_refines_assortative (hA : assort = true) (s0 : UWLoc α)
    (h0 : ∀ k a, s0.w2 k a = wOld k k a) (k a : Nat) :
    (uwTop s0).w2 k a =
      if k < K ∧ a < L then updWEntry assort K N uList vList out u v wOld k k a else wOld k k a := by
  unfold updateAffinityCode
  simp only [forRange]
  have h := foldl_proj (fun s : UWLoc α => un2 s.w2) (fun s k => uw1 k s)
    (fun (m : Nat × Nat → α) k => fun x =>
      if x.1 = k ∧ (x.2 < L ∧ (MTExtra.eps < wZ uList vList u v k k ∧ MTExtra.eps < wOld k k x.2)) then
          snap (wOld k k x.2 / wZ uList vList u v k k * wAcc assort K N out u v wOld k k x.2)
        else m x)
    (fun s k => by funext x; exact uw_a_kbody assort K L N uList vList out u v wOld hA k s x)
    (List.range K) s0
  have h2 := congrFun h (k, a)
  simp only [un2] at h2
  rw [h2]
  have h3 := foldl_select K (fun x : Nat × Nat => x.1)
    (fun k x => x.2 < L ∧ (MTExtra.eps < wZ uList vList u v k k ∧ MTExtra.eps < wOld k k x.2))
    (fun k x => snap (wOld k k x.2 / wZ uList vList u v k k * wAcc assort K N out u v wOld k k x.2))
    (un2 s0.w2) (k, a)
  simp only [] at h3
  rw [h3]
  simp only [un2, h0]
  unfold updWEntry
  by_cases hk : k < K <;> by_cases ha : a < L <;>
    by_cases h4 : MTExtra.eps < wZ uList vList u v k k <;> by_cases h5 : MTExtra.eps < wOld k k a <;>
    simp [hk, ha, h4, h5]

end uw
end
end MT.CodeRefine
