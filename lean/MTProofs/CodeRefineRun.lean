/-
`Solver::run` (structure from the source, statement meanings from the table in tools/gen_run_code.py)
is the model's `runAll`.  Any scalar type; core Lean only.
-/
import MT.Main
import MT.Generated.RunCode

set_option linter.unusedSectionVars false
set_option linter.unusedVariables false

namespace MT.CodeRefine
open MT MT.Imp MT.Gen

section
variable {α : Type} [Add α] [Sub α] [Mul α] [Div α] [LT α] [DecidableLT α] [MTExtra α]

theorem zeros_get (R C T i j a : Nat) : (Tens.zeros R C T : Tens α).get i j a = MTExtra.zero := by
  unfold Tens.get Tens.zeros
  simp only [Array.getD_eq_getD_getElem?]
  by_cases h : Gen.getIndexSrc R C T i j a < (Array.replicate (R * C * T) (MTExtra.zero : α)).size
  · simp [Array.getElem?_eq_getElem h]
  · simp [Array.getElem?_eq_none (Nat.le_of_not_lt h)]

theorem code_eq_zero_iff (r : Reason) : r.code = 0 ↔ r = Reason.noTermination := by
  cases r <;> simp [Reason.code]

variable (directed assort : Bool) (ik : InitKind) (K N : Nat) (nv : NetView) (maxIt nConv : Nat)
  (evalL : Nat → Nat → State α → α) (userW : Tens α) (d : Nat → α)

/-- undirected: a sweep never looks at the in-membership slot, so neither does `loopStep` as long as the
likelihood evaluation does not -/
theorem loopStep_undirected_agree (hdir : nv.directed = false) (ev : Nat → State α → α)
    (hE : ∀ it (s : State α) (v' : Tens α), ev it { s with v := v' } = ev it s)
    (u w v1 v2 : Tens α) (c : Ctl α) :
    let a := loopStep assort K nv maxIt nConv ev ⟨u, v1, w⟩ c
    let b := loopStep assort K nv maxIt nConv ev ⟨u, v2, w⟩ c
    a.1.u = b.1.u ∧ a.1.w = b.1.w ∧ a.2 = b.2 := by
  unfold loopStep
  have h1 : sweep assort K nv ⟨u, v1, w⟩ = { sweep assort K nv ⟨u, v2, w⟩ with v := (sweep assort K nv ⟨u, v1, w⟩).v } := by
    unfold sweep stepW stepV stepU
    simp only [hdir, Bool.false_eq_true, if_false]
  simp only []
  refine ⟨by rw [h1], by rw [h1], ?_⟩
  rw [h1, hE]

theorem whileFuel_stop {S : Type} (n : Nat) (c : S → Bool) (b : S → S) (s : S) (h : c s = false) :
    whileFuel n c b s = s := by
  cases n <;> simp [whileFuel, h]

/-- code state ~ model loop state -/
def WRel (s : RunLoc α) (st : State α) (c : Ctl α) : Prop :=
  s.u_temp = st.u ∧ (directed = true → s.v_temp = st.v) ∧ s.w_temp = st.w ∧
  s.iteration = c.iteration ∧ s.coincide = c.coincide ∧ s.L2 = c.L2

/-- what the `while` leaves alone -/
def Frame (s s' : RunLoc α) : Prop :=
  s'.u = s.u ∧ s'.v = s.v ∧ s'.w = s.w ∧ s'.pos = s.pos ∧ s'.vec_iter = s.vec_iter ∧
  s'.vec_term_reason = s.vec_term_reason ∧ s'.vec_L2 = s.vec_L2

theorem Frame.refl (s : RunLoc α) : Frame s s := ⟨rfl, rfl, rfl, rfl, rfl, rfl, rfl⟩

theorem Frame.trans {a b c : RunLoc α} (h1 : Frame a b) (h2 : Frame b c) : Frame a c := by
  obtain ⟨a1, a2, a3, a4, a5, a6, a7⟩ := h1
  obtain ⟨b1, b2, b3, b4, b5, b6, b7⟩ := h2
  exact ⟨b1.trans a1, b2.trans a2, b3.trans a3, b4.trans a4, b5.trans a5, b6.trans a6, b7.trans a7⟩

/-- one pass of the `while` body = one `loopStep` of the model -/
theorem while_body_step (hd : nv.directed = directed)
    (hE : directed = false → ∀ i it (s : State α) (v' : Tens α), evalL i it { s with v := v' } = evalL i it s)
    (i : Nat) (s : RunLoc α) (st : State α) (c : Ctl α) (h : WRel directed s st c) :
    let s1 := runCode_while directed assort ik K N nv maxIt nConv evalL userW d i s
    let r1 := loopStep assort K nv maxIt nConv (evalL i) st c
    WRel directed s1 r1.1 r1.2.1 ∧ s1.term_reason = r1.2.2.code ∧ Frame s s1 := by
  obtain ⟨h1, h2, h3, h4, h5, h6⟩ := h
  unfold runCode_while
  cases st with
  | mk su sv sw =>
  cases c with
  | mk ci cc cl =>
  simp only [] at h1 h2 h3 h4 h5 h6
  by_cases hdir : directed = true
  · have hv := h2 hdir
    simp only [hdir, if_true, h1, hv, h3, h4, h5, h6]
    exact ⟨⟨rfl, fun _ => rfl, rfl, rfl, rfl, rfl⟩, trivial, ⟨rfl, rfl, rfl, rfl, rfl, rfl, rfl⟩⟩
  · have hf : directed = false := by cases directed <;> simp_all
    have hnd : nv.directed = false := by rw [hd, hf]
    obtain ⟨g1, g2, g3⟩ := loopStep_undirected_agree assort K nv maxIt nConv hnd (evalL i) (hE hf i) su sw su sv ⟨ci, cc, cl⟩
    simp only [hf, Bool.false_eq_true, if_false, h1, h3, h4, h5, h6]
    refine ⟨⟨g1, ?_, g2, ?_, ?_, ?_⟩, ?_, Frame.refl _⟩
    · intro hh; cases hh
    · rw [g3]
    · rw [g3]
    · rw [g3]
    · rw [g3]

/-- the `while (term_reason == NO_TERMINATION)` loop = the model's `runLoop` with the same bound -/
theorem while_runLoop (hd : nv.directed = directed)
    (hE : directed = false → ∀ i it (s : State α) (v' : Tens α), evalL i it { s with v := v' } = evalL i it s)
    (i : Nat) (fuel : Nat) (s : RunLoc α) (st : State α) (c : Ctl α)
    (h : WRel directed s st c) (h0 : s.term_reason = 0) :
    let s' := whileFuel fuel (fun s => decide (s.term_reason = 0))
      (runCode_while directed assort ik K N nv maxIt nConv evalL userW d i) s
    let r := runLoop assort K nv maxIt nConv (evalL i) fuel st c
    WRel directed s' r.1 r.2.1 ∧ s'.term_reason = r.2.2.code ∧ Frame s s' := by
  induction fuel generalizing s st c with
  | zero => exact ⟨h, by simp [whileFuel, runLoop, h0, Reason.code], Frame.refl _⟩
  | succ n ih =>
    obtain ⟨b1, b2, b3⟩ := while_body_step directed assort ik K N nv maxIt nConv evalL userW d hd hE i s st c h
    simp only [whileFuel, h0, decide_true, if_true, runLoop]
    by_cases hr : (loopStep assort K nv maxIt nConv (evalL i) st c).2.2 = Reason.noTermination
    · simp only [hr, if_true]
      have h0' : (runCode_while directed assort ik K N nv maxIt nConv evalL userW d i s).term_reason = 0 := by
        rw [b2, hr]; rfl
      obtain ⟨c1, c2, c3⟩ := ih _ _ _ b1 h0'
      exact ⟨c1, c2, b3.trans c3⟩
    · simp only [hr, if_false]
      have hne : (runCode_while directed assort ik K N nv maxIt nConv evalL userW d i s).term_reason ≠ 0 := by
        rw [b2]; intro hc; exact hr ((code_eq_zero_iff _).1 hc)
      rw [whileFuel_stop n _ _ _ (by simp [hne])]
      exact ⟨b1, b2, b3⟩

/-- the caller's containers, the stream position and the report, code vs model -/
def RRel (s : RunLoc α) (acc : RunAcc α) : Prop :=
  s.u = acc.best.u ∧ s.v = acc.best.v ∧ s.w = acc.best.w ∧ s.pos = acc.pos ∧
  s.vec_iter = acc.report.iters ∧ s.vec_term_reason = acc.report.reasons.map Reason.code ∧
  s.vec_L2 = acc.report.L2s

theorem zeros_get_fun (R C T : Nat) :
    (fun j k => (Tens.zeros R C T : Tens α).get j k 0) = fun _ _ => (MTExtra.zero : α) := by
  funext j k; exact zeros_get R C T j k 0

/-- one pass of the realization loop of `Solver::run` = the model's `runOne` -/
theorem run_real_step (hd : nv.directed = directed)
    (hE : directed = false → ∀ i it (s : State α) (v' : Tens α), evalL i it { s with v := v' } = evalL i it s)
    (i : Nat) (s : RunLoc α) (acc : RunAcc α) (h : RRel s acc) :
    RRel (runCode_real directed assort ik K N nv maxIt nConv evalL userW d i s)
      (runOne assort ik K N nv maxIt nConv evalL userW d acc i) := by
  obtain ⟨r1, r2, r3, r4, r5, r6, r7⟩ := h
  -- the state with which the while loop is entered
  let sI : RunLoc α :=
    let r := initAff assort ik K nv.nL userW (fun t => d (s.pos + t))
    let s : RunLoc α := { s with w_temp := r.1, pos := s.pos + r.2 }
    let s : RunLoc α := (if directed then
        let s : RunLoc α := { s with v_temp := Tens.zeros N K 1 }
        let r := initRows N K nv.vList (fun j k => s.v_temp.get j k 0) (fun t => d (s.pos + t))
        { s with v_temp := r.1, pos := s.pos + r.2 }
      else s)
    let s : RunLoc α := { s with u_temp := Tens.zeros N K 1 }
    let r := initRows N K nv.uList (fun j k => s.u_temp.get j k 0) (fun t => d (s.pos + t))
    let s : RunLoc α := { s with u_temp := r.1, pos := s.pos + r.2 }
    { s with L2 := MTExtra.lowest, iteration := 0, coincide := 0, term_reason := 0 }
  -- model start
  obtain ⟨st, hst⟩ : ∃ st, st = realizationStart assort ik K N nv userW (fun t => d (acc.pos + t)) := ⟨_, rfl⟩
  have hW : WRel directed sI st.1 ctlInit ∧ sI.pos = acc.pos + st.2 ∧ sI.term_reason = 0 ∧
      sI.u = s.u ∧ sI.v = s.v ∧ sI.w = s.w ∧ sI.vec_iter = s.vec_iter ∧
      sI.vec_term_reason = s.vec_term_reason ∧ sI.vec_L2 = s.vec_L2 := by
    rw [hst]
    simp only [sI, realizationStart, WRel, ctlInit, zeros_get_fun, hd, r4]
    cases directed
    · simp [Nat.add_assoc]
    · simp [Nat.add_assoc]
  obtain ⟨hw, hpos, ht0, fu, fv, fw, f5, f6, f7⟩ := hW
  obtain ⟨w1, w2, w3⟩ := while_runLoop directed assort ik K N nv maxIt nConv evalL userW d hd hE i maxIt sI st.1 ctlInit hw ht0
  have hcode : runCode_real directed assort ik K N nv maxIt nConv evalL userW d i s =
      (let s' := whileFuel maxIt (fun s => decide (s.term_reason = 0))
          (runCode_while directed assort ik K N nv maxIt nConv evalL userW d i) sI
       let s' : RunLoc α := { s' with vec_iter := s'.vec_iter ++ [s'.iteration] }
       let s' : RunLoc α := { s' with vec_term_reason := s'.vec_term_reason ++ [s'.term_reason] }
       let s' : RunLoc α := (if maxL2 s'.vec_L2 < s'.L2 then
           let s' : RunLoc α := { s' with w := s'.w_temp, w_temp := s'.w }
           let s' : RunLoc α := { s' with u := s'.u_temp, u_temp := s'.u }
           (if directed then { s' with v := s'.v_temp, v_temp := s'.v } else s')
         else s')
       { s' with vec_L2 := s'.vec_L2 ++ [s'.L2] }) := by
    unfold runCode_real
    rfl
  rw [hcode]
  obtain ⟨a1, a2, a3, a4, a5, a6⟩ := w1
  obtain ⟨g1, g2, g3, g4, g5, g6, g7⟩ := w3
  generalize hS : whileFuel maxIt (fun s => decide (s.term_reason = 0))
      (runCode_while directed assort ik K N nv maxIt nConv evalL userW d i) sI = S at *
  unfold runOne runRealization RRel
  simp only [← hst]
  generalize hR : runLoop assort K nv maxIt nConv (evalL i) maxIt st.1 ctlInit = R at *
  have hL : (maxL2 S.vec_L2 < S.L2) ↔ (maxL2 acc.report.L2s < R.2.1.L2) := by
    rw [g7, f7, r7, a6]
  have hv6 : S.vec_term_reason ++ [S.term_reason] = (acc.report.reasons ++ [R.2.2]).map Reason.code := by
    rw [g6, f6, r6, w2, List.map_append]; rfl
  by_cases hadopt : maxL2 acc.report.L2s < R.2.1.L2
  · have hc := hL.2 hadopt
    simp only [if_pos hc, hadopt, decide_true, if_true]
    by_cases hdir : directed = true
    · have hnd : nv.directed = true := by rw [hd, hdir]
      simp only [if_pos hdir, if_pos hnd]
      exact ⟨a1, a2 hdir, a3, by rw [g4, hpos], by rw [g5, f5, r5, a4], hv6, by rw [g7, f7, r7, a6]⟩
    · have hnd : ¬ nv.directed = true := by rw [hd]; exact hdir
      simp only [if_neg hdir, if_neg hnd]
      exact ⟨a1, by rw [g2, fv, r2], a3, by rw [g4, hpos], by rw [g5, f5, r5, a4], hv6, by rw [g7, f7, r7, a6]⟩
  · have hc : ¬ maxL2 S.vec_L2 < S.L2 := fun h => hadopt (hL.1 h)
    simp only [if_neg hc, hadopt, decide_false, Bool.false_eq_true, if_false]
    exact ⟨by rw [g1, fu, r1], by rw [g2, fv, r2], by rw [g3, fw, r3], by rw [g4, hpos],
      by rw [g5, f5, r5, a4], hv6, by rw [g7, f7, r7, a6]⟩

/-- **`Solver::run` = `runAll`**: after `r` realizations the caller's containers hold the model's best
factors, the generator has advanced as in the model, and the three report vectors are the model's report —
for every variant, initialiser kind, limit and (scriptable) likelihood evaluation -/
theorem runCode_refines (hd : nv.directed = directed)
    (hE : directed = false → ∀ i it (s : State α) (v' : Tens α), evalL i it { s with v := v' } = evalL i it s)
    (r : Nat) (prior : State α) (s0 : RunLoc α)
    (h0 : s0.u = prior.u ∧ s0.v = prior.v ∧ s0.w = prior.w ∧ s0.pos = 0 ∧ s0.vec_iter = [] ∧
      s0.vec_term_reason = [] ∧ s0.vec_L2 = []) :
    RRel (runCode directed assort ik K N nv maxIt nConv evalL userW d r s0)
      (runAll assort ik K N nv r maxIt nConv evalL userW d prior) := by
  unfold runCode runAll forRange
  obtain ⟨b1, b2, b3, b4, b5, b6, b7⟩ := h0
  have hinit : RRel s0 { best := prior, report := ⟨[], [], []⟩, pos := 0, adopted := [] } :=
    ⟨b1, b2, b3, b4, b5, by rw [b6]; rfl, b7⟩
  clear b1 b2 b3 b4 b5 b6 b7
  generalize ({ best := prior, report := ⟨[], [], []⟩, pos := 0, adopted := [] } : RunAcc α) = acc0 at hinit
  generalize List.range r = l
  induction l generalizing s0 acc0 with
  | nil => exact hinit
  | cons i is ih =>
    simp only [List.foldl_cons]
    exact ih _ _ (run_real_step directed assort ik K N nv maxIt nConv evalL userW d hd hE i s0 acc0 hinit)

end
end MT.CodeRefine
