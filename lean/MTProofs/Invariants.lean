/-
Solver invariants over ℝ (helper for C03, C01, C09): shapes, non-negativity, zero rows.
-/
import MTProofs.AscentTie
import MTProofs.Init
import MTProps.C02

namespace MTProofs
open MT Finset MTProps.C02

/-- every stored value of a tensor is ≥ 0 (so every read, in range or not, is ≥ 0) -/
def Tens.AllNonneg (t : Tens ℝ) : Prop := ∀ i j a, 0 ≤ t.get i j a

theorem ofFn_allNonneg (R C T : Nat) (f : Nat → Nat → Nat → ℝ)
    (h : ∀ i j a, i < R → j < C → a < T → 0 ≤ f i j a) : Tens.AllNonneg (Tens.ofFn R C T f) := by
  intro i j a
  unfold Tens.get Tens.ofFn
  simp only
  rw [Array.getD_eq_getD_getElem?, Array.getElem?_ofFn]
  split
  · rename_i hlt
    simp only [Option.getD_some]
    have hR : 0 < R := by
      rcases Nat.eq_zero_or_pos R with h0 | h0
      · subst h0; simp at hlt
      · exact h0
    have hC : 0 < C := by
      rcases Nat.eq_zero_or_pos C with h0 | h0
      · subst h0; simp at hlt
      · exact h0
    apply h
    · exact Nat.mod_lt _ hR
    · exact Nat.mod_lt _ hC
    · exact Nat.div_lt_of_lt_mul (by simpa [Nat.mul_comm, Nat.mul_assoc, Nat.mul_left_comm] using hlt)
  · simp

theorem zeros_allNonneg (R C T : Nat) : Tens.AllNonneg (Tens.zeros R C T : Tens ℝ) := by
  intro i j a
  unfold Tens.get Tens.zeros
  simp only
  rw [Array.getD_eq_getD_getElem?, Array.getElem?_replicate]
  split <;> simp

theorem wView_nonneg (assort t : Bool) (W : Tens ℝ) (h : Tens.AllNonneg W) (k l a : Nat) :
    0 ≤ wView assort t W k l a := by
  unfold wView; split
  · exact h _ _ _
  · split <;> exact h _ _ _

section sweep
variable (assort : Bool) (K : Nat) (nv : NetView) (s : State ℝ)

/-- the in-membership matrix in use -/
noncomputable abbrev fixedOf (nv : NetView) (s : State ℝ) : Tens ℝ := if nv.directed then s.v else s.u

/-- well-formed working state: shapes, non-negative entries, zero rows outside the vertex lists -/
structure WFState : Prop where
  uC : s.u.C = K
  uT : s.u.T = 1
  vShape : nv.directed = true → s.v.R = s.u.R ∧ s.v.C = K ∧ s.v.T = 1
  wR : s.w.R = K
  wC : s.w.C = if assort then 1 else K
  wT : s.w.T = nv.nL
  uSized : s.u.Sized
  vSized : nv.directed = true → s.v.Sized
  uNonneg : Tens.AllNonneg s.u
  vNonneg : Tens.AllNonneg s.v
  wNonneg : Tens.AllNonneg s.w
  uZero : ∀ i k, i < s.u.R → k < K → i ∉ nv.uList → s.u.get i k 0 = 0
  vZero : nv.directed = true → ∀ j q, j < s.u.R → q < K → j ∉ nv.vList → s.v.get j q 0 = 0

theorem fixed_nonneg (h : WFState assort K nv s) : Tens.AllNonneg (fixedOf nv s) := by
  unfold fixedOf; split
  · exact h.vNonneg
  · exact h.uNonneg

/-- the u-step keeps the invariant -/
theorem stepU_wf (hwf : ViewWF nv s.u.R) (h : WFState assort K nv s) : WFState assort K nv (stepU assort K nv s) := by
  have hnn : Tens.AllNonneg (stepU assort K nv s).u := by
    unfold stepU updateVertices
    simp only
    apply ofFn_allNonneg
    intro i k _ hi hk _
    rw [updVEntry_eq_spec assort K nv.nL s.u.R _ _ _ _ _ _ hwf.1]
    exact specVEntry_nonneg assort K nv.nL s.u.R _ _ _ _ _ _ (fun i k => h.uNonneg i k 0)
      (fun j q => fixed_nonneg assort K nv s h j q 0) (fun k q a => wView_nonneg assort false s.w h.wNonneg k q a) i k
  refine ⟨rfl, rfl, h.vShape, h.wR, h.wC, h.wT, ofFn_sized _ _ _ _, h.vSized, hnn, h.vNonneg, h.wNonneg, ?_, h.vZero⟩
  intro i k hi hk hni
  have hi' : i < s.u.R := hi
  rw [stepU_entry assort K nv s hwf hi' hk, other_rows_untouched assort K nv.nL s.u.R _ _ _ _ _ _ i k hni]
  exact h.uZero i k hi' hk hni

/-- the v-step keeps the invariant -/
theorem stepV_wf (hwf : ViewWF nv s.u.R) (h : WFState assort K nv s) : WFState assort K nv (stepV assort K nv s) := by
  by_cases hd : nv.directed = true
  · obtain ⟨hvR, hvC, hvT⟩ := h.vShape hd
    have hwf' : ViewWF nv s.v.R := by rw [hvR]; exact hwf
    have hnn : Tens.AllNonneg (stepV assort K nv s).v := by
      unfold stepV updateVertices
      simp only [hd, ↓reduceIte]
      apply ofFn_allNonneg
      intro j k _ hj hk _
      rw [updVEntry_eq_spec assort K nv.nL s.v.R _ _ _ _ _ _ hwf'.2]
      exact specVEntry_nonneg assort K nv.nL s.v.R _ _ _ _ _ _ (fun i k => h.vNonneg i k 0)
        (fun j q => h.uNonneg j q 0) (fun k q a => wView_nonneg assort true s.w h.wNonneg k q a) j k
    have hu : (stepV assort K nv s).u = s.u := by unfold stepV; simp [hd]
    have hw : (stepV assort K nv s).w = s.w := by unfold stepV; simp [hd]
    have hvR' : (stepV assort K nv s).v.R = s.v.R := by unfold stepV updateVertices; simp [hd]
    have hvC' : (stepV assort K nv s).v.C = K := by unfold stepV updateVertices; simp [hd]
    have hvT' : (stepV assort K nv s).v.T = 1 := by unfold stepV updateVertices; simp [hd]
    have hvS : (stepV assort K nv s).v.Sized := by
      unfold stepV updateVertices; simp only [hd, ↓reduceIte]; exact ofFn_sized _ _ _ _
    refine ⟨by rw [hu]; exact h.uC, by rw [hu]; exact h.uT, fun _ => ⟨by rw [hvR', hu]; exact hvR, hvC', hvT'⟩,
      by rw [hw]; exact h.wR, by rw [hw]; exact h.wC, by rw [hw]; exact h.wT,
      by rw [hu]; exact h.uSized, fun _ => hvS,
      by rw [hu]; exact h.uNonneg, hnn, by rw [hw]; exact h.wNonneg, by rw [hu]; exact h.uZero, ?_⟩
    intro _ j q hj hq hnj
    rw [hu] at hj
    rw [stepV_entry assort K nv s hd hwf' (by rw [hvR]; exact hj) hq,
      other_rows_untouched assort K nv.nL s.v.R _ _ _ _ _ _ j q hnj]
    exact h.vZero hd j q hj hq hnj
  · have hd' : nv.directed = false := by simpa using hd
    rw [stepV_undirected assort K nv s hd']; exact h

/-- the w-step keeps the invariant -/
theorem stepW_wf (hwf : ViewWF nv s.u.R) (h : WFState assort K nv s) : WFState assort K nv (stepW assort K nv s) := by
  have hnn : Tens.AllNonneg (stepW assort K nv s).w := by
    unfold stepW updateAffinity
    simp only
    split
    · apply ofFn_allNonneg
      intro k _ a _ _ _
      rw [updWEntry_eq_spec assort K s.u.R _ _ _ _ _ _ hwf.1]
      exact specWEntry_nonneg assort K s.u.R _ _ _ _ _ _ (fun i k => h.uNonneg i k 0)
        (fun j q => fixed_nonneg assort K nv s h j q 0) (fun k q a => wView_nonneg assort false s.w h.wNonneg k q a) k k a
    · apply ofFn_allNonneg
      intro k q a _ _ _
      rw [updWEntry_eq_spec assort K s.u.R _ _ _ _ _ _ hwf.1]
      exact specWEntry_nonneg assort K s.u.R _ _ _ _ _ _ (fun i k => h.uNonneg i k 0)
        (fun j q => fixed_nonneg assort K nv s h j q 0) (fun k q a => wView_nonneg assort false s.w h.wNonneg k q a) k q a
  refine ⟨h.uC, h.uT, h.vShape, ?_, ?_, ?_, h.uSized, h.vSized, h.uNonneg, h.vNonneg, hnn, h.uZero, h.vZero⟩
  · unfold stepW updateAffinity; simp only; split <;> rfl
  · unfold stepW updateAffinity; simp only; split <;> simp_all
  · unfold stepW updateAffinity; simp only; split <;> rfl

theorem stepU_R : (stepU assort K nv s).u.R = s.u.R := rfl
theorem stepV_R : (stepV assort K nv s).u.R = s.u.R := by unfold stepV; split <;> rfl
theorem stepW_R : (stepW assort K nv s).u.R = s.u.R := rfl

theorem sweep_R : (sweep assort K nv s).u.R = s.u.R := by
  unfold sweep; rw [stepW_R, stepV_R, stepU_R]

/-- **one sweep keeps the invariant** -/
theorem sweep_wf (hwf : ViewWF nv s.u.R) (h : WFState assort K nv s) : WFState assort K nv (sweep assort K nv s) := by
  unfold sweep
  have h1 := stepU_wf assort K nv s hwf h
  have h2 := stepV_wf assort K nv _ (by rw [stepU_R]; exact hwf) h1
  exact stepW_wf assort K nv _ (by rw [stepV_R, stepU_R]; exact hwf) h2

/-- … hence any number of sweeps -/
theorem iterate_wf (n : Nat) (hwf : ViewWF nv s.u.R) (h : WFState assort K nv s) :
    WFState assort K nv ((sweep assort K nv)^[n] s) ∧ ((sweep assort K nv)^[n] s).u.R = s.u.R := by
  induction n generalizing s with
  | zero => exact ⟨h, rfl⟩
  | succ n ih =>
    rw [Function.iterate_succ_apply]
    have h1 := sweep_wf assort K nv s hwf h
    have hR := sweep_R assort K nv s
    obtain ⟨h2, h3⟩ := ih _ (by rw [hR]; exact hwf) h1
    exact ⟨h2, by rw [h3, hR]⟩

end sweep

end MTProofs
