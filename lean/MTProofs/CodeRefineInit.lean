/-
The three initialisers of initialization.hpp (loop nests translated from the source on every run,
MT/Generated/InitCode.lean) compute the model's closed forms `initRows`, `initAffFromInitial`,
`initAffRandom` and consume the number of draws the model says.  Any scalar type; core Lean only.
-/
import MT.Init
import MT.Generated.InitCode
import MTProofs.CodeRefineUW

set_option linter.unusedSectionVars false
set_option linter.unusedVariables false

namespace MT.CodeRefine
open MT MT.Imp MT.Gen

section
variable {α : Type} [Add α] [Sub α] [Mul α] [Div α] [LT α] [DecidableLT α] [MTExtra α]

/-- number of draws made before iteration `n` when iteration `t` makes `wd t` -/
def offs (wd : Nat → Nat) : Nat → Nat
  | 0 => 0
  | n + 1 => offs wd n + wd n

theorem offs_const (c n : Nat) : offs (fun _ => c) n = n * c := by
  induction n with
  | zero => simp [offs]
  | succ n ih => simp [offs, ih, Nat.succ_mul]

/-- a counted loop whose iteration `t`, entered at stream position `p`, rewrites exactly the entries selected
by `t` (each from its own old value and `p`) and consumes `wd t` draws -/
theorem foldl_sel_pos {X : Type} (n : Nat) (sel : X → Nat) (P : X → Prop) [DecidablePred P] (wd : Nat → Nat)
    (V : Nat → Nat → X → α → α) (T0 : X → α) (p0 : Nat) :
    (List.range n).foldl (fun (s : (X → α) × Nat) t =>
        ((fun x => if sel x = t ∧ P x then V t s.2 x (s.1 x) else s.1 x), s.2 + wd t)) (T0, p0)
      = ((fun x => if sel x < n ∧ P x then V (sel x) (p0 + offs wd (sel x)) x (T0 x) else T0 x),
         p0 + offs wd n) := by
  induction n with
  | zero => simp [offs]
  | succ n ih =>
    rw [List.range_succ, List.foldl_append, ih]
    simp only [List.foldl_cons, List.foldl_nil, offs, Nat.add_assoc]
    congr 1
    funext x
    by_cases hs : sel x = n
    · by_cases hp : P x
      · simp [hs, hp]
      · simp [hp]
    · by_cases hlt : sel x < n
      · have : sel x < n + 1 := by omega
        simp [hs, hlt, this]
      · have : ¬ sel x < n + 1 := by omega
        simp [hs, hlt, this]

theorem idxOf_cons_ne' (a b : Nat) (l : List Nat) (h : b ≠ a) : (b :: l).idxOf a = l.idxOf a + 1 := by
  rw [List.idxOf_cons]
  have : (b == a) = false := by simpa using h
  simp [this]

theorem idxOf_cons_self' (a : Nat) (l : List Nat) : (a :: l).idxOf a = 0 := by
  rw [List.idxOf_cons]; simp

/-- a loop over a list without repetitions: entry `x` is written by the iteration whose element is `key x` -/
theorem foldl_list_pos {X : Type} (l : List Nat) (hl : l.Nodup) (key : X → Nat) (P : X → Prop) [DecidablePred P]
    (V : Nat → X → α) (T0 : X → α) (p0 : Nat) :
    l.foldl (fun (s : (X → α) × Nat) j =>
        ((fun x => if key x = j ∧ P x then V s.2 x else s.1 x), s.2 + 1)) (T0, p0)
      = ((fun x => if key x ∈ l ∧ P x then V (p0 + l.idxOf (key x)) x else T0 x), p0 + l.length) := by
  induction l generalizing T0 p0 with
  | nil => simp
  | cons j l ih =>
    have hn := List.nodup_cons.1 hl
    simp only [List.foldl_cons]
    rw [ih hn.2]
    simp only [List.length_cons]
    refine Prod.ext ?_ (by simp only []; omega)
    funext x
    simp only []
    by_cases hk : key x = j
    · have hnot : key x ∉ l := by rw [hk]; exact hn.1
      by_cases hp : P x
      · simp [hk, hp, hn.1]
      · simp [hp]
    · have hne : ¬ j = key x := fun h => hk h.symm
      by_cases hm : key x ∈ l
      · by_cases hp : P x
        · simp [hk, hm, hp, idxOf_cons_ne' _ _ l hne, Nat.add_assoc, Nat.add_comm 1]
        · simp [hp]
      · simp [hk, hm]

/-! ### init_tensor_rows_random -/

theorem rows_inner (ncols : Nat) (elems : List Nat) (hl : elems.Nodup) (d : Nat → α) (k : Nat) (s : RowsLoc α) :
    let s' := elems.foldl (fun s j => initRowsCode_1_1 ncols elems d k j s) s
    (un2 s'.mat, s'.pos) =
      ((fun x => if x.1 ∈ elems ∧ x.2 = k then d (s.pos + elems.idxOf x.1) else un2 s.mat x), s.pos + elems.length) := by
  have h := foldl_proj (fun s : RowsLoc α => (un2 s.mat, s.pos)) (fun s j => initRowsCode_1_1 ncols elems d k j s)
    (fun (p : (Nat × Nat → α) × Nat) j => ((fun x => if x.1 = j ∧ x.2 = k then d p.2 else p.1 x), p.2 + 1))
    (fun s j => by
      unfold initRowsCode_1_1
      simp only []
      congr 1) elems s
  simp only [] at h ⊢
  rw [h]
  exact foldl_list_pos elems hl (fun x : Nat × Nat => x.1) (fun x => x.2 = k) (fun p x => d p) (un2 s.mat) s.pos

/-- **`init_tensor_rows_random` as written**: column by column, each listed row receives the next draw -/
theorem initRowsCode_refines (ncols : Nat) (elems : List Nat) (hl : elems.Nodup) (d : Nat → α) (s0 : RowsLoc α) :
    let s := initRowsCode ncols elems d s0
    (∀ j k, s.mat j k = if k < ncols ∧ j ∈ elems then d (s0.pos + k * elems.length + elems.idxOf j) else s0.mat j k) ∧
    s.pos = s0.pos + ncols * elems.length := by
  unfold initRowsCode
  simp only [forRange]
  have h := foldl_proj (fun s : RowsLoc α => (un2 s.mat, s.pos)) (fun s k => initRowsCode_1 ncols elems d k s)
    (fun (p : (Nat × Nat → α) × Nat) k =>
      ((fun x => if x.2 = k ∧ x.1 ∈ elems then (fun k p x (_ : α) => d (p + elems.idxOf x.1)) k p.2 x (p.1 x) else p.1 x),
       p.2 + (fun _ => elems.length) k))
    (fun s k => by
      unfold initRowsCode_1
      simp only [forList]
      have hi := rows_inner ncols elems hl d k s
      simp only [] at hi
      rw [hi]
      congr 1
      funext x
      by_cases h1 : x.1 ∈ elems <;> by_cases h2 : x.2 = k <;> simp [h1, h2]) (List.range ncols) s0
  rw [foldl_sel_pos ncols (fun x : Nat × Nat => x.2) (fun x => x.1 ∈ elems) (fun _ => elems.length)
    (fun k p x (_ : α) => d (p + elems.idxOf x.1)) (un2 s0.mat) s0.pos] at h
  have h1 := congrArg Prod.fst h
  have h2 := congrArg Prod.snd h
  simp only [offs_const] at h1 h2
  refine ⟨fun j k => ?_, h2⟩
  have := congrFun h1 (j, k)
  simpa [un2] using this

/-- the shape every counted loop of the initialisers has, seen through a projection `(table, position)` -/
theorem level {S X : Type} (proj : S → (X → α) × Nat) (body : Nat → S → S) (n : Nat)
    (sel : X → Nat) (P : X → Prop) [DecidablePred P] (wd : Nat → Nat) (V : Nat → Nat → X → α → α)
    (hbody : ∀ t s, proj (body t s) =
      ((fun x => if sel x = t ∧ P x then V t (proj s).2 x ((proj s).1 x) else (proj s).1 x), (proj s).2 + wd t))
    (s : S) :
    proj ((List.range n).foldl (fun s t => body t s) s) =
      ((fun x => if sel x < n ∧ P x then V (sel x) ((proj s).2 + offs wd (sel x)) x ((proj s).1 x) else (proj s).1 x),
       (proj s).2 + offs wd n) := by
  have h := foldl_proj proj (fun s t => body t s)
    (fun (p : (X → α) × Nat) t => ((fun x => if sel x = t ∧ P x then V t p.2 x (p.1 x) else p.1 x), p.2 + wd t))
    (fun s t => hbody t s) (List.range n) s
  rw [h]
  exact foldl_sel_pos n sel P wd V (proj s).1 (proj s).2

/-! ### init_symmetric_tensor_from_initial -/

section fromInitial
variable (K L : Nat) (d : Nat → α)

def pj3 (s : InitLoc α) : (Nat × Nat × Nat → α) × Nat := (un3 s.T3, s.pos)
def pj2 (s : InitLoc α) : (Nat × Nat → α) × Nat := (un2 s.T2, s.pos)

/-- innermost loop (general): `for q: T(k,q,alpha) += EPS_NOISE * draw` -/
theorem fi_q (a k : Nat) (s : InitLoc α) :
    pj3 ((List.range K).foldl (fun s q => initFromInitialCode_1_1_1 false K L d a k q s) s) =
      ((fun x => if x.2.1 < K ∧ (x.1 = k ∧ x.2.2 = a) then un3 s.T3 x + MTExtra.noise * d (s.pos + x.2.1) else un3 s.T3 x),
       s.pos + K) := by
  have h := level pj3 (fun q s => initFromInitialCode_1_1_1 false K L d a k q s) K
    (fun x : Nat × Nat × Nat => x.2.1) (fun x => x.1 = k ∧ x.2.2 = a) (fun _ => 1)
    (fun _ p _ old => old + MTExtra.noise * d p)
    (fun q s => by
      unfold initFromInitialCode_1_1_1 pj3
      simp only []
      congr 1
      funext x
      simp only [un3_setAt3]
      by_cases h1 : x.1 = k <;> by_cases h2 : x.2.1 = q <;> by_cases h3 : x.2.2 = a <;> simp [h1, h2, h3, un3]) s
  simp only [offs_const, Nat.mul_one] at h
  exact h

/-- the loop over `k` (general) -/
theorem fi_k (a : Nat) (s : InitLoc α) :
    pj3 ((List.range K).foldl (fun s k => initFromInitialCode_1_1 false K L d a k s) s) =
      ((fun x => if x.1 < K ∧ (x.2.2 = a ∧ x.2.1 < K) then
          un3 s.T3 x + MTExtra.noise * d (s.pos + x.1 * K + x.2.1) else un3 s.T3 x),
       s.pos + K * K) := by
  have h := level pj3 (fun k s => initFromInitialCode_1_1 false K L d a k s) K
    (fun x : Nat × Nat × Nat => x.1) (fun x => x.2.2 = a ∧ x.2.1 < K) (fun _ => K)
    (fun _ p x old => old + MTExtra.noise * d (p + x.2.1))
    (fun k s => by
      unfold initFromInitialCode_1_1
      simp only [Bool.false_eq_true, if_false, forRange]
      rw [fi_q]
      unfold pj3
      simp only []
      congr 1
      funext x
      by_cases h1 : x.1 = k <;> by_cases h2 : x.2.1 < K <;> by_cases h3 : x.2.2 = a <;> simp [h1, h2, h3]) s
  simp only [offs_const] at h
  simpa [pj3, Nat.add_assoc] using h

/-- the loop over the layers (general) -/
theorem fi_a (s : InitLoc α) :
    pj3 (initFromInitialCode false K L d s) =
      ((fun x => if x.2.2 < L ∧ (x.1 < K ∧ x.2.1 < K) then
          un3 s.T3 x + MTExtra.noise * d (s.pos + x.2.2 * (K * K) + x.1 * K + x.2.1) else un3 s.T3 x),
       s.pos + L * (K * K)) := by
  unfold initFromInitialCode
  simp only [forRange]
  have h := level pj3 (fun a s => initFromInitialCode_1 false K L d a s) L
    (fun x : Nat × Nat × Nat => x.2.2) (fun x => x.1 < K ∧ x.2.1 < K) (fun _ => K * K)
    (fun _ p x old => old + MTExtra.noise * d (p + x.1 * K + x.2.1))
    (fun a s => by
      unfold initFromInitialCode_1
      simp only [forRange]
      rw [fi_k]
      unfold pj3
      simp only []
      congr 1
      funext x
      by_cases h1 : x.1 < K <;> by_cases h2 : x.2.1 < K <;> by_cases h3 : x.2.2 = a <;> simp [h1, h2, h3]) s
  simp only [offs_const] at h
  simpa [pj3, Nat.add_assoc] using h

/-- **`init_symmetric_tensor_from_initial` (general), as written**: every entry receives its own draw, in the
order layer / row / column, scaled by `EPS_NOISE`; `K*K*L` draws are consumed -/
theorem initFromInitialCode_refines_general (s0 : InitLoc α) :
    let s := initFromInitialCode false K L d s0
    (∀ k q a, s.T3 k q a = if k < K ∧ q < K ∧ a < L then
        s0.T3 k q a + MTExtra.noise * d (s0.pos + (a * K * K + k * K + q)) else s0.T3 k q a) ∧
    s.pos = s0.pos + L * K * K := by
  have h := fi_a K L d s0
  unfold pj3 at h
  have h1 := congrArg Prod.fst h
  have h2 := congrArg Prod.snd h
  simp only [] at h1 h2
  refine ⟨fun k q a => ?_, by rw [h2, Nat.mul_assoc]⟩
  have := congrFun h1 (k, q, a)
  simp only [un3] at this
  rw [this]
  by_cases hk : k < K <;> by_cases hq : q < K <;> by_cases ha : a < L <;> simp [hk, hq, ha, Nat.mul_assoc, Nat.add_assoc]

/-- the loop over `k` (assortative): `T(k,alpha) += EPS_NOISE * draw` -/
theorem fia_k (a : Nat) (s : InitLoc α) :
    pj2 ((List.range K).foldl (fun s k => initFromInitialCode_1_1 true K L d a k s) s) =
      ((fun x => if x.1 < K ∧ x.2 = a then un2 s.T2 x + MTExtra.noise * d (s.pos + x.1) else un2 s.T2 x),
       s.pos + K) := by
  have h := level pj2 (fun k s => initFromInitialCode_1_1 true K L d a k s) K
    (fun x : Nat × Nat => x.1) (fun x => x.2 = a) (fun _ => 1)
    (fun _ p _ old => old + MTExtra.noise * d p)
    (fun k s => by
      unfold initFromInitialCode_1_1 pj2
      simp only [if_true]
      congr 1
      funext x
      simp only [un2_setAt2]
      by_cases h1 : x.1 = k <;> by_cases h3 : x.2 = a <;> simp [h1, h3, un2]) s
  simp only [offs_const, Nat.mul_one] at h
  exact h

/-- **`init_symmetric_tensor_from_initial` (assortative), as written** -/
theorem initFromInitialCode_refines_assortative (s0 : InitLoc α) :
    let s := initFromInitialCode true K L d s0
    (∀ k a, s.T2 k a = if k < K ∧ a < L then
        s0.T2 k a + MTExtra.noise * d (s0.pos + (a * K + k)) else s0.T2 k a) ∧
    s.pos = s0.pos + L * K := by
  unfold initFromInitialCode
  simp only [forRange]
  have h := level pj2 (fun a s => initFromInitialCode_1 true K L d a s) L
    (fun x : Nat × Nat => x.2) (fun x => x.1 < K) (fun _ => K)
    (fun _ p x old => old + MTExtra.noise * d (p + x.1))
    (fun a s => by
      unfold initFromInitialCode_1
      simp only [forRange]
      rw [fia_k]
      unfold pj2
      simp only []
      congr 1
      funext x
      by_cases h1 : x.1 < K <;> by_cases h3 : x.2 = a <;> simp [h1, h3]) s0
  simp only [offs_const] at h
  unfold pj2 at h
  have h1 := congrArg Prod.fst h
  have h2 := congrArg Prod.snd h
  simp only [] at h1 h2
  refine ⟨fun k a => ?_, h2⟩
  have := congrFun h1 (k, a)
  simp only [un2] at this
  rw [this]
  by_cases hk : k < K <;> by_cases ha : a < L <;> simp [hk, ha, Nat.add_assoc]

end fromInitial

/-! ### init_symmetric_tensor_random -/

section random
variable (K L : Nat) (d : Nat → α)

theorem offs_rowStart (K i : Nat) : offs (fun t => K - t) i = rowStart K i := by
  induction i with
  | zero => rfl
  | succ i ih => simp [offs, rowStart, ih]

/-- **`init_symmetric_tensor_random` (assortative), as written**: one draw per entry, layer by layer -/
theorem initRandomCode_refines_assortative (ncols : Nat) (s0 : InitLoc α) :
    let s := initRandomCode true K ncols L d s0
    (∀ i a, s.T2 i a = if i < K ∧ a < L then d (s0.pos + (a * K + i)) else s0.T2 i a) ∧
    s.pos = s0.pos + L * K := by
  unfold initRandomCode
  simp only [forRange]
  have hi : ∀ a (s : InitLoc α), pj2 ((List.range K).foldl (fun s i => initRandomCode_1_1 true K ncols L d a i s) s) =
      ((fun x => if x.1 < K ∧ x.2 = a then d (s.pos + x.1) else un2 s.T2 x), s.pos + K) := by
    intro a s
    have h := level pj2 (fun i s => initRandomCode_1_1 true K ncols L d a i s) K
      (fun x : Nat × Nat => x.1) (fun x => x.2 = a) (fun _ => 1) (fun _ p _ _ => d p)
      (fun i s => by
        unfold initRandomCode_1_1 pj2
        simp only [if_true]
        congr 1) s
    simp only [offs_const, Nat.mul_one] at h
    exact h
  have h := level pj2 (fun a s => initRandomCode_1 true K ncols L d a s) L
    (fun x : Nat × Nat => x.2) (fun x => x.1 < K) (fun _ => K) (fun _ p x _ => d (p + x.1))
    (fun a s => by
      unfold initRandomCode_1
      simp only [forRange]
      rw [hi]
      unfold pj2
      simp only []
      congr 1
      funext x
      by_cases h1 : x.1 < K <;> by_cases h3 : x.2 = a <;> simp [h1, h3]) s0
  simp only [offs_const] at h
  unfold pj2 at h
  have h1 := congrArg Prod.fst h
  have h2 := congrArg Prod.snd h
  simp only [] at h1 h2
  refine ⟨fun i a => ?_, h2⟩
  have := congrFun h1 (i, a)
  simp only [un2] at this
  rw [this]
  by_cases hk : i < K <;> by_cases ha : a < L <;> simp [hk, ha, Nat.add_assoc]

/-- one pass of the innermost loop (general): entries `(i,j,a)` and `(j,i,a)` receive the draw -/
theorem rnd_j_body (a i j : Nat) (s : InitLoc α) :
    pj3 (initRandomCode_1_1_1 false K K L d a i j s) =
      ((fun x => if x.2.2 = a ∧ ((x.1 = i ∧ x.2.1 = j) ∨ (x.1 = j ∧ x.2.1 = i)) then d s.pos else un3 s.T3 x),
       s.pos + 1) := by
  unfold initRandomCode_1_1_1 pj3
  by_cases hij : i = j
  · subst hij
    simp only [if_true]
    congr 1
    funext x
    simp only [un3_setAt3]
    by_cases h1 : x.1 = i <;> by_cases h2 : x.2.1 = i <;> by_cases h3 : x.2.2 = a <;> simp [h1, h2, h3]
  · simp only [hij, if_false]
    congr 1
    funext x
    simp only [un3_setAt3, setAt3_self]
    by_cases h3 : x.2.2 = a
    · by_cases h1 : x.1 = i <;> by_cases h2 : x.2.1 = j <;> by_cases h1' : x.1 = j <;> by_cases h2' : x.2.1 = i <;>
        simp [h1, h2, h1', h2', h3] <;> omega
    · simp [h3]

theorem tri_cond (i t x1 x2 : Nat) :
    ((x1 = i ∧ x2 = i + t) ∨ (x1 = i + t ∧ x2 = i)) ↔ (max x1 x2 - i = t ∧ min x1 x2 = i) := by
  simp only [Nat.max_def, Nat.min_def]
  split <;> omega

/-- innermost loop (general): `for j ≥ i: T(i,j) = T(j,i) = draw` — both mirror entries receive the draw -/
theorem rnd_j (a i : Nat) (s : InitLoc α) :
    pj3 (forFrom i K (initRandomCode_1_1_1 false K K L d a i) s) =
      ((fun x => if (max x.1 x.2.1 - i) < K - i ∧ (x.2.2 = a ∧ min x.1 x.2.1 = i) then
          d (s.pos + (max x.1 x.2.1 - i)) else un3 s.T3 x),
       s.pos + (K - i)) := by
  unfold forFrom
  rw [List.foldl_map]
  have h := level pj3 (fun t s => initRandomCode_1_1_1 false K K L d a i (i + t) s) (K - i)
    (fun x : Nat × Nat × Nat => max x.1 x.2.1 - i) (fun x => x.2.2 = a ∧ min x.1 x.2.1 = i) (fun _ => 1)
    (fun _ p _ _ => d p)
    (fun t s => by
      rw [rnd_j_body]
      unfold pj3
      simp only []
      congr 1
      funext x
      have hc := tri_cond i t x.1 x.2.1
      by_cases h3 : x.2.2 = a
      · by_cases hl : (x.1 = i ∧ x.2.1 = i + t) ∨ (x.1 = i + t ∧ x.2.1 = i)
        · have hr := hc.1 hl
          simp [h3, hl, hr.1, hr.2]
        · have hr : ¬ (max x.1 x.2.1 - i = t ∧ min x.1 x.2.1 = i) := fun h => hl (hc.2 h)
          simp only [h3, true_and, hl, if_false]
          by_cases h5 : max x.1 x.2.1 - i = t
          · have h6 : ¬ min x.1 x.2.1 = i := fun h => hr ⟨h5, h⟩
            simp [h5, h6]
          · simp [h5]
      · simp [h3]) s
  simp only [offs_const, Nat.mul_one] at h
  exact h

theorem tri_bound (i K x1 x2 : Nat) (h : min x1 x2 = i) : (max x1 x2 - i < K - i) ↔ max x1 x2 < K := by
  simp only [Nat.max_def, Nat.min_def] at *
  split at h <;> split <;> omega

/-- the loop over the rows (general): row `i` makes `K - i` draws -/
theorem rnd_i (a : Nat) (s : InitLoc α) :
    pj3 ((List.range K).foldl (fun s i => initRandomCode_1_1 false K K L d a i s) s) =
      ((fun x => if min x.1 x.2.1 < K ∧ (x.2.2 = a ∧ max x.1 x.2.1 < K) then
          d (s.pos + rowStart K (min x.1 x.2.1) + (max x.1 x.2.1 - min x.1 x.2.1)) else un3 s.T3 x),
       s.pos + rowStart K K) := by
  have h := level pj3 (fun i s => initRandomCode_1_1 false K K L d a i s) K
    (fun x : Nat × Nat × Nat => min x.1 x.2.1) (fun x => x.2.2 = a ∧ max x.1 x.2.1 < K) (fun t => K - t)
    (fun _ p x _ => d (p + (max x.1 x.2.1 - min x.1 x.2.1)))
    (fun i s => by
      unfold initRandomCode_1_1
      simp only [Bool.false_eq_true, if_false]
      rw [rnd_j]
      unfold pj3
      simp only []
      congr 1
      funext x
      by_cases hm : min x.1 x.2.1 = i
      · have hb := tri_bound i K x.1 x.2.1 hm
        by_cases h3 : x.2.2 = a
        · by_cases hM : max x.1 x.2.1 < K
          · simp [hm, h3, hM, hb.2 hM]
          · have : ¬ max x.1 x.2.1 - i < K - i := fun h => hM (hb.1 h)
            simp [h3, hM, this]
        · simp [h3]
      · simp [hm]) s
  simp only [offs_rowStart] at h
  exact h

/-- **`init_symmetric_tensor_random` (general), as written**: the upper triangle of every layer is drawn row by
row and mirrored — entries `(i,j)` and `(j,i)` share the draw at `triPos`; `L * K(K+1)/2` draws are consumed -/
theorem initRandomCode_refines_general (s0 : InitLoc α) :
    let s := initRandomCode false K K L d s0
    (∀ i j a, s.T3 i j a = if i < K ∧ j < K ∧ a < L then
        d (s0.pos + (a * rowStart K K + triPos K i j)) else s0.T3 i j a) ∧
    s.pos = s0.pos + L * rowStart K K := by
  unfold initRandomCode
  simp only [forRange]
  have h := level pj3 (fun a s => initRandomCode_1 false K K L d a s) L
    (fun x : Nat × Nat × Nat => x.2.2) (fun x => min x.1 x.2.1 < K ∧ max x.1 x.2.1 < K) (fun _ => rowStart K K)
    (fun _ p x _ => d (p + rowStart K (min x.1 x.2.1) + (max x.1 x.2.1 - min x.1 x.2.1)))
    (fun a s => by
      unfold initRandomCode_1
      simp only [forRange]
      rw [rnd_i]
      unfold pj3
      simp only []
      congr 1
      funext x
      by_cases h1 : min x.1 x.2.1 < K <;> by_cases h2 : max x.1 x.2.1 < K <;> by_cases h3 : x.2.2 = a <;>
        simp [h1, h2, h3]) s0
  simp only [offs_const] at h
  unfold pj3 at h
  have h1 := congrArg Prod.fst h
  have h2 := congrArg Prod.snd h
  simp only [] at h1 h2
  refine ⟨fun i j a => ?_, h2⟩
  have := congrFun h1 (i, j, a)
  simp only [un3] at this
  rw [this]
  have hmm : (min i j < K ∧ max i j < K) ↔ (i < K ∧ j < K) := by
    simp only [Nat.max_def, Nat.min_def]; split <;> omega
  by_cases ha : a < L
  · by_cases hij : i < K ∧ j < K
    · have := hmm.2 hij
      simp [ha, hij.1, hij.2, this.1, this.2, triPos, Nat.add_assoc]
    · have h' : ¬ (min i j < K ∧ max i j < K) := fun h => hij (hmm.1 h)
      by_cases h5 : min i j < K
      · have h6 : ¬ max i j < K := fun h => h' ⟨h5, h⟩
        by_cases hi : i < K
        · have hj : ¬ j < K := fun h => hij ⟨hi, h⟩
          simp [ha, h5, h6, hi, hj]
        · simp [ha, h5, h6, hi]
      · by_cases hi : i < K
        · have hj : ¬ j < K := fun h => hij ⟨hi, h⟩
          simp [ha, h5, hi, hj]
        · simp [ha, h5, hi]
  · simp [ha]

end random

end
end MT.CodeRefine
