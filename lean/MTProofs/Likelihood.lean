/-
The likelihood loop of the model (threaded accumulator) in closed form (helper for C06, C01, C10).
-/
import MTProofs.Refine

namespace MTProofs
open MT Finset

section
variable (assort : Bool) (K L N : Nat) (out : Nat → Nat → List Nat)
  (u v : Nat → Nat → ℝ) (wf : Nat → Nat → Nat → ℝ)

/-- contribution of one `(a,i,j)` cell: `A·ln M − M`, the logarithm only for observed pairs with
rate above the guard -/
noncomputable def cellLL (a i j : Nat) : ℝ :=
  (if ε < rate assort K wf v u i j a ∧ 0 < (out a i).count j then
      ((out a i).count j : ℝ) * Real.log (rate assort K wf v u i j a) else 0)
    - rate assort K wf v u i j a

/-- `Σ_a Σ_i Σ_j (A ln M − M)` -/
noncomputable def poissonLL : ℝ :=
  ∑ a ∈ range L, ∑ i ∈ range N, ∑ j ∈ range N, cellLL assort K out u v wf a i j

theorem pairFold (h : Bool) (t : Nat × Nat → ℝ) (ps : List (Nat × Nat)) (acc : ℝ × ℝ) :
    ps.foldl (fun (acc : ℝ × ℝ) p => (acc.1 - t p, if h then acc.2 + t p else acc.2)) acc =
      (acc.1 - (ps.map t).sum, if h then acc.2 + (ps.map t).sum else acc.2) := by
  induction ps generalizing acc with
  | nil => cases h <;> simp
  | cons p ps ih =>
    rw [List.foldl_cons, ih]
    cases h
    · simp only [Bool.false_eq_true, ↓reduceIte, List.map_cons, List.sum_cons, Prod.mk.injEq, and_true]
      ring
    · simp only [↓reduceIte, List.map_cons, List.sum_cons, Prod.mk.injEq]
      constructor <;> ring

theorem likCell_eq (l : ℝ) (a i j : Nat) :
    likCell assort K out u v wf l a i j = l + cellLL assort K out u v wf a i j := by
  unfold likCell cellLL
  simp only
  rw [pairFold]
  have hsum : ((gpairs assort K).map fun p => u i p.1 * v j p.2 * wf p.1 p.2 a).sum =
      rate assort K wf v u i j a := by
    rw [← sumL_eq_sum]
    exact gsum_eq_sumL assort K (fun m l => u i m * v j l * wf m l a)
  simp only [zero_eq, hsum, zero_add, ofNat_eq, log_eq]
  by_cases hc : (out a i).contains j = true
  · have hpos : 0 < (out a i).count j := List.count_pos_iff.mpr (by simpa using hc)
    simp only [hc, ↓reduceIte, hpos, and_true]
    split <;> ring
  · have h0 : (out a i).count j = 0 := by
      rw [List.count_eq_zero]
      simpa using hc
    have hne : ¬ (ε < (0 : ℝ)) := not_lt.mpr (le_of_lt eps_pos)
    simp only [hc, Bool.false_eq_true, ↓reduceIte, hne, h0, lt_self_iff_false, and_false]
    ring

theorem foldl_range_add (n : Nat) (c : Nat → ℝ) (g : ℝ → Nat → ℝ) (hg : ∀ l x, g l x = l + c x) (l0 : ℝ) :
    (List.range n).foldl g l0 = l0 + ∑ x ∈ range n, c x := by
  induction n with
  | zero => simp
  | succ n ih => rw [List.range_succ, List.foldl_append, ih, sum_range_succ]; simp [hg]; ring

/-- **C06**: the likelihood loop computes the Poisson log-likelihood of the factors -/
theorem likelihood_eq_poisson :
    likelihood assort K L N out u v wf = poissonLL assort K L N out u v wf := by
  unfold likelihood poissonLL
  rw [foldl_range_add L (fun a => ∑ i ∈ range N, ∑ j ∈ range N, cellLL assort K out u v wf a i j)]
  · simp
  · intro l a
    rw [foldl_range_add N (fun i => ∑ j ∈ range N, cellLL assort K out u v wf a i j)]
    intro l i
    rw [foldl_range_add N (fun j => cellLL assort K out u v wf a i j)]
    intro l j
    exact likCell_eq assort K out u v wf l a i j

end

end MTProofs
