/-
Refinement of the *translated C++ loop nests* (MT/Generated/SolverCode.lean, rewritten from
solver.hpp on every run by tools/cxx2lean.py) to the model's entry formulas (MT/Solver.lean).

Everything here is proved for an arbitrary scalar type with the bare operations — no algebraic law
is used, only the structure of the loops — so the statements hold for `Float` (the instance that
is compared with the C++ on every run) exactly as they hold for `ℝ` (the instance the property
theorems are about).  Core Lean only.
-/
import MTProofs.CodeRefine

set_option linter.unusedSectionVars false
set_option linter.unusedVariables false

namespace MT.CodeRefine
open MT MT.Imp MT.Gen

section
variable {α : Type} [Add α] [Sub α] [Mul α] [Div α] [LT α] [DecidableLT α] [MTExtra α]

/-! ### calculate_likelyhood -/
section lk
variable (assort : Bool) (K L N : Nat) (out : Nat → Nat → List Nat) (u v : Nat → Nat → α)
  (wf : Nat → Nat → Nat → α)

local notation "lk1" => likelihoodCode_1 assort K L N out u v (diag2 wf) wf
local notation "lk11" => likelihoodCode_1_1 assort K L N out u v (diag2 wf) wf
local notation "lk111" => likelihoodCode_1_1_1 assort K L N out u v (diag2 wf) wf
local notation "lk1111" => likelihoodCode_1_1_1_1 assort K L N out u v (diag2 wf) wf
local notation "lk11111" => likelihoodCode_1_1_1_1_1 assort K L N out u v (diag2 wf) wf
local notation "lk1112" => likelihoodCode_1_1_1_2 assort K L N out u v (diag2 wf) wf
local notation "lkTop" => likelihoodCode assort K L N out u v (diag2 wf) wf

/-- one `(k,q)` term: subtract `uvw` from `l`, add it to `log_arg` when the pair is an edge -/
def lkTerm (has : Bool) (x : α) (p : α × α) : α × α := (p.1 - x, if has then p.2 + x else p.2)

theorem lk_qbody (a i j k q : Nat) (s : LKLoc α) :
    ((lk11111 a i j k q s).l, (lk11111 a i j k q s).log_arg)
      = lkTerm ((out a i).contains j) (u i k * v j q * wf k q a) (s.l, s.log_arg) := by
  unfold likelihoodCode_1_1_1_1_1 lkTerm
  cases h : (out a i).contains j <;> simp [h]

theorem lk_kbody (a i j k : Nat) (s : LKLoc α) :
    ((lk1111 a i j k s).l, (lk1111 a i j k s).log_arg)
      = (cols assort K k).foldl (fun p q => lkTerm ((out a i).contains j) (u i k * v j q * wf k q a) p)
          (s.l, s.log_arg) := by
  unfold likelihoodCode_1_1_1_1
  by_cases hA : assort = true
  · simp only [hA, if_true, cols, List.foldl_cons, List.foldl_nil, lkTerm, diag2]
    cases h : (out a i).contains j <;> simp
  · have hA' : assort = false := by cases assort <;> simp_all
    simp only [hA', Bool.false_eq_true, if_false, forRange, cols]
    have := foldl_proj (fun s : LKLoc α => (s.l, s.log_arg)) (fun s q => lk11111 a i j k q s)
      (fun p q => lkTerm ((out a i).contains j) (u i k * v j q * wf k q a) p)
      (fun s q => lk_qbody assort K L N out u v wf a i j k q s) (List.range K) s
    rw [hA'] at this
    exact this

/-- the model's inner fold, group by group -/
theorem gpairs_fold {β : Type} (f : β → Nat × Nat → β) (b : β) :
    (gpairs assort K).foldl f b
      = (List.range K).foldl (fun b k => (cols assort K k).foldl (fun b q => f b (k, q)) b) b := by
  cases assort
  · simp [gpairs, pairs, cols, List.foldl_flatMap, List.foldl_map]
  · simp [gpairs, cols, List.foldl_map]

theorem lk_kloop (a i j : Nat) (s : LKLoc α) :
    let s' := List.foldl (fun s k => lk1111 a i j k s) s (List.range K)
    (s'.l, s'.log_arg)
      = (gpairs assort K).foldl (fun p kq => lkTerm ((out a i).contains j) (u i kq.1 * v j kq.2 * wf kq.1 kq.2 a) p)
          (s.l, s.log_arg) := by
  rw [gpairs_fold]
  exact foldl_proj (fun s : LKLoc α => (s.l, s.log_arg)) (fun s k => lk1111 a i j k s)
    (fun p k => (cols assort K k).foldl (fun p q => lkTerm ((out a i).contains j) (u i k * v j q * wf k q a) p) p)
    (fun s k => lk_kbody assort K L N out u v wf a i j k s) (List.range K) s

theorem count_fold (l : List Nat) (j n0 : Nat) :
    l.foldl (fun n t => if t = j then n + 1 else n) n0 = n0 + l.count j := by
  induction l generalizing n0 with
  | nil => simp
  | cons x xs ih =>
    simp only [List.foldl_cons, ih, List.count_cons]
    by_cases h : x = j <;> simp [h] <;> omega

theorem lk_count (a i j : Nat) (s : LKLoc α) :
    let s' := List.foldl (fun s t => lk1112 a i j t s) s (out a i)
    s'.nof_parallel_edges = s.nof_parallel_edges + (out a i).count j ∧ s'.l = s.l ∧ s'.log_arg = s.log_arg := by
  have h := foldl_proj (fun s : LKLoc α => (s.nof_parallel_edges, s.l, s.log_arg)) (fun s t => lk1112 a i j t s)
    (fun (p : Nat × α × α) t => (if t = j then p.1 + 1 else p.1, p.2))
    (fun s t => by
      unfold likelihoodCode_1_1_1_2
      by_cases h : t = j <;> simp [h]) (out a i) s
  have h1 : ∀ (l : List Nat) (n : Nat) (x : α × α),
      l.foldl (fun (p : Nat × α × α) t => (if t = j then p.1 + 1 else p.1, p.2)) (n, x)
        = (l.foldl (fun n t => if t = j then n + 1 else n) n, x) := by
    intro l
    induction l with
    | nil => intros; rfl
    | cons y ys ih => intro n x; simp only [List.foldl_cons]; rw [ih]
  rw [h1, count_fold] at h
  intro s'
  have h' : (s'.nof_parallel_edges, s'.l, s'.log_arg) = _ := h
  simp only [Prod.mk.injEq] at h'
  exact ⟨h'.1, h'.2.1, h'.2.2⟩

/-- body of the loop over `j`: the model's `likCell` on the running total -/
theorem lk_jbody (a i j : Nat) (s : LKLoc α) :
    (lk111 a i j s).l = likCell assort K out u v wf s.l a i j := by
  unfold likelihoodCode_1_1_1 likCell
  simp only [forRange, forList]
  have hk := lk_kloop assort K L N out u v wf a i j ({ s with log_arg := MTExtra.zero } : LKLoc α)
  simp only [lkTerm] at hk
  simp only [Prod.ext_iff] at hk
  obtain ⟨hk1, hk2⟩ := hk
  split
  · rename_i hz
    obtain ⟨c1, c2, c3⟩ := lk_count assort K L N out u v wf a i j
      ({ (List.foldl (fun s k => lk1111 a i j k s) ({ s with log_arg := MTExtra.zero } : LKLoc α) (List.range K))
          with nof_parallel_edges := 0 } : LKLoc α)
    simp only [] at c1 c2 c3
    simp only [c1, c2, c3, Nat.zero_add]
    rw [hk2] at hz
    rw [hk1, hk2]
    simp only [hz, if_true]
  · rename_i hz
    rw [hk2] at hz
    rw [hk1]
    simp only [hz, if_false]

/-- **`calculate_likelyhood`, as written in solver.hpp, computes the model's `likelihood`** (the value
returned is field `l`, which the declaration `double l(0)` starts at zero) -/
theorem likelihoodCode_refines (s0 : LKLoc α) (h0 : s0.l = MTExtra.zero) :
    (lkTop s0).l = likelihood assort K L N out u v wf := by
  unfold likelihoodCode likelihood
  simp only [forRange]
  rw [← h0]
  refine foldl_proj (fun s : LKLoc α => s.l) (fun s a => lk1 a s) _ (fun s a => ?_) (List.range L) s0
  unfold likelihoodCode_1
  simp only [forRange]
  refine foldl_proj (fun s : LKLoc α => s.l) (fun s i => lk11 a i s) _ (fun s i => ?_) (List.range N) s
  unfold likelihoodCode_1_1
  simp only [forRange]
  refine foldl_proj (fun s : LKLoc α => s.l) (fun s j => lk111 a i j s) _ (fun s j => ?_) (List.range N) s
  exact lk_jbody assort K L N out u v wf a i j s

end lk
end
end MT.CodeRefine
