/-
Tensor lemmas: reading back `Tens.ofFn`, congruence (helper for C17, C03, C02, …).
-/
import MTProps.C18

namespace MTProofs
open MT

variable {α : Type} [MTExtra α]

theorem get_ofFn (R C T : Nat) (f : Nat → Nat → Nat → α) {i j a : Nat}
    (hi : i < R) (hj : j < C) (ha : a < T) : (Tens.ofFn R C T f).get i j a = f i j a :=
  MTProps.C18.get_ofFn R C T f hi hj ha

/-- two entrywise definitions that agree on in-range indices give the same tensor -/
theorem ofFn_congr (R C T : Nat) (f g : Nat → Nat → Nat → α)
    (h : ∀ i j a, i < R → j < C → a < T → f i j a = g i j a) : Tens.ofFn R C T f = Tens.ofFn R C T g := by
  unfold Tens.ofFn
  congr 1
  apply congrArg
  funext p
  have hp := p.isLt
  have hR : 0 < R := by
    rcases Nat.eq_zero_or_pos R with h0 | h0
    · subst h0; simp at hp
    · exact h0
  have hC : 0 < C := by
    rcases Nat.eq_zero_or_pos C with h0 | h0
    · subst h0; simp at hp
    · exact h0
  apply h
  · exact Nat.mod_lt _ hR
  · exact Nat.mod_lt _ hC
  · exact Nat.div_lt_of_lt_mul (by simpa [Nat.mul_comm, Nat.mul_assoc, Nat.mul_left_comm] using hp)

@[simp] theorem ofFn_R (R C T : Nat) (f : Nat → Nat → Nat → α) : (Tens.ofFn R C T f).R = R := rfl
@[simp] theorem ofFn_C (R C T : Nat) (f : Nat → Nat → Nat → α) : (Tens.ofFn R C T f).C = C := rfl
@[simp] theorem ofFn_T (R C T : Nat) (f : Nat → Nat → Nat → α) : (Tens.ofFn R C T f).T = T := rfl

theorem ofFn_size (R C T : Nat) (f : Nat → Nat → Nat → α) : (Tens.ofFn R C T f).size = R * C * T := by
  simp [Tens.ofFn, Tens.size]

/-- well-sized: the flat array has exactly `R*C*T` entries (true of every tensor the model builds) -/
def _root_.MT.Tens.Sized (t : Tens α) : Prop := t.data.size = t.R * t.C * t.T

theorem ofFn_sized (R C T : Nat) (f : Nat → Nat → Nat → α) : (Tens.ofFn R C T f).Sized := by
  simp [MT.Tens.Sized, Tens.ofFn]

theorem zeros_sized (R C T : Nat) : (Tens.zeros R C T : Tens α).Sized := by
  simp [MT.Tens.Sized, Tens.zeros]

/-- reading a matrix beyond its last column gives the stored-nothing value zero -/
theorem get_col_oob (t : Tens α) (hs : t.Sized) (hT : t.T = 1) {i k : Nat} (hi : i < t.R) (hk : t.C ≤ k) :
    t.get i k 0 = MTExtra.zero := by
  unfold Tens.get
  rw [Array.getD_eq_getD_getElem?, Array.getElem?_eq_none]
  · rfl
  · rw [hs, hT, MTProps.C18.index_eq_spec]
    unfold MTProps.C18.spec
    have : t.C * t.R ≤ k * t.R := Nat.mul_le_mul_right _ hk
    calc t.R * t.C * 1 = t.C * t.R := by rw [Nat.mul_one, Nat.mul_comm]
      _ ≤ k * t.R := this
      _ ≤ 0 * t.R * t.C + k * t.R + i := by omega

end MTProofs
