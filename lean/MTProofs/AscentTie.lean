/-
From the MM steps to the published updates with guards and truncation (helper for C01, C03):
outside the two admissible exceptions (an entry snapped to zero; an observed edge with rate ≤ ε)
`specVEntry`/`specWEntry` coincide with the masked MM updates; non-negativity is preserved.
-/
import MTProofs.Ascent

namespace MTProofs
open MT Finset

theorem snapR_nonneg {x : ℝ} (h : 0 ≤ x) : 0 ≤ snapR x := by
  unfold snapR; split <;> [exact le_rfl; exact h]

theorem rate_nonneg (assort : Bool) (K : Nat) (wf : Nat → Nat → Nat → ℝ) (Y X : Nat → Nat → ℝ)
    (hX : ∀ i k, 0 ≤ X i k) (hY : ∀ j q, 0 ≤ Y j q) (hw : ∀ k q a, 0 ≤ wf k q a) (i j a : Nat) :
    0 ≤ rate assort K wf Y X i j a :=
  gsum_nonneg assort K _ fun _ _ _ _ => mul_nonneg (mul_nonneg (hX _ _) (hY _ _)) (hw _ _ _)

theorem csum_nonneg (assort : Bool) (K k : Nat) (f : Nat → ℝ) (h : ∀ q, 0 ≤ f q) : 0 ≤ csum assort K k f := by
  unfold csum; split
  · exact h k
  · exact sum_nonneg fun q _ => h q

section vertices
variable (assort : Bool) (K L N : Nat) (num den : List Nat) (nbr : Nat → Nat → List Nat)
  (wf : Nat → Nat → Nat → ℝ) (Y X : Nat → Nat → ℝ)

/-- the guard of the membership update -/
def maskV (i k : Nat) : Prop := ε < specZ assort K L den wf Y k ∧ i ∈ num ∧ ε < X i k

noncomputable instance (i k : Nat) : Decidable (maskV assort K L num den wf Y X i k) := by
  unfold maskV; exact inferInstance

/-- value of an updated entry before truncation -/
noncomputable def rawV (i k : Nat) : ℝ :=
  X i k / specZ assort K L den wf Y k * specVal assort K L N nbr wf Y X i k

/-- multiplicities as reals -/
noncomputable def multOf (nbr : Nat → Nat → List Nat) (a i j : Nat) : ℝ := ((nbr a i).count j : ℝ)

theorem specVal_nonneg (hX : ∀ i k, 0 ≤ X i k) (hY : ∀ j q, 0 ≤ Y j q) (hw : ∀ k q a, 0 ≤ wf k q a) (i k : Nat) :
    0 ≤ specVal assort K L N nbr wf Y X i k := by
  unfold specVal
  refine sum_nonneg fun a _ => sum_nonneg fun j _ => mul_nonneg (Nat.cast_nonneg _) ?_
  split
  · exact div_nonneg (csum_nonneg assort K k _ fun q => mul_nonneg (hY _ _) (hw _ _ _))
      (rate_nonneg assort K wf Y X hX hY hw i j a)
  · exact le_rfl

/-- every membership value stays ≥ 0 (multiplicative form keeps the sign) -/
theorem specVEntry_nonneg (hX : ∀ i k, 0 ≤ X i k) (hY : ∀ j q, 0 ≤ Y j q) (hw : ∀ k q a, 0 ≤ wf k q a) (i k : Nat) :
    0 ≤ specVEntry assort K L N num den nbr wf Y X i k := by
  unfold specVEntry
  split
  · rename_i h
    apply snapR_nonneg
    exact mul_nonneg (div_nonneg (hX i k) (le_of_lt (lt_trans eps_pos h.1)))
      (specVal_nonneg assort K L N nbr wf Y X hX hY hw i k)
  · exact hX i k

/-- outside the exceptions the published update is the masked MM update -/
theorem specVEntry_eq_mmV
    (hR : ∀ a i j, a < L → i < N → j < N → 0 < (nbr a i).count j → ε < rate assort K wf Y X i j a)
    (hNoSnap : ∀ i k, i < N → k < K → maskV assort K L num den wf Y X i k →
      ¬ |rawV assort K L N den nbr wf Y X i k| < ε)
    {i k : Nat} (hi : i < N) (hk : k < K) :
    specVEntry assort K L N num den nbr wf Y X i k =
      mmV assort K L N den (multOf nbr) wf Y X (maskV assort K L num den wf Y X) i k := by
  unfold specVEntry mmV
  by_cases hm : maskV assort K L num den wf Y X i k
  · have hm' : ε < specZ assort K L den wf Y k ∧ i ∈ num ∧ ε < X i k := hm
    rw [if_pos hm', if_pos hm]
    have hns := hNoSnap i k hi hk hm
    unfold rawV at hns
    unfold snapR
    rw [if_neg hns]
    congr 1
    unfold specVal multOf
    apply sum_congr rfl; intro a ha
    apply sum_congr rfl; intro j hj
    rcases Nat.eq_zero_or_pos ((nbr a i).count j) with h0 | hpos
    · rw [h0]; simp
    · rw [if_pos (hR a i j (mem_range.mp ha) hi (mem_range.mp hj) hpos)]
  · have hm' : ¬ (ε < specZ assort K L den wf Y k ∧ i ∈ num ∧ ε < X i k) := hm
    rw [if_neg hm', if_neg hm]

/-- the objective reads the matrix only at valid indices -/
theorem objV_congr (B : Nat → Nat → Nat → ℝ) (X X' : Nat → Nat → ℝ)
    (h : ∀ i k, i < N → k < K → X i k = X' i k) :
    objV assort K L N B wf Y X = objV assort K L N B wf Y X' := by
  unfold objV
  apply sum_congr rfl; intro a _
  apply sum_congr rfl; intro i hi
  apply sum_congr rfl; intro j _
  have : rate assort K wf Y X i j a = rate assort K wf Y X' i j a := by
    unfold rate
    apply gsum_congr
    intro m l hm _
    rw [h i m (mem_range.mp hi) hm]
  rw [this]

/-- **membership step ascent**: outside the two exceptions, the published update does not decrease
the (unguarded) log-likelihood -/
theorem specV_ascent
    (hD : ∀ l, sumL den (fun j => Y j l) = ∑ j ∈ range N, Y j l)
    (hX : ∀ i k, 0 ≤ X i k) (hY : ∀ j q, 0 ≤ Y j q) (hw : ∀ k q a, 0 ≤ wf k q a)
    (hR : ∀ a i j, a < L → i < N → j < N → 0 < (nbr a i).count j → ε < rate assort K wf Y X i j a)
    (hNoSnap : ∀ i k, i < N → k < K → maskV assort K L num den wf Y X i k →
      ¬ |rawV assort K L N den nbr wf Y X i k| < ε) :
    objV assort K L N (multOf nbr) wf Y X ≤
      objV assort K L N (multOf nbr) wf Y (specVEntry assort K L N num den nbr wf Y X) := by
  have h := mmV_ascent assort K L N den (multOf nbr) wf Y X (maskV assort K L num den wf Y X) hD
    (fun _ _ _ => Nat.cast_nonneg _) hX hY hw
    (fun i k hm => lt_trans eps_pos hm.1)
    (fun a i j ha hi hj hB => lt_trans eps_pos (hR a i j ha hi hj (by
      unfold multOf at hB; exact_mod_cast hB)))
  rw [objV_congr assort K L N wf Y (multOf nbr) (specVEntry assort K L N num den nbr wf Y X)
    (mmV assort K L N den (multOf nbr) wf Y X (maskV assort K L num den wf Y X))
    (fun i k hi hk => specVEntry_eq_mmV assort K L N num den nbr wf Y X hR hNoSnap hi hk)]
  exact h

end vertices

section affinity
variable (assort : Bool) (K L N : Nat) (uList vList : List Nat) (out : Nat → Nat → List Nat)
  (u v : Nat → Nat → ℝ) (w : Nat → Nat → Nat → ℝ)

def maskW (k q a : Nat) : Prop := ε < specWZ uList vList u v k q ∧ ε < w k q a

noncomputable instance (k q a : Nat) : Decidable (maskW uList vList u v w k q a) := by
  unfold maskW; exact inferInstance

theorem specWAcc_nonneg (hu : ∀ i k, 0 ≤ u i k) (hv : ∀ j q, 0 ≤ v j q) (hw : ∀ k q a, 0 ≤ w k q a) (k q a : Nat) :
    0 ≤ specWAcc assort K N out u v w k q a := by
  unfold specWAcc
  refine sum_nonneg fun i _ => mul_nonneg (hu _ _) (sum_nonneg fun j _ => mul_nonneg (Nat.cast_nonneg _) ?_)
  split
  · exact div_nonneg (hv _ _) (rate_nonneg assort K w v u hu hv hw i j a)
  · exact le_rfl

/-- every affinity value stays ≥ 0 -/
theorem specWEntry_nonneg (hu : ∀ i k, 0 ≤ u i k) (hv : ∀ j q, 0 ≤ v j q) (hw : ∀ k q a, 0 ≤ w k q a) (k q a : Nat) :
    0 ≤ specWEntry assort K N uList vList out u v w k q a := by
  unfold specWEntry
  split
  · rename_i h
    apply snapR_nonneg
    exact mul_nonneg (div_nonneg (hw k q a) (le_of_lt (lt_trans eps_pos h.1)))
      (specWAcc_nonneg assort K N out u v w hu hv hw k q a)
  · exact hw k q a

theorem specWEntry_eq_mmW
    (hR : ∀ a i j, a < L → i < N → j < N → 0 < (out a i).count j → ε < rate assort K w v u i j a)
    (hNoSnap : ∀ k q a, k < K → q < K → a < L → maskW uList vList u v w k q a →
      ¬ |rawW assort K N uList vList out u v w a k q| < ε)
    {k q a : Nat} (hk : k < K) (hq : q < K) (ha : a < L) :
    specWEntry assort K N uList vList out u v w k q a =
      mmW assort K N uList vList (multOf out) u v w (maskW uList vList u v w) k q a := by
  unfold specWEntry mmW
  by_cases hm : maskW uList vList u v w k q a
  · have hm' : ε < specWZ uList vList u v k q ∧ ε < w k q a := hm
    rw [if_pos hm', if_pos hm]
    have hns := hNoSnap k q a hk hq ha hm
    unfold rawW at hns
    unfold snapR
    rw [if_neg hns]
    congr 1
    unfold specWAcc multOf
    apply sum_congr rfl; intro i hi
    rw [mul_sum]
    apply sum_congr rfl; intro j hj
    rcases Nat.eq_zero_or_pos ((out a i).count j) with h0 | hpos
    · rw [h0]; simp
    · rw [if_pos (hR a i j ha (mem_range.mp hi) (mem_range.mp hj) hpos)]; ring
  · have hm' : ¬ (ε < specWZ uList vList u v k q ∧ ε < w k q a) := hm
    rw [if_neg hm', if_neg hm]

theorem objW_congr (A : Nat → Nat → Nat → ℝ) (w w' : Nat → Nat → Nat → ℝ)
    (h : ∀ k q a, k < K → q < K → a < L → (assort = true → k = q) → w k q a = w' k q a) :
    objW assort K L N A u v w = objW assort K L N A u v w' := by
  unfold objW
  apply sum_congr rfl; intro a ha
  apply sum_congr rfl; intro i _
  apply sum_congr rfl; intro j _
  have : rate assort K w v u i j a = rate assort K w' v u i j a := by
    unfold rate
    apply gsum_congr'
    intro m l hm hl hdiag
    rw [h m l a hm hl (mem_range.mp ha) hdiag]
  rw [this]

/-- **affinity step ascent** -/
theorem specW_ascent
    (hU : ∀ k, sumL uList (fun i => u i k) = ∑ i ∈ range N, u i k)
    (hV : ∀ q, sumL vList (fun j => v j q) = ∑ j ∈ range N, v j q)
    (hu : ∀ i k, 0 ≤ u i k) (hv : ∀ j q, 0 ≤ v j q) (hw : ∀ k q a, 0 ≤ w k q a)
    (hR : ∀ a i j, a < L → i < N → j < N → 0 < (out a i).count j → ε < rate assort K w v u i j a)
    (hNoSnap : ∀ k q a, k < K → q < K → a < L → maskW uList vList u v w k q a →
      ¬ |rawW assort K N uList vList out u v w a k q| < ε) :
    objW assort K L N (multOf out) u v w ≤
      objW assort K L N (multOf out) u v (fun k q a => specWEntry assort K N uList vList out u v w k q a) := by
  have h := mmW_ascent assort K L N uList vList (multOf out) u v w (maskW uList vList u v w) hU hV
    (fun _ _ _ => Nat.cast_nonneg _) hu hv hw
    (fun k q a hm => lt_trans eps_pos hm.1)
    (fun a i j ha hi hj hB => lt_trans eps_pos (hR a i j ha hi hj (by
      unfold multOf at hB; exact_mod_cast hB)))
  rw [objW_congr assort K L N u v (multOf out) (fun k q a => specWEntry assort K N uList vList out u v w k q a)
    (mmW assort K N uList vList (multOf out) u v w (maskW uList vList u v w))
    (fun k q a hk hq ha _ => specWEntry_eq_mmW assort K L N uList vList out u v w hR hNoSnap hk hq ha)]
  exact h

end affinity

end MTProofs
