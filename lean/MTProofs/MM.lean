/-
Abstract masked minorise–maximise (EM) step: for a function of the form
  F x = Σ_e a_e · log (Σ_p x_p c_{e,p}) − Σ_p x_p d_p
with non-negative data, the multiplicative update
  x'_p = x_p / d_p · Σ_e a_e c_{e,p} / S_e(x)   on a mask, x'_p = x_p elsewhere
does not decrease `F` (Jensen for `log` on the responsibilities + `y − x ≤ y·log(y/x)`).
Zeros stay zero, frozen coordinates contribute nothing, positivity of the new rates is derived.
Index sets are arbitrary finsets (helper for C01).
-/
import Mathlib.Analysis.Convex.Jensen
import Mathlib.Analysis.SpecialFunctions.Log.Basic
import Mathlib.Analysis.Convex.SpecificFunctions.Basic
import Mathlib.Tactic.Linarith
import Mathlib.Tactic.Ring
import Mathlib.Tactic.FieldSimp
import Mathlib.Algebra.BigOperators.Field

namespace MTProofs.MM
open Finset Real

variable {P E : Type} [DecidableEq P] (sP : Finset P) (sE : Finset E)

def S (c : E → P → ℝ) (x : P → ℝ) (e : E) : ℝ := ∑ p ∈ sP, x p * c e p

noncomputable def F (a : E → ℝ) (c : E → P → ℝ) (d : P → ℝ) (x : P → ℝ) : ℝ :=
  ∑ e ∈ sE, a e * Real.log (S sP c x e) - ∑ p ∈ sP, x p * d p

noncomputable def upd (a : E → ℝ) (c : E → P → ℝ) (d : P → ℝ) (m : P → Prop) [DecidablePred m]
    (x : P → ℝ) (p : P) : ℝ :=
  if m p then x p / d p * ∑ e ∈ sE, a e * c e p / S sP c x e else x p

lemma key_scalar {x y : ℝ} (hx : 0 < x) (hy : 0 ≤ y) : y - x ≤ y * Real.log (y / x) := by
  rcases hy.eq_or_lt with rfl | hy
  · simp; exact hx.le
  · have h := Real.log_le_sub_one_of_pos (div_pos hx hy)
    have : Real.log (y / x) = - Real.log (x / y) := by
      rw [Real.log_div hy.ne' hx.ne', Real.log_div hx.ne' hy.ne']; ring
    rw [this]
    have h2 : y * (x / y - 1) = x - y := by field_simp
    nlinarith [mul_le_mul_of_nonneg_left h hy.le]

section
variable (a : E → ℝ) (c : E → P → ℝ) (d : P → ℝ) (m : P → Prop) [DecidablePred m] (x : P → ℝ)
variable (ha : ∀ e ∈ sE, 0 ≤ a e) (hc : ∀ e ∈ sE, ∀ p ∈ sP, 0 ≤ c e p) (hx : ∀ p ∈ sP, 0 ≤ x p)
variable (hd : ∀ p ∈ sP, m p → 0 < d p) (hS : ∀ e ∈ sE, 0 < a e → 0 < S sP c x e)

include hc hx in
lemma S_nonneg (e : E) (he : e ∈ sE) : 0 ≤ S sP c x e :=
  sum_nonneg fun p hp => mul_nonneg (hx p hp) (hc e he p hp)

include ha hc hx in
lemma inner_nonneg (p : P) (hp : p ∈ sP) : 0 ≤ ∑ e ∈ sE, a e * c e p / S sP c x e :=
  sum_nonneg fun e he => div_nonneg (mul_nonneg (ha e he) (hc e he p hp)) (S_nonneg sP sE c x hc hx e he)

include ha hc hx hd in
lemma upd_nonneg (p : P) (hp : p ∈ sP) : 0 ≤ upd sP sE a c d m x p := by
  unfold upd; split_ifs with h
  · exact mul_nonneg (div_nonneg (hx p hp) (hd p hp h).le) (inner_nonneg sP sE a c x ha hc hx p hp)
  · exact hx p hp

lemma upd_zero (p : P) (h : x p = 0) : upd sP sE a c d m x p = 0 := by
  unfold upd; split_ifs <;> simp [h]

include ha hc hx hd hS in
lemma upd_pos (e : E) (he : e ∈ sE) (p : P) (hp : p ∈ sP) (hae : 0 < a e) (hxp : 0 < x p) (hcp : 0 < c e p) :
    0 < upd sP sE a c d m x p := by
  unfold upd; split_ifs with h
  · apply mul_pos (div_pos hxp (hd p hp h))
    have h1 : 0 < a e * c e p / S sP c x e := div_pos (mul_pos hae hcp) (hS e he hae)
    have h2 : a e * c e p / S sP c x e ≤ ∑ e ∈ sE, a e * c e p / S sP c x e :=
      single_le_sum (f := fun e => a e * c e p / S sP c x e)
        (fun e he' => div_nonneg (mul_nonneg (ha e he') (hc e he' p hp)) (S_nonneg sP sE c x hc hx e he')) he
    linarith
  · exact hxp

include ha hc hx hd hS in
/-- Jensen step for one observed edge. -/
lemma edge_bound (e : E) (he : e ∈ sE) (hae : 0 < a e) :
    0 < S sP c (upd sP sE a c d m x) e ∧
    ∑ p ∈ sP, x p * c e p / S sP c x e * Real.log (upd sP sE a c d m x p / x p)
      ≤ Real.log (S sP c (upd sP sE a c d m x) e) - Real.log (S sP c x e) := by
  set x' := upd sP sE a c d m x with hx'
  set s := S sP c x e with hs
  have hspos : 0 < s := hS e he hae
  set ρ : P → ℝ := fun p => x p * c e p / s with hρ
  have hρ0 : ∀ p ∈ sP, 0 ≤ ρ p := fun p hp => div_nonneg (mul_nonneg (hx p hp) (hc e he p hp)) hspos.le
  set T := sP.filter (fun p => 0 < ρ p) with hT
  have hTsub : T ⊆ sP := filter_subset _ _
  have hTpos : ∀ p ∈ T, 0 < x p ∧ 0 < c e p := by
    intro p hp
    have hpP : p ∈ sP := hTsub hp
    have h0 : 0 < ρ p := (mem_filter.mp hp).2
    have h1 : 0 < x p * c e p := by
      have := mul_pos h0 hspos; simpa [hρ, div_mul_cancel₀ _ hspos.ne'] using this
    rcases (hx p hpP).eq_or_lt with h | h
    · simp [← h] at h1
    · exact ⟨h, by
        rcases (hc e he p hpP).eq_or_lt with h' | h'
        · simp [← h'] at h1
        · exact h'⟩
  have hnotT : ∀ p ∈ sP, p ∉ T → ρ p = 0 := by
    intro p hpP hp
    have : ¬ 0 < ρ p := fun h => hp (mem_filter.mpr ⟨hpP, h⟩)
    exact le_antisymm (not_lt.mp this) (hρ0 p hpP)
  have hsum1 : ∑ p ∈ T, ρ p = 1 := by
    have : ∑ p ∈ T, ρ p = ∑ p ∈ sP, ρ p := by
      apply sum_subset hTsub; intro p hpP hp; exact hnotT p hpP hp
    rw [this]; simp only [hρ, ← sum_div]; exact div_self hspos.ne'
  have htpos : ∀ p ∈ T, x' p / x p ∈ Set.Ioi (0:ℝ) := by
    intro p hp
    obtain ⟨h1, h2⟩ := hTpos p hp
    exact div_pos (upd_pos sP sE a c d m x ha hc hx hd hS e he p (hTsub hp) hae h1 h2) h1
  have hJ := (strictConcaveOn_log_Ioi.concaveOn).le_map_sum (t := T) (w := ρ)
    (p := fun p => x' p / x p) (fun p hp => hρ0 p (hTsub hp)) hsum1 htpos
  simp only [smul_eq_mul] at hJ
  have hS' : ∑ p ∈ T, ρ p * (x' p / x p) = S sP c x' e / s := by
    have h1 : ∀ p ∈ T, ρ p * (x' p / x p) = x' p * c e p / s := by
      intro p hp
      obtain ⟨h1, _⟩ := hTpos p hp
      simp only [hρ]; field_simp
    rw [sum_congr rfl h1]
    have h2 : ∑ p ∈ T, x' p * c e p / s = ∑ p ∈ sP, x' p * c e p / s := by
      apply sum_subset hTsub; intro p hpP hp
      have h0 := hnotT p hpP hp
      simp only [hρ] at h0
      have h3 : x p * c e p = 0 := by
        have := congrArg (· * s) h0; simpa [div_mul_cancel₀ _ hspos.ne'] using this
      rcases mul_eq_zero.mp h3 with h | h
      · simp [hx', upd_zero sP sE a c d m x p h]
      · simp [h]
    rw [h2, ← sum_div]; rfl
  have hTne : T.Nonempty := by
    by_contra h; rw [not_nonempty_iff_eq_empty] at h; rw [h] at hsum1; simp at hsum1
  have hS'pos : 0 < S sP c x' e := by
    obtain ⟨p, hp⟩ := hTne
    obtain ⟨h1, h2⟩ := hTpos p hp
    have h3 := upd_pos sP sE a c d m x ha hc hx hd hS e he p (hTsub hp) hae h1 h2
    have h4 : x' p * c e p ≤ S sP c x' e :=
      single_le_sum (f := fun p => x' p * c e p)
        (fun p hp' => mul_nonneg (upd_nonneg sP sE a c d m x ha hc hx hd p hp') (hc e he p hp')) (hTsub hp)
    have := mul_pos h3 h2
    linarith
  refine ⟨hS'pos, ?_⟩
  rw [hS', Real.log_div hS'pos.ne' hspos.ne'] at hJ
  have : ∑ p ∈ sP, x p * c e p / s * Real.log (x' p / x p) = ∑ p ∈ T, ρ p * Real.log (x' p / x p) := by
    symm; apply sum_subset hTsub; intro p hpP hp
    have := hnotT p hpP hp; simp only [hρ] at this; simp [hρ, this]
  rw [this]; exact hJ

include ha hc hx hd hS in
/-- the masked multiplicative update does not decrease `F` -/
theorem ascent : F sP sE a c d x ≤ F sP sE a c d (upd sP sE a c d m x) := by
  set x' := upd sP sE a c d m x with hx'
  have h1 : ∑ e ∈ sE, a e * (∑ p ∈ sP, x p * c e p / S sP c x e * Real.log (x' p / x p))
      ≤ ∑ e ∈ sE, a e * (Real.log (S sP c x' e) - Real.log (S sP c x e)) := by
    apply sum_le_sum; intro e he
    rcases (ha e he).eq_or_lt with h | h
    · simp [← h]
    · exact mul_le_mul_of_nonneg_left (edge_bound sP sE a c d m x ha hc hx hd hS e he h).2 h.le
  have h2 : ∑ e ∈ sE, a e * (∑ p ∈ sP, x p * c e p / S sP c x e * Real.log (x' p / x p))
      = ∑ p ∈ sP, Real.log (x' p / x p) * (x p * ∑ e ∈ sE, a e * c e p / S sP c x e) := by
    simp only [mul_sum]; rw [sum_comm]
    apply sum_congr rfl; intro p _; apply sum_congr rfl; intro e _; ring
  have h3 : ∀ p ∈ sP, (x' p - x p) * d p ≤ Real.log (x' p / x p) * (x p * ∑ e ∈ sE, a e * c e p / S sP c x e) := by
    intro p hpP
    by_cases hm : m p
    · rcases (hx p hpP).eq_or_lt with h0 | hpos
      · have : x' p = 0 := upd_zero sP sE a c d m x p h0.symm
        simp [this, ← h0]
      · have hdp := hd p hpP hm
        have hx'p : x' p * d p = x p * ∑ e ∈ sE, a e * c e p / S sP c x e := by
          simp only [hx', upd, if_pos hm]; field_simp
        rw [← hx'p]
        have := key_scalar hpos (upd_nonneg sP sE a c d m x ha hc hx hd p hpP)
        nlinarith [mul_le_mul_of_nonneg_right this hdp.le]
    · have : x' p = x p := by simp [hx', upd, hm]
      rw [this]
      rcases (hx p hpP).eq_or_lt with h0 | hpos
      · simp [← h0]
      · simp [div_self hpos.ne']
  have h4 : ∑ p ∈ sP, (x' p - x p) * d p ≤ ∑ e ∈ sE, a e * (Real.log (S sP c x' e) - Real.log (S sP c x e)) := by
    calc ∑ p ∈ sP, (x' p - x p) * d p
        ≤ ∑ p ∈ sP, Real.log (x' p / x p) * (x p * ∑ e ∈ sE, a e * c e p / S sP c x e) :=
          sum_le_sum fun p hp => h3 p hp
      _ = _ := h2.symm
      _ ≤ _ := h1
  unfold F
  have e1 : ∑ e ∈ sE, a e * (Real.log (S sP c x' e) - Real.log (S sP c x e))
      = ∑ e ∈ sE, a e * Real.log (S sP c x' e) - ∑ e ∈ sE, a e * Real.log (S sP c x e) := by
    simp only [mul_sub, sum_sub_distrib]
  have e2 : ∑ p ∈ sP, (x' p - x p) * d p = ∑ p ∈ sP, x' p * d p - ∑ p ∈ sP, x p * d p := by
    simp only [sub_mul, sum_sub_distrib]
  rw [e1, e2] at h4
  linarith

end
end MTProofs.MM
