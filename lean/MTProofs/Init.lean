/-
Lemmas about the initialisers over an abstract stream (helper for C17, C14, C03).
-/
import MT.Main
import MTProofs.Tensor
import Mathlib.Tactic.Ring
import Mathlib.Tactic.Linarith

namespace MTProofs
open MT

/-! ### the triangular enumeration of `init_symmetric_tensor_random` -/

theorem rowStart_succ (K i : Nat) : rowStart K (i + 1) = rowStart K i + (K - i) := rfl

theorem rowStart_mono (K : Nat) {i j : Nat} (h : i ≤ j) : rowStart K i ≤ rowStart K j := by
  induction j with
  | zero => have : i = 0 := by omega
            subst this; exact le_refl _
  | succ j ih =>
    rcases Nat.lt_or_eq_of_le h with h' | h'
    · have := ih (by omega)
      rw [rowStart_succ]; omega
    · subst h'; exact le_refl _

/-- closed form: rows `0..i-1` make `i*K - i(i-1)/2` draws; in particular `K(K+1)/2` per layer -/
theorem two_mul_rowStart (K : Nat) {i : Nat} (hi : i ≤ K) : 2 * rowStart K i + i * i = i * (2 * K + 1) := by
  induction i with
  | zero => simp [rowStart]
  | succ i ih =>
    have := ih (by omega)
    rw [rowStart_succ]
    have hk : K - i + i = K := by omega
    nlinarith [this, hk]

theorem rowStart_total (K : Nat) : rowStart K K = K * (K + 1) / 2 := by
  have h := two_mul_rowStart K (le_refl K)
  have : 2 * rowStart K K = K * (K + 1) := by nlinarith [h]
  omega

theorem triPos_symm (K i j : Nat) : triPos K i j = triPos K j i := by
  unfold triPos; rw [Nat.min_comm, Nat.max_comm]

/-- every position of a layer block is below the number of draws of a layer -/
theorem triPos_lt (K : Nat) {i j : Nat} (hi : i < K) (hj : j < K) : triPos K i j < rowStart K K := by
  unfold triPos
  have hlo : min i j < K := by omega
  have h1 : rowStart K (min i j + 1) ≤ rowStart K K := rowStart_mono K (by omega)
  rw [rowStart_succ] at h1
  have : max i j - min i j < K - min i j := by omega
  omega

/-- distinct unordered pairs use distinct draws: within a layer, the draw position determines
`(min i j, max i j)` -/
theorem triPos_injective (K : Nat) {i j i' j' : Nat} (hi : i < K) (hj : j < K) (hi' : i' < K) (hj' : j' < K)
    (h : triPos K i j = triPos K i' j') : min i j = min i' j' ∧ max i j = max i' j' := by
  unfold triPos at h
  -- rows occupy consecutive blocks [rowStart lo, rowStart (lo+1))
  have key : ∀ lo hi2 lo' hi2' : Nat, lo ≤ hi2 → hi2 < K → lo' ≤ hi2' → hi2' < K → lo < lo' →
      rowStart K lo + (hi2 - lo) < rowStart K lo' + (hi2' - lo') := by
    intro lo hi2 lo' hi2' h1 h2 h3 h4 hlt
    have hb : rowStart K (lo + 1) ≤ rowStart K lo' := rowStart_mono K (by omega)
    rw [rowStart_succ] at hb
    omega
  have hlo : min i j = min i' j' := by
    by_contra hne
    rcases Nat.lt_or_gt_of_ne hne with hlt | hgt
    · have := key (min i j) (max i j) (min i' j') (max i' j') (by omega) (by omega) (by omega) (by omega) hlt
      omega
    · have := key (min i' j') (max i' j') (min i j) (max i j) (by omega) (by omega) (by omega) (by omega) hgt
      omega
  refine ⟨hlo, ?_⟩
  rw [hlo] at h
  have : max i j - min i' j' = max i' j' - min i' j' := by omega
  omega

/-! ### the initialisers read the stream only inside their segment -/

section
variable {α : Type} [Add α] [Mul α] [MTExtra α]

theorem initAffRandom_used (assort : Bool) (K L : Nat) (d : Nat → α) :
    (initAffRandom assort K L d).2 = if assort then L * K else L * rowStart K K := by
  unfold initAffRandom; split <;> rfl

theorem mul_add_lt {a K i L : Nat} (ha : a < L) (hi : i < K) : a * K + i < L * K := by
  calc a * K + i < a * K + K := by omega
    _ = (a + 1) * K := by ring
    _ ≤ L * K := Nat.mul_le_mul_right K ha

theorem initAffRandom_congr (assort : Bool) (K L : Nat) (d d' : Nat → α)
    (h : ∀ t, t < (initAffRandom assort K L d).2 → d t = d' t) :
    (initAffRandom assort K L d).1 = (initAffRandom assort K L d').1 := by
  rw [initAffRandom_used] at h
  unfold initAffRandom
  cases assort
  · simp only [Bool.false_eq_true, ↓reduceIte] at h ⊢
    apply ofFn_congr
    intro i j a hi hj ha
    apply h
    have := triPos_lt K hi hj
    calc a * rowStart K K + triPos K i j < a * rowStart K K + rowStart K K := by omega
      _ = (a + 1) * rowStart K K := by ring
      _ ≤ L * rowStart K K := Nat.mul_le_mul_right _ ha
  · simp only [↓reduceIte] at h ⊢
    apply ofFn_congr
    intro i j a hi _ ha
    exact h _ (mul_add_lt ha hi)

theorem initAffFromInitial_used (assort : Bool) (init : Tens α) (d : Nat → α) :
    (initAffFromInitial assort init d).2 = if assort then init.T * init.R else init.T * init.R * init.R := by
  unfold initAffFromInitial; split <;> rfl

theorem initAffFromInitial_congr (assort : Bool) (init : Tens α) (d d' : Nat → α)
    (h : ∀ t, t < (initAffFromInitial assort init d).2 → d t = d' t) :
    (initAffFromInitial assort init d).1 = (initAffFromInitial assort init d').1 := by
  rw [initAffFromInitial_used] at h
  unfold initAffFromInitial
  cases assort
  · simp only [Bool.false_eq_true, ↓reduceIte] at h ⊢
    apply ofFn_congr
    intro k q a hk hq ha
    rw [h]
    have h1 : k * init.R + q < init.R * init.R := mul_add_lt hk hq
    calc a * init.R * init.R + k * init.R + q = a * (init.R * init.R) + (k * init.R + q) := by ring
      _ < a * (init.R * init.R) + init.R * init.R := by omega
      _ = (a + 1) * (init.R * init.R) := by ring
      _ ≤ init.T * (init.R * init.R) := Nat.mul_le_mul_right _ ha
      _ = init.T * init.R * init.R := by ring
  · simp only [↓reduceIte] at h ⊢
    apply ofFn_congr
    intro k _ a hk _ ha
    rw [h _ (mul_add_lt ha hk)]

theorem initRows_congr (N K : Nat) (elems : List Nat) (prev : Nat → Nat → α) (d d' : Nat → α)
    (h : ∀ t, t < K * elems.length → d t = d' t) :
    (initRows N K elems prev d).1 = (initRows N K elems prev d').1 := by
  unfold initRows
  dsimp only
  apply ofFn_congr
  intro j k _ _ hk _
  by_cases hj : j ∈ elems
  · simp only [hj, ↓reduceIte]
    apply h
    have : elems.idxOf j < elems.length := List.idxOf_lt_length_iff.mpr hj
    exact mul_add_lt hk this
  · simp only [hj, ↓reduceIte]

end

end MTProofs
