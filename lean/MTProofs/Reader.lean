/-
Lemmas about the character-level reader model (MT.Cli): tokens, lines, decimal numbers
(helper for C13's adjacency round-trip).
-/
import MT.Cli
import Mathlib.Data.List.Basic
import Mathlib.Tactic.Linarith
import Mathlib.Tactic.IntervalCases
import Mathlib.Data.List.TakeWhile

namespace MTProofs.Reader
open MT MT.Cli

/-! ### decimal digits -/

def digitChar (d : Nat) : Char := Char.ofNat ('0'.toNat + d)

/-- canonical decimal rendering -/
def digitsOf (n : Nat) : List Char :=
  if h : n < 10 then [digitChar n] else digitsOf (n / 10) ++ [digitChar (n % 10)]
termination_by n
decreasing_by omega

theorem digitChar_isDigit {d : Nat} (h : d < 10) : (digitChar d).isDigit = true := by
  interval_cases d <;> decide

theorem digitChar_val {d : Nat} (h : d < 10) : (digitChar d).toNat - '0'.toNat = d := by
  interval_cases d <;> decide

theorem digitChar_not_space {d : Nat} (h : d < 10) : isSpace (digitChar d) = false := by
  interval_cases d <;> decide

theorem digitsOf_ne_nil (n : Nat) : digitsOf n ≠ [] := by
  rw [digitsOf]; split <;> simp

theorem digitsOf_all_digit (n : Nat) : ∀ c ∈ digitsOf n, c.isDigit = true := by
  induction n using Nat.strong_induction_on with
  | _ n ih =>
    rw [digitsOf]
    split
    · rename_i h
      intro c hc
      simp only [List.mem_singleton] at hc
      rw [hc]; exact digitChar_isDigit h
    · intro c hc
      rcases List.mem_append.mp hc with h1 | h1
      · exact ih (n / 10) (by omega) c h1
      · simp only [List.mem_singleton] at h1
        rw [h1]; exact digitChar_isDigit (Nat.mod_lt _ (by omega))

theorem isNatL_digitsOf (n : Nat) : isNatL (digitsOf n) = true := by
  unfold isNatL
  simp only [Bool.and_eq_true, Bool.not_eq_eq_eq_not, Bool.not_true, List.isEmpty_eq_false_iff,
    List.all_eq_true]
  exact ⟨digitsOf_ne_nil n, digitsOf_all_digit n⟩

theorem natOfL_append_single (l : List Char) (c : Char) :
    natOfL (l ++ [c]) = natOfL l * 10 + (c.toNat - '0'.toNat) := by
  unfold natOfL
  rw [List.foldl_append]
  rfl

theorem natOfL_digitsOf (n : Nat) : natOfL (digitsOf n) = n := by
  induction n using Nat.strong_induction_on with
  | _ n ih =>
    rw [digitsOf]
    split
    · rename_i h
      show (0 * 10 + ((digitChar n).toNat - '0'.toNat)) = n
      rw [digitChar_val h]; omega
    · rw [natOfL_append_single, ih (n / 10) (by omega), digitChar_val (Nat.mod_lt _ (by omega))]
      omega

/-! ### tokens -/

/-- blank characters -/
def AllSpace (l : List Char) : Prop := ∀ c ∈ l, isSpace c = true
/-- token characters -/
def NoSpace (l : List Char) : Prop := ∀ c ∈ l, isSpace c = false

theorem tokensL_space_prefix (ws rest : List Char) (h : AllSpace ws) : tokensL (ws ++ rest) = tokensL rest := by
  induction ws with
  | nil => rfl
  | cons c cs ih =>
    have hc : isSpace c = true := h c (List.mem_cons_self)
    simp only [List.cons_append, tokensL, hc, ↓reduceIte]
    exact ih (fun d hd => h d (List.mem_cons_of_mem _ hd))

theorem tokensL_allSpace (ws : List Char) (h : AllSpace ws) : tokensL ws = [] := by
  have := tokensL_space_prefix ws [] h
  rw [List.append_nil] at this
  rw [this]; rfl

theorem tokensL_single {c : Char} (hc : isSpace c = false) : tokensL [c] = [[c]] := by
  rw [tokensL]; simp [hc]

theorem tokensL_cons_cons_space {c d : Char} (r : List Char) (hc : isSpace c = false) (hd : isSpace d = true) :
    tokensL (c :: d :: r) = [c] :: tokensL (d :: r) := by
  conv_lhs => rw [tokensL]
  simp [hc, hd]

theorem tokensL_cons_cons_tok {c d : Char} (r : List Char) (hc : isSpace c = false) (hd : isSpace d = false)
    (t : List Char) (ts : List (List Char)) (h : tokensL (d :: r) = t :: ts) :
    tokensL (c :: d :: r) = (c :: t) :: ts := by
  conv_lhs => rw [tokensL]
  simp [hc, hd, h]

/-- a token followed by a blank -/
theorem tokensL_tok_space (tok : List Char) (b : Char) (rest : List Char) (hne : tok ≠ [])
    (htok : NoSpace tok) (hb : isSpace b = true) :
    tokensL (tok ++ b :: rest) = tok :: tokensL (b :: rest) := by
  induction tok with
  | nil => exact absurd rfl hne
  | cons c cs ih =>
    have hc : isSpace c = false := htok c (List.mem_cons_self)
    cases cs with
    | nil =>
      rw [List.cons_append, List.nil_append, tokensL_cons_cons_space rest hc hb]
    | cons d ds =>
      have hd : isSpace d = false := htok d (List.mem_cons_of_mem _ (List.mem_cons_self))
      have ih' := ih (by simp) (fun x hx => htok x (List.mem_cons_of_mem _ hx))
      rw [List.cons_append] at ih'
      rw [List.cons_append, List.cons_append, tokensL_cons_cons_tok _ hc hd _ _ ih']

/-- a token at the end of the line -/
theorem tokensL_tok_end (tok : List Char) (hne : tok ≠ []) (htok : NoSpace tok) : tokensL tok = [tok] := by
  induction tok with
  | nil => exact absurd rfl hne
  | cons c cs ih =>
    have hc : isSpace c = false := htok c (List.mem_cons_self)
    cases cs with
    | nil => exact tokensL_single hc
    | cons d ds =>
      have hd : isSpace d = false := htok d (List.mem_cons_of_mem _ (List.mem_cons_self))
      have ih' := ih (by simp) (fun x hx => htok x (List.mem_cons_of_mem _ hx))
      rw [tokensL_cons_cons_tok _ hc hd _ _ ih']

/-- tokens of `tok₁ sep₁ tok₂ sep₂ … tokₙ trail` -/
def joinToks : List (List Char × List Char) → List Char
  | [] => []
  | (tok, sep) :: rest => tok ++ sep ++ joinToks rest

theorem tokensL_joinToks (items : List (List Char × List Char))
    (htok : ∀ p ∈ items, p.1 ≠ [] ∧ NoSpace p.1)
    (hsep : ∀ p ∈ items, AllSpace p.2)
    (hsepne : ∀ p ∈ items.dropLast, p.2 ≠ []) :
    tokensL (joinToks items) = items.map (·.1) := by
  induction items with
  | nil => rfl
  | cons p rest ih =>
    obtain ⟨tok, sep⟩ := p
    have ht := htok (tok, sep) (List.mem_cons_self)
    have hs : AllSpace sep := hsep (tok, sep) (List.mem_cons_self)
    have ihr : tokensL (joinToks rest) = rest.map (·.1) := by
      apply ih (fun q hq => htok q (List.mem_cons_of_mem _ hq)) (fun q hq => hsep q (List.mem_cons_of_mem _ hq))
      intro q hq
      apply hsepne q
      cases rest with
      | nil => simp at hq
      | cons r rs => simp only [List.dropLast_cons_cons]; exact List.mem_cons_of_mem _ hq
    simp only [joinToks, List.map_cons]
    cases sep with
    | nil =>
      -- only allowed for the last item
      cases rest with
      | nil => simp only [joinToks, List.append_nil, List.map_nil]; exact tokensL_tok_end tok ht.1 ht.2
      | cons r rs =>
        exact absurd rfl (hsepne (tok, []) (by simp [List.dropLast_cons_cons]))
    | cons b bs =>
      have hb : isSpace b = true := hs b (List.mem_cons_self)
      rw [List.append_assoc, List.cons_append, tokensL_tok_space tok b _ ht.1 ht.2 hb]
      congr 1
      rw [← List.cons_append, tokensL_space_prefix (b :: bs) _ hs]
      exact ihr

/-! ### lines -/

theorem splitOnNL_line (l : List Char) (rest : List Char) (h : ∀ c ∈ l, c ≠ '\n') :
    splitOnNL (l ++ '\n' :: rest) = l :: splitOnNL rest := by
  induction l with
  | nil => simp [splitOnNL]
  | cons c cs ih =>
    have hc : c ≠ '\n' := h c (List.mem_cons_self)
    rw [List.cons_append, splitOnNL, if_neg hc, ih (fun d hd => h d (List.mem_cons_of_mem _ hd))]

theorem splitOnNL_last (l : List Char) (h : ∀ c ∈ l, c ≠ '\n') : splitOnNL l = [l] := by
  induction l with
  | nil => rfl
  | cons c cs ih =>
    have hc : c ≠ '\n' := h c (List.mem_cons_self)
    rw [splitOnNL, if_neg hc, ih (fun d hd => h d (List.mem_cons_of_mem _ hd))]

/-- lines joined by line feeds -/
def joinLines : List (List Char) → List Char
  | [] => []
  | [l] => l
  | l :: ls => l ++ '\n' :: joinLines ls

theorem splitOnNL_joinLines (ls : List (List Char)) (hne : ls ≠ []) (h : ∀ l ∈ ls, ∀ c ∈ l, c ≠ '\n') :
    splitOnNL (joinLines ls) = ls := by
  induction ls with
  | nil => exact absurd rfl hne
  | cons l rest ih =>
    cases rest with
    | nil => exact splitOnNL_last l (h l (List.mem_cons_self))
    | cons r rs =>
      rw [show joinLines (l :: r :: rs) = l ++ '\n' :: joinLines (r :: rs) from rfl,
        splitOnNL_line l _ (h l (List.mem_cons_self)),
        ih (List.cons_ne_nil _ _) (fun x hx => h x (List.mem_cons_of_mem _ hx))]

/-- stripping trailing spaces keeps the line a prefix of itself, removing only spaces -/
theorem stripTrailingSpaces_spec (l : List Char) :
    ∃ sp, (∀ c ∈ sp, c = ' ') ∧ l = stripTrailingSpaces l ++ sp := by
  unfold stripTrailingSpaces
  refine ⟨(l.reverse.takeWhile (· = ' ')).reverse, ?_, ?_⟩
  · intro c hc
    rw [List.mem_reverse] at hc
    simpa using List.mem_takeWhile_imp hc
  · rw [← List.reverse_append, List.takeWhile_append_dropWhile, List.reverse_reverse]

end MTProofs.Reader

namespace MTProofs.Reader
open MT MT.Cli

theorem tokensL_ne_nil {d : Char} (r : List Char) (hd : isSpace d = false) : tokensL (d :: r) ≠ [] := by
  cases r with
  | nil => rw [tokensL_single hd]; simp
  | cons e es =>
    by_cases he : isSpace e = true
    · rw [tokensL_cons_cons_space es hd he]; simp
    · have he' : isSpace e = false := by simpa using he
      have ih := tokensL_ne_nil es he'
      cases h : tokensL (e :: es) with
      | nil => exact absurd h ih
      | cons t ts => rw [tokensL_cons_cons_tok es hd he' t ts h]; simp

/-- trailing blanks do not change the tokens of a line -/
theorem tokensL_append_space (x sp : List Char) (hsp : AllSpace sp) : tokensL (x ++ sp) = tokensL x := by
  induction x with
  | nil => rw [List.nil_append, tokensL_allSpace sp hsp]; rfl
  | cons c cs ih =>
    by_cases hc : isSpace c = true
    · have e1 : tokensL (c :: (cs ++ sp)) = tokensL (cs ++ sp) := tokensL_space_prefix [c] _ (by
        intro x hx; simp only [List.mem_singleton] at hx; rw [hx]; exact hc)
      have e2 : tokensL (c :: cs) = tokensL cs := tokensL_space_prefix [c] _ (by
        intro x hx; simp only [List.mem_singleton] at hx; rw [hx]; exact hc)
      rw [List.cons_append, e1, e2, ih]
    · have hc' : isSpace c = false := by simpa using hc
      cases cs with
      | nil =>
        cases sp with
        | nil => rfl
        | cons b bs =>
          have hb : isSpace b = true := hsp b (List.mem_cons_self)
          rw [List.cons_append, List.nil_append, tokensL_cons_cons_space bs hc' hb, tokensL_allSpace (b :: bs) hsp,
            tokensL_single hc']
      | cons d ds =>
        by_cases hd : isSpace d = true
        · rw [List.cons_append, List.cons_append, tokensL_cons_cons_space _ hc' hd, tokensL_cons_cons_space _ hc' hd]
          rw [List.cons_append] at ih
          rw [ih]
        · have hd' : isSpace d = false := by simpa using hd
          rw [List.cons_append] at ih
          cases h : tokensL (d :: ds) with
          | nil => exact absurd h (tokensL_ne_nil ds hd')
          | cons t ts =>
            rw [List.cons_append, List.cons_append, tokensL_cons_cons_tok _ hc' hd' t ts (by rw [ih, h]),
              tokensL_cons_cons_tok _ hc' hd' t ts h]

theorem tokensL_strip (l : List Char) : tokensL (stripTrailingSpaces l) = tokensL l := by
  obtain ⟨sp, hsp, hl⟩ := stripTrailingSpaces_spec l
  conv_rhs => rw [hl]
  rw [tokensL_append_space]
  intro c hc
  rw [hsp c hc]; decide

end MTProofs.Reader
