/-
The control part of `Solver::loop` (translated from solver.hpp on every run) is the model's `ctlStep`.
Any scalar type; core Lean only.
-/
import MT.Solver
import MT.Generated.SolverCode

set_option linter.unusedSectionVars false

namespace MT.CodeRefine
open MT MT.Gen

section
variable {α : Type} [Add α] [Sub α] [Mul α] [Div α] [LT α] [DecidableLT α] [MTExtra α]

/-- **`Solver::loop` after the update calls = `ctlStep`**: the counters it leaves and the reason it
returns are the model's, for every evaluation result `lNew`, every limit and every incoming state
(the local `L2_old` and the return slot may hold anything on entry) -/
theorem loopControlCode_refines (lNew : α) (nConv maxIt : Nat) (c : Ctl α) (junk : α) (r0 : Nat) :
    let s := loopControlCode lNew nConv maxIt ⟨c.iteration, c.coincide, c.L2, junk, r0⟩
    let m := ctlStep maxIt nConv c lNew
    s.iteration = m.1.iteration ∧ s.coincide = m.1.coincide ∧ s.L2 = m.1.L2 ∧ s.ret = m.2.code := by
  unfold loopControlCode ctlStep passes
  by_cases hev : c.iteration % 10 = 0
  · by_cases hp : MTExtra.abs (c.L2 - lNew) / MTExtra.abs c.L2 < MTExtra.epsLik
    · by_cases h1 : c.coincide + 1 = nConv
      · simp [hev, hp, h1, Reason.code]
      · by_cases h2 : c.iteration + 1 = maxIt <;> simp [hev, hp, h1, h2, Reason.code]
    · by_cases h1 : 0 = nConv
      · simp [hev, hp, h1, Reason.code]
      · by_cases h2 : c.iteration + 1 = maxIt <;> simp [hev, hp, h1, h2, Reason.code]
  · by_cases h1 : c.coincide = nConv
    · simp [hev, h1, Reason.code]
    · by_cases h2 : c.iteration + 1 = maxIt <;> simp [hev, h1, h2, Reason.code]

end
end MT.CodeRefine
