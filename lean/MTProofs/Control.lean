/-
Control automaton of the solver loop, independent of scalars (helper lemmas for C05, C06, C04).
-/
import MT.Main
import Mathlib.Tactic.Linarith
import Mathlib.Logic.Function.Iterate

namespace MTProofs
open MT

/-- Boolean version of `ctlStep`: `pass` is the outcome of the evaluation made in this sweep
(only looked at when `it % 10 = 0`) -/
def ctlB (maxIt nConv it co : Nat) (pass : Bool) : Nat × Nat × Reason :=
  let co' := if it % 10 = 0 then (if pass then co + 1 else 0) else co
  (it + 1, co',
    if co' = nConv then Reason.converged
    else if it + 1 = maxIt then Reason.maxIter else Reason.noTermination)

/-- the `while` loop over the Boolean automaton; `o m` = outcome of the m-th evaluation -/
def runB (maxIt nConv : Nat) (o : Nat → Bool) : Nat → Nat → Nat → Nat × Reason
  | 0, it, _ => (it, Reason.noTermination)
  | fuel + 1, it, co =>
    let r := ctlB maxIt nConv it co (o (it / 10))
    if r.2.2 = Reason.noTermination then runB maxIt nConv o fuel r.1 r.2.1 else (r.1, r.2.2)

/-- length of the run of consecutive passes ending with evaluation `n-1` -/
def streak (o : Nat → Bool) : Nat → Nat
  | 0 => 0
  | n + 1 => if o n then streak o n + 1 else 0

theorem streak_le (o : Nat → Bool) (n : Nat) : streak o n ≤ n := by
  induction n with
  | zero => simp [streak]
  | succ n ih => unfold streak; split <;> omega

/-- `k ≤ streak o n` iff the last `k` of the first `n` evaluations all passed -/
theorem le_streak_iff (o : Nat → Bool) (n k : Nat) :
    k ≤ streak o n ↔ k ≤ n ∧ ∀ t, t < k → o (n - 1 - t) = true := by
  induction n generalizing k with
  | zero =>
    simp only [streak, Nat.le_zero]
    constructor
    · rintro rfl; exact ⟨rfl, fun t ht => absurd ht (by omega)⟩
    · rintro ⟨h, _⟩; exact h
  | succ n ih =>
    unfold streak
    by_cases hn : o n = true
    · simp only [hn, ↓reduceIte]
      rcases Nat.eq_zero_or_pos k with rfl | hk
      · simp
      · have : k ≤ streak o n + 1 ↔ k - 1 ≤ streak o n := by omega
        rw [this, ih]
        constructor
        · rintro ⟨h1, h2⟩
          refine ⟨by omega, fun t ht => ?_⟩
          rcases Nat.eq_zero_or_pos t with rfl | htp
          · simpa using hn
          · have := h2 (t - 1) (by omega)
            have e : n - 1 - (t - 1) = n + 1 - 1 - t := by omega
            rw [e] at this; exact this
        · rintro ⟨h1, h2⟩
          refine ⟨by omega, fun t ht => ?_⟩
          have := h2 (t + 1) (by omega)
          have e : n + 1 - 1 - (t + 1) = n - 1 - t := by omega
          rw [e] at this; exact this
    · simp only [hn, Bool.false_eq_true, ↓reduceIte, Nat.le_zero]
      constructor
      · rintro rfl; exact ⟨by omega, fun t ht => absurd ht (by omega)⟩
      · rintro ⟨_, h2⟩
        by_contra hk
        have := h2 0 (by omega)
        simp at this
        exact hn this

/-- loop invariant: `co` is the current streak, below `nConv`, and no earlier evaluation
completed `nConv` consecutive passes -/
def InvB (nConv : Nat) (o : Nat → Bool) (it co : Nat) : Prop :=
  co = streak o ((it + 9) / 10) ∧ co < nConv ∧ ∀ m, m < (it + 9) / 10 → streak o (m + 1) < nConv

theorem invB_init {nConv : Nat} (o : Nat → Bool) (h : 1 ≤ nConv) : InvB nConv o 0 0 := by
  refine ⟨by simp [streak], by omega, fun m hm => absurd hm (by omega)⟩

/-- one sweep of the automaton under the invariant -/
theorem ctlB_step {maxIt nConv : Nat} (o : Nat → Bool) {it co : Nat} (hinv : InvB nConv o it co) :
    let r := ctlB maxIt nConv it co (o (it / 10))
    r.1 = it + 1 ∧ r.2.1 = streak o ((it + 1 + 9) / 10) ∧
    (it % 10 = 0 → r.2.1 = streak o (it / 10 + 1)) ∧
    (it % 10 ≠ 0 → r.2.1 = co) ∧ r.2.1 ≤ nConv := by
  obtain ⟨h1, h2, _⟩ := hinv
  simp only [ctlB]
  by_cases hev : it % 10 = 0
  · have e1 : (it + 9) / 10 = it / 10 := by omega
    have e2 : (it + 1 + 9) / 10 = it / 10 + 1 := by omega
    simp only [hev, ↓reduceIte, e2]
    have hs : (if o (it / 10) = true then co + 1 else 0) = streak o (it / 10 + 1) := by
      conv_rhs => unfold streak
      rw [h1, e1]
    refine ⟨trivial, hs, fun _ => hs, fun h => absurd rfl h, ?_⟩
    split <;> omega
  · have e2 : (it + 1 + 9) / 10 = (it + 9) / 10 := by omega
    simp only [hev, ↓reduceIte, e2]
    exact ⟨trivial, h1, fun h => absurd h (by simp), fun _ => trivial, by omega⟩

/-- (B) CONVERGED: if `m` is the first evaluation completing `nConv` consecutive passes and it
happens within the iteration budget, the loop stops right there, after sweep `10m+1` -/
theorem runB_converged {maxIt nConv : Nat} (o : Nat → Bool) (m : Nat)
    (hm : nConv ≤ streak o (m + 1)) (hmin : ∀ m', m' < m → streak o (m' + 1) < nConv)
    (hle : 10 * m + 1 ≤ maxIt) :
    ∀ fuel it co, fuel + it = maxIt → it ≤ 10 * m → InvB nConv o it co →
      runB maxIt nConv o fuel it co = (10 * m + 1, Reason.converged) := by
  intro fuel
  induction fuel with
  | zero => intro it co h1 h2 _; omega
  | succ fuel ih =>
    intro it co hf hit hinv
    have hstep := ctlB_step (maxIt := maxIt) o hinv
    simp only at hstep
    obtain ⟨s1, s2, s3, s4, s5⟩ := hstep
    unfold runB
    simp only
    rcases Nat.lt_or_eq_of_le hit with hlt | heq
    · -- before the deciding evaluation: no termination
      have hco : (ctlB maxIt nConv it co (o (it / 10))).2.1 < nConv := by
        by_cases hev : it % 10 = 0
        · rw [s3 hev]; exact hmin _ (by omega)
        · rw [s4 hev]; exact hinv.2.1
      have hr : (ctlB maxIt nConv it co (o (it / 10))).2.2 = Reason.noTermination := by
        have hne : (ctlB maxIt nConv it co (o (it / 10))).2.1 ≠ nConv := by omega
        simp only [ctlB] at hne ⊢
        rw [if_neg hne, if_neg (by omega)]
      rw [if_pos hr, s1]
      apply ih _ _ (by omega) (by omega)
      refine ⟨s2, hco, fun m' hm' => ?_⟩
      by_cases hev : it % 10 = 0
      · have : m' < it / 10 + 1 := by omega
        rcases Nat.lt_or_eq_of_le (Nat.lt_succ_iff.mp this) with h | h
        · exact hinv.2.2 m' (by omega)
        · subst h; exact hmin _ (by omega)
      · exact hinv.2.2 m' (by omega)
    · -- the deciding evaluation
      subst heq
      have hev : 10 * m % 10 = 0 := by omega
      have hd : 10 * m / 10 = m := by omega
      have hco : (ctlB maxIt nConv (10 * m) co (o (10 * m / 10))).2.1 = nConv := by
        have h3 := s3 hev
        have e3 : streak o (10 * m / 10 + 1) = streak o (m + 1) := by rw [hd]
        rw [e3] at h3
        omega
      have hr : (ctlB maxIt nConv (10 * m) co (o (10 * m / 10))).2.2 = Reason.converged := by
        simp only [ctlB] at hco ⊢
        rw [if_pos hco]
      rw [if_neg (by rw [hr]; decide), s1, hr]

/-- (A) MAX_ITER: if no evaluation within the budget completes `nConv` consecutive passes, exactly
`maxIt` sweeps are made -/
theorem runB_maxiter {maxIt nConv : Nat} (o : Nat → Bool)
    (hnone : ∀ m, 10 * m + 1 ≤ maxIt → streak o (m + 1) < nConv) :
    ∀ fuel it co, fuel + it = maxIt → 1 ≤ fuel → InvB nConv o it co →
      runB maxIt nConv o fuel it co = (maxIt, Reason.maxIter) := by
  intro fuel
  induction fuel with
  | zero => intro it co _ h; omega
  | succ fuel ih =>
    intro it co hf _ hinv
    have hstep := ctlB_step (maxIt := maxIt) o hinv
    simp only at hstep
    obtain ⟨s1, s2, s3, s4, s5⟩ := hstep
    unfold runB
    simp only
    have hco : (ctlB maxIt nConv it co (o (it / 10))).2.1 < nConv := by
      by_cases hev : it % 10 = 0
      · rw [s3 hev]; exact hnone _ (by omega)
      · rw [s4 hev]; exact hinv.2.1
    have hne : (ctlB maxIt nConv it co (o (it / 10))).2.1 ≠ nConv := by omega
    by_cases hlast : it + 1 = maxIt
    · have hr : (ctlB maxIt nConv it co (o (it / 10))).2.2 = Reason.maxIter := by
        simp only [ctlB] at hne ⊢
        rw [if_neg hne, if_pos hlast]
      rw [if_neg (by rw [hr]; decide), s1, hr, hlast]
    · have hr : (ctlB maxIt nConv it co (o (it / 10))).2.2 = Reason.noTermination := by
        simp only [ctlB] at hne ⊢
        rw [if_neg hne, if_neg hlast]
      rw [if_pos hr, s1]
      apply ih _ _ (by omega) (by omega)
      refine ⟨s2, hco, fun m' hm' => ?_⟩
      by_cases hev : it % 10 = 0
      · have : m' < it / 10 + 1 := by omega
        rcases Nat.lt_or_eq_of_le (Nat.lt_succ_iff.mp this) with h | h
        · exact hinv.2.2 m' (by omega)
        · subst h; exact hnone _ (by omega)
      · exact hinv.2.2 m' (by omega)

/-! ### the scalar loop of the model is this automaton -/

section scalar
variable {α : Type} [Add α] [Sub α] [Mul α] [Div α] [LT α] [DecidableLT α] [MTExtra α]
variable (assort : Bool) (K : Nat) (nv : NetView) (maxIt nConv : Nat)
  (evalL : Nat → State α → α) (s0 : State α)

/-- state after `n` sweeps -/
def traj (n : Nat) : State α := (sweep assort K nv)^[n] s0

/-- `Lseq 0 = lowest()`, `Lseq (m+1)` = value of the m-th evaluation: made in the sweep with
index `10m`, on the state after that sweep -/
def Lseq : Nat → α
  | 0 => MTExtra.lowest
  | m + 1 => evalL (10 * m) (traj assort K nv s0 (10 * m + 1))

/-- outcome of the m-th evaluation -/
def passSeq (m : Nat) : Bool :=
  passes (Lseq assort K nv evalL s0 m) (Lseq assort K nv evalL s0 (m + 1))

theorem traj_succ (n : Nat) : traj assort K nv s0 (n + 1) = sweep assort K nv (traj assort K nv s0 n) := by
  unfold traj; exact Function.iterate_succ_apply' _ _ _

/-- the model's `while` loop, projected to (iteration, reason), is `runB` driven by `passSeq`;
its final state is the trajectory at the number of sweeps made, and its `L2` is the value of the
last evaluation made -/
theorem runLoop_eq_runB :
    ∀ (fuel : Nat) (s : State α) (c : Ctl α),
      s = traj assort K nv s0 c.iteration →
      c.L2 = Lseq assort K nv evalL s0 ((c.iteration + 9) / 10) →
      let r := runLoop assort K nv maxIt nConv evalL fuel s c
      let b := runB maxIt nConv (passSeq assort K nv evalL s0) fuel c.iteration c.coincide
      r.2.1.iteration = b.1 ∧ r.2.2 = b.2 ∧ r.1 = traj assort K nv s0 b.1 ∧
        r.2.1.L2 = Lseq assort K nv evalL s0 ((b.1 + 9) / 10) := by
  intro fuel
  induction fuel with
  | zero =>
    intro s c hs hL
    simp only [runLoop, runB]
    exact ⟨trivial, trivial, hs, hL⟩
  | succ fuel ih =>
    intro s c hs hL
    -- one loopStep
    have hs' : sweep assort K nv s = traj assort K nv s0 (c.iteration + 1) := by
      rw [traj_succ, hs]
    have hl : c.iteration % 10 = 0 →
        evalL c.iteration (sweep assort K nv s) = Lseq assort K nv evalL s0 (c.iteration / 10 + 1) := by
      intro hev
      have e : c.iteration = 10 * (c.iteration / 10) := by omega
      conv_lhs => rw [hs', e]
      rfl
    -- its control part is ctlB
    obtain ⟨h1, h2, h3, h4⟩ :
        (loopStep assort K nv maxIt nConv evalL s c).2.1.iteration
            = (ctlB maxIt nConv c.iteration c.coincide (passSeq assort K nv evalL s0 (c.iteration / 10))).1 ∧
        (loopStep assort K nv maxIt nConv evalL s c).2.1.coincide
            = (ctlB maxIt nConv c.iteration c.coincide (passSeq assort K nv evalL s0 (c.iteration / 10))).2.1 ∧
        (loopStep assort K nv maxIt nConv evalL s c).2.2
            = (ctlB maxIt nConv c.iteration c.coincide (passSeq assort K nv evalL s0 (c.iteration / 10))).2.2 ∧
        (loopStep assort K nv maxIt nConv evalL s c).2.1.L2
            = Lseq assort K nv evalL s0 ((c.iteration + 1 + 9) / 10) := by
      simp only [loopStep, ctlStep, ctlB]
      by_cases hev : c.iteration % 10 = 0
      · have e1 : (c.iteration + 9) / 10 = c.iteration / 10 := by omega
        have e2 : (c.iteration + 1 + 9) / 10 = c.iteration / 10 + 1 := by omega
        have hp : passes c.L2 (evalL c.iteration (sweep assort K nv s))
            = passSeq assort K nv evalL s0 (c.iteration / 10) := by
          unfold passSeq; rw [hL, e1, hl hev]
        rw [if_pos hev, if_pos hev, if_pos hev, hp, e2, hl hev]
        refine ⟨?_, ?_, ?_, ?_⟩ <;> first | trivial | rfl
      · have e2 : (c.iteration + 1 + 9) / 10 = (c.iteration + 9) / 10 := by omega
        rw [if_neg hev, if_neg hev, if_neg hev, e2, hL]
        refine ⟨?_, ?_, ?_, ?_⟩ <;> first | trivial | rfl
    have h0 : (loopStep assort K nv maxIt nConv evalL s c).1 = traj assort K nv s0 (c.iteration + 1) := hs'
    have hb1 : (ctlB maxIt nConv c.iteration c.coincide (passSeq assort K nv evalL s0 (c.iteration / 10))).1
        = c.iteration + 1 := rfl
    unfold runLoop runB
    simp only
    by_cases hterm : (loopStep assort K nv maxIt nConv evalL s c).2.2 = Reason.noTermination
    · rw [if_pos hterm, if_pos (by rw [← h3]; exact hterm)]
      have := ih (loopStep assort K nv maxIt nConv evalL s c).1 (loopStep assort K nv maxIt nConv evalL s c).2.1
        (by rw [h0, h1, hb1]) (by rw [h4, h1, hb1])
      simp only at this
      rw [h1, h2] at this
      exact this
    · rw [if_neg hterm, if_neg (by rw [← h3]; exact hterm)]
      refine ⟨h1, h3, ?_, ?_⟩
      · rw [h0, hb1]
      · rw [h4, hb1]

end scalar

end MTProofs
