/-
Mass balance of the affinity M-step (helper for C09) and algebra of `gsum`.
-/
import MTProofs.Refine
import Mathlib.Algebra.BigOperators.Field

namespace MTProofs
open MT Finset

/-! ### algebra of `gsum` / `csum` -/

theorem gsum_congr (assort : Bool) (K : Nat) (f g : Nat → Nat → ℝ)
    (h : ∀ k q, k < K → q < K → f k q = g k q) : gsum assort K f = gsum assort K g := by
  unfold gsum
  cases assort
  · simp only [Bool.false_eq_true, ↓reduceIte]
    exact sum_congr rfl fun k hk => sum_congr rfl fun q hq => h k q (mem_range.mp hk) (mem_range.mp hq)
  · simp only [↓reduceIte]
    exact sum_congr rfl fun k hk => h k k (mem_range.mp hk) (mem_range.mp hk)

/-- congruence needing the diagonal only in the assortative case -/
theorem gsum_congr' (assort : Bool) (K : Nat) (f g : Nat → Nat → ℝ)
    (h : ∀ k q, k < K → q < K → (assort = true → k = q) → f k q = g k q) : gsum assort K f = gsum assort K g := by
  unfold gsum
  cases assort
  · simp only [Bool.false_eq_true, ↓reduceIte]
    exact sum_congr rfl fun k hk => sum_congr rfl fun q hq =>
      h k q (mem_range.mp hk) (mem_range.mp hq) (fun hc => absurd hc (by simp))
  · simp only [↓reduceIte]
    exact sum_congr rfl fun k hk => h k k (mem_range.mp hk) (mem_range.mp hk) (fun _ => rfl)

theorem gsum_add (assort : Bool) (K : Nat) (f g : Nat → Nat → ℝ) :
    gsum assort K (fun k q => f k q + g k q) = gsum assort K f + gsum assort K g := by
  unfold gsum
  cases assort <;> simp [sum_add_distrib]

theorem mul_gsum (assort : Bool) (K : Nat) (c : ℝ) (f : Nat → Nat → ℝ) :
    c * gsum assort K f = gsum assort K (fun k q => c * f k q) := by
  unfold gsum
  cases assort <;> simp [mul_sum]

theorem gsum_div (assort : Bool) (K : Nat) (c : ℝ) (f : Nat → Nat → ℝ) :
    gsum assort K f / c = gsum assort K (fun k q => f k q / c) := by
  unfold gsum
  cases assort <;> simp [sum_div]

theorem sum_gsum (assort : Bool) (K : Nat) (s : Finset Nat) (f : Nat → Nat → Nat → ℝ) :
    ∑ i ∈ s, gsum assort K (f i) = gsum assort K (fun k q => ∑ i ∈ s, f i k q) := by
  unfold gsum
  cases assort
  · simp only [Bool.false_eq_true, ↓reduceIte]
    rw [sum_comm]
    exact sum_congr rfl fun k _ => sum_comm
  · simp only [↓reduceIte]
    exact sum_comm

theorem gsum_zero (assort : Bool) (K : Nat) : gsum assort K (fun _ _ => 0) = 0 := by
  unfold gsum; cases assort <;> simp

theorem gsum_nonneg (assort : Bool) (K : Nat) (f : Nat → Nat → ℝ) (h : ∀ k q, k < K → q < K → 0 ≤ f k q) :
    0 ≤ gsum assort K f := by
  unfold gsum
  cases assort
  · simp only [Bool.false_eq_true, ↓reduceIte]
    exact sum_nonneg fun k hk => sum_nonneg fun q hq => h k q (mem_range.mp hk) (mem_range.mp hq)
  · simp only [↓reduceIte]
    exact sum_nonneg fun k hk => h k k (mem_range.mp hk) (mem_range.mp hk)

/-! ### sums over the vertex lists -/

/-- a sum over the source (target) list is the sum over all vertices when the rows outside the
list are zero -/
theorem sumL_support (l : List Nat) (N : Nat) (hnd : l.Nodup) (hl : ∀ i ∈ l, i < N) (f : Nat → ℝ)
    (hz : ∀ i, i < N → i ∉ l → f i = 0) : sumL l f = ∑ i ∈ range N, f i := by
  rw [sumL_adj l N hl]
  apply sum_congr rfl
  intro i hi
  by_cases hm : i ∈ l
  · rw [List.count_eq_one_of_mem hnd hm]; simp
  · rw [List.count_eq_zero_of_not_mem hm, hz i (mem_range.mp hi) hm]; simp

/-! ### mass balance -/

section
variable (assort : Bool) (K N : Nat) (uList vList : List Nat) (out : Nat → Nat → List Nat)
  (u v : Nat → Nat → ℝ) (w : Nat → Nat → Nat → ℝ) (a : Nat)

/-- value of entry `(k,q)` before truncation -/
noncomputable def rawW (k q : Nat) : ℝ :=
  w k q a / specWZ uList vList u v k q * specWAcc assort K N out u v w k q a

/-- mass of the entries snapped to zero in this step: `Σ Du_k Dv_q · (value before truncation)` -/
noncomputable def snappedMass : ℝ :=
  gsum assort K fun k q =>
    if ε < specWZ uList vList u v k q ∧ ε < w k q a ∧ |rawW assort K N uList vList out u v w a k q| < ε then
      specWZ uList vList u v k q * rawW assort K N uList vList out u v w a k q
    else 0

/-- the affinity after the step, as an accessor -/
noncomputable def newW : Nat → Nat → Nat → ℝ :=
  fun k q a' => specWEntry assort K N uList vList out u v w k q a'

theorem sum_rate (wf : Nat → Nat → Nat → ℝ)
    (hU : ∀ k, sumL uList (fun i => u i k) = ∑ i ∈ range N, u i k)
    (hV : ∀ q, sumL vList (fun j => v j q) = ∑ j ∈ range N, v j q) :
    ∑ i ∈ range N, ∑ j ∈ range N, rate assort K wf v u i j a =
      gsum assort K fun k q => wf k q a * specWZ uList vList u v k q := by
  unfold rate
  simp_rw [sum_gsum]
  apply gsum_congr
  intro k q _ _
  unfold specWZ
  rw [hU, hV, sum_mul_sum, mul_sum]
  apply sum_congr rfl; intro i _
  rw [mul_sum]
  apply sum_congr rfl; intro j _
  ring

/-- **mass balance** (exact form of "up to the mass of entries snapped to zero") -/
theorem mass_balance
    (hU : ∀ k, sumL uList (fun i => u i k) = ∑ i ∈ range N, u i k)
    (hV : ∀ q, sumL vList (fun j => v j q) = ∑ j ∈ range N, v j q)
    (hRates : ∀ i j, i < N → j < N → 0 < (out a i).count j → ε < rate assort K w v u i j a)
    (hW : ∀ k q, k < K → q < K → w k q a = 0 ∨ ε < w k q a)
    (hZ : ∀ k q, k < K → q < K → 0 < w k q a → ε < specWZ uList vList u v k q) :
    (∑ i ∈ range N, ∑ j ∈ range N,
        rate assort K (newW assort K N uList vList out u v w) v u i j a)
      + snappedMass assort K N uList vList out u v w a
      = ∑ i ∈ range N, ∑ j ∈ range N, ((out a i).count j : ℝ) := by
  rw [sum_rate assort K N uList vList u v a _ hU hV]
  unfold snappedMass
  rw [← gsum_add]
  -- per (k,q) identity
  have key : ∀ k q, k < K → q < K →
      newW assort K N uList vList out u v w k q a * specWZ uList vList u v k q +
        (if ε < specWZ uList vList u v k q ∧ ε < w k q a ∧ |rawW assort K N uList vList out u v w a k q| < ε then
          specWZ uList vList u v k q * rawW assort K N uList vList out u v w a k q else 0)
      = ∑ i ∈ range N, ∑ j ∈ range N, ((out a i).count j : ℝ) *
          (u i k * v j q * w k q a / rate assort K w v u i j a) := by
    intro k q hk hq
    rcases hW k q hk hq with h0 | hpos
    · have hn : ¬ ε < w k q a := by rw [h0]; exact not_lt.mpr eps_pos.le
      have h1 : newW assort K N uList vList out u v w k q a = 0 := by
        unfold newW specWEntry
        rw [if_neg (fun hc => hn hc.2)]; exact h0
      rw [h1, if_neg (fun hc => hn hc.2.1), h0]
      simp
    · have hZ' := hZ k q hk hq (lt_trans eps_pos hpos)
      have hZne : specWZ uList vList u v k q ≠ 0 := (lt_trans eps_pos hZ').ne'
      have hraw : rawW assort K N uList vList out u v w a k q * specWZ uList vList u v k q
          = ∑ i ∈ range N, ∑ j ∈ range N, ((out a i).count j : ℝ) *
              (u i k * v j q * w k q a / rate assort K w v u i j a) := by
        unfold rawW specWAcc
        rw [mul_assoc, mul_comm (∑ i ∈ range N, _) _, ← mul_assoc, div_mul_cancel₀ _ hZne, mul_sum]
        apply sum_congr rfl; intro i hi
        rw [mul_sum, mul_sum]
        apply sum_congr rfl; intro j hj
        rcases Nat.eq_zero_or_pos ((out a i).count j) with hA | hA
        · simp [hA]
        · rw [if_pos (hRates i j (mem_range.mp hi) (mem_range.mp hj) hA)]; ring
      by_cases hs : |rawW assort K N uList vList out u v w a k q| < ε
      · have : newW assort K N uList vList out u v w k q a = 0 := by
          simp only [newW, specWEntry, hZ', hpos, and_self, ↓reduceIte, snapR]
          exact if_pos hs
        rw [this, if_pos ⟨hZ', hpos, hs⟩, ← hraw]; ring
      · have : newW assort K N uList vList out u v w k q a = rawW assort K N uList vList out u v w a k q := by
          simp only [newW, specWEntry, hZ', hpos, and_self, ↓reduceIte, snapR]
          exact if_neg hs
        rw [this, if_neg (by intro hc; exact hs hc.2.2), ← hraw]; ring
  rw [gsum_congr assort K _ _ key, ← sum_gsum]
  apply sum_congr rfl; intro i hi
  rw [← sum_gsum]
  apply sum_congr rfl; intro j hj
  rcases Nat.eq_zero_or_pos ((out a i).count j) with hA | hA
  · simp [hA, gsum_zero]
  · have hM : rate assort K w v u i j a ≠ 0 :=
      (lt_trans eps_pos (hRates i j (mem_range.mp hi) (mem_range.mp hj) hA)).ne'
    rw [← mul_gsum, ← gsum_div]
    have : gsum assort K (fun k q => u i k * v j q * w k q a) = rate assort K w v u i j a := rfl
    rw [this, div_self hM, mul_one]

end

end MTProofs
