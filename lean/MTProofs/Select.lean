/-
Selection of the best realization and the report (helper lemmas for C04, C07, C17).
`runAll` is a left fold over `List.range r`; everything about it is an induction over `r`.
-/
import MT.Main
import Mathlib.Order.Defs.LinearOrder
import Mathlib.Tactic.Linarith

namespace MTProofs
open MT

section
variable {α : Type} [Add α] [Sub α] [Mul α] [Div α] [LT α] [DecidableLT α] [MTExtra α]
variable (assort : Bool) (ik : InitKind) (K N : Nat) (nv : NetView) (maxIt nConv : Nat)
  (evalL : Nat → Nat → State α → α) (userW : Tens α) (d : Nat → α)

/-- outcome of realization `i` when the stream is at position `pos` -/
def outAt (i pos : Nat) : RealOut α :=
  runRealization assort ik K N nv maxIt nConv (evalL i) userW (fun t => d (pos + t))

/-- stream position at the start of realization `i` -/
def posSeq : Nat → Nat
  | 0 => 0
  | i + 1 => posSeq i + (outAt assort ik K N nv maxIt nConv evalL userW d i (posSeq i)).used

/-- outcome of realization `i` of the call -/
def outcomeOf (i : Nat) : RealOut α :=
  outAt assort ik K N nv maxIt nConv evalL userW d i (posSeq assort ik K N nv maxIt nConv evalL userW d i)

/-- what is swapped into the caller's containers when realization `o` is adopted: in undirected
mode the in-membership container is not touched -/
def adoptState (prior : State α) (o : RealOut α) : State α :=
  if nv.directed then o.final else { o.final with v := prior.v }

theorem runAll_succ (r : Nat) (prior : State α) :
    runAll assort ik K N nv (r + 1) maxIt nConv evalL userW d prior =
      runOne assort ik K N nv maxIt nConv evalL userW d
        (runAll assort ik K N nv r maxIt nConv evalL userW d prior) r := by
  unfold runAll
  rw [List.range_succ, List.foldl_append]
  rfl

theorem runAll_zero (prior : State α) :
    runAll assort ik K N nv 0 maxIt nConv evalL userW d prior =
      { best := prior, report := ⟨[], [], []⟩, pos := 0, adopted := [] } := rfl

/-- the in-membership container of `best` is the caller's whenever the run is undirected -/
theorem runAll_v_undirected (hdir : nv.directed = false) (prior : State α) (r : Nat) :
    (runAll assort ik K N nv r maxIt nConv evalL userW d prior).best.v = prior.v := by
  induction r with
  | zero => rfl
  | succ r ih =>
    rw [runAll_succ]
    unfold runOne
    simp only [hdir, Bool.false_eq_true, ↓reduceIte]
    split
    · rw [ih]
    · exact ih

/-- stream position and report after `r` realizations -/
theorem runAll_report (prior : State α) (r : Nat) :
    let a := runAll assort ik K N nv r maxIt nConv evalL userW d prior
    let O := outcomeOf assort ik K N nv maxIt nConv evalL userW d
    a.pos = posSeq assort ik K N nv maxIt nConv evalL userW d r ∧
    a.report.L2s = (List.range r).map (fun i => (O i).L2) ∧
    a.report.iters = (List.range r).map (fun i => (O i).iters) ∧
    a.report.reasons = (List.range r).map (fun i => (O i).reason) := by
  induction r with
  | zero => exact ⟨rfl, rfl, rfl, rfl⟩
  | succ r ih =>
    simp only at ih ⊢
    obtain ⟨h1, h2, h3, h4⟩ := ih
    rw [runAll_succ]
    simp only [runOne, List.range_succ, List.map_append, List.map_cons, List.map_nil]
    refine ⟨?_, ?_, ?_, ?_⟩
    · rw [h1]; rfl
    · rw [h2, h1]; rfl
    · rw [h3, h1]; rfl
    · rw [h4, h1]; rfl

/-- what one more realization does to `best` -/
theorem runAll_best_succ (prior : State α) (r : Nat) :
    let a := runAll assort ik K N nv r maxIt nConv evalL userW d prior
    let o := outcomeOf assort ik K N nv maxIt nConv evalL userW d r
    (runAll assort ik K N nv (r + 1) maxIt nConv evalL userW d prior).best =
      if maxL2 a.report.L2s < o.L2 then adoptState nv a.best o else a.best := by
  intro a o
  show (runAll assort ik K N nv (r + 1) maxIt nConv evalL userW d prior).best = _
  rw [runAll_succ]
  have hp : (runAll assort ik K N nv r maxIt nConv evalL userW d prior).pos =
      posSeq assort ik K N nv maxIt nConv evalL userW d r :=
    (runAll_report assort ik K N nv maxIt nConv evalL userW d prior r).1
  simp only [a, o, runOne, outcomeOf, outAt, adoptState, hp, decide_eq_true_eq]

end

/-! ### with a linear order on the likelihood values -/

section linear
variable {α : Type} [LinearOrder α] [MTExtra α]

theorem maxL2_nil : maxL2 ([] : List α) = MTExtra.lowest := rfl

theorem maxL2_singleton (x : α) : maxL2 [x] = x := rfl

theorem maxL2_append_singleton (l : List α) (hl : l ≠ []) (x : α) :
    maxL2 (l ++ [x]) = if maxL2 l < x then x else maxL2 l := by
  cases l with
  | nil => exact absurd rfl hl
  | cons y ys =>
    show List.foldl (fun best y => if best < y then y else best) y (ys ++ [x]) = _
    rw [List.foldl_append]
    rfl

omit [MTExtra α] in
theorem foldMax_spec (x : α) (xs : List α) :
    List.foldl (fun best y => if best < y then y else best) x xs ∈ x :: xs ∧
    ∀ y ∈ x :: xs, y ≤ List.foldl (fun best y => if best < y then y else best) x xs := by
  induction xs generalizing x with
  | nil => simp
  | cons z zs ih =>
    simp only [List.foldl_cons]
    by_cases h : x < z
    · rw [if_pos h]
      obtain ⟨hm, hub⟩ := ih z
      refine ⟨List.mem_cons_of_mem _ hm, fun y hy => ?_⟩
      rcases List.mem_cons.mp hy with rfl | hy
      · exact le_trans (le_of_lt h) (hub z (by simp))
      · exact hub y hy
    · rw [if_neg h]
      obtain ⟨hm, hub⟩ := ih x
      refine ⟨?_, fun y hy => ?_⟩
      · rcases List.mem_cons.mp hm with h1 | h1
        · rw [h1]; simp
        · exact List.mem_cons_of_mem _ (List.mem_cons_of_mem _ h1)
      · rcases List.mem_cons.mp hy with rfl | hy
        · exact hub _ (by simp)
        · rcases List.mem_cons.mp hy with rfl | hy
          · exact le_trans (not_lt.mp h) (hub x (by simp))
          · exact hub y (List.mem_cons_of_mem _ hy)

/-- `maxL2` of a non-empty list is an element that bounds all the others -/
theorem maxL2_spec (l : List α) (hl : l ≠ []) : maxL2 l ∈ l ∧ ∀ y ∈ l, y ≤ maxL2 l := by
  cases l with
  | nil => exact absurd rfl hl
  | cons x xs => exact foldMax_spec x xs

end linear

end MTProofs
