/-
Refinement of the *translated C++ loop nests* (MT/Generated/SolverCode.lean, rewritten from
solver.hpp on every run by tools/cxx2lean.py) to the model's entry formulas (MT/Solver.lean).

Everything here is proved for an arbitrary scalar type with the bare operations — no algebraic law
is used, only the structure of the loops — so the statements hold for `Float` (the instance that
is compared with the C++ on every run) exactly as they hold for `ℝ` (the instance the property
theorems are about).  Core Lean only.
-/
import MT.Solver
import MT.Generated.SolverCode

set_option linter.unusedSectionVars false
set_option linter.unusedVariables false

namespace MT.CodeRefine
open MT MT.Imp MT.Gen

section
variable {α : Type} [Add α] [Sub α] [Mul α] [Div α] [LT α] [DecidableLT α] [MTExtra α]

/-! ### generic facts about folds -/

theorem foldl_proj {S T ι : Type} (p : S → T) (f : S → ι → S) (h : T → ι → T)
    (hp : ∀ s i, p (f s i) = h (p s) i) (l : List ι) (s : S) :
    p (l.foldl f s) = l.foldl h (p s) := by
  induction l generalizing s with
  | nil => rfl
  | cons x xs ih => simp only [List.foldl_cons]; rw [ih, hp]

/-- accumulate `f` over `l` starting from `a0`, in list order (`acc += f i`) -/
def accL {ι : Type} (l : List ι) (f : ι → α) (a0 : α) : α := l.foldl (fun a i => a + f i) a0

theorem sumL_eq_accL {ι : Type} (l : List ι) (f : ι → α) : sumL l f = accL l f MTExtra.zero := rfl

theorem foldl_const {ι β : Type} (l : List ι) (b : β) : l.foldl (fun x _ => x) b = b := by
  induction l with
  | nil => rfl
  | cons x xs ih => simpa using ih

/-- writes `M(i,k) = val i` for the `i` of a list that pass a test: the result, entry by entry -/
theorem foldl_setAt2 (l : List Nat) (c : Nat → Prop) [DecidablePred c] (val : Nat → α) (k : Nat)
    (m0 : Nat → Nat → α) (i' k' : Nat) :
    (l.foldl (fun m i => if c i then setAt2 m i k (val i) else m) m0) i' k'
      = if k' = k ∧ i' ∈ l ∧ c i' then val i' else m0 i' k' := by
  induction l generalizing m0 with
  | nil => simp
  | cons x xs ih =>
    simp only [List.foldl_cons, ih, List.mem_cons]
    by_cases hk : k' = k
    · by_cases hx : i' = x
      · subst hx
        by_cases hc : c i'
        · by_cases hm : i' ∈ xs <;> simp [hk, hc, hm, setAt2]
        · simp [hk, hc]
      · by_cases hc : c x <;> simp [hk, hx, hc, setAt2]
    · by_cases hc : c x <;> simp [hk, hc, setAt2]

/-- one column after the other: `for k < K: for i …: M(i,k) = …` -/
theorem foldl_columns (K : Nat) (P : Nat → Nat → Prop) [∀ i k, Decidable (P i k)] (V : Nat → Nat → α)
    (m0 : Nat → Nat → α) (i' k' : Nat) :
    ((List.range K).foldl (fun m k => fun i k'' => if k'' = k ∧ P i k then V i k else m i k'') m0) i' k'
      = if k' < K ∧ P i' k' then V i' k' else m0 i' k' := by
  induction K with
  | zero => simp
  | succ n ih =>
    rw [List.range_succ, List.foldl_append]
    simp only [List.foldl_cons, List.foldl_nil, ih]
    by_cases hk : k' = n
    · subst hk
      by_cases hp : P i' k' <;> simp [hp]
    · by_cases hlt : k' < n
      · have : k' < n + 1 := by omega
        simp [hk, hlt, this]
      · have : ¬ k' < n + 1 := by omega
        simp [hk, hlt, this]

theorem foldl_pair_const {ι A B : Type} (l : List ι) (g : A → B → ι → B) (a : A) (b : B) :
    l.foldl (fun (p : A × B) i => (p.1, g p.1 p.2 i)) (a, b) = (a, l.foldl (fun b i => g a b i) b) := by
  induction l generalizing b with
  | nil => rfl
  | cons x xs ih => simp only [List.foldl_cons]; rw [ih]

/-- `for t < n: for x with sel x = t and P t x: m x = V t x` — the result, point by point -/
theorem foldl_select {X : Type} (n : Nat) (sel : X → Nat) (P : Nat → X → Prop) [∀ t x, Decidable (P t x)]
    (V : Nat → X → α) (m0 : X → α) (x : X) :
    ((List.range n).foldl (fun m t => fun x => if sel x = t ∧ P t x then V t x else m x) m0) x
      = if sel x < n ∧ P (sel x) x then V (sel x) x else m0 x := by
  induction n with
  | zero => simp
  | succ n ih =>
    rw [List.range_succ, List.foldl_append]
    simp only [List.foldl_cons, List.foldl_nil, ih]
    by_cases hk : sel x = n
    · by_cases hp : P n x <;> simp [hk, hp]
    · by_cases hlt : sel x < n
      · have : sel x < n + 1 := by omega
        simp [hk, hlt, this]
      · have : ¬ sel x < n + 1 := by omega
        simp [hk, hlt, this]

/-- the two-index view of the affinity that the assortative branch reads: `w(k,a)` -/
abbrev diag2 (wf : Nat → Nat → Nat → α) : Nat → Nat → α := fun k a => wf k k a

theorem setAt2_self (f : Nat → Nat → α) (i k : Nat) (x : α) : setAt2 f i k x i k = x := by
  simp [setAt2]

theorem setAt2_setAt2 (f : Nat → Nat → α) (i k : Nat) (x y : α) :
    setAt2 (setAt2 f i k x) i k y = setAt2 f i k y := by
  funext i' k'; by_cases h : i' = i ∧ k' = k <;> simp [setAt2, h]

end
end MT.CodeRefine
