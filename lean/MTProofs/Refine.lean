/-
Refinement of the loop-order entry formulas of the solver model (MT.Solver, at ℝ) to the
paper-form equations with dense multiplicities (helper for C02, C06, C09, C10, C01).
-/
import MTProofs.RealScalar
import MTProofs.Tensor

namespace MTProofs
open MT Finset

/-! ### paper-form building blocks -/

/-- `Σ_{(k,q)} f k q` over all group pairs (general) or the diagonal (assortative) -/
noncomputable def gsum (assort : Bool) (K : Nat) (f : Nat → Nat → ℝ) : ℝ :=
  if assort then ∑ k ∈ range K, f k k else ∑ k ∈ range K, ∑ q ∈ range K, f k q

/-- `Σ_q f q` over all groups (general) or `q = k` only (assortative) -/
noncomputable def csum (assort : Bool) (K k : Nat) (f : Nat → ℝ) : ℝ :=
  if assort then f k else ∑ q ∈ range K, f q

/-- the documented truncation -/
noncomputable def snapR (x : ℝ) : ℝ := if |x| < ε then 0 else x

theorem snap_eq (x : ℝ) : snap x = snapR x := rfl

theorem gsum_eq_sumL (assort : Bool) (K : Nat) (f : Nat → Nat → ℝ) :
    sumL (gpairs assort K) (fun p => f p.1 p.2) = gsum assort K f := by
  rw [sumL_gpairs]; rfl

theorem csum_eq_sumL (assort : Bool) (K k : Nat) (f : Nat → ℝ) :
    sumL (cols assort K k) f = csum assort K k f := by
  rw [sumL_cols]; rfl

/-! ### membership update -/

section vertices
variable (assort : Bool) (K L N : Nat) (numList denList : List Nat)
  (nbr : Nat → Nat → List Nat) (wf : Nat → Nat → Nat → ℝ) (Y X : Nat → Nat → ℝ)

/-- model rate `M_{ij}^a = Σ_{(m,l)} X_{im} Y_{jl} ω_{ml}^a` -/
noncomputable def rate (i j a : Nat) : ℝ := gsum assort K fun m l => X i m * Y j l * wf m l a

/-- normalisation `Z_k = Σ_l (Σ_a ω_{kl}^a)(Σ_{j∈D} Y_{jl})` -/
noncomputable def specZ (k : Nat) : ℝ :=
  csum assort K k fun l => (∑ a ∈ range L, wf k l a) * sumL denList (fun j => Y j l)

/-- numerator `Σ_a Σ_j B_{ij}^a [M>ε] (Σ_q Y_{jq} ω_{kq}^a) / M_{ij}^a` with `B` the multiplicity -/
noncomputable def specVal (i k : Nat) : ℝ :=
  ∑ a ∈ range L, ∑ j ∈ range N, ((nbr a i).count j : ℝ) *
    (if ε < rate assort K wf Y X i j a then
      csum assort K k (fun q => Y j q * wf k q a) / rate assort K wf Y X i j a else 0)

/-- the published multiplicative update with the documented guards and truncation -/
noncomputable def specVEntry (i k : Nat) : ℝ :=
  if ε < specZ assort K L denList wf Y k ∧ i ∈ numList ∧ ε < X i k then
    snapR (X i k / specZ assort K L denList wf Y k * specVal assort K L N nbr wf Y X i k)
  else X i k

theorem vZ_eq (k : Nat) : vZ assort K L denList wf Y k = specZ assort K L denList wf Y k := by
  unfold vZ specZ
  rw [csum_eq_sumL]
  congr 1
  funext l
  rw [sumL_range]

theorem vZij_eq (i j a : Nat) : vZij assort K wf Y X i j a = rate assort K wf Y X i j a := by
  unfold vZij rate
  exact gsum_eq_sumL assort K (fun m l => X i m * Y j l * wf m l a)

theorem vRho_eq (i k j a : Nat) :
    vRho assort K wf Y X i k j a =
      csum assort K k (fun q => Y j q * wf k q a) / rate assort K wf Y X i j a := by
  unfold vRho
  rw [vZij_eq, csum_eq_sumL]

theorem vVal_eq (hN : ∀ a i, ∀ j ∈ nbr a i, j < N) (i k : Nat) :
    vVal assort K L nbr wf Y X i k = specVal assort K L N nbr wf Y X i k := by
  unfold vVal specVal edgePairs
  rw [sumL_filter, sumL_flatMap, sumL_range]
  apply sum_congr rfl
  intro a _
  rw [sumL_map, sumL_adj _ N (hN a i)]
  apply sum_congr rfl
  intro j _
  simp only [vZij_eq, vRho_eq, decide_eq_true_eq]

/-- **C02, membership step**: the loop-order entry formula is the published update -/
theorem updVEntry_eq_spec (hN : ∀ a i, ∀ j ∈ nbr a i, j < N) (i k : Nat) :
    updVEntry assort K L numList denList nbr wf Y X i k =
      specVEntry assort K L N numList denList nbr wf Y X i k := by
  unfold updVEntry specVEntry
  rw [vZ_eq, vVal_eq assort K L N nbr wf Y X hN]
  rfl

end vertices

/-! ### affinity update -/

section affinity
variable (assort : Bool) (K L N : Nat) (uList vList : List Nat)
  (out : Nat → Nat → List Nat) (u v : Nat → Nat → ℝ) (w : Nat → Nat → Nat → ℝ)

/-- `Z_{kq} = (Σ_{i∈U} u_{ik})(Σ_{j∈V} v_{jq})` -/
noncomputable def specWZ (k q : Nat) : ℝ := sumL uList (fun i => u i k) * sumL vList (fun j => v j q)

/-- numerator `Σ_i Σ_j A_{ij}^a [M>ε] u_{ik} v_{jq} / M_{ij}^a` (as the code groups it) -/
noncomputable def specWAcc (k q a : Nat) : ℝ :=
  ∑ i ∈ range N, u i k * ∑ j ∈ range N, ((out a i).count j : ℝ) *
    (if ε < rate assort K w v u i j a then v j q / rate assort K w v u i j a else 0)

/-- the published multiplicative update of the affinity -/
noncomputable def specWEntry (k q a : Nat) : ℝ :=
  if ε < specWZ uList vList u v k q ∧ ε < w k q a then
    snapR (w k q a / specWZ uList vList u v k q * specWAcc assort K N out u v w k q a)
  else w k q a

theorem wZij_eq (i j a : Nat) : wZij assort K u v w i j a = rate assort K w v u i j a := by
  unfold wZij rate
  exact gsum_eq_sumL assort K (fun m l => u i m * v j l * w m l a)

theorem wAcc_eq (hN : ∀ a i, ∀ j ∈ out a i, j < N) (k q a : Nat) :
    wAcc assort K N out u v w k q a = specWAcc assort K N out u v w k q a := by
  unfold wAcc specWAcc wRho
  rw [sumL_range]
  apply sum_congr rfl
  intro i _
  congr 1
  rw [sumL_filter, sumL_adj _ N (hN a i)]
  apply sum_congr rfl
  intro j _
  simp only [wZij_eq, decide_eq_true_eq]

/-- **C02, affinity step** -/
theorem updWEntry_eq_spec (hN : ∀ a i, ∀ j ∈ out a i, j < N) (k q a : Nat) :
    updWEntry assort K N uList vList out u v w k q a =
      specWEntry assort K N uList vList out u v w k q a := by
  unfold updWEntry specWEntry
  rw [wAcc_eq assort K N out u v w hN]
  rfl

end affinity

end MTProofs
