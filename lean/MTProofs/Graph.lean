/-
Lemmas about the network model (MT.Graph): first-appearance indexing, multiplicities,
relabelling, orientation in undirected mode.  Helper file for C08, C11, C12, C03, C16.
-/
import MT.Solver
import Mathlib.Data.List.Basic
import Mathlib.Data.List.Nodup
import Mathlib.Data.Finset.Card
import Mathlib.Tactic.Linarith

namespace MTProofs
open MT

section firstApp
variable {β : Type} [DecidableEq β]

theorem mem_firstApp {l : List β} {x : β} : x ∈ firstApp l ↔ x ∈ l := by
  induction l with
  | nil => simp [firstApp]
  | cons y ys ih =>
    simp only [firstApp, List.mem_cons, List.mem_filter, ih, decide_eq_true_eq]
    constructor
    · rintro (h | ⟨h, _⟩)
      · exact Or.inl h
      · exact Or.inr h
    · rintro (h | h)
      · exact Or.inl h
      · by_cases hxy : x = y
        · exact Or.inl hxy
        · exact Or.inr ⟨h, hxy⟩

theorem firstApp_nodup (l : List β) : (firstApp l).Nodup := by
  induction l with
  | nil => simp [firstApp]
  | cons y ys ih =>
    simp only [firstApp, List.nodup_cons, List.mem_filter, decide_eq_true_eq, not_and, not_not]
    refine ⟨?_, ih.filter _⟩
    first | trivial | (intro _; rfl) | simp

/-- `firstApp` commutes with removing a value -/
theorem firstApp_filter_ne (l : List β) (x : β) :
    firstApp (l.filter (· ≠ x)) = (firstApp l).filter (· ≠ x) := by
  induction l with
  | nil => simp [firstApp]
  | cons y ys ih =>
    by_cases hyx : y = x
    · subst hyx
      simp only [ne_eq, not_true_eq_false, decide_false, Bool.false_eq_true, not_false_eq_true,
        List.filter_cons_of_neg, firstApp, ih, List.filter_filter, Bool.and_self]
    · simp only [ne_eq, hyx, not_false_eq_true, decide_true, List.filter_cons_of_pos, firstApp, ih,
        List.filter_filter]
      congr 1
      apply List.filter_congr
      intro z _
      simp only [Bool.and_comm]

/-- characterisation as "keep the first occurrence of every value" -/
theorem firstApp_cons (x : β) (xs : List β) :
    firstApp (x :: xs) = x :: firstApp (xs.filter (· ≠ x)) := by
  rw [firstApp_filter_ne]; rfl

/-- an injective relabelling commutes with `firstApp` -/
theorem firstApp_map {γ : Type} [DecidableEq γ] (f : β → γ) (hf : Function.Injective f) (l : List β) :
    firstApp (l.map f) = (firstApp l).map f := by
  induction l with
  | nil => simp [firstApp]
  | cons y ys ih =>
    simp only [List.map_cons, firstApp, ih, List.filter_map, List.cons.injEq, true_and]
    congr 1
    apply List.filter_congr
    intro z _
    simp only [Function.comp, ne_eq, decide_not, hf.eq_iff]

theorem idxOf_map {γ : Type} [DecidableEq γ] (f : β → γ) (hf : Function.Injective f) (l : List β) (x : β) :
    (l.map f).idxOf (f x) = l.idxOf x := by
  induction l with
  | nil => simp
  | cons y ys ih =>
    simp only [List.map_cons, List.idxOf_cons, ih]
    by_cases h : y = x
    · subst h; simp
    · have h' : f y ≠ f x := fun e => h (hf e)
      have e1 : (f y == f x) = false := beq_eq_false_iff_ne.mpr h'
      have e2 : (y == x) = false := beq_eq_false_iff_ne.mpr h
      rw [e1, e2]

theorem interleave_map {γ : Type} (f : β → γ) (s e : List β) :
    interleave (s.map f) (e.map f) = (interleave s e).map f := by
  unfold interleave
  induction s generalizing e with
  | nil => simp
  | cons a as ih =>
    cases e with
    | nil => simp
    | cons b bs => simp [ih]

theorem mem_interleave {s e : List β} {x : β} (h : s.length = e.length) :
    x ∈ interleave s e ↔ x ∈ s ∨ x ∈ e := by
  unfold interleave
  induction s generalizing e with
  | nil =>
    cases e with
    | nil => simp
    | cons _ _ => simp at h
  | cons a as ih =>
    cases e with
    | nil => simp at h
    | cons b bs =>
      simp only [List.length_cons, Nat.add_right_cancel_iff] at h
      simp only [List.zip_cons_cons, List.flatMap_cons, List.cons_append, List.nil_append, List.mem_cons,
        ih h]
      tauto

/-- the number of distinct values -/
theorem firstApp_length (l : List β) : (firstApp l).length = l.toFinset.card := by
  rw [← List.toFinset_card_of_nodup (firstApp_nodup l)]
  congr 1
  ext x
  simp only [List.mem_toFinset, mem_firstApp]

/-- the vertex count used by the validation is the number of vertices the network gets -/
theorem numVertices_eq (s e : List β) (h : s.length = e.length) :
    numVertices s e = (firstApp (interleave s e)).length := by
  unfold numVertices
  rw [firstApp_length, firstApp_length]
  congr 1
  ext x
  simp only [List.mem_toFinset, List.mem_append, mem_interleave h]

end firstApp

/-! ### multiplicities -/

/-- edges contributed by one record to the out-list of `i` towards `j` in layer `a` -/
def recMult (directed : Bool) (r : IRec) (a i j : Nat) : Nat :=
  (if r.src = i ∧ r.dst = j then Net.unitsAt r a else 0) +
  (if !directed ∧ r.dst = i ∧ r.src = j then Net.unitsAt r a else 0)

theorem count_replicate_ite (n x j : Nat) : (List.replicate n x).count j = if x = j then n else 0 := by
  rw [List.count_replicate]
  simp only [beq_iff_eq]

theorem count_ite_replicate (c : Prop) [Decidable c] (n x j : Nat) :
    (if c then List.replicate n x else []).count j = if c ∧ x = j then n else 0 := by
  by_cases h : c
  · simp only [h, ↓reduceIte, true_and, count_replicate_ite]
  · simp [h]

theorem out_count {β : Type} (n : Net β) (a i j : Nat) :
    (n.out a i).count j = (n.recs.map fun r => recMult n.directed r a i j).sum := by
  unfold Net.out
  induction n.recs with
  | nil => simp
  | cons r rs ih =>
    simp only [List.flatMap_cons, List.count_append, ih, List.map_cons, List.sum_cons]
    congr 1
    unfold recMult
    rw [count_ite_replicate, count_ite_replicate]
    simp only [Bool.and_eq_true, decide_eq_true_eq, and_assoc]

theorem inn_count {β : Type} (n : Net β) (a i j : Nat) :
    (n.inn a j).count i = (n.recs.map fun r =>
      if r.src = i ∧ r.dst = j then Net.unitsAt r a else 0).sum := by
  unfold Net.inn
  induction n.recs with
  | nil => simp
  | cons r rs ih =>
    simp only [List.flatMap_cons, List.count_append, ih, List.map_cons, List.sum_cons]
    congr 1
    rw [count_ite_replicate]
    simp only [and_comm]

/-- in a directed network the in-lists mirror the out-lists -/
theorem inn_count_eq_out_count {β : Type} (n : Net β) (hd : n.directed = true) (a i j : Nat) :
    (n.inn a j).count i = (n.out a i).count j := by
  rw [inn_count, out_count]
  congr 1
  apply List.map_congr_left
  intro r _
  simp [recMult, hd]

/-- undirected multiplicities are symmetric -/
theorem out_count_symm {β : Type} (n : Net β) (hd : n.directed = false) (a i j : Nat) :
    (n.out a i).count j = (n.out a j).count i := by
  rw [out_count, out_count]
  congr 1
  apply List.map_congr_left
  intro r _
  simp only [recMult, hd, Bool.not_false, true_and]
  rw [Nat.add_comm]
  congr 1 <;> (congr 1; exact propext ⟨fun ⟨a, b⟩ => ⟨b, a⟩, fun ⟨a, b⟩ => ⟨b, a⟩⟩)

/-! ### orientation of a record is irrelevant in undirected mode -/

def swapRec (r : IRec) : IRec := { r with src := r.dst, dst := r.src }

/-- the piece of an out-list contributed by one record, undirected -/
theorem undirected_piece_swap (r : IRec) (a i : Nat) :
    ((if r.src = i then List.replicate (Net.unitsAt r a) r.dst else []) ++
      (if r.dst = i then List.replicate (Net.unitsAt r a) r.src else [])) =
    ((if r.dst = i then List.replicate (Net.unitsAt r a) r.src else []) ++
      (if r.src = i then List.replicate (Net.unitsAt r a) r.dst else [])) := by
  by_cases h1 : r.src = i <;> by_cases h2 : r.dst = i <;> simp [h1, h2]

/-- reversing any subset of the records of an undirected network (indices unchanged) leaves every
adjacency list identical, element for element -/
theorem out_swap_invariant {β : Type} (n : Net β) (hd : n.directed = false) (S : IRec → Bool) (a i : Nat) :
    ({ n with recs := n.recs.map fun r => if S r then swapRec r else r } : Net β).out a i = n.out a i := by
  unfold Net.out
  simp only [hd, Bool.not_false, Bool.true_and, List.flatMap_map, decide_eq_true_eq]
  congr 1
  funext r
  by_cases hS : S r = true
  · simp only [Function.comp, hS, ↓reduceIte, swapRec, Net.unitsAt]
    exact (undirected_piece_swap r a i).symm
  · simp only [Function.comp, hS, Bool.false_eq_true, ↓reduceIte]

/-! ### the view depends on the labels only through their number -/

theorem out_congr {β γ : Type} (n : Net β) (m : Net γ) (hd : n.directed = m.directed)
    (hr : n.recs = m.recs) (a i : Nat) : n.out a i = m.out a i := by
  unfold Net.out; rw [hd, hr]

theorem inn_congr {β γ : Type} (n : Net β) (m : Net γ) (hr : n.recs = m.recs) (a i : Nat) :
    n.inn a i = m.inn a i := by
  unfold Net.inn; rw [hr]

theorem view_eq_of {β γ : Type} (n : Net β) (m : Net γ) (hd : n.directed = m.directed)
    (hL : n.nL = m.nL) (hr : n.recs = m.recs) (hlen : n.labels.length = m.labels.length) :
    n.view = m.view := by
  have hV : n.nV = m.nV := by unfold Net.nV; rw [hL, hlen]
  have ho : n.out = m.out := by funext a i; exact out_congr n m hd hr a i
  have hi : n.inn = m.inn := by funext a i; exact inn_congr n m hr a i
  have hu : n.uList = m.uList := by unfold Net.uList; rw [hV, hL, ho]
  have hv : n.vList = m.vList := by unfold Net.vList; rw [hd, hV, hL, hi, hu]
  unfold Net.view
  simp only [hd, hL, hV, ho, hi, hu, hv]

/-! ### vertex indices are in range (C16: no out-of-bounds vertex index) -/

section build
variable {β ω : Type} [DecidableEq β] [Weight ω]

theorem mem_zip_interleave {s e : List β} {p : β × β} (hp : p ∈ s.zip e) :
    p.1 ∈ interleave s e ∧ p.2 ∈ interleave s e := by
  unfold interleave
  constructor
  · exact List.mem_flatMap.mpr ⟨p, hp, by simp⟩
  · exact List.mem_flatMap.mpr ⟨p, hp, by simp⟩

/-- every record of a built network refers to existing vertices -/
theorem build_recs_lt (directed : Bool) (starts ends : List β) (weights : List ω) :
    ∀ r ∈ (build directed starts ends weights).recs,
      r.src < (build directed starts ends weights).labels.length ∧
      r.dst < (build directed starts ends weights).labels.length := by
  intro r hr
  simp only [build, List.mem_map] at hr
  obtain ⟨p, hp, rfl⟩ := hr
  have hp' : p.1 ∈ starts.zip ends := by
    have := List.mem_zipIdx hp
    exact (List.mem_iff_getElem.mpr ⟨p.2 - 0, by omega, by simpa using this.2.2.symm⟩)
  obtain ⟨h1, h2⟩ := mem_zip_interleave hp'
  simp only [build]
  exact ⟨List.idxOf_lt_length_iff.mpr (mem_firstApp.mpr h1), List.idxOf_lt_length_iff.mpr (mem_firstApp.mpr h2)⟩

end build

/-- a network all of whose records refer to vertices below `N` has all adjacency entries below `N` -/
theorem out_lt_of_recs {β : Type} (n : Net β) (N : Nat) (h : ∀ r ∈ n.recs, r.src < N ∧ r.dst < N) (a i : Nat) :
    ∀ j ∈ n.out a i, j < N := by
  intro j hj
  unfold Net.out at hj
  obtain ⟨r, hr, hj⟩ := List.mem_flatMap.mp hj
  rcases List.mem_append.mp hj with h1 | h1
  · split at h1
    · rw [(List.mem_replicate.mp h1).2]; exact (h r hr).2
    · simp at h1
  · split at h1
    · rw [(List.mem_replicate.mp h1).2]; exact (h r hr).1
    · simp at h1

theorem inn_lt_of_recs {β : Type} (n : Net β) (N : Nat) (h : ∀ r ∈ n.recs, r.src < N ∧ r.dst < N) (a j : Nat) :
    ∀ i ∈ n.inn a j, i < N := by
  intro i hi
  unfold Net.inn at hi
  obtain ⟨r, hr, hi⟩ := List.mem_flatMap.mp hi
  split at hi
  · rw [(List.mem_replicate.mp hi).2]; exact (h r hr).1
  · simp at hi

/-- the tabulated view returns the network's adjacency lists, or nothing outside the table -/
theorem view_out {β : Type} (n : Net β) (a i : Nat) :
    n.view.out a i = if a < n.nL ∧ i < n.nV then n.out a i else [] := by
  unfold Net.view
  simp only [Array.getD_eq_getD_getElem?, List.getElem?_toArray, List.getElem?_map, List.getElem?_range]
  by_cases ha : a < n.nL
  · by_cases hi : i < n.nV
    · simp [ha, hi, List.getElem?_range]
    · simp [ha, hi, List.getElem?_eq_none]
  · simp [ha, List.getElem?_eq_none]

theorem view_inn {β : Type} (n : Net β) (a j : Nat) :
    n.view.inn a j = if n.directed = true ∧ a < n.nL ∧ j < n.nV then n.inn a j else [] := by
  unfold Net.view
  simp only
  by_cases hd : n.directed = true
  · simp only [hd, ↓reduceIte, true_and, Array.getD_eq_getD_getElem?, List.getElem?_toArray, List.getElem?_map]
    by_cases ha : a < n.nL
    · by_cases hj : j < n.nV
      · simp [ha, hj, List.getElem?_range]
      · simp [ha, hj, List.getElem?_eq_none]
    · simp [ha, List.getElem?_eq_none]
  · simp [hd]

theorem view_out_lt {β : Type} (n : Net β) (N : Nat) (h : ∀ r ∈ n.recs, r.src < N ∧ r.dst < N) (a i : Nat) :
    ∀ j ∈ n.view.out a i, j < N := by
  rw [view_out]
  split
  · exact out_lt_of_recs n N h a i
  · intro j hj; simp at hj

/-- undirected networks: the view is determined by the adjacency lists -/
theorem view_eq_of_out {β γ : Type} (n : Net β) (m : Net γ) (hd : n.directed = false)
    (hd' : m.directed = false) (hL : n.nL = m.nL) (hV : n.nV = m.nV) (ho : n.out = m.out) :
    n.view = m.view := by
  have hu : n.uList = m.uList := by unfold Net.uList; rw [hV, hL, ho]
  have hv : n.vList = m.vList := by unfold Net.vList; simp only [hd, hd', Bool.false_eq_true, ↓reduceIte, hu]
  unfold Net.view
  simp only [hd, hd', hL, hV, ho, hu, hv, Bool.false_eq_true, ↓reduceIte]

theorem flatMap_eq_of_forall₂ {ι κ τ : Type} {R : ι → κ → Prop} {l : List ι} {l' : List κ}
    (h : List.Forall₂ R l l') (f : ι → List τ) (g : κ → List τ) (hfg : ∀ x y, R x y → f x = g y) :
    l.flatMap f = l'.flatMap g := by
  induction h with
  | nil => rfl
  | cons hxy _ ih => simp only [List.flatMap_cons, hfg _ _ hxy, ih]

theorem forall₂_zipIdx {ι κ : Type} {R : ι → κ → Prop} {l : List ι} {l' : List κ}
    (h : List.Forall₂ R l l') (k : Nat) :
    List.Forall₂ (fun p q => R p.1 q.1 ∧ p.2 = q.2) (l.zipIdx k) (l'.zipIdx k) := by
  induction h generalizing k with
  | nil => exact List.Forall₂.nil
  | cons hxy _ ih =>
    simp only [List.zipIdx_cons]
    exact List.Forall₂.cons ⟨hxy, rfl⟩ (ih (k + 1))

end MTProofs
