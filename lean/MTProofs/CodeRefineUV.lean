/-
Refinement of the *translated C++ loop nests* (MT/Generated/SolverCode.lean, rewritten from
solver.hpp on every run by tools/cxx2lean.py) to the model's entry formulas (MT/Solver.lean).

Everything here is proved for an arbitrary scalar type with the bare operations — no algebraic law
is used, only the structure of the loops — so the statements hold for `Float` (the instance that
is compared with the C++ on every run) exactly as they hold for `ℝ` (the instance the property
theorems are about).  Core Lean only.
-/
import MTProofs.CodeRefine

set_option linter.unusedSectionVars false
set_option linter.unusedVariables false

namespace MT.CodeRefine
open MT MT.Imp MT.Gen

section
variable {α : Type} [Add α] [Sub α] [Mul α] [Div α] [LT α] [DecidableLT α] [MTExtra α]

/-! ### update_vertices -/
section uv
variable (assort : Bool) (K L : Nat) (numList denList : List Nat) (nbr : Nat → Nat → List Nat)
  (wf : Nat → Nat → Nat → α) (old fixedOld : Nat → Nat → α)

theorem uv_fold_w_k {ι : Type} (l : List ι) (g : ι → α) (s : UVLoc α) :
    l.foldl (fun (s : UVLoc α) i => { s with w_k := s.w_k + g i }) s
      = { s with w_k := accL l g s.w_k } := by
  induction l generalizing s with
  | nil => rfl
  | cons x xs ih => simp only [List.foldl_cons]; rw [ih]; rfl

theorem uv_fold_D {ι : Type} (l : List ι) (g : ι → α) (s : UVLoc α) :
    l.foldl (fun (s : UVLoc α) i => { s with D := s.D + g i }) s
      = { s with D := accL l g s.D } := by
  induction l generalizing s with
  | nil => rfl
  | cons x xs ih => simp only [List.foldl_cons]; rw [ih]; rfl

theorem uv_fold_Z {ι : Type} (l : List ι) (hd hw : ι → α) (hz : ι → α) (s : UVLoc α) :
    l.foldl (fun (s : UVLoc α) i => { s with D := hd i, w_k := hw i, Z := s.Z + hz i }) s
      = { s with D := l.foldl (fun _ i => hd i) s.D, w_k := l.foldl (fun _ i => hw i) s.w_k,
                 Z := accL l hz s.Z } := by
  induction l generalizing s with
  | nil => rfl
  | cons x xs ih => simp only [List.foldl_cons]; rw [ih]; rfl

/-- fields `Zij_a`, `rho_ijkq`, `val_ik` each evolving on their own -/
theorem uv_fold_ZRV {ι : Type} (l : List ι) (zf rf vf : ι → α → α) (s : UVLoc α) :
    l.foldl (fun (s : UVLoc α) i =>
        { s with Zij_a := zf i s.Zij_a, rho_ijkq := rf i s.rho_ijkq, val_ik := vf i s.val_ik }) s
      = { s with Zij_a := l.foldl (fun a i => zf i a) s.Zij_a,
                 rho_ijkq := l.foldl (fun a i => rf i a) s.rho_ijkq,
                 val_ik := l.foldl (fun a i => vf i a) s.val_ik } := by
  induction l generalizing s with
  | nil => rfl
  | cons x xs ih => simp only [List.foldl_cons]; rw [ih]

theorem uv_fold_Zij {ι : Type} (l : List ι) (zf : ι → α → α) (s : UVLoc α) :
    l.foldl (fun (s : UVLoc α) i => { s with Zij_a := zf i s.Zij_a }) s
      = { s with Zij_a := l.foldl (fun a i => zf i a) s.Zij_a } := by
  induction l generalizing s with
  | nil => rfl
  | cons x xs ih => simp only [List.foldl_cons]; rw [ih]

theorem uv_fold_rho {ι : Type} (l : List ι) (g : ι → α) (s : UVLoc α) :
    l.foldl (fun (s : UVLoc α) i => { s with rho_ijkq := s.rho_ijkq + g i }) s
      = { s with rho_ijkq := accL l g s.rho_ijkq } := by
  induction l generalizing s with
  | nil => rfl
  | cons x xs ih => simp only [List.foldl_cons]; rw [ih]; rfl

local notation "uv1" => updateVerticesCode_1 assort K L numList denList nbr (diag2 wf) wf old fixedOld
local notation "uv11" => updateVerticesCode_1_1 assort K L numList denList nbr (diag2 wf) wf old fixedOld
local notation "uv12" => updateVerticesCode_1_2 assort K L numList denList nbr (diag2 wf) wf old fixedOld
local notation "uv13" => updateVerticesCode_1_3 assort K L numList denList nbr (diag2 wf) wf old fixedOld
local notation "uv131" => updateVerticesCode_1_3_1 assort K L numList denList nbr (diag2 wf) wf old fixedOld
local notation "uv132" => updateVerticesCode_1_3_2 assort K L numList denList nbr (diag2 wf) wf old fixedOld
local notation "uv14" => updateVerticesCode_1_4 assort K L numList denList nbr (diag2 wf) wf old fixedOld
local notation "uv141" => updateVerticesCode_1_4_1 assort K L numList denList nbr (diag2 wf) wf old fixedOld
local notation "uv1411" => updateVerticesCode_1_4_1_1 assort K L numList denList nbr (diag2 wf) wf old fixedOld
local notation "uv14111" => updateVerticesCode_1_4_1_1_1 assort K L numList denList nbr (diag2 wf) wf old fixedOld
local notation "uv141111" => updateVerticesCode_1_4_1_1_1_1 assort K L numList denList nbr (diag2 wf) wf old fixedOld
local notation "uv14112" => updateVerticesCode_1_4_1_1_2 assort K L numList denList nbr (diag2 wf) wf old fixedOld
local notation "uvTop" => updateVerticesCode assort K L numList denList nbr (diag2 wf) wf old fixedOld

/-- the `l` loop of the general `Z` computation -/
theorem uv_1_3_eq (k l : Nat) (s : UVLoc α) :
    uv13 k l s
      = { s with D := sumL denList (fun i => fixedOld i l),
                 w_k := sumL (List.range L) (fun a => wf k l a),
                 Z := s.Z + sumL (List.range L) (fun a => wf k l a) * sumL denList (fun i => fixedOld i l) } := by
  unfold updateVerticesCode_1_3
  simp only [forRange, forList]
  have h1 : ∀ s : UVLoc α, List.foldl (fun s i => uv131 k l i s) s (List.range L)
      = { s with w_k := accL (List.range L) (fun a => wf k l a) s.w_k } := fun s => uv_fold_w_k _ _ s
  have h2 : ∀ s : UVLoc α, List.foldl (fun s i => uv132 k l i s) s denList
      = { s with D := accL denList (fun i => fixedOld i l) s.D } := fun s => uv_fold_D _ _ s
  simp only [h1, h2]
  rfl

/-- `Z` of group `k` as the code accumulates it (both variants) -/
theorem vZ_unfold (k : Nat) :
    vZ assort K L denList wf fixedOld k
      = if assort then
          MTExtra.zero + accL (List.range L) (fun a => wf k k a) MTExtra.zero *
            accL denList (fun i => fixedOld i k) MTExtra.zero
        else accL (List.range K)
          (fun l => sumL (List.range L) (fun a => wf k l a) * sumL denList (fun i => fixedOld i l)) MTExtra.zero := by
  cases assort <;> simp [vZ, cols, sumL, accL]

/-- `Zij_a` as the code accumulates it -/
theorem vZij_unfold (i j a : Nat) :
    vZij assort K wf fixedOld old i j a
      = (List.range K).foldl (fun z m =>
          if assort then z + old i m * fixedOld j m * wf m m a
          else accL (List.range K) (fun l => old i m * fixedOld j l * wf m l a) z) MTExtra.zero := by
  cases assort
  · simp [vZij, gpairs, pairs, sumL, accL, List.foldl_flatMap, List.foldl_map]
  · simp [vZij, gpairs, sumL, List.foldl_map]

/-- the `m` loop that accumulates `Zij_a` -/
theorem uv_1_4_1_1_1_eq (k i a j m : Nat) (s : UVLoc α) :
    uv14111 k i a j m s
      = { s with Zij_a := if assort then s.Zij_a + old i m * fixedOld j m * wf m m a
                          else accL (List.range K) (fun l => old i m * fixedOld j l * wf m l a) s.Zij_a } := by
  unfold updateVerticesCode_1_4_1_1_1
  cases assort
  · simp only [forRange, Bool.false_eq_true, if_false]
    exact uv_fold_Zij (List.range K) (fun l z => z + old i m * fixedOld j l * wf m l a) s
  · simp only [if_true]

theorem uv_mloop_eq (k i a j : Nat) (s : UVLoc α) :
    List.foldl (fun s m => uv14111 k i a j m s) s (List.range K)
      = { s with Zij_a := (List.range K).foldl (fun z m =>
            if assort then z + old i m * fixedOld j m * wf m m a
            else accL (List.range K) (fun l => old i m * fixedOld j l * wf m l a) z) s.Zij_a } := by
  have : (fun (s : UVLoc α) m => uv14111 k i a j m s)
      = fun s m => { s with Zij_a := (if assort then s.Zij_a + old i m * fixedOld j m * wf m m a
            else accL (List.range K) (fun l => old i m * fixedOld j l * wf m l a) s.Zij_a) } := by
    funext s m; exact uv_1_4_1_1_1_eq assort K L numList denList nbr wf old fixedOld k i a j m s
  rw [this]
  exact uv_fold_Zij (List.range K) (fun m z => if assort then z + old i m * fixedOld j m * wf m m a
            else accL (List.range K) (fun l => old i m * fixedOld j l * wf m l a) z) s

theorem uv_qloop_eq (k i a j : Nat) (s : UVLoc α) :
    List.foldl (fun s q => uv14112 k i a j q s) s (List.range K)
      = { s with rho_ijkq := accL (List.range K) (fun q => fixedOld j q * wf k q a) s.rho_ijkq } := by
  unfold updateVerticesCode_1_4_1_1_2
  exact uv_fold_rho (List.range K) (fun q => fixedOld j q * wf k q a) s

/-- numerator of `rho_ijkq` as the code accumulates it -/
theorem vRhoNum_unfold (k j a : Nat) :
    sumL (cols assort K k) (fun q => fixedOld j q * wf k q a)
      = if assort then MTExtra.zero + fixedOld j k * wf k k a
        else accL (List.range K) (fun q => fixedOld j q * wf k q a) MTExtra.zero := by
  cases assort <;> simp [cols, sumL, accL]

/-- body of the loop over the neighbours `j` of `i` in layer `a` -/
theorem uv_1_4_1_1_eq (k i a j : Nat) (s : UVLoc α) :
    uv1411 k i a j s
      = { s with
          Zij_a := vZij assort K wf fixedOld old i j a,
          rho_ijkq := if MTExtra.eps < vZij assort K wf fixedOld old i j a
                      then vRho assort K wf fixedOld old i k j a else MTExtra.zero,
          val_ik := if MTExtra.eps < vZij assort K wf fixedOld old i j a
                    then s.val_ik + vRho assort K wf fixedOld old i k j a else s.val_ik } := by
  unfold updateVerticesCode_1_4_1_1
  simp only [forRange, uv_mloop_eq, uv_qloop_eq, ← vZij_unfold]
  by_cases hz : MTExtra.eps < vZij assort K wf fixedOld old i j a
  · simp only [hz, if_true]
    unfold vRho
    rw [vRhoNum_unfold]
    cases assort <;> simp
  · simp only [hz, if_false]

/-- the loop over the neighbours of `i` in one layer -/
theorem uv_1_4_1_eq (k i a : Nat) (s : UVLoc α) :
    uv141 k i a s
      = { s with
          Zij_a := (nbr a i).foldl (fun _ j => vZij assort K wf fixedOld old i j a) s.Zij_a,
          rho_ijkq := (nbr a i).foldl (fun _ j => if MTExtra.eps < vZij assort K wf fixedOld old i j a
                      then vRho assort K wf fixedOld old i k j a else MTExtra.zero) s.rho_ijkq,
          val_ik := (nbr a i).foldl (fun v j => if MTExtra.eps < vZij assort K wf fixedOld old i j a
                    then v + vRho assort K wf fixedOld old i k j a else v) s.val_ik } := by
  unfold updateVerticesCode_1_4_1
  simp only [forList]
  have : (fun (s : UVLoc α) j => uv1411 k i a j s)
      = fun s j => { s with
          Zij_a := vZij assort K wf fixedOld old i j a,
          rho_ijkq := (if MTExtra.eps < vZij assort K wf fixedOld old i j a
                      then vRho assort K wf fixedOld old i k j a else MTExtra.zero),
          val_ik := (if MTExtra.eps < vZij assort K wf fixedOld old i j a
                    then s.val_ik + vRho assort K wf fixedOld old i k j a else s.val_ik) } := by
    funext s j; exact uv_1_4_1_1_eq assort K L numList denList nbr wf old fixedOld k i a j s
  rw [this]
  exact uv_fold_ZRV (nbr a i) (fun j _ => vZij assort K wf fixedOld old i j a)
    (fun j _ => if MTExtra.eps < vZij assort K wf fixedOld old i j a
                      then vRho assort K wf fixedOld old i k j a else MTExtra.zero)
    (fun j v => if MTExtra.eps < vZij assort K wf fixedOld old i j a
                    then v + vRho assort K wf fixedOld old i k j a else v) s

/-- `val_ik` as the code accumulates it: layers outside, neighbours inside, one accumulator -/
theorem vVal_unfold (i k : Nat) (v0 : α) :
    (List.range L).foldl (fun v a => (nbr a i).foldl (fun v j =>
        if MTExtra.eps < vZij assort K wf fixedOld old i j a
        then v + vRho assort K wf fixedOld old i k j a else v) v) MTExtra.zero
      = vVal assort K L nbr wf fixedOld old i k := by
  simp [vVal, edgePairs, sumL, List.foldl_filter, List.foldl_flatMap, List.foldl_map]

/-- after the loop over the layers: `val_ik` is the model's numerator, `Z` and the matrix are untouched -/
theorem uv_aloop (k i : Nat) (s : UVLoc α) :
    let s' := List.foldl (fun s a => uv141 k i a s) { s with val_ik := MTExtra.zero } (List.range L)
    s'.val_ik = vVal assort K L nbr wf fixedOld old i k ∧ s'.Z = s.Z ∧ s'.mat_to_update = s.mat_to_update := by
  have : (fun (s : UVLoc α) a => uv141 k i a s)
      = fun s a => { s with
          Zij_a := (nbr a i).foldl (fun _ j => vZij assort K wf fixedOld old i j a) s.Zij_a,
          rho_ijkq := (nbr a i).foldl (fun _ j => if MTExtra.eps < vZij assort K wf fixedOld old i j a
                      then vRho assort K wf fixedOld old i k j a else MTExtra.zero) s.rho_ijkq,
          val_ik := (nbr a i).foldl (fun v j => if MTExtra.eps < vZij assort K wf fixedOld old i j a
                    then v + vRho assort K wf fixedOld old i k j a else v) s.val_ik } := by
    funext s a; exact uv_1_4_1_eq assort K L numList denList nbr wf old fixedOld k i a s
  rw [this]
  intro s'
  have h := uv_fold_ZRV (List.range L)
    (fun a z => (nbr a i).foldl (fun _ j => vZij assort K wf fixedOld old i j a) z)
    (fun a r => (nbr a i).foldl (fun _ j => if MTExtra.eps < vZij assort K wf fixedOld old i j a
                      then vRho assort K wf fixedOld old i k j a else MTExtra.zero) r)
    (fun a v => (nbr a i).foldl (fun v j => if MTExtra.eps < vZij assort K wf fixedOld old i j a
                    then v + vRho assort K wf fixedOld old i k j a else v) v)
    ({ s with val_ik := MTExtra.zero } : UVLoc α)
  have hs : s' = _ := h
  rw [hs]
  exact ⟨vVal_unfold assort K L nbr wf old fixedOld i k MTExtra.zero, rfl, rfl⟩

/-- body of the loop over the numerator list: `Z` is left alone, entry `(i,k)` receives the update -/
theorem uv_1_4_proj (k i : Nat) (s : UVLoc α) :
    (uv14 k i s).Z = s.Z ∧
    (uv14 k i s).mat_to_update =
      if MTExtra.eps < old i k then
        setAt2 s.mat_to_update i k (snap (old i k / s.Z * vVal assort K L nbr wf fixedOld old i k))
      else s.mat_to_update := by
  unfold updateVerticesCode_1_4
  by_cases hg : MTExtra.eps < old i k
  · simp only [hg, if_true, forRange]
    obtain ⟨h1, h2, h3⟩ := uv_aloop assort K L numList denList nbr wf old fixedOld k i s
    simp only [h1, h2, h3, setAt2_self]
    unfold snap
    by_cases hs : MTExtra.abs (old i k / s.Z * vVal assort K L nbr wf fixedOld old i k) < MTExtra.eps
    · simp [hs, setAt2_setAt2]
    · simp [hs]
  · simp [hg]

/-- the general `Z` block: `for l: { w_k, D; Z += w_k * D }` -/
theorem uv_zgen (k : Nat) (s : UVLoc α) :
    List.foldl (fun s l => uv13 k l s) s (List.range K)
      = { s with D := (List.range K).foldl (fun _ l => sumL denList (fun i => fixedOld i l)) s.D,
                 w_k := (List.range K).foldl (fun _ l => sumL (List.range L) (fun a => wf k l a)) s.w_k,
                 Z := accL (List.range K) (fun l => sumL (List.range L) (fun a => wf k l a) *
                        sumL denList (fun i => fixedOld i l)) s.Z } := by
  have : (fun (s : UVLoc α) l => uv13 k l s) = fun s l =>
      { s with D := sumL denList (fun i => fixedOld i l),
               w_k := sumL (List.range L) (fun a => wf k l a),
               Z := s.Z + sumL (List.range L) (fun a => wf k l a) * sumL denList (fun i => fixedOld i l) } := by
    funext s l; exact uv_1_3_eq assort K L numList denList nbr wf old fixedOld k l s
  rw [this]
  exact uv_fold_Z (List.range K) (fun l => sumL denList (fun i => fixedOld i l))
    (fun l => sumL (List.range L) (fun a => wf k l a))
    (fun l => sumL (List.range L) (fun a => wf k l a) * sumL denList (fun i => fixedOld i l)) s

theorem uv_aloop_w (k : Nat) (s : UVLoc α) :
    List.foldl (fun s a => uv11 k a s) s (List.range L)
      = { s with w_k := accL (List.range L) (fun a => wf k k a) s.w_k } := by
  unfold updateVerticesCode_1_1
  exact uv_fold_w_k (List.range L) (fun a => wf k k a) s

theorem uv_dloop (k : Nat) (s : UVLoc α) :
    List.foldl (fun s i => uv12 k i s) s denList
      = { s with D := accL denList (fun i => fixedOld i k) s.D } := by
  unfold updateVerticesCode_1_2
  exact uv_fold_D denList (fun i => fixedOld i k) s

/-- the loop over the numerator list, seen through `Z` and the matrix -/
theorem uv_iloop (k : Nat) (s : UVLoc α) :
    (List.foldl (fun s i => uv14 k i s) s numList).mat_to_update
      = numList.foldl (fun m i => if MTExtra.eps < old i k then
          setAt2 m i k (snap (old i k / s.Z * vVal assort K L nbr wf fixedOld old i k)) else m) s.mat_to_update := by
  have h := foldl_proj (fun s : UVLoc α => (s.Z, s.mat_to_update)) (fun s i => uv14 k i s)
    (fun (p : α × (Nat → Nat → α)) i => (p.1, if MTExtra.eps < old i k then
          setAt2 p.2 i k (snap (old i k / p.1 * vVal assort K L nbr wf fixedOld old i k)) else p.2))
    (fun s i => by
      obtain ⟨h1, h2⟩ := uv_1_4_proj assort K L numList denList nbr wf old fixedOld k i s
      simp only [h1, h2]) numList s
  rw [foldl_pair_const numList (fun (z : α) (m : Nat → Nat → α) i => if MTExtra.eps < old i k then
          setAt2 m i k (snap (old i k / z * vVal assort K L nbr wf fixedOld old i k)) else m)] at h
  exact congrArg Prod.snd h

/-- body of the loop over the groups, seen through the matrix it updates -/
theorem uv_1_proj (k : Nat) (s : UVLoc α) (i' k' : Nat) :
    (uv1 k s).mat_to_update i' k' =
      if k' = k ∧ i' ∈ numList ∧ (MTExtra.eps < vZ assort K L denList wf fixedOld k ∧ MTExtra.eps < old i' k) then
        snap (old i' k / vZ assort K L denList wf fixedOld k * vVal assort K L nbr wf fixedOld old i' k)
      else s.mat_to_update i' k' := by
  unfold updateVerticesCode_1
  rw [vZ_unfold]
  cases assort
  · simp only [Bool.false_eq_true, if_false, uv_zgen]
    split
    · rename_i hz
      rw [uv_iloop, foldl_setAt2]
      simp only [hz, true_and]
    · rename_i hz
      simp only [hz, false_and, and_false, if_false]
  · simp only [if_true, uv_aloop_w, uv_dloop]
    split
    · rename_i hz
      rw [uv_iloop, foldl_setAt2]
      simp only [hz, true_and]
    · rename_i hz
      simp only [hz, false_and, and_false, if_false]

/-- **`update_vertices`, as written in solver.hpp, computes the model's entry formula**: started with the
matrix equal to its frozen copy, the translated loop nest leaves in entry `(i,k)` exactly `updVEntry`
(for every scalar type, every variant, every size, arbitrary vertex lists and neighbour lists) -/
theorem updateVerticesCode_refines (s0 : UVLoc α) (h0 : s0.mat_to_update = old) (i k : Nat) :
    (uvTop s0).mat_to_update i k =
      if k < K then updVEntry assort K L numList denList nbr wf fixedOld old i k else old i k := by
  unfold updateVerticesCode
  have h := foldl_proj (fun s : UVLoc α => s.mat_to_update) (fun s k => uv1 k s)
    (fun (m : Nat → Nat → α) k => fun i' k' =>
      if k' = k ∧ (i' ∈ numList ∧ (MTExtra.eps < vZ assort K L denList wf fixedOld k ∧ MTExtra.eps < old i' k)) then
        snap (old i' k / vZ assort K L denList wf fixedOld k * vVal assort K L nbr wf fixedOld old i' k)
      else m i' k')
    (fun s k => by funext i' k'; exact uv_1_proj assort K L numList denList nbr wf old fixedOld k s i' k')
    (List.range K) s0
  rw [h, h0]
  have hc := foldl_columns K
    (fun i' k => i' ∈ numList ∧ (MTExtra.eps < vZ assort K L denList wf fixedOld k ∧ MTExtra.eps < old i' k))
    (fun i' k => snap (old i' k / vZ assort K L denList wf fixedOld k * vVal assort K L nbr wf fixedOld old i' k))
    old i k
  rw [hc]
  unfold updVEntry
  by_cases hk : k < K
  · by_cases h1 : MTExtra.eps < vZ assort K L denList wf fixedOld k <;>
    by_cases h2 : i ∈ numList <;> by_cases h3 : MTExtra.eps < old i k <;> simp [hk, h1, h2, h3]
  · simp [hk]

end uv
end
end MT.CodeRefine
