/-
The published updates read their arguments only at valid indices (helper for the state-level
statements of C01, C03): congruence of `specVEntry` / `specWEntry` / `poissonLL`.
-/
import MTProofs.AscentTie

namespace MTProofs
open MT Finset

theorem csum_congr (assort : Bool) (K k : Nat) (f g : Nat → ℝ) (hk : k < K) (h : ∀ q, q < K → f q = g q) :
    csum assort K k f = csum assort K k g := by
  unfold csum; split
  · exact h k hk
  · exact sum_congr rfl fun q hq => h q (mem_range.mp hq)

/-- congruence needing only the diagonal entries of the accessor in the assortative case -/
theorem csum_congr' (assort : Bool) (K k : Nat) (f g : Nat → ℝ) (hk : k < K)
    (h : ∀ q, q < K → (assort = true → k = q) → f q = g q) : csum assort K k f = csum assort K k g := by
  unfold csum
  cases assort
  · simp only [Bool.false_eq_true, ↓reduceIte]
    exact sum_congr rfl fun q hq => h q (mem_range.mp hq) (fun hc => absurd hc (by simp))
  · simp only [↓reduceIte]
    exact h k hk (fun _ => rfl)

theorem sumL_congr_mem {ι : Type} (l : List ι) (f g : ι → ℝ) (h : ∀ x ∈ l, f x = g x) : sumL l f = sumL l g :=
  sumL_congr l f g h

section
variable (assort : Bool) (K L N : Nat)

/-- accessors that agree on the entries that exist -/
def WAgree (wf wf' : Nat → Nat → Nat → ℝ) : Prop :=
  ∀ k q a, k < K → q < K → a < L → (assort = true → k = q) → wf k q a = wf' k q a

def MAgree (X X' : Nat → Nat → ℝ) : Prop := ∀ i k, i < N → k < K → X i k = X' i k

theorem rate_congr {wf wf' : Nat → Nat → Nat → ℝ} {Y Y' X X' : Nat → Nat → ℝ}
    (hw : WAgree assort K L wf wf') (hY : MAgree K N Y Y') (hX : MAgree K N X X')
    {i j a : Nat} (hi : i < N) (hj : j < N) (ha : a < L) :
    rate assort K wf Y X i j a = rate assort K wf' Y' X' i j a := by
  unfold rate
  apply gsum_congr'
  intro m l hm hl hdiag
  rw [hX i m hi hm, hY j l hj hl, hw m l a hm hl ha hdiag]

theorem specVEntry_congr (num den : List Nat) (nbr : Nat → Nat → List Nat)
    {wf wf' : Nat → Nat → Nat → ℝ} {Y Y' X X' : Nat → Nat → ℝ}
    (hden : ∀ j ∈ den, j < N)
    (hw : WAgree assort K L wf wf') (hY : MAgree K N Y Y') (hX : MAgree K N X X')
    {i k : Nat} (hi : i < N) (hk : k < K) :
    specVEntry assort K L N num den nbr wf Y X i k = specVEntry assort K L N num den nbr wf' Y' X' i k := by
  have hZ : specZ assort K L den wf Y k = specZ assort K L den wf' Y' k := by
    unfold specZ
    apply csum_congr' assort K k _ _ hk
    intro l hl hdiag
    congr 1
    · exact sum_congr rfl fun a ha => hw k l a hk hl (mem_range.mp ha) hdiag
    · exact sumL_congr den _ _ fun j hj => hY j l (hden j hj) hl
  have hval : specVal assort K L N nbr wf Y X i k = specVal assort K L N nbr wf' Y' X' i k := by
    unfold specVal
    apply sum_congr rfl; intro a ha
    apply sum_congr rfl; intro j hj
    rw [rate_congr assort K L N hw hY hX hi (mem_range.mp hj) (mem_range.mp ha)]
    have hc : csum assort K k (fun q => Y j q * wf k q a) = csum assort K k (fun q => Y' j q * wf' k q a) := by
      apply csum_congr' assort K k _ _ hk
      intro q hq hdiag
      rw [hY j q (mem_range.mp hj) hq, hw k q a hk hq (mem_range.mp ha) hdiag]
    rw [hc]
  unfold specVEntry
  rw [hZ, hval, hX i k hi hk]

theorem specWEntry_congr (uList vList : List Nat) (out : Nat → Nat → List Nat)
    {w w' : Nat → Nat → Nat → ℝ} {u u' v v' : Nat → Nat → ℝ}
    (hul : ∀ i ∈ uList, i < N) (hvl : ∀ j ∈ vList, j < N)
    (hw : WAgree assort K L w w') (hu : MAgree K N u u') (hv : MAgree K N v v')
    {k q a : Nat} (hk : k < K) (hq : q < K) (ha : a < L) (hdiag : assort = true → k = q) :
    specWEntry assort K N uList vList out u v w k q a = specWEntry assort K N uList vList out u' v' w' k q a := by
  have hZ : specWZ uList vList u v k q = specWZ uList vList u' v' k q := by
    unfold specWZ
    congr 1
    · exact sumL_congr uList _ _ fun i hi => hu i k (hul i hi) hk
    · exact sumL_congr vList _ _ fun j hj => hv j q (hvl j hj) hq
  have hacc : specWAcc assort K N out u v w k q a = specWAcc assort K N out u' v' w' k q a := by
    unfold specWAcc
    apply sum_congr rfl; intro i hi
    rw [hu i k (mem_range.mp hi) hk]
    congr 1
    apply sum_congr rfl; intro j hj
    rw [rate_congr assort K L N hw hv hu (mem_range.mp hi) (mem_range.mp hj) ha, hv j q (mem_range.mp hj) hq]
  unfold specWEntry
  rw [hZ, hacc, hw k q a hk hq ha hdiag]

theorem poissonLL_congr (out : Nat → Nat → List Nat)
    {wf wf' : Nat → Nat → Nat → ℝ} {u u' v v' : Nat → Nat → ℝ}
    (hw : WAgree assort K L wf wf') (hu : MAgree K N u u') (hv : MAgree K N v v') :
    poissonLL assort K L N out u v wf = poissonLL assort K L N out u' v' wf' := by
  unfold poissonLL cellLL
  apply sum_congr rfl; intro a ha
  apply sum_congr rfl; intro i hi
  apply sum_congr rfl; intro j hj
  rw [rate_congr assort K L N hw hv hu (mem_range.mp hi) (mem_range.mp hj) (mem_range.mp ha)]

end

end MTProofs
