/-
EM ascent of the three block updates of the model (helper for C01): each published update is a
masked MM step of the Poisson log-likelihood, which is multilinear in (u, v, w).
-/
import MTProofs.MM
import MTProofs.MassBalance
import MTProofs.Likelihood

namespace MTProofs
open MT Finset

/-! ### index sets -/

/-- group pairs that exist: all (general) or the diagonal (assortative) -/
def gP (assort : Bool) (K : Nat) : Finset (Nat × Nat) :=
  if assort then (range K).image (fun k => (k, k)) else range K ×ˢ range K

theorem sum_gP (assort : Bool) (K : Nat) (f : Nat → Nat → ℝ) :
    ∑ p ∈ gP assort K, f p.1 p.2 = gsum assort K f := by
  unfold gP gsum
  cases assort
  · simp only [Bool.false_eq_true, ↓reduceIte]
    rw [sum_product]
  · simp only [↓reduceIte]
    rw [sum_image]
    intro x _ y _ h
    exact (Prod.mk.inj h).1

theorem mem_gP {assort : Bool} {K : Nat} {p : Nat × Nat} (h : p ∈ gP assort K) : p.1 < K ∧ p.2 < K := by
  unfold gP at h
  cases assort
  · simp only [Bool.false_eq_true, ↓reduceIte, mem_product, mem_range] at h; exact h
  · simp only [↓reduceIte, mem_image, mem_range] at h
    obtain ⟨k, hk, rfl⟩ := h
    exact ⟨hk, hk⟩

/-- `Σ_k f_k · csum_k g_k = gsum (k,q ↦ f_k g_k q)` -/
theorem sum_mul_csum (assort : Bool) (K : Nat) (f : Nat → ℝ) (g : Nat → Nat → ℝ) :
    ∑ k ∈ range K, f k * csum assort K k (g k) = gsum assort K (fun k q => f k * g k q) := by
  unfold csum gsum
  cases assort
  · simp only [Bool.false_eq_true, ↓reduceIte, mul_sum]
  · simp only [↓reduceIte]

/-! ### the unguarded objective -/

section obj
variable (assort : Bool) (K L N : Nat) (out : Nat → Nat → List Nat)
  (u v : Nat → Nat → ℝ) (wf : Nat → Nat → Nat → ℝ)

/-- `Σ_a Σ_i Σ_j (A ln M − M)` without guard -/
noncomputable def freeLL : ℝ :=
  ∑ a ∈ range L, ∑ i ∈ range N, ∑ j ∈ range N,
    (((out a i).count j : ℝ) * Real.log (rate assort K wf v u i j a) - rate assort K wf v u i j a)

/-- every observed edge has rate above the guard -/
def RatesAbove : Prop :=
  ∀ a i j, a < L → i < N → j < N → 0 < (out a i).count j → ε < rate assort K wf v u i j a

/-- when every observed edge has rate above the guard, the code's likelihood is the unguarded one -/
theorem poissonLL_eq_free (h : RatesAbove assort K L N out u v wf) :
    poissonLL assort K L N out u v wf = freeLL assort K L N out u v wf := by
  unfold poissonLL freeLL cellLL
  apply sum_congr rfl; intro a ha
  apply sum_congr rfl; intro i hi
  apply sum_congr rfl; intro j hj
  by_cases hc : 0 < (out a i).count j
  · rw [if_pos ⟨h a i j (mem_range.mp ha) (mem_range.mp hi) (mem_range.mp hj) hc, hc⟩]
  · have h0 : (out a i).count j = 0 := by omega
    rw [if_neg (fun hh => hc hh.2), h0]; simp

end obj

/-! ### membership step as an MM step -/

section ustep
variable (assort : Bool) (K L N : Nat) (num den : List Nat) (B : Nat → Nat → Nat → ℝ)
  (wf : Nat → Nat → Nat → ℝ) (Y X : Nat → Nat → ℝ)

/-- objective seen from the matrix being updated: `B a i j` = multiplicity of the edge seen from `i` -/
noncomputable def objV (X : Nat → Nat → ℝ) : ℝ :=
  ∑ a ∈ range L, ∑ i ∈ range N, ∑ j ∈ range N,
    (B a i j * Real.log (rate assort K wf Y X i j a) - rate assort K wf Y X i j a)

/-- unguarded, untruncated masked update -/
noncomputable def mmV (m : Nat → Nat → Prop) [∀ i k, Decidable (m i k)] (i k : Nat) : ℝ :=
  if m i k then
    X i k / specZ assort K L den wf Y k *
      ∑ a ∈ range L, ∑ j ∈ range N, B a i j *
        (csum assort K k (fun q => Y j q * wf k q a) / rate assort K wf Y X i j a)
  else X i k

/-- MM data -/
noncomputable def cV (e : Nat × Nat × Nat) (p : Nat × Nat) : ℝ :=
  if p.1 = e.2.1 then csum assort K p.2 (fun q => Y e.2.2 q * wf p.2 q e.1) else 0

def sPV : Finset (Nat × Nat) := range N ×ˢ range K
def sEV : Finset (Nat × Nat × Nat) := range L ×ˢ range N ×ˢ range N

theorem S_V (X : Nat → Nat → ℝ) (e : Nat × Nat × Nat) (he : e ∈ sEV L N) :
    MM.S (sPV K N) (cV assort K wf Y) (fun p => X p.1 p.2) e = rate assort K wf Y X e.2.1 e.2.2 e.1 := by
  obtain ⟨a, i, j⟩ := e
  simp only [sEV, mem_product, mem_range] at he
  unfold MM.S sPV cV rate
  rw [sum_product]
  simp only [mul_ite, mul_zero]
  rw [sum_comm]
  have hr : gsum assort K (fun m l => X i m * Y j l * wf m l a) =
      ∑ k ∈ range K, X i k * csum assort K k (fun q => Y j q * wf k q a) := by
    rw [sum_mul_csum]; apply gsum_congr; intros; ring
  rw [hr]
  apply sum_congr rfl; intro k _
  rw [sum_ite_eq' (range N) i]
  simp only [mem_range, he.2.1, ↓reduceIte]

theorem pen_V (X : Nat → Nat → ℝ)
    (hD : ∀ l, sumL den (fun j => Y j l) = ∑ j ∈ range N, Y j l) :
    ∑ p ∈ sPV K N, X p.1 p.2 * specZ assort K L den wf Y p.2 =
      ∑ a ∈ range L, ∑ i ∈ range N, ∑ j ∈ range N, rate assort K wf Y X i j a := by
  unfold sPV
  rw [sum_product]
  have h1 : ∀ i, ∑ k ∈ range K, X i k * specZ assort K L den wf Y k =
      ∑ a ∈ range L, ∑ j ∈ range N, rate assort K wf Y X i j a := by
    intro i
    unfold specZ rate
    simp only [hD]
    rw [sum_mul_csum]
    simp_rw [sum_gsum]
    apply gsum_congr
    intro k q _ _
    rw [sum_mul_sum, mul_sum]
    apply sum_congr rfl; intro a _
    rw [mul_sum]
    apply sum_congr rfl; intro j _
    ring
  simp_rw [h1]
  rw [sum_comm]

theorem F_V (X : Nat → Nat → ℝ)
    (hD : ∀ l, sumL den (fun j => Y j l) = ∑ j ∈ range N, Y j l) :
    MM.F (sPV K N) (sEV L N) (fun e => B e.1 e.2.1 e.2.2) (cV assort K wf Y)
      (fun p => specZ assort K L den wf Y p.2) (fun p => X p.1 p.2) =
    objV assort K L N B wf Y X := by
  unfold MM.F objV
  rw [pen_V assort K L N den wf Y X hD]
  have : ∑ e ∈ sEV L N, B e.1 e.2.1 e.2.2 *
        Real.log (MM.S (sPV K N) (cV assort K wf Y) (fun p => X p.1 p.2) e) =
      ∑ a ∈ range L, ∑ i ∈ range N, ∑ j ∈ range N, B a i j * Real.log (rate assort K wf Y X i j a) := by
    rw [sum_congr rfl (fun e he => by rw [S_V assort K L N wf Y X e he])]
    unfold sEV
    rw [sum_product]
    apply sum_congr rfl; intro a _
    rw [sum_product]
  rw [this]
  simp only [sum_sub_distrib]

theorem upd_V (m : Nat → Nat → Prop) [∀ i k, Decidable (m i k)] (p : Nat × Nat) (hp : p ∈ sPV K N) :
    MM.upd (sPV K N) (sEV L N) (fun e => B e.1 e.2.1 e.2.2) (cV assort K wf Y)
      (fun p => specZ assort K L den wf Y p.2) (fun p => m p.1 p.2) (fun p => X p.1 p.2) p =
    mmV assort K L N den B wf Y X m p.1 p.2 := by
  obtain ⟨i, k⟩ := p
  simp only [sPV, mem_product, mem_range] at hp
  unfold MM.upd mmV
  simp only
  split_ifs with h
  · congr 1
    rw [sum_congr rfl (fun e he => by rw [S_V assort K L N wf Y X e he])]
    unfold sEV cV
    rw [sum_product]
    apply sum_congr rfl; intro a _
    rw [sum_product, sum_eq_single i]
    · apply sum_congr rfl; intro j _
      simp only [↓reduceIte]; ring
    · intro i' _ hne
      apply sum_eq_zero; intro j _
      simp only [Ne.symm hne, ↓reduceIte, mul_zero, zero_div]
    · intro h'; exact absurd (mem_range.mpr hp.1) h'
  · rfl

/-- **ascent of the masked membership update** (no truncation, positive rates) -/
theorem mmV_ascent (m : Nat → Nat → Prop) [∀ i k, Decidable (m i k)]
    (hD : ∀ l, sumL den (fun j => Y j l) = ∑ j ∈ range N, Y j l)
    (hB : ∀ a i j, 0 ≤ B a i j) (hX : ∀ i k, 0 ≤ X i k) (hY : ∀ j q, 0 ≤ Y j q) (hw : ∀ k q a, 0 ≤ wf k q a)
    (hZ : ∀ i k, m i k → 0 < specZ assort K L den wf Y k)
    (hR : ∀ a i j, a < L → i < N → j < N → 0 < B a i j → 0 < rate assort K wf Y X i j a) :
    objV assort K L N B wf Y X ≤ objV assort K L N B wf Y (mmV assort K L N den B wf Y X m) := by
  have h := MM.ascent (sPV K N) (sEV L N) (fun e => B e.1 e.2.1 e.2.2) (cV assort K wf Y)
    (fun p => specZ assort K L den wf Y p.2) (fun p : Nat × Nat => m p.1 p.2) (fun p => X p.1 p.2)
    (fun e _ => hB _ _ _)
    (fun e _ p _ => by
      unfold cV; split_ifs
      · unfold csum; split_ifs
        · exact mul_nonneg (hY _ _) (hw _ _ _)
        · exact sum_nonneg fun q _ => mul_nonneg (hY _ _) (hw _ _ _)
      · exact le_rfl)
    (fun p _ => hX _ _)
    (fun p _ hp => hZ p.1 p.2 hp)
    (fun e he hae => by
      rw [S_V assort K L N wf Y X e he]
      simp only [sEV, mem_product, mem_range] at he
      exact hR _ _ _ he.1 he.2.1 he.2.2 hae)
  rw [F_V assort K L N den B wf Y X hD] at h
  have h2 : MM.F (sPV K N) (sEV L N) (fun e => B e.1 e.2.1 e.2.2) (cV assort K wf Y)
      (fun p => specZ assort K L den wf Y p.2)
      (MM.upd (sPV K N) (sEV L N) (fun e => B e.1 e.2.1 e.2.2) (cV assort K wf Y)
        (fun p => specZ assort K L den wf Y p.2) (fun p : Nat × Nat => m p.1 p.2) (fun p => X p.1 p.2)) =
      MM.F (sPV K N) (sEV L N) (fun e => B e.1 e.2.1 e.2.2) (cV assort K wf Y)
      (fun p => specZ assort K L den wf Y p.2)
      (fun p => mmV assort K L N den B wf Y X m p.1 p.2) := by
    unfold MM.F MM.S
    congr 1
    · apply sum_congr rfl; intro e _
      congr 2
      apply sum_congr rfl; intro p hp
      rw [upd_V assort K L N den B wf Y X m p hp]
    · apply sum_congr rfl; intro p hp
      rw [upd_V assort K L N den B wf Y X m p hp]
  rw [h2, F_V assort K L N den B wf Y (mmV assort K L N den B wf Y X m) hD] at h
  exact h

end ustep

/-! ### affinity step as an MM step -/

section wstep
variable (assort : Bool) (K L N : Nat) (uList vList : List Nat) (A : Nat → Nat → Nat → ℝ)
  (u v : Nat → Nat → ℝ) (w : Nat → Nat → Nat → ℝ)

/-- objective as a function of the affinity -/
noncomputable def objW (w : Nat → Nat → Nat → ℝ) : ℝ :=
  ∑ a ∈ range L, ∑ i ∈ range N, ∑ j ∈ range N,
    (A a i j * Real.log (rate assort K w v u i j a) - rate assort K w v u i j a)

/-- unguarded, untruncated masked update of the affinity -/
noncomputable def mmW (m : Nat → Nat → Nat → Prop) [∀ k q a, Decidable (m k q a)] (k q a : Nat) : ℝ :=
  if m k q a then
    w k q a / specWZ uList vList u v k q *
      ∑ i ∈ range N, ∑ j ∈ range N, A a i j * (u i k * v j q / rate assort K w v u i j a)
  else w k q a

noncomputable def cW (e : Nat × Nat × Nat) (p : (Nat × Nat) × Nat) : ℝ :=
  if p.2 = e.1 then u e.2.1 p.1.1 * v e.2.2 p.1.2 else 0

def sPW : Finset ((Nat × Nat) × Nat) := gP assort K ×ˢ range L

theorem S_W (w : Nat → Nat → Nat → ℝ) (e : Nat × Nat × Nat) (he : e ∈ sEV L N) :
    MM.S (sPW assort K L) (cW u v) (fun p => w p.1.1 p.1.2 p.2) e = rate assort K w v u e.2.1 e.2.2 e.1 := by
  obtain ⟨a, i, j⟩ := e
  simp only [sEV, mem_product, mem_range] at he
  unfold MM.S sPW cW rate
  rw [sum_product]
  rw [← sum_gP]
  apply sum_congr rfl; intro p _
  simp only [mul_ite, mul_zero]
  rw [sum_ite_eq' (range L) a]
  simp only [mem_range, he.1, ↓reduceIte]
  ring

theorem pen_W (w : Nat → Nat → Nat → ℝ)
    (hU : ∀ k, sumL uList (fun i => u i k) = ∑ i ∈ range N, u i k)
    (hV : ∀ q, sumL vList (fun j => v j q) = ∑ j ∈ range N, v j q) :
    ∑ p ∈ sPW assort K L, w p.1.1 p.1.2 p.2 * specWZ uList vList u v p.1.1 p.1.2 =
      ∑ a ∈ range L, ∑ i ∈ range N, ∑ j ∈ range N, rate assort K w v u i j a := by
  unfold sPW
  rw [sum_product, sum_comm]
  apply sum_congr rfl; intro a _
  rw [sum_rate assort K N uList vList u v a w hU hV, ← sum_gP]

theorem F_W (w : Nat → Nat → Nat → ℝ)
    (hU : ∀ k, sumL uList (fun i => u i k) = ∑ i ∈ range N, u i k)
    (hV : ∀ q, sumL vList (fun j => v j q) = ∑ j ∈ range N, v j q) :
    MM.F (sPW assort K L) (sEV L N) (fun e => A e.1 e.2.1 e.2.2) (cW u v)
      (fun p => specWZ uList vList u v p.1.1 p.1.2) (fun p => w p.1.1 p.1.2 p.2) =
    objW assort K L N A u v w := by
  unfold MM.F objW
  rw [pen_W assort K L N uList vList u v w hU hV]
  have : ∑ e ∈ sEV L N, A e.1 e.2.1 e.2.2 *
        Real.log (MM.S (sPW assort K L) (cW u v) (fun p => w p.1.1 p.1.2 p.2) e) =
      ∑ a ∈ range L, ∑ i ∈ range N, ∑ j ∈ range N, A a i j * Real.log (rate assort K w v u i j a) := by
    rw [sum_congr rfl (fun e he => by rw [S_W assort K L N u v w e he])]
    unfold sEV
    rw [sum_product]
    apply sum_congr rfl; intro a _
    rw [sum_product]
  rw [this]
  simp only [sum_sub_distrib]

theorem upd_W (m : Nat → Nat → Nat → Prop) [∀ k q a, Decidable (m k q a)] (p : (Nat × Nat) × Nat)
    (hp : p ∈ sPW assort K L) :
    MM.upd (sPW assort K L) (sEV L N) (fun e => A e.1 e.2.1 e.2.2) (cW u v)
      (fun p => specWZ uList vList u v p.1.1 p.1.2) (fun p => m p.1.1 p.1.2 p.2) (fun p => w p.1.1 p.1.2 p.2) p =
    mmW assort K N uList vList A u v w m p.1.1 p.1.2 p.2 := by
  obtain ⟨⟨k, q⟩, a⟩ := p
  simp only [sPW, mem_product, mem_range] at hp
  unfold MM.upd mmW
  simp only
  split_ifs with h
  · congr 1
    rw [sum_congr rfl (fun e he => by rw [S_W assort K L N u v w e he])]
    unfold sEV cW
    rw [sum_product, sum_eq_single a]
    · rw [sum_product]
      apply sum_congr rfl; intro i _
      apply sum_congr rfl; intro j _
      simp only [↓reduceIte]; ring
    · intro a' _ hne
      apply sum_eq_zero; intro x _
      simp only [Ne.symm hne, ↓reduceIte, mul_zero, zero_div]
    · intro h'; exact absurd (mem_range.mpr hp.2) h'
  · rfl

/-- **ascent of the masked affinity update** -/
theorem mmW_ascent (m : Nat → Nat → Nat → Prop) [∀ k q a, Decidable (m k q a)]
    (hU : ∀ k, sumL uList (fun i => u i k) = ∑ i ∈ range N, u i k)
    (hV : ∀ q, sumL vList (fun j => v j q) = ∑ j ∈ range N, v j q)
    (hA : ∀ a i j, 0 ≤ A a i j) (hu : ∀ i k, 0 ≤ u i k) (hv : ∀ j q, 0 ≤ v j q) (hw : ∀ k q a, 0 ≤ w k q a)
    (hZ : ∀ k q a, m k q a → 0 < specWZ uList vList u v k q)
    (hR : ∀ a i j, a < L → i < N → j < N → 0 < A a i j → 0 < rate assort K w v u i j a) :
    objW assort K L N A u v w ≤ objW assort K L N A u v (mmW assort K N uList vList A u v w m) := by
  have h := MM.ascent (sPW assort K L) (sEV L N) (fun e => A e.1 e.2.1 e.2.2) (cW u v)
    (fun p => specWZ uList vList u v p.1.1 p.1.2) (fun p : (Nat × Nat) × Nat => m p.1.1 p.1.2 p.2)
    (fun p => w p.1.1 p.1.2 p.2)
    (fun e _ => hA _ _ _)
    (fun e _ p _ => by
      unfold cW; split_ifs
      · exact mul_nonneg (hu _ _) (hv _ _)
      · exact le_rfl)
    (fun p _ => hw _ _ _)
    (fun p _ hp => hZ p.1.1 p.1.2 p.2 hp)
    (fun e he hae => by
      rw [S_W assort K L N u v w e he]
      simp only [sEV, mem_product, mem_range] at he
      exact hR _ _ _ he.1 he.2.1 he.2.2 hae)
  rw [F_W assort K L N uList vList A u v w hU hV] at h
  have h2 : MM.F (sPW assort K L) (sEV L N) (fun e => A e.1 e.2.1 e.2.2) (cW u v)
      (fun p => specWZ uList vList u v p.1.1 p.1.2)
      (MM.upd (sPW assort K L) (sEV L N) (fun e => A e.1 e.2.1 e.2.2) (cW u v)
        (fun p => specWZ uList vList u v p.1.1 p.1.2) (fun p : (Nat × Nat) × Nat => m p.1.1 p.1.2 p.2)
        (fun p => w p.1.1 p.1.2 p.2)) =
      MM.F (sPW assort K L) (sEV L N) (fun e => A e.1 e.2.1 e.2.2) (cW u v)
      (fun p => specWZ uList vList u v p.1.1 p.1.2)
      (fun p => mmW assort K N uList vList A u v w m p.1.1 p.1.2 p.2) := by
    unfold MM.F MM.S
    congr 1
    · apply sum_congr rfl; intro e _
      congr 2
      apply sum_congr rfl; intro p hp
      rw [upd_W assort K L N uList vList A u v w m p hp]
    · apply sum_congr rfl; intro p hp
      rw [upd_W assort K L N uList vList A u v w m p hp]
  rw [h2, F_W assort K L N uList vList A u v (mmW assort K N uList vList A u v w m) hU hV] at h
  exact h

end wstep

end MTProofs
