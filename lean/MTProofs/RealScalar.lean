/-
The model instantiated at ℝ: `MTExtra ℝ` (constants from the generated Params), and the bridge from
the code-order accumulators (`sumL`, `pairs`, `gpairs`, `cols`) to `Finset` sums.
-/
import MT.Solver
import Mathlib.Analysis.SpecialFunctions.Log.Basic
import Mathlib.Algebra.BigOperators.Group.Finset.Basic
import Mathlib.Algebra.BigOperators.Ring.Finset
import Mathlib.Algebra.Order.BigOperators.Group.Finset
import Mathlib.Tactic.Ring
import Mathlib.Tactic.Linarith
import Mathlib.Tactic.Positivity
import Mathlib.Tactic.FieldSimp

namespace MTProofs
open MT Finset

/-- value of a decimal literal `mant · 10^exp` -/
noncomputable def sciReal (m : Nat) (e : Int) : ℝ := (m : ℝ) * (10 : ℝ) ^ e

noncomputable instance : MTExtra ℝ where
  zero := 0
  abs := fun x => |x|
  log := Real.log
  ofNat := fun n => (n : ℝ)
  eps := sciReal Params.epsMant Params.epsExp
  epsLik := sciReal Params.epsLikMant Params.epsLikExp
  noise := sciReal Params.noiseMant Params.noiseExp
  lowest := -(1.7976931348623157e308 : ℝ)

/-- the documented truncation threshold -/
noncomputable abbrev ε : ℝ := (MTExtra.eps : ℝ)

@[simp] theorem zero_eq : (MTExtra.zero : ℝ) = 0 := rfl
@[simp] theorem abs_eq (x : ℝ) : MTExtra.abs x = |x| := rfl
@[simp] theorem log_eq (x : ℝ) : MTExtra.log x = Real.log x := rfl
@[simp] theorem ofNat_eq (n : Nat) : (MTExtra.ofNat n : ℝ) = (n : ℝ) := rfl

/-- documented constants are proof obligations: the literals in params.hpp are the documented ones -/
theorem eps_documented : Params.epsLit = "1e-6" ∧ Params.epsLikLit = "1e-4" ∧ Params.noiseLit = "0.1" := by
  decide

theorem eps_value : ε = 1 / 1000000 := by
  show sciReal Params.epsMant Params.epsExp = _
  unfold sciReal Params.epsMant Params.epsExp
  norm_num

theorem eps_pos : 0 < ε := by rw [eps_value]; norm_num

theorem eps_lt_one : ε < 1 := by rw [eps_value]; norm_num

theorem noise_value : (MTExtra.noise : ℝ) = 1 / 10 := by
  show sciReal Params.noiseMant Params.noiseExp = _
  unfold sciReal Params.noiseMant Params.noiseExp
  norm_num

/-! ### code-order accumulators are sums -/

theorem sumL_eq_sum {ι : Type} (l : List ι) (f : ι → ℝ) : sumL l f = (l.map f).sum := by
  unfold sumL
  rw [List.sum_eq_foldl, List.foldl_map]
  rfl

theorem sumL_nil {ι : Type} (f : ι → ℝ) : sumL ([] : List ι) f = 0 := rfl

theorem sumL_range (n : Nat) (f : Nat → ℝ) : sumL (List.range n) f = ∑ i ∈ range n, f i := by
  rw [sumL_eq_sum]
  induction n with
  | zero => simp
  | succ n ih => rw [List.range_succ, List.map_append, List.sum_append, ih, sum_range_succ]; simp

theorem sumL_singleton {ι : Type} (x : ι) (f : ι → ℝ) : sumL [x] f = f x := by
  rw [sumL_eq_sum]; simp

theorem sumL_filter {ι : Type} (l : List ι) (p : ι → Bool) (f : ι → ℝ) :
    sumL (l.filter p) f = sumL l (fun x => if p x then f x else 0) := by
  rw [sumL_eq_sum, sumL_eq_sum]
  induction l with
  | nil => rfl
  | cons x xs ih =>
    by_cases h : p x = true
    · simp only [List.filter_cons_of_pos h, List.map_cons, List.sum_cons, h, ↓reduceIte, ih]
    · simp only [List.filter_cons_of_neg h, List.map_cons, List.sum_cons, h, Bool.false_eq_true,
        ↓reduceIte, ih, zero_add]

theorem sumL_flatMap {ι κ : Type} (l : List ι) (g : ι → List κ) (f : κ → ℝ) :
    sumL (l.flatMap g) f = sumL l (fun x => sumL (g x) f) := by
  simp only [sumL_eq_sum]
  induction l with
  | nil => rfl
  | cons x xs ih => simp only [List.flatMap_cons, List.map_append, List.sum_append, ih, List.map_cons, List.sum_cons]

theorem sumL_map {ι κ : Type} (l : List ι) (g : ι → κ) (f : κ → ℝ) :
    sumL (l.map g) f = sumL l (fun x => f (g x)) := by
  simp only [sumL_eq_sum, List.map_map]; rfl

theorem sumL_congr {ι : Type} (l : List ι) (f g : ι → ℝ) (h : ∀ x ∈ l, f x = g x) : sumL l f = sumL l g := by
  simp only [sumL_eq_sum]
  congr 1
  exact List.map_congr_left h

/-- an accumulator threaded through two nested loops -/
theorem sumL_pairs (m n : Nat) (f : Nat × Nat → ℝ) :
    sumL (pairs m n) f = ∑ a ∈ range m, ∑ b ∈ range n, f (a, b) := by
  unfold pairs
  rw [sumL_flatMap, sumL_range]
  apply sum_congr rfl
  intro a _
  rw [sumL_map, sumL_range]

theorem sumL_gpairs (assort : Bool) (K : Nat) (f : Nat × Nat → ℝ) :
    sumL (gpairs assort K) f =
      if assort then ∑ k ∈ range K, f (k, k) else ∑ k ∈ range K, ∑ q ∈ range K, f (k, q) := by
  unfold gpairs
  cases assort
  · simp only [Bool.false_eq_true, ↓reduceIte, sumL_pairs]
  · simp only [↓reduceIte, sumL_map, sumL_range]

theorem sumL_cols (assort : Bool) (K k : Nat) (f : Nat → ℝ) :
    sumL (cols assort K k) f = if assort then f k else ∑ q ∈ range K, f q := by
  unfold cols
  cases assort
  · simp only [Bool.false_eq_true, ↓reduceIte, sumL_range]
  · simp only [↓reduceIte, sumL_singleton]

/-- a loop over an adjacency list = a sum over all vertices weighted by multiplicity -/
theorem sumL_adj (l : List Nat) (N : Nat) (hl : ∀ j ∈ l, j < N) (f : Nat → ℝ) :
    sumL l f = ∑ j ∈ range N, (l.count j : ℝ) * f j := by
  rw [sumL_eq_sum]
  induction l with
  | nil => simp
  | cons x xs ih =>
    have hx : x < N := hl x (List.mem_cons_self)
    rw [List.map_cons, List.sum_cons, ih (fun j hj => hl j (List.mem_cons_of_mem _ hj))]
    have : ∀ j ∈ range N, ((x :: xs).count j : ℝ) * f j = (xs.count j : ℝ) * f j + (if j = x then f j else 0) := by
      intro j _
      rw [List.count_cons]
      by_cases h : j = x
      · subst h; simp; ring
      · have : (x == j) = false := by simp [Ne.symm h]
        simp [this, h]
    rw [sum_congr rfl this, sum_add_distrib, sum_ite_eq' (range N) x f]
    simp only [mem_range, hx, ↓reduceIte]
    ring

end MTProofs
