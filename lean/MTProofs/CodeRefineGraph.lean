/-
The `Network` constructor of graph.hpp (structure from the source, statement meanings from the table in
tools/gen_graph_code.py) builds the model's `build`: vertices in order of first appearance with the same
index in every layer, out-edge and in-edge lists equal to the declarative `Net.out` / `Net.inn`, the edge counter
equal to `Net.nedges`.
-/
import MT.Generated.GraphCode
import MTProofs.Graph
import MTProofs.CodeRefine

set_option linter.unusedSectionVars false
set_option linter.unusedVariables false

namespace MT.CodeRefine
open MT MT.Imp MT.Gen MTProofs

section
variable {β : Type} [DecidableEq β]

/-- `add_vertex` on the label list: a new label goes to the end -/
def ins (L : List β) (x : β) : List β := if x ∈ L then L else L ++ [x]

theorem mem_ins (L : List β) (x y : β) : y ∈ ins L x ↔ y ∈ L ∨ y = x := by
  unfold ins
  by_cases h : x ∈ L
  · simp only [h, if_true]
    constructor
    · exact Or.inl
    · rintro (h1 | h1)
      · exact h1
      · rw [h1]; exact h
  · simp [h]

theorem self_mem_ins (L : List β) (x : β) : x ∈ ins L x := (mem_ins L x x).2 (Or.inr rfl)

theorem ins_prefix (L : List β) (x : β) : L <+: ins L x := by
  unfold ins
  by_cases h : x ∈ L
  · simp [h]
  · simp only [h, if_false]; exact List.prefix_append L [x]

theorem idxOf_of_prefix {L M : List β} (h : L <+: M) {x : β} (hx : x ∈ L) : M.idxOf x = L.idxOf x := by
  obtain ⟨t, rfl⟩ := h
  exact List.idxOf_append_of_mem hx

/-- the first-appearance list grows by `ins` -/
theorem firstApp_snoc (l : List β) (x : β) : firstApp (l ++ [x]) = ins (firstApp l) x := by
  induction l with
  | nil => simp [firstApp, ins]
  | cons y ys ih =>
    simp only [List.cons_append, firstApp, ih]
    unfold ins
    by_cases hx : x ∈ firstApp ys
    · have hx' : x ∈ y :: (firstApp ys).filter (· ≠ y) := by
        by_cases hxy : x = y
        · simp [hxy]
        · simp [List.mem_filter, hx, hxy]
      simp [hx]
    · by_cases hxy : x = y
      · subst hxy
        simp [hx]
      · have hx' : ¬ x ∈ y :: (firstApp ys).filter (· ≠ y) := by
          simp [List.mem_filter, hx, hxy]
        simp [hx, List.filter_append, hxy]

/-- label list and label→index map agree, in every layer -/
def AV (nL : Nat) (L : List β) (s : NetLoc β) : Prop :=
  (∀ a, a < nL → s.vlab a = L) ∧ (∀ l, s.idx_map.lookup l = if l ∈ L then some (L.idxOf l) else none)

/-- the loop `for alpha: idx = boost::add_vertex(label, layer alpha)` -/
theorem addVertex_loop (n : Nat) (x : β) (s : NetLoc β) :
    let s' := (List.range n).foldl (fun (s : NetLoc β) alpha =>
      { s with idx := (s.vlab alpha).length, vlab := pushAt s.vlab alpha x }) s
    (∀ a, s'.vlab a = if a < n then s.vlab a ++ [x] else s.vlab a) ∧
    s'.idx = (if n = 0 then s.idx else (s.vlab (n - 1)).length) ∧
    s'.idx_map = s.idx_map ∧ s'.outA = s.outA ∧ s'.innA = s.innA ∧ s'.nedges = s.nedges ∧
    s'.u_list = s.u_list ∧ s'.v_list = s.v_list ∧ s'.nvertices = s.nvertices ∧
    s'.node_in = s.node_in ∧ s'.node_out = s.node_out := by
  induction n with
  | zero => simp
  | succ n ih =>
    rw [List.range_succ, List.foldl_append]
    simp only [List.foldl_cons, List.foldl_nil]
    obtain ⟨h1, h2, h3, h4, h5, h6, h7, h8, h9, h10, h11⟩ := ih
    refine ⟨fun a => ?_, ?_, h3, h4, h5, h6, h7, h8, h9, h10, h11⟩
    · simp only [pushAt, h1]
      by_cases ha : a = n
      · subst ha; simp
      · by_cases hlt : a < n
        · have : a < n + 1 := by omega
          simp [ha, hlt, this]
        · have : ¬ a < n + 1 := by omega
          simp [ha, hlt, this]
    · simp [h1]

/-- **`Network::add_vertex`**: a label already known returns its index, a new one is appended to every layer and
to the map and returns the new index; nothing else changes -/
theorem addVertex_spec (nL : Nat) (hnL : 0 < nL) (L : List β) (x : β) (s : NetLoc β) (h : AV nL L s) :
    let s' := addVertexCode nL x s
    AV nL (ins L x) s' ∧ s'.ret = (ins L x).idxOf x ∧ s'.outA = s.outA ∧ s'.innA = s.innA ∧
    s'.nedges = s.nedges ∧ s'.node_in = s.node_in ∧ s'.node_out = s.node_out := by
  obtain ⟨hv, hm⟩ := h
  unfold addVertexCode
  by_cases hx : x ∈ L
  · have hl : s.idx_map.lookup x = some (L.idxOf x) := by rw [hm x]; simp [hx]
    have hins : ins L x = L := by simp [ins, hx]
    simp only [hl, hins]
    refine ⟨⟨hv, hm⟩, ?_, rfl, rfl, rfl, rfl, rfl⟩
    simp
  · have hl : s.idx_map.lookup x = none := by rw [hm x]; simp [hx]
    have hins : ins L x = L ++ [x] := by simp [ins, hx]
    simp only [hl, hins, if_true, forRange]
    obtain ⟨g1, g2, g3, g4, g5, g6, g7, g8, g9, g10, g11⟩ :=
      addVertex_loop nL x ({ s with it := none, idx := 0 } : NetLoc β)
    simp only [] at g1 g2 g3 g4 g5 g6
    have hidx : (List.foldl (fun (s : NetLoc β) alpha =>
        { s with idx := (s.vlab alpha).length, vlab := pushAt s.vlab alpha x })
        ({ s with it := none, idx := 0 } : NetLoc β) (List.range nL)).idx = L.length := by
      rw [g2]
      have : ¬ nL = 0 := by omega
      simp only [this, if_false]
      rw [hv (nL - 1) (by omega)]
    have hlook : ∀ l, (s.idx_map ++ [(x, L.length)]).lookup l =
        if l ∈ L ++ [x] then some ((L ++ [x]).idxOf l) else none := by
      intro l
      rw [List.lookup_append, hm l]
      by_cases hl' : l ∈ L
      · simp [hl', List.idxOf_append_of_mem hl']
      · by_cases hlx : l = x
        · subst hlx
          simp [hl', List.idxOf_append_of_notMem hl', List.lookup_cons]
        · have : ¬ (l == x) = true := by simpa using hlx
          simp [hl', hlx, List.lookup_cons, this]
    refine ⟨⟨?_, ?_⟩, ?_, ?_, ?_, ?_, g10, g11⟩
    · intro a ha
      simp only [g1, ha, if_true]
      rw [hv a ha]
    · intro l
      simp only [g3, hidx]
      exact hlook l
    · simp only [g3, hidx]
      rw [hlook x]
      simp [List.idxOf_append_of_notMem hx]
    · exact g4
    · exact g5
    · exact g6

/-- what one record contributes to the out-list of vertex `v` in one layer (`m` parallel edges `src → dst`) -/
def pieceOut (directed : Bool) (src dst m v : Nat) : List Nat :=
  (if src = v then List.replicate m dst else []) ++ (if !directed && dst = v then List.replicate m src else [])

theorem cons_replicate (m v : Nat) : v :: List.replicate m v = List.replicate m v ++ [v] := by
  rw [← List.replicate_succ, List.replicate_succ']

theorem replicate_twice_snoc (m v : Nat) (l : List Nat) :
    l ++ (List.replicate m v ++ List.replicate m v) ++ [v] ++ [v]
      = l ++ (List.replicate (m + 1) v ++ List.replicate (m + 1) v) := by
  have h : List.replicate m v ++ [v, v] = v :: (List.replicate m v ++ [v]) := by
    rw [← List.cons_append, cons_replicate]; simp
  simp only [List.replicate_succ', List.append_assoc, List.cons_append, List.nil_append]
  rw [h]

/-- the `for (w < weight)` loop of one record in one layer, undirected graph -/
theorem edge_loop_undirected (nL : Nat) (starts ends : List β) (dflt : β) (unitsAt : Nat → Nat → Nat)
    (i alpha : Nat) (s : NetLoc β) :
    let s' := networkCode_1_1 false nL starts ends dflt unitsAt i alpha s
    (∀ a v, s'.outA a v = s.outA a v ++
        (if a = alpha then pieceOut false s.node_in s.node_out (unitsAt i alpha) v else [])) ∧
    s'.innA = s.innA ∧
    s'.nedges = s.nedges + unitsAt i alpha ∧ s'.vlab = s.vlab ∧ s'.idx_map = s.idx_map ∧
    s'.node_in = s.node_in ∧ s'.node_out = s.node_out := by
  unfold networkCode_1_1
  simp only [forRange, Bool.false_eq_true, if_false]
  generalize unitsAt i alpha = m
  induction m with
  | zero => simp [pieceOut]
  | succ m ih =>
    rw [List.range_succ, List.foldl_append]
    simp only [List.foldl_cons, List.foldl_nil]
    obtain ⟨h1, h2, h3, h4, h5, h6, h7⟩ := ih
    refine ⟨fun a v => ?_, h2, by simp only [h3]; omega, h4, h5, h6, h7⟩
    simp only [appendAt, h1, h6, h7, pieceOut, Bool.not_false, Bool.true_and]
    by_cases ha : a = alpha
    · subst ha
      by_cases hs : s.node_in = v <;> by_cases hd : s.node_out = v
      · subst hs
        rw [hd]
        simp only [and_self, if_true, decide_true]
        exact replicate_twice_snoc m s.node_in (s.outA a s.node_in)
      · have hd' : ¬ s.node_in = s.node_out := by rw [hs]; exact fun h => hd h.symm
        have hd2 : ¬ v = s.node_out := fun h => hd h.symm
        have hd3 : ¬ s.node_out = s.node_in := fun h => hd' h.symm
        subst hs
        simp [hd, hd', hd2, hd3, List.replicate_succ']
      · have hs' : ¬ s.node_out = s.node_in := by rw [hd]; exact fun h => hs h.symm
        have hs2 : ¬ v = s.node_in := fun h => hs h.symm
        have hs3 : ¬ s.node_in = s.node_out := fun h => hs' h.symm
        subst hd
        simp [hs, hs', hs2, hs3, List.replicate_succ']
      · have hs2 : ¬ v = s.node_in := fun h => hs h.symm
        have hd2 : ¬ v = s.node_out := fun h => hd h.symm
        simp [hs, hd, hs2, hd2]
    · simp [ha]

/-- the same loop, bidirectional graph -/
theorem edge_loop_directed (nL : Nat) (starts ends : List β) (dflt : β) (unitsAt : Nat → Nat → Nat)
    (i alpha : Nat) (s : NetLoc β) :
    let s' := networkCode_1_1 true nL starts ends dflt unitsAt i alpha s
    (∀ a v, s'.outA a v = s.outA a v ++
        (if a = alpha then pieceOut true s.node_in s.node_out (unitsAt i alpha) v else [])) ∧
    (∀ a v, s'.innA a v = s.innA a v ++
        (if a = alpha ∧ s.node_out = v then List.replicate (unitsAt i alpha) s.node_in else [])) ∧
    s'.nedges = s.nedges + unitsAt i alpha ∧ s'.vlab = s.vlab ∧ s'.idx_map = s.idx_map ∧
    s'.node_in = s.node_in ∧ s'.node_out = s.node_out := by
  unfold networkCode_1_1
  simp only [forRange, if_true]
  generalize unitsAt i alpha = m
  induction m with
  | zero => simp [pieceOut]
  | succ m ih =>
    rw [List.range_succ, List.foldl_append]
    simp only [List.foldl_cons, List.foldl_nil]
    obtain ⟨h1, h2, h3, h4, h5, h6, h7⟩ := ih
    refine ⟨fun a v => ?_, fun a v => ?_, by simp only [h3]; omega, h4, h5, h6, h7⟩
    · simp only [appendAt, h1, h6, h7, pieceOut, Bool.not_true, Bool.false_and]
      by_cases ha : a = alpha <;> by_cases hs : s.node_in = v
      · subst hs; simp [ha, List.replicate_succ']
      · have hs2 : ¬ v = s.node_in := fun h => hs h.symm
        simp [ha, hs, hs2]
      · simp [ha]
      · simp [ha]
    · simp only [appendAt, h2, h6, h7]
      by_cases ha : a = alpha <;> by_cases hd : s.node_out = v
      · subst hd; simp [ha, List.replicate_succ']
      · have hd2 : ¬ v = s.node_out := fun h => hd h.symm
        simp [ha, hd, hd2]
      · simp [ha]
      · simp [ha]

/-- both directions in one statement -/
theorem edge_loop (directed : Bool) (nL : Nat) (starts ends : List β) (dflt : β) (unitsAt : Nat → Nat → Nat)
    (i alpha : Nat) (s : NetLoc β) :
    let s' := networkCode_1_1 directed nL starts ends dflt unitsAt i alpha s
    (∀ a v, s'.outA a v = s.outA a v ++
        (if a = alpha then pieceOut directed s.node_in s.node_out (unitsAt i alpha) v else [])) ∧
    (∀ a v, s'.innA a v = s.innA a v ++
        (if directed = true ∧ a = alpha ∧ s.node_out = v then List.replicate (unitsAt i alpha) s.node_in else [])) ∧
    s'.nedges = s.nedges + unitsAt i alpha ∧ s'.vlab = s.vlab ∧ s'.idx_map = s.idx_map ∧
    s'.node_in = s.node_in ∧ s'.node_out = s.node_out := by
  cases directed
  · obtain ⟨h1, h2, h3, h4, h5, h6, h7⟩ := edge_loop_undirected nL starts ends dflt unitsAt i alpha s
    exact ⟨h1, fun a v => by simp [h2], h3, h4, h5, h6, h7⟩
  · obtain ⟨h1, h2, h3, h4, h5, h6, h7⟩ := edge_loop_directed nL starts ends dflt unitsAt i alpha s
    exact ⟨h1, fun a v => by simp [h2], h3, h4, h5, h6, h7⟩

/-- the loop over the layers for one record -/
theorem layer_loop (directed : Bool) (nL : Nat) (starts ends : List β) (dflt : β) (unitsAt : Nat → Nat → Nat)
    (i n : Nat) (s : NetLoc β) :
    let s' := (List.range n).foldl (fun s alpha => networkCode_1_1 directed nL starts ends dflt unitsAt i alpha s) s
    (∀ a v, s'.outA a v = s.outA a v ++
        (if a < n then pieceOut directed s.node_in s.node_out (unitsAt i a) v else [])) ∧
    (∀ a v, s'.innA a v = s.innA a v ++
        (if directed = true ∧ a < n ∧ s.node_out = v then List.replicate (unitsAt i a) s.node_in else [])) ∧
    s'.nedges = s.nedges + ((List.range n).map (unitsAt i)).sum ∧ s'.vlab = s.vlab ∧ s'.idx_map = s.idx_map ∧
    s'.node_in = s.node_in ∧ s'.node_out = s.node_out := by
  induction n with
  | zero => simp
  | succ n ih =>
    rw [List.range_succ, List.foldl_append]
    simp only [List.foldl_cons, List.foldl_nil, List.map_append, List.sum_append, List.map_cons, List.map_nil,
      List.sum_cons, List.sum_nil, Nat.add_zero]
    obtain ⟨h1, h2, h3, h4, h5, h6, h7⟩ := ih
    obtain ⟨e1, e2, e3, e4, e5, e6, e7⟩ := edge_loop directed nL starts ends dflt unitsAt i n
      ((List.range n).foldl (fun s alpha => networkCode_1_1 directed nL starts ends dflt unitsAt i alpha s) s)
    refine ⟨fun a v => ?_, fun a v => ?_, ?_, e4.trans h4, e5.trans h5, e6.trans h6, e7.trans h7⟩
    · rw [e1, h1, h6, h7]
      by_cases ha : a = n
      · subst ha; simp
      · by_cases hlt : a < n
        · have : a < n + 1 := by omega
          simp [ha, hlt, this]
        · have : ¬ a < n + 1 := by omega
          simp [ha, hlt, this]
    · rw [e2, h2, h6, h7]
      by_cases ha : a = n
      · subst ha; simp
      · by_cases hlt : a < n
        · have : a < n + 1 := by omega
          simp [ha, hlt, this]
        · have : ¬ a < n + 1 := by omega
          simp [ha, hlt, this]
    · rw [e3, h3]; omega

theorem firstApp_prefix (l1 t : List β) : firstApp l1 <+: firstApp (l1 ++ t) := by
  induction t generalizing l1 with
  | nil => simp
  | cons x t ih =>
    have h : l1 ++ x :: t = (l1 ++ [x]) ++ t := by simp
    rw [h]
    refine List.IsPrefix.trans ?_ (ih (l1 ++ [x]))
    rw [firstApp_snoc]
    exact ins_prefix _ _

theorem zip_take (s e : List β) (n : Nat) : (s.take n).zip (e.take n) = (s.zip e).take n := by
  induction n generalizing s e with
  | zero => simp
  | succ n ih =>
    cases s with
    | nil => simp
    | cons x xs =>
      cases e with
      | nil => simp
      | cons y ys => simp [ih]

theorem interleave_take_succ (s e : List β) (n : Nat) (hs : n < s.length) (he : n < e.length) :
    interleave (s.take (n + 1)) (e.take (n + 1)) = interleave (s.take n) (e.take n) ++ [s[n], e[n]] := by
  unfold interleave
  rw [zip_take, zip_take]
  have hz : n < (s.zip e).length := by simp [List.length_zip]; omega
  rw [← List.take_append_getElem hz, List.flatMap_append]
  simp [List.getElem_zip]

theorem interleave_take_prefix (s e : List β) (n : Nat) :
    interleave (s.take n) (e.take n) <+: interleave s e := by
  unfold interleave
  rw [zip_take]
  have h : s.zip e = (s.zip e).take n ++ (s.zip e).drop n := (List.take_append_drop n _).symm
  conv => rhs; rw [h]
  rw [List.flatMap_append]
  exact List.prefix_append _ _

/-- labels after the first `n` records -/
def Lp (s e : List β) (n : Nat) : List β := firstApp (interleave (s.take n) (e.take n))

theorem Lp_prefix (s e : List β) (n : Nat) : Lp s e n <+: firstApp (interleave s e) := by
  obtain ⟨t, ht⟩ := interleave_take_prefix s e n
  unfold Lp
  rw [← ht]
  exact firstApp_prefix _ _

theorem Lp_succ (s e : List β) (n : Nat) (hs : n < s.length) (he : n < e.length) :
    Lp s e (n + 1) = ins (ins (Lp s e n) s[n]) e[n] := by
  unfold Lp
  rw [interleave_take_succ s e n hs he]
  have h : interleave (s.take n) (e.take n) ++ [s[n], e[n]] =
      (interleave (s.take n) (e.take n) ++ [s[n]]) ++ [e[n]] := by simp
  rw [h, firstApp_snoc, firstApp_snoc]

variable {ω : Type} [Weight ω]

/-- **the `Network` constructor builds the model's network**: with `nL ≥ 1` layers and as many targets as
sources, after the loop over the records every layer holds the labels in order of first appearance, the
label→index map is consistent with them, and the out-lists, the in-lists and the edge counter are the model's -/
theorem networkCode_refines (directed : Bool) (starts ends : List β) (weights : List ω) (dflt : β)
    (hlen : starts.length = ends.length) (hnL : 0 < (build directed starts ends weights).nL) (s0 : NetLoc β)
    (h0 : s0.idx_map = [] ∧ (∀ a, s0.vlab a = []) ∧ (∀ a v, s0.outA a v = []) ∧ (∀ a v, s0.innA a v = []) ∧
      s0.nedges = 0) :
    let net := build directed starts ends weights
    let s := networkCode directed net.nL starts ends dflt
      (fun i a => (chunkUnits weights net.nL i).getD a 0) s0
    (∀ a, a < net.nL → s.vlab a = net.labels) ∧
    (∀ l, s.idx_map.lookup l = if l ∈ net.labels then some (net.labels.idxOf l) else none) ∧
    (∀ a v, s.outA a v = net.out a v) ∧
    (directed = true → ∀ a v, s.innA a v = net.inn a v) ∧
    s.nedges = net.nedges ∧ s.nvertices = net.nV ∧ (directed = false → ∀ a v, s.innA a v = []) := by
  intro net
  -- the invariant after `n` records
  have key : ∀ n, n ≤ starts.length →
      let s := (List.range n).foldl (fun s i => networkCode_1 directed net.nL starts ends dflt
        (fun i a => (chunkUnits weights net.nL i).getD a 0) i s) s0
      AV net.nL (Lp starts ends n) s ∧
      (∀ a v, s.outA a v = (net.recs.take n).flatMap
        (fun r => pieceOut directed r.src r.dst (Net.unitsAt r a) v)) ∧
      (∀ a v, s.innA a v = if directed = true then (net.recs.take n).flatMap
        (fun r => if r.dst = v then List.replicate (Net.unitsAt r a) r.src else []) else []) ∧
      s.nedges = ((net.recs.take n).map fun r => ((List.range net.nL).map (Net.unitsAt r)).sum).sum := by
    intro n
    induction n with
    | zero =>
      intro _
      obtain ⟨a1, a2, a3, a4, a5⟩ := h0
      refine ⟨⟨fun a _ => ?_, fun l => ?_⟩, fun a v => ?_, fun a v => ?_, ?_⟩
      · simp [Lp, interleave, firstApp, a2]
      · simp [Lp, interleave, firstApp, a1]
      · simp [a3]
      · simp [a4]
      · simp [a5]
    | succ n ih =>
      intro hn
      have hn' : n ≤ starts.length := by omega
      have hs : n < starts.length := by omega
      have he : n < ends.length := by omega
      obtain ⟨i1, i2, i3, i4⟩ := ih hn'
      rw [List.range_succ, List.foldl_append]
      simp only [List.foldl_cons, List.foldl_nil]
      generalize hS : (List.range n).foldl (fun s i => networkCode_1 directed net.nL starts ends dflt
        (fun i a => (chunkUnits weights net.nL i).getD a 0) i s) s0 = S at *
      unfold networkCode_1
      simp only [forRange]
      have hgs : starts.getD n dflt = starts[n] := by simp [List.getD_eq_getElem?_getD, hs]
      have hge : ends.getD n dflt = ends[n] := by simp [List.getD_eq_getElem?_getD, he]
      rw [hgs, hge]
      -- first endpoint
      obtain ⟨v1, v2, v3, v4, v5, v6, v7⟩ := addVertex_spec net.nL hnL (Lp starts ends n) starts[n] S i1
      generalize hS1 : addVertexCode net.nL starts[n] S = S1 at *
      -- second endpoint
      have hav1 : AV net.nL (ins (Lp starts ends n) starts[n]) ({ S1 with node_in := S1.ret } : NetLoc β) := v1
      obtain ⟨w1, w2, w3, w4, w5, w6, w7⟩ := addVertex_spec net.nL hnL (ins (Lp starts ends n) starts[n]) ends[n]
        ({ S1 with node_in := S1.ret } : NetLoc β) hav1
      generalize hS2 : addVertexCode net.nL ends[n] ({ S1 with node_in := S1.ret } : NetLoc β) = S2 at *
      -- the layers
      obtain ⟨l1, l2, l3, l4, l5, l6, l7⟩ := layer_loop directed net.nL starts ends dflt
        (fun i a => (chunkUnits weights net.nL i).getD a 0) n net.nL ({ S2 with node_out := S2.ret } : NetLoc β)
      simp only [] at l1 l2 l3 l4 l5 l6 l7
      generalize hS3 : (List.range net.nL).foldl (fun s alpha => networkCode_1_1 directed net.nL starts ends dflt
        (fun i a => (chunkUnits weights net.nL i).getD a 0) n alpha s) ({ S2 with node_out := S2.ret } : NetLoc β) = S3 at *
      -- the record the model has at position `n`
      have hRlen : net.recs.length = starts.length := by
        simp [net, build, List.length_zip, hlen]
      have hn2 : n < net.recs.length := by omega
      have hRn : net.recs[n] = (⟨net.labels.idxOf starts[n], net.labels.idxOf ends[n],
          chunkUnits weights net.nL n⟩ : IRec) := by
        simp [net, build, List.getElem_zipIdx, List.getElem_zip]
      have htake : net.recs.take (n + 1) = net.recs.take n ++ [net.recs[n]] :=
        (List.take_append_getElem hn2).symm
      -- indices: what `add_vertex` returned is the index in the final label list
      have hLp1 : Lp starts ends (n + 1) = ins (ins (Lp starts ends n) starts[n]) ends[n] := Lp_succ starts ends n hs he
      have hpre : Lp starts ends (n + 1) <+: net.labels := Lp_prefix starts ends (n + 1)
      have hsrc : net.labels.idxOf starts[n] = S1.ret := by
        rw [v2]
        have hp : ins (Lp starts ends n) starts[n] <+: net.labels :=
          List.IsPrefix.trans (by rw [hLp1]; exact ins_prefix _ _) hpre
        exact idxOf_of_prefix hp (self_mem_ins _ _)
      have hdst : net.labels.idxOf ends[n] = S2.ret := by
        rw [w2, ← hLp1]
        exact idxOf_of_prefix hpre (by rw [hLp1]; exact self_mem_ins _ _)
      have hunits : ∀ a, ¬ a < net.nL → (chunkUnits weights net.nL n)[a]?.getD 0 = 0 := by
        intro a ha
        have hl : (chunkUnits weights net.nL n).length ≤ net.nL := by
          simp [chunkUnits, List.length_take]
        simp [List.getElem?_eq_none (by omega : (chunkUnits weights net.nL n).length ≤ a)]
      have hnin : S2.node_in = S1.ret := w6
      refine ⟨⟨fun a ha => ?_, fun l => ?_⟩, fun a v => ?_, fun a v => ?_, ?_⟩
      · rw [l4, hLp1]; exact w1.1 a ha
      · rw [l5, hLp1]; exact w1.2 l
      · rw [l1, htake, List.flatMap_append, w3, v3, i2 a v]
        simp only [List.flatMap_cons, List.flatMap_nil, List.append_nil, hRn, Net.unitsAt, hsrc, hdst, hnin,
          List.getD_eq_getElem?_getD]
        congr 1
        by_cases ha : a < net.nL
        · simp [ha]
        · simp [ha, hunits a ha, pieceOut]
      · rw [l2, htake, w4, v4, i3 a v]
        cases directed
        · simp
        · simp only [if_true, List.flatMap_append, List.flatMap_cons, List.flatMap_nil, List.append_nil, hRn,
            Net.unitsAt, hsrc, hdst, true_and, hnin, List.getD_eq_getElem?_getD]
          congr 1
          by_cases ha : a < net.nL
          · simp [ha]
          · simp [ha, hunits a ha]
      · rw [l3, htake, w5, v5, i4]
        simp only [List.map_append, List.sum_append, List.map_cons, List.map_nil, List.sum_cons, List.sum_nil,
          Nat.add_zero, hRn]
        congr 2
  obtain ⟨k1, k2, k3, k4⟩ := key starts.length (Nat.le_refl _)
  have hRlen : net.recs.length = starts.length := by
    simp [net, build, List.length_zip, hlen]
  have hLfin : Lp starts ends starts.length = net.labels := by
    unfold Lp
    rw [List.take_length, hlen, List.take_length]
    rfl
  have htk : net.recs.take starts.length = net.recs := by rw [← hRlen, List.take_length]
  unfold networkCode
  simp only [forRange]
  generalize hS : (List.range starts.length).foldl (fun s i => networkCode_1 directed net.nL starts ends dflt
        (fun i a => (chunkUnits weights net.nL i).getD a 0) i s) s0 = S at *
  rw [if_pos hnL]
  rw [hLfin] at k1
  rw [htk] at k2 k3 k4
  refine ⟨k1.1, k1.2, fun a v => ?_, fun hd a v => ?_, ?_, ?_, fun hd a v => ?_⟩
  · rw [k2 a v]; rfl
  · rw [k3 a v]; simp [hd]; rfl
  · rw [k4]; rfl
  · simp only [Net.nV]
    have : ¬ net.nL = 0 := Nat.pos_iff_ne_zero.1 hnL
    simp only [this, if_false]
    rw [k1.1 0 hnL]
  · rw [k3 a v]; simp [hd]

theorem foldl_filter_append (l : List Nat) (c : Nat → Bool) (acc : List Nat) :
    l.foldl (fun acc i => if c i then acc ++ [i] else acc) acc = acc ++ l.filter c := by
  induction l generalizing acc with
  | nil => simp
  | cons x xs ih =>
    simp only [List.foldl_cons, List.filter_cons]
    by_cases h : c x <;> simp [h, ih]

/-- **`extract_vertices_with_edges`**: the two lists are the model's `uList` / `vList` -/
theorem extractListsCode_refines {β' : Type} (net : Net β') (s : NetLoc β)
    (hn : s.nvertices = net.nV) (ho : ∀ a v, s.outA a v = net.out a v)
    (hi : net.directed = true → ∀ a v, s.innA a v = net.inn a v)
    (hu : s.u_list = []) (hv : s.v_list = []) :
    let s' := extractListsCode net.directed net.nL s
    s'.u_list = net.uList ∧ s'.v_list = net.vList := by
  unfold extractListsCode
  simp only [forRange]
  have h := foldl_proj (fun s : NetLoc β => ((s.u_list, s.v_list), s.outA, s.innA))
    (fun (s : NetLoc β) i =>
      let s : NetLoc β := (if (List.range net.nL).any (fun alpha => !(s.outA alpha i).isEmpty) then
          { s with u_list := s.u_list ++ [i] } else s)
      let s : NetLoc β := (if net.directed then
          (if (List.range net.nL).any (fun alpha => !(s.innA alpha i).isEmpty) then
            { s with v_list := s.v_list ++ [i] } else s)
        else s)
      s)
    (fun (p : (List Nat × List Nat) × (Nat → Nat → List Nat) × (Nat → Nat → List Nat)) i =>
      ((if (List.range net.nL).any (fun alpha => !(p.2.1 alpha i).isEmpty) then p.1.1 ++ [i] else p.1.1,
        if net.directed then
          (if (List.range net.nL).any (fun alpha => !(p.2.2 alpha i).isEmpty) then p.1.2 ++ [i] else p.1.2)
        else p.1.2), p.2))
    (fun s i => by
      by_cases h1 : (List.range net.nL).any (fun alpha => !(s.outA alpha i).isEmpty) = true <;>
      by_cases h2 : (List.range net.nL).any (fun alpha => !(s.innA alpha i).isEmpty) = true <;>
      cases net.directed <;> simp [h1, h2])
    (List.range s.nvertices) s
  have hfold : ∀ (l : List Nat) (u v : List Nat) (o n' : Nat → Nat → List Nat),
      l.foldl (fun (p : (List Nat × List Nat) × (Nat → Nat → List Nat) × (Nat → Nat → List Nat)) i =>
      ((if (List.range net.nL).any (fun alpha => !(p.2.1 alpha i).isEmpty) then p.1.1 ++ [i] else p.1.1,
        if net.directed then
          (if (List.range net.nL).any (fun alpha => !(p.2.2 alpha i).isEmpty) then p.1.2 ++ [i] else p.1.2)
        else p.1.2), p.2)) ((u, v), o, n')
      = ((u ++ l.filter (fun i => (List.range net.nL).any (fun alpha => !(o alpha i).isEmpty)),
          if net.directed then v ++ l.filter (fun i => (List.range net.nL).any (fun alpha => !(n' alpha i).isEmpty))
          else v), o, n') := by
    intro l
    induction l with
    | nil => intro u v o n'; cases net.directed <;> simp
    | cons x xs ih =>
      intro u v o n'
      simp only [List.foldl_cons, ih, List.filter_cons]
      by_cases h1 : (List.range net.nL).any (fun alpha => !(o alpha x).isEmpty) = true <;>
      by_cases h2 : (List.range net.nL).any (fun alpha => !(n' alpha x).isEmpty) = true <;>
      cases net.directed <;> simp [h1, h2]
  rw [hfold] at h
  have h1 := congrArg (fun p => p.1.1) h
  have h2 := congrArg (fun p => p.1.2) h
  simp only [] at h1 h2
  generalize (List.range s.nvertices).foldl _ s = S at *
  have hout : (fun i => (List.range net.nL).any (fun alpha => !(s.outA alpha i).isEmpty))
      = fun i => (List.range net.nL).any (fun a => !(net.out a i).isEmpty) := by
    funext i; simp [ho]
  refine ⟨?_, ?_⟩
  · cases hdir : net.directed <;> simp only [hdir, Bool.false_eq_true, if_false, if_true] <;>
      rw [h1, hu, hn, hout] <;> simp [Net.uList]
  · cases hdir : net.directed
    · simp only [Bool.false_eq_true, if_false]
      rw [h1, hu, hn, hout]
      simp [Net.vList, Net.uList, hdir]
    · simp only [if_true]
      rw [hdir] at h2
      simp only [if_true] at h2
      have hinn : (fun i => (List.range net.nL).any (fun alpha => !(s.innA alpha i).isEmpty))
          = fun i => (List.range net.nL).any (fun a => !(net.inn a i).isEmpty) := by
        funext i; simp [hi hdir]
      rw [h2, hv, hn, hinn]
      simp [Net.vList, hdir]

theorem take_one_drop (l : List β) (n : Nat) : (l.drop n).take 1 = l[n]?.toList := by
  cases h : l[n]? with
  | none =>
    have : l.length ≤ n := by simpa using h
    simp [List.drop_eq_nil_of_le this]
  | some x =>
    have hlt : n < l.length := by
      by_contra hc
      have : l[n]? = none := by simp; omega
      rw [this] at h; cases h
    have hx : l[n] = x := by
      have := List.getElem?_eq_getElem hlt
      rw [this] at h; exact Option.some.inj h
    rw [List.drop_eq_getElem_cons hlt]
    simp [hx]

theorem foldl_take_one (l : List β) (n : Nat) :
    (List.range n).foldl (fun acc i => acc ++ (l.drop i).take 1) [] = l.take n := by
  induction n with
  | zero => simp
  | succ n ih =>
    rw [List.range_succ, List.foldl_append, ih]
    simp only [List.foldl_cons, List.foldl_nil]
    rw [take_one_drop, List.take_add_one]

/-- **`extract_vertices_labels`**: the labels of layer 0, all of them, in descriptor order -/
theorem extractLabelsCode_refines (s : NetLoc β) (hn : s.nvertices = (s.vlab 0).length) :
    (extractLabelsCode s).labels = s.vlab 0 := by
  unfold extractLabelsCode
  simp only [forRange]
  have h := foldl_proj (fun s : NetLoc β => (s.labels, s.vlab 0))
    (fun (s : NetLoc β) i => { s with labels := s.labels ++ ((s.vlab 0).drop i).take 1 })
    (fun (p : List β × List β) i => (p.1 ++ (p.2.drop i).take 1, p.2))
    (fun s i => rfl) (List.range s.nvertices) ({ s with labels := [] } : NetLoc β)
  have hf : ∀ (l : List Nat) (acc L : List β),
      l.foldl (fun (p : List β × List β) i => (p.1 ++ (p.2.drop i).take 1, p.2)) (acc, L)
        = (l.foldl (fun acc i => acc ++ (L.drop i).take 1) acc, L) := by
    intro l
    induction l with
    | nil => intros; rfl
    | cons x xs ih => intro acc L; simp only [List.foldl_cons, ih]
  rw [hf] at h
  have h1 := congrArg Prod.fst h
  simp only [] at h1
  rw [h1, foldl_take_one, hn, List.take_length]

end
end MT.CodeRefine
