/-
C17 — initialisation contract: fresh, seeded, correctly ranged starts.
The generator is abstracted to an arbitrary stream `d : Nat → α` (nothing here depends on
Mersenne-Twister internals; the mt19937/uniform model of the driver is compared bit-exactly with
libstdc++ on every run).  Theorems: realization `i` starts from the `i`-th consecutive segment of
the stream and reads nothing outside it; the positions used inside a segment are pairwise distinct
(a symmetric pair of affinity entries shares one draw); other membership rows are zero; the random
affinity start is symmetric.  Tie: `realization_start` hook events vs an independent reference stream.
-/
import MT.Generated.UtilsCode
import MTProofs.Init
import MTProofs.Select
import Mathlib.Data.List.Basic

namespace MTProps.C17
open MT MTProofs

section
variable {α : Type} [Add α] [Sub α] [Mul α] [Div α] [LT α] [DecidableLT α] [MTExtra α]
variable (assort : Bool) (ik : InitKind) (K N : Nat) (nv : NetView) (userW : Tens α)

/-- draws consumed by the affinity initialiser -/
def affDraws : Nat :=
  match ik with
  | .random => if assort then nv.nL * K else nv.nL * rowStart K K
  | .fromInitial => if assort then userW.T * userW.R else userW.T * userW.R * userW.R
  | .exact => 0

/-- draws consumed by the in-membership rows -/
def vDraws : Nat := if nv.directed then K * nv.vList.length else 0

/-- draws consumed by one realization: affinity, then in-membership rows (directed), then
out-membership rows -/
def drawsPerRealization : Nat :=
  affDraws assort ik K nv userW + vDraws K nv + K * nv.uList.length

/-- `K(K+1)/2` draws per layer for the random general start -/
theorem random_general_count : rowStart K K = K * (K + 1) / 2 := rowStart_total K

theorem initAff_used (d : Nat → α) :
    (initAff assort ik K nv.nL userW d).2 = affDraws assort ik K nv userW := by
  unfold initAff affDraws
  cases ik <;> simp only [initAffRandom_used, initAffFromInitial_used]

theorem initAff_congr (d d' : Nat → α) (h : ∀ t, t < affDraws assort ik K nv userW → d t = d' t) :
    (initAff assort ik K nv.nL userW d).1 = (initAff assort ik K nv.nL userW d').1 := by
  unfold initAff affDraws at *
  cases ik
  · apply initAffRandom_congr
    intro t ht
    rw [initAffRandom_used] at ht
    exact h t ht
  · apply initAffFromInitial_congr
    intro t ht
    rw [initAffFromInitial_used] at ht
    exact h t ht
  · rfl

/-- the number of draws consumed does not depend on the stream -/
theorem used_eq (d : Nat → α) :
    (realizationStart assort ik K N nv userW d).2 = drawsPerRealization assort ik K nv userW := by
  unfold realizationStart drawsPerRealization vDraws
  simp only [initAff_used]
  cases hd : nv.directed <;> simp only [initRows, Bool.false_eq_true, ↓reduceIte, Nat.add_zero]

/-- a realization reads the stream only inside its segment `[0, n)` -/
theorem start_depends_on_segment (d d' : Nat → α)
    (h : ∀ t, t < drawsPerRealization assort ik K nv userW → d t = d' t) :
    (realizationStart assort ik K N nv userW d).1 = (realizationStart assort ik K N nv userW d').1 := by
  unfold drawsPerRealization at h
  have hw := initAff_congr assort ik K nv userW d d' (fun t ht => h t (by omega))
  unfold realizationStart
  simp only [initAff_used, hw]
  cases hd : nv.directed
  · simp only [Bool.false_eq_true, ↓reduceIte, Nat.add_zero]
    congr 1
    apply initRows_congr
    intro t ht
    apply h
    simp only [vDraws, hd, Bool.false_eq_true, ↓reduceIte]
    omega
  · simp only [↓reduceIte]
    have hv : (initRows N K nv.vList (fun _ _ => MTExtra.zero) fun t => d (affDraws assort ik K nv userW + t)).1 =
        (initRows N K nv.vList (fun _ _ => MTExtra.zero) fun t => d' (affDraws assort ik K nv userW + t)).1 := by
      apply initRows_congr
      intro t ht
      apply h
      simp only [vDraws, hd, ↓reduceIte]
      omega
    have hu : (initRows N K nv.uList (fun _ _ => MTExtra.zero) fun t =>
          d (affDraws assort ik K nv userW + K * nv.vList.length + t)).1 =
        (initRows N K nv.uList (fun _ _ => MTExtra.zero) fun t =>
          d' (affDraws assort ik K nv userW + K * nv.vList.length + t)).1 := by
      apply initRows_congr
      intro t ht
      apply h
      simp only [vDraws, hd, ↓reduceIte]
      omega
    simp only [initRows] at hv hu ⊢
    rw [hv, hu]

variable (maxIt nConv : Nat) (evalL : Nat → Nat → State α → α) (d : Nat → α)

/-- realization `i` starts at stream position `i·n`: successive realizations consume consecutive,
disjoint segments of the single stream (so they start differently, and a run is reproducible from
the stream, i.e. from the seed, alone) -/
theorem realization_positions (i : Nat) :
    posSeq assort ik K N nv maxIt nConv evalL userW d i = i * drawsPerRealization assort ik K nv userW := by
  induction i with
  | zero => simp [posSeq]
  | succ i ih =>
    unfold posSeq
    rw [ih]
    have : (outAt assort ik K N nv maxIt nConv evalL userW d i (i * drawsPerRealization assort ik K nv userW)).used =
        drawsPerRealization assort ik K nv userW := by
      unfold outAt runRealization
      exact used_eq assort ik K N nv userW _
    rw [this]
    ring

/-- the start of realization `i` of a call is the start computed from the `i`-th segment -/
theorem realization_start_is_segment (i : Nat) :
    (outcomeOf assort ik K N nv maxIt nConv evalL userW d i).start =
      (realizationStart assort ik K N nv userW
        (fun t => d (i * drawsPerRealization assort ik K nv userW + t))).1 := by
  unfold outcomeOf outAt runRealization
  simp only [realization_positions]

end

/-! ### what a start looks like -/

section
variable {α : Type} [Add α] [Mul α] [MTExtra α]

/-- the random affinity start is symmetric per layer: `(k,q)` and `(q,k)` share one draw -/
theorem random_affinity_symmetric (K L : Nat) (d : Nat → α) {k q a : Nat} (hk : k < K) (hq : q < K) (ha : a < L) :
    (initAffRandom false K L d).1.get k q a = (initAffRandom false K L d).1.get q k a := by
  unfold initAffRandom
  simp only [Bool.false_eq_true, ↓reduceIte]
  rw [get_ofFn K K L _ hk hq ha, get_ofFn K K L _ hq hk ha, triPos_symm]

/-- distinct unordered pairs of a layer use distinct draws, all inside the layer's block -/
theorem random_affinity_draws_distinct (K : Nat) {i j i' j' : Nat} (hi : i < K) (hj : j < K) (hi' : i' < K)
    (hj' : j' < K) (h : triPos K i j = triPos K i' j') :
    (min i j = min i' j' ∧ max i j = max i' j') ∧ triPos K i j < rowStart K K :=
  ⟨triPos_injective K hi hj hi' hj' h, triPos_lt K hi hj⟩

/-- a user-supplied affinity receives `EPS_NOISE × draw` per entry, each entry its own draw -/
theorem user_affinity_noise (init : Tens α) (d : Nat → α) {k q a : Nat} (hk : k < init.R) (hq : q < init.R)
    (ha : a < init.T) :
    (initAffFromInitial false init d).1.get k q a =
      init.get k q a + MTExtra.noise * d (a * init.R * init.R + k * init.R + q) := by
  unfold initAffFromInitial
  simp only [Bool.false_eq_true, ↓reduceIte]
  rw [get_ofFn _ _ _ _ hk hq ha]

theorem user_affinity_noise_assort (init : Tens α) (d : Nat → α) {k a : Nat} (hk : k < init.R) (ha : a < init.T) :
    (initAffFromInitial true init d).1.get k 0 a = init.get k 0 a + MTExtra.noise * d (a * init.R + k) := by
  unfold initAffFromInitial
  simp only [↓reduceIte]
  rw [get_ofFn _ _ _ _ hk (by omega) ha]

/-- memberships of vertices in the list are draws, one draw per entry … -/
theorem member_rows_are_draws (N K : Nat) (elems : List Nat) (prev : Nat → Nat → α) (d : Nat → α)
    {j k : Nat} (hj : j < N) (hk : k < K) (hmem : j ∈ elems) :
    (initRows N K elems prev d).1.get j k 0 = d (k * elems.length + elems.idxOf j) := by
  unfold initRows
  dsimp only
  rw [get_ofFn N K 1 _ hj hk (by omega)]
  simp only [hmem, ↓reduceIte]

/-- … and all other membership rows keep the previous value (zero: the working matrices are
re-zeroed at the start of every realization) -/
theorem other_rows_zero (N K : Nat) (elems : List Nat) (d : Nat → α)
    {j k : Nat} (hj : j < N) (hk : k < K) (hmem : j ∉ elems) :
    (initRows N K elems (fun _ _ => MTExtra.zero) d).1.get j k 0 = MTExtra.zero := by
  unfold initRows
  dsimp only
  rw [get_ofFn N K 1 _ hj hk (by omega)]
  simp only [hmem, ↓reduceIte]

/-- distinct entries of the listed rows use distinct draws -/
theorem member_draws_distinct (K : Nat) (elems : List Nat) {j k j' k' : Nat}
    (hmem : j ∈ elems) (hmem' : j' ∈ elems)
    (h : k * elems.length + elems.idxOf j = k' * elems.length + elems.idxOf j') : k = k' ∧ j = j' := by
  have h1 : elems.idxOf j < elems.length := List.idxOf_lt_length_iff.mpr hmem
  have h2 : elems.idxOf j' < elems.length := List.idxOf_lt_length_iff.mpr hmem'
  have hpos : 0 < elems.length := by omega
  have hk : k = k' := by
    have e1 : (k * elems.length + elems.idxOf j) / elems.length = k := by
      rw [Nat.add_comm, Nat.add_mul_div_right _ _ hpos, Nat.div_eq_of_lt h1, Nat.zero_add]
    have e2 : (k' * elems.length + elems.idxOf j') / elems.length = k' := by
      rw [Nat.add_comm, Nat.add_mul_div_right _ _ hpos, Nat.div_eq_of_lt h2, Nat.zero_add]
    rw [← e1, ← e2, h]
  subst hk
  have : elems.idxOf j = elems.idxOf j' := by omega
  exact ⟨rfl, (List.idxOf_inj hmem).mp this⟩

end

/-- … and every draw of the block is used: together with `member_draws_distinct`, each draw of the
segment is consumed exactly once by the listed rows -/
theorem member_draws_cover (K : Nat) (elems : List Nat) (hnd : elems.Nodup) {t : Nat} (ht : t < K * elems.length) :
    ∃ k j, k < K ∧ j ∈ elems ∧ t = k * elems.length + elems.idxOf j := by
  have hm : 0 < elems.length := by
    rcases Nat.eq_zero_or_pos elems.length with h | h
    · rw [h] at ht; omega
    · exact h
  have hp : t % elems.length < elems.length := Nat.mod_lt _ hm
  refine ⟨t / elems.length, elems[t % elems.length], ?_, List.getElem_mem hp, ?_⟩
  · exact Nat.div_lt_of_lt_mul (by rwa [Nat.mul_comm] at ht)
  · rw [List.Nodup.idxOf_getElem hnd]
    have := Nat.div_add_mod t elems.length
    rw [Nat.mul_comm] at this
    omega

/-- every draw of a layer block of the random affinity start is used by some unordered pair -/
theorem random_affinity_draws_cover (K : Nat) {t : Nat} (ht : t < rowStart K K) :
    ∃ i j, i ≤ j ∧ j < K ∧ triPos K i j = t := by
  -- find the row whose block contains t
  have key : ∀ n, n ≤ K → t < rowStart K n → ∃ lo, lo < n ∧ rowStart K lo ≤ t ∧ t < rowStart K (lo + 1) := by
    intro n
    induction n with
    | zero => intro _ h; simp [rowStart] at h
    | succ n ih =>
      intro hn h
      by_cases hlt : t < rowStart K n
      · obtain ⟨lo, h1, h2, h3⟩ := ih (by omega) hlt
        exact ⟨lo, by omega, h2, h3⟩
      · exact ⟨n, by omega, by omega, h⟩
  obtain ⟨lo, hlo, h1, h2⟩ := key K (le_refl K) ht
  rw [rowStart_succ] at h2
  refine ⟨lo, lo + (t - rowStart K lo), by omega, by omega, ?_⟩
  unfold triPos
  rw [Nat.min_eq_left (by omega), Nat.max_eq_right (by omega)]
  omega

/-- non-vacuity: K = 3: the six draws of a layer are used by the six unordered pairs -/
example : (triPos 3 0 0, triPos 3 0 1, triPos 3 0 2, triPos 3 1 1, triPos 3 1 2, triPos 3 2 2, rowStart 3 3)
    = (0, 1, 2, 3, 4, 5, 6) ∧ triPos 3 2 1 = triPos 3 1 2 := by decide

/-- `utils::RandomGenerator` as it stands in utils.hpp: the seed is kept, the engine is seeded with it (as
`unsigned int`), every call returns the next value of the distribution over the engine -/
theorem random_generator_documented :
    Gen.randomGeneratorText = "std::time_tseed;rng_trng;dist_tdist;RandomGenerator(std::time_tseed=std::time(nullptr)):seed(seed){rng.seed(static_cast<unsignedint>(seed));}autooperator()(){returndist(rng);}" := rfl

end MTProps.C17
