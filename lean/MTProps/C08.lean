/-
C08 — the network built is exactly the multigraph the edge list describes.
Statements are about `MT.build` (graph.hpp `Network` constructor, `extract_vertices_with_edges`,
utils.hpp `get_num_vertices`).  Tie to the code: the `net` correspondence dumps the real boost graphs
(per layer, per vertex out- and in-edge lists, in iteration order) and compares them with the model,
exhaustively for small record lists and randomly beyond, for all label and weight types.
-/
import MTProofs.Graph
import Mathlib.Data.List.GetD

namespace MTProps.C08
open MT MTProofs

section
variable {β ω : Type} [DecidableEq β] [Weight ω]
variable (directed : Bool) (starts ends : List β) (weights : List ω)

/-- vertices are the distinct labels in order of first appearance (`start[0], end[0], start[1], …`),
the same list for every layer -/
theorem labels_first_appearance :
    (build directed starts ends weights).labels = firstApp (interleave starts ends) := rfl

/-- each distinct label becomes exactly one vertex -/
theorem labels_nodup : (build directed starts ends weights).labels.Nodup :=
  firstApp_nodup _

/-- … and every endpoint of every record is a vertex, whatever its weights (records with all-zero
weights still create their endpoints) -/
theorem endpoints_are_vertices (h : starts.length = ends.length) (x : β) :
    x ∈ (build directed starts ends weights).labels ↔ x ∈ starts ∨ x ∈ ends := by
  rw [labels_first_appearance, mem_firstApp, mem_interleave h]

/-- the vertex count computed from the union of start and end labels (utils.hpp `get_num_vertices`,
used by the validation) is the number of vertices the network gets -/
theorem vertex_count_consistent (h : starts.length = ends.length) :
    numVertices starts ends = (build directed starts ends weights).labels.length :=
  numVertices_eq starts ends h

/-- the index of a label is its position in that list (`idx_map` lookup) -/
theorem record_indices :
    (build directed starts ends weights).recs =
      (starts.zip ends).zipIdx.map fun p =>
        { src := (firstApp (interleave starts ends)).idxOf p.1.1,
          dst := (firstApp (interleave starts ends)).idxOf p.1.2,
          un := chunkUnits weights (if starts.length = 0 then 0 else weights.length / starts.length) p.2 } :=
  rfl

end

/-- number of parallel edges a weight produces: integer weights as they are … -/
theorem units_nat (w : Nat) : Weight.units w = w := rfl

/-- … negative integer weights none -/
theorem units_int (w : Int) : Weight.units w = w.toNat := rfl

/-- … real weights rounded up, those ≤ 1e-6 none (stated on the executable instance; `Float.ceil`) -/
theorem units_float (w : Float) :
    Weight.units w = if w > (MTExtra.eps : Float) then w.ceil.toUInt64.toNat else 0 := rfl

section
variable {β : Type} (n : Net β)

/-- for every layer and ordered vertex pair, the number of parallel edges `i → j` is the sum over the
records of the units of those matching `(i,j)`, plus — undirected — those matching `(j,i)`
(a self-loop record therefore counts twice in the list of its vertex) -/
theorem build_multiplicity (a i j : Nat) :
    (n.out a i).count j =
      (n.recs.map fun r =>
        (if r.src = i ∧ r.dst = j then Net.unitsAt r a else 0) +
        (if !n.directed ∧ r.dst = i ∧ r.src = j then Net.unitsAt r a else 0)).sum :=
  out_count n a i j

/-- in-lists of a directed network -/
theorem build_in_multiplicity (a i j : Nat) :
    (n.inn a j).count i =
      (n.recs.map fun r => if r.src = i ∧ r.dst = j then Net.unitsAt r a else 0).sum :=
  inn_count n a i j

/-- the vertex sets treated as sources are exactly those with an outgoing edge in some layer … -/
theorem sources_are_support (i : Nat) :
    i ∈ n.uList ↔ i < n.nV ∧ ∃ a, a < n.nL ∧ n.out a i ≠ [] := by
  unfold Net.uList
  simp only [List.mem_filter, List.mem_range, List.any_eq_true, Bool.not_eq_eq_eq_not, Bool.not_true,
    List.isEmpty_eq_false_iff]

/-- … targets those with an incoming edge (directed) … -/
theorem targets_are_support (hd : n.directed = true) (j : Nat) :
    j ∈ n.vList ↔ j < n.nV ∧ ∃ a, a < n.nL ∧ n.inn a j ≠ [] := by
  unfold Net.vList
  simp only [hd, ↓reduceIte, List.mem_filter, List.mem_range, List.any_eq_true, Bool.not_eq_eq_eq_not,
    Bool.not_true, List.isEmpty_eq_false_iff]

/-- … and in undirected mode one shared list: any incident edge -/
theorem targets_undirected (hd : n.directed = false) : n.vList = n.uList := by
  unfold Net.vList; simp [hd]

/-- undirected multiplicities are symmetric (both orientations) -/
theorem undirected_symmetric (hd : n.directed = false) (a i j : Nat) :
    (n.out a i).count j = (n.out a j).count i :=
  out_count_symm n hd a i j

end

/-- weight `m` ≡ `m` consecutive unit-weight records: the out-list piece of one record -/
theorem weight_expand_piece (m x : Nat) :
    List.replicate m x = (List.range m).flatMap fun _ => List.replicate 1 x := by
  induction m with
  | zero => simp
  | succ m ih =>
    rw [List.range_succ, List.flatMap_append, ← ih]
    simp [List.replicate_succ']

/-! ### weight `m` ≡ `m` consecutive unit-weight records -/

/-- a record with per-layer units `m_a` replaced by `max m_a` consecutive records whose layer-`a` unit is
1 for the first `m_a` of them (an all-zero record is kept: it still creates its endpoints) -/
def expandRec (r : IRec) : List IRec :=
  let m := r.un.foldl max 0
  if m = 0 then [r]
  else (List.range m).map fun t => { r with un := r.un.map fun w => if t < w then 1 else 0 }

theorem replicate_expand (x w m : Nat) (h : w ≤ m) :
    (List.range m).flatMap (fun t => List.replicate (if t < w then 1 else 0) x) = List.replicate w x := by
  induction m generalizing w with
  | zero =>
    have : w = 0 := by omega
    subst this; rfl
  | succ m ih =>
    rw [List.range_succ, List.flatMap_append]
    rcases Nat.lt_or_eq_of_le h with hlt | heq
    · rw [ih w (by omega)]
      simp only [List.flatMap_cons, List.flatMap_nil, List.append_nil]
      rw [if_neg (by omega)]; simp
    · subst heq
      have h1 : (List.range m).flatMap (fun t => List.replicate (if t < m + 1 then 1 else 0) x)
          = (List.range m).flatMap (fun t => List.replicate (if t < m then 1 else 0) x) := by
        apply List.flatMap_congr
        intro t ht
        rw [List.mem_range] at ht
        rw [if_pos (by omega), if_pos ht]
      rw [h1, ih m (le_refl m)]
      simp only [List.flatMap_cons, List.flatMap_nil, List.append_nil]
      rw [if_pos (by omega)]
      exact (List.replicate_succ' (n := m) (a := x)).symm

theorem flatMap_replicate (l : List Nat) (f : Nat → Nat) (x : Nat) :
    l.flatMap (fun t => List.replicate (f t) x) = List.replicate ((l.map f).sum) x := by
  induction l with
  | nil => rfl
  | cons t ts ih => simp only [List.flatMap_cons, ih, List.map_cons, List.sum_cons, List.replicate_add]

theorem le_foldl_max (l : List Nat) (init : Nat) : init ≤ l.foldl max init ∧ ∀ w ∈ l, w ≤ l.foldl max init := by
  induction l generalizing init with
  | nil => exact ⟨le_refl _, fun w hw => by simp at hw⟩
  | cons x xs ih =>
    simp only [List.foldl_cons]
    obtain ⟨h1, h2⟩ := ih (max init x)
    refine ⟨le_trans (le_max_left _ _) h1, fun w hw => ?_⟩
    rcases List.mem_cons.mp hw with rfl | hw
    · exact le_trans (le_max_right _ _) h1
    · exact h2 w hw

theorem unitsAt_le_max (r : IRec) (a : Nat) : Net.unitsAt r a ≤ r.un.foldl max 0 := by
  unfold Net.unitsAt
  by_cases h : a < r.un.length
  · rw [List.getD_eq_getElem (l := r.un) (d := 0) h]
    exact (le_foldl_max r.un 0).2 _ (List.getElem_mem h)
  · rw [List.getD_eq_default (l := r.un) (d := 0) (by omega)]; omega

/-- the contribution of one record to an adjacency list is the concatenation of the contributions of
its unit-weight expansion: end to end, an integer weight `m` is equivalent to `m` consecutive
unit-weight records (same endpoints in the same place, so the vertex order is unchanged too) -/
theorem weight_expand_equiv {β : Type} (n : Net β) (a i : Nat) :
    ({ n with recs := n.recs.flatMap expandRec } : Net β).out a i = n.out a i := by
  unfold Net.out
  simp only [List.flatMap_assoc]
  apply List.flatMap_congr
  intro r _
  unfold expandRec
  simp only
  split
  · simp
  · rename_i hm
    rw [List.flatMap_map]
    have hle := unitsAt_le_max r a
    have hunits : ∀ t, Net.unitsAt { r with un := r.un.map fun w => if t < w then 1 else 0 } a =
        if t < Net.unitsAt r a then 1 else 0 := by
      intro t
      unfold Net.unitsAt
      simp only
      by_cases h : a < r.un.length
      · simp [List.getD_eq_getElem?_getD, h]
      · have h' : r.un.length ≤ a := by omega
        simp [List.getD_eq_getElem?_getD, List.getElem?_eq_none, h']
    simp only [Function.comp, hunits]
    by_cases h1 : r.src = i <;> by_cases h2 : (!n.directed && decide (r.dst = i)) = true
    · -- self-loop in an undirected network: every copy is the same vertex
      have hdst : r.dst = i := by
        have := (Bool.and_eq_true _ _ ▸ h2).2
        simpa using this
      have hsrc : r.src = i := h1
      simp only [h2, ↓reduceIte]
      simp only [h1, ↓reduceIte, hdst]
      have hsum : ((List.range (r.un.foldl max 0)).map fun t => if t < Net.unitsAt r a then 1 else 0).sum
          = Net.unitsAt r a := by
        have := congrArg List.length (replicate_expand i _ _ hle)
        rw [flatMap_replicate, List.length_replicate, List.length_replicate] at this
        exact this
      have hpiece : ∀ t, List.replicate (if t < Net.unitsAt r a then 1 else 0) i ++
          List.replicate (if t < Net.unitsAt r a then 1 else 0) i =
          List.replicate ((if t < Net.unitsAt r a then 1 else 0) + (if t < Net.unitsAt r a then 1 else 0)) i :=
        fun t => (List.replicate_add _ _ _).symm
      simp only [hpiece]
      rw [flatMap_replicate, ← List.replicate_add]
      congr 1
      have : ((List.range (r.un.foldl max 0)).map fun t =>
          (if t < Net.unitsAt r a then 1 else 0) + (if t < Net.unitsAt r a then 1 else 0)).sum =
          ((List.range (r.un.foldl max 0)).map fun t => if t < Net.unitsAt r a then 1 else 0).sum +
          ((List.range (r.un.foldl max 0)).map fun t => if t < Net.unitsAt r a then 1 else 0).sum := by
        induction (List.range (r.un.foldl max 0)) with
        | nil => rfl
        | cons t ts ih => simp only [List.map_cons, List.sum_cons, ih]; omega
      rw [this, hsum]
    · simp only [h1, ↓reduceIte, h2, Bool.false_eq_true, List.append_nil]
      exact replicate_expand r.dst _ _ hle
    · simp only [h1, ↓reduceIte, h2, List.nil_append]
      exact replicate_expand r.src _ _ hle
    · simp [h1, h2]

/-- non-vacuity: a two-record undirected example with a self-loop and a weight 2 -/
example :
    let n : Net Nat := build false [5, 7] [7, 7] ([2, 1] : List Nat)
    n.labels = [5, 7] ∧ n.out 0 0 = [1, 1] ∧ n.out 0 1 = [0, 0, 1, 1] ∧ n.uList = [0, 1] := by
  decide

end MTProps.C08
