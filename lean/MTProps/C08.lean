/-
C08 — the network built is exactly the multigraph the edge list describes.
Statements are about `MT.build` (graph.hpp `Network` constructor, `extract_vertices_with_edges`,
utils.hpp `get_num_vertices`).  Tie to the code: the `net` correspondence dumps the real boost graphs
(per layer, per vertex out- and in-edge lists, in iteration order) and compares them with the model,
exhaustively for small record lists and randomly beyond, for all label and weight types.
-/
import MTProofs.Graph

namespace MTProps.C08
open MT MTProofs

section
variable {β ω : Type} [DecidableEq β] [Weight ω]
variable (directed : Bool) (starts ends : List β) (weights : List ω)

/-- vertices are the distinct labels in order of first appearance (`start[0], end[0], start[1], …`),
the same list for every layer -/
theorem labels_first_appearance :
    (build directed starts ends weights).labels = firstApp (interleave starts ends) := rfl

/-- each distinct label becomes exactly one vertex -/
theorem labels_nodup : (build directed starts ends weights).labels.Nodup :=
  firstApp_nodup _

/-- … and every endpoint of every record is a vertex, whatever its weights (records with all-zero
weights still create their endpoints) -/
theorem endpoints_are_vertices (h : starts.length = ends.length) (x : β) :
    x ∈ (build directed starts ends weights).labels ↔ x ∈ starts ∨ x ∈ ends := by
  rw [labels_first_appearance, mem_firstApp, mem_interleave h]

/-- the index of a label is its position in that list (`idx_map` lookup) -/
theorem record_indices :
    (build directed starts ends weights).recs =
      (starts.zip ends).zipIdx.map fun p =>
        { src := (firstApp (interleave starts ends)).idxOf p.1.1,
          dst := (firstApp (interleave starts ends)).idxOf p.1.2,
          un := chunkUnits weights (if starts.length = 0 then 0 else weights.length / starts.length) p.2 } :=
  rfl

end

/-- number of parallel edges a weight produces: integer weights as they are … -/
theorem units_nat (w : Nat) : Weight.units w = w := rfl

/-- … negative integer weights none -/
theorem units_int (w : Int) : Weight.units w = w.toNat := rfl

/-- … real weights rounded up, those ≤ 1e-6 none (stated on the executable instance; `Float.ceil`) -/
theorem units_float (w : Float) :
    Weight.units w = if w > (MTExtra.eps : Float) then w.ceil.toUInt64.toNat else 0 := rfl

section
variable {β : Type} (n : Net β)

/-- for every layer and ordered vertex pair, the number of parallel edges `i → j` is the sum over the
records of the units of those matching `(i,j)`, plus — undirected — those matching `(j,i)`
(a self-loop record therefore counts twice in the list of its vertex) -/
theorem build_multiplicity (a i j : Nat) :
    (n.out a i).count j =
      (n.recs.map fun r =>
        (if r.src = i ∧ r.dst = j then Net.unitsAt r a else 0) +
        (if !n.directed ∧ r.dst = i ∧ r.src = j then Net.unitsAt r a else 0)).sum :=
  out_count n a i j

/-- in-lists of a directed network -/
theorem build_in_multiplicity (a i j : Nat) :
    (n.inn a j).count i =
      (n.recs.map fun r => if r.src = i ∧ r.dst = j then Net.unitsAt r a else 0).sum :=
  inn_count n a i j

/-- the vertex sets treated as sources are exactly those with an outgoing edge in some layer … -/
theorem sources_are_support (i : Nat) :
    i ∈ n.uList ↔ i < n.nV ∧ ∃ a, a < n.nL ∧ n.out a i ≠ [] := by
  unfold Net.uList
  simp only [List.mem_filter, List.mem_range, List.any_eq_true, Bool.not_eq_eq_eq_not, Bool.not_true,
    List.isEmpty_eq_false_iff]

/-- … targets those with an incoming edge (directed) … -/
theorem targets_are_support (hd : n.directed = true) (j : Nat) :
    j ∈ n.vList ↔ j < n.nV ∧ ∃ a, a < n.nL ∧ n.inn a j ≠ [] := by
  unfold Net.vList
  simp only [hd, ↓reduceIte, List.mem_filter, List.mem_range, List.any_eq_true, Bool.not_eq_eq_eq_not,
    Bool.not_true, List.isEmpty_eq_false_iff]

/-- … and in undirected mode one shared list: any incident edge -/
theorem targets_undirected (hd : n.directed = false) : n.vList = n.uList := by
  unfold Net.vList; simp [hd]

/-- undirected multiplicities are symmetric (both orientations) -/
theorem undirected_symmetric (hd : n.directed = false) (a i j : Nat) :
    (n.out a i).count j = (n.out a j).count i :=
  out_count_symm n hd a i j

end

/-- weight `m` ≡ `m` consecutive unit-weight records: the out-list piece of one record -/
theorem weight_expand_piece (m x : Nat) :
    List.replicate m x = (List.range m).flatMap fun _ => List.replicate 1 x := by
  induction m with
  | zero => simp
  | succ m ih =>
    rw [List.range_succ, List.flatMap_append, ← ih]
    simp [List.replicate_succ']

/-- non-vacuity: a two-record undirected example with a self-loop and a weight 2 -/
example :
    let n : Net Nat := build false [5, 7] [7, 7] ([2, 1] : List Nat)
    n.labels = [5, 7] ∧ n.out 0 0 = [1, 1] ∧ n.out 0 1 = [0, 0, 1, 1] ∧ n.uList = [0, 1] := by
  decide

end MTProps.C08
