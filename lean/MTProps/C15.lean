/-
C15 — invalid configurations are rejected before anything is computed or written.
`MT.validate` mirrors main.hpp:77-179 check by check (tie: `validate` correspondence on boundary
shape vectors, all 8 variants).  Here: it accepts exactly the documented shapes.
-/
import MT.Generated.UtilsCode
import MT.Main
import MT.CliMain
import MT.Generated.MainCode
import Mathlib.Data.Nat.Sqrt
import Mathlib.Tactic.Ring
import Mathlib.Tactic.Linarith

namespace MTProps.C15
open MT

/-- the documented acceptance predicate -/
def Accept (sh : Shapes) (L K : Nat) : Prop :=
  1 ≤ sh.nStarts ∧ sh.nEnds = sh.nStarts ∧ sh.nWeights = L * sh.nStarts ∧ 1 ≤ L ∧
  2 ≤ K ∧ sh.nAffinity = affSize sh.assort K L ∧
  2 ≤ sh.nDistinct ∧ sh.uSize = sh.nDistinct * K ∧ 1 ≤ sh.r ∧ 1 ≤ sh.maxIt ∧ 1 ≤ sh.nConv

/-- `K` is recovered from the affinity size exactly when the size has the documented form -/
theorem inferK_of_form (assort : Bool) {K L : Nat} (hL : 1 ≤ L) :
    inferK assort (affSize assort K L) L = K := by
  have hL' : 0 < L := hL
  unfold inferK affSize
  cases assort
  · simp only [Bool.false_eq_true, ↓reduceIte, Nat.mul_div_cancel _ hL', Nat.sqrt_eq]
  · simp only [↓reduceIte, Nat.mul_div_cancel _ hL']

/-- accepted ⇒ documented predicate, with the inferred `L`, `K` -/
theorem validate_sound {sh : Shapes} {L K : Nat} (h : validate sh = .ok (L, K)) : Accept sh L K := by
  unfold validate at h
  by_cases h1 : sh.nStarts < 1
  · rw [if_pos h1] at h; cases h
  rw [if_neg h1] at h
  by_cases h2 : sh.nStarts ≠ sh.nEnds
  · rw [if_pos h2] at h; cases h
  rw [if_neg h2] at h
  by_cases h3 : sh.nWeights % sh.nStarts ≠ 0
  · rw [if_pos h3] at h; cases h
  rw [if_neg h3] at h
  by_cases h4 : sh.nWeights / sh.nStarts < 1
  · rw [if_pos h4] at h; cases h
  rw [if_neg h4] at h
  by_cases h5 : inferK sh.assort sh.nAffinity (sh.nWeights / sh.nStarts) < 2
  · rw [if_pos h5] at h; cases h
  rw [if_neg h5] at h
  by_cases h6 : affSize sh.assort (inferK sh.assort sh.nAffinity (sh.nWeights / sh.nStarts)) (sh.nWeights / sh.nStarts) ≠ sh.nAffinity
  · rw [if_pos h6] at h; cases h
  rw [if_neg h6] at h
  by_cases h7 : sh.nDistinct < 2
  · rw [if_pos h7] at h; cases h
  rw [if_neg h7] at h
  by_cases h8 : sh.nDistinct * inferK sh.assort sh.nAffinity (sh.nWeights / sh.nStarts) ≠ sh.uSize
  · rw [if_pos h8] at h; cases h
  rw [if_neg h8] at h
  by_cases h9 : sh.r < 1
  · rw [if_pos h9] at h; cases h
  rw [if_neg h9] at h
  by_cases h10 : sh.maxIt < 1
  · rw [if_pos h10] at h; cases h
  rw [if_neg h10] at h
  by_cases h11 : sh.nConv < 1
  · rw [if_pos h11] at h; cases h
  rw [if_neg h11] at h
  simp only [Except.ok.injEq, Prod.mk.injEq] at h
  obtain ⟨hL, hK⟩ := h
  rw [hL] at h4 h5 h6 h8 hK
  rw [hK] at h5 h6 h8
  have hw : sh.nWeights = L * sh.nStarts := by
    have := Nat.div_add_mod sh.nWeights sh.nStarts
    have h3' : sh.nWeights % sh.nStarts = 0 := by omega
    rw [h3', Nat.add_zero, Nat.mul_comm, hL] at this
    exact this.symm
  push_neg at h2 h6 h8
  exact ⟨by omega, h2.symm, hw, by omega, by omega, h6.symm, by omega, h8.symm, by omega, by omega, by omega⟩

/-- documented predicate ⇒ accepted, and the inferred values are the documented ones -/
theorem validate_complete {sh : Shapes} {L K : Nat} (h : Accept sh L K) : validate sh = .ok (L, K) := by
  obtain ⟨h1, h2, h3, h4, h5, h6, h7, h8, h9, h10, h11⟩ := h
  have hpos : 0 < sh.nStarts := h1
  have hdiv : sh.nWeights / sh.nStarts = L := by rw [h3]; exact Nat.mul_div_cancel _ hpos
  have hmod : sh.nWeights % sh.nStarts = 0 := by rw [h3]; exact Nat.mul_mod_left _ _
  have hK : inferK sh.assort sh.nAffinity L = K := by rw [h6]; exact inferK_of_form sh.assort h4
  unfold validate
  rw [hdiv, hK, hmod]
  have e1 : ¬ sh.nStarts < 1 := by omega
  have e2 : ¬ sh.nStarts ≠ sh.nEnds := by omega
  have e4 : ¬ L < 1 := by omega
  have e5 : ¬ K < 2 := by omega
  have e6 : ¬ affSize sh.assort K L ≠ sh.nAffinity := by rw [h6]; simp
  have e7 : ¬ sh.nDistinct < 2 := by omega
  have e8 : ¬ sh.nDistinct * K ≠ sh.uSize := by omega
  have e9 : ¬ sh.r < 1 := by omega
  have e10 : ¬ sh.maxIt < 1 := by omega
  have e11 : ¬ sh.nConv < 1 := by omega
  simp only [e1, e2, e4, e5, e6, e7, e8, e9, e10, e11, ↓reduceIte, ne_eq, not_true_eq_false]

/-- accept ⇔ documented predicate -/
theorem validate_iff (sh : Shapes) (L K : Nat) : validate sh = .ok (L, K) ↔ Accept sh L K :=
  ⟨validate_sound, validate_complete⟩

/-- every other shape vector is rejected -/
theorem validate_rejects (sh : Shapes) (h : ¬ ∃ L K, Accept sh L K) : ∃ e, validate sh = .error e := by
  cases hv : validate sh with
  | error e => exact ⟨e, rfl⟩
  | ok p => exact absurd ⟨p.1, p.2, validate_sound (by rw [hv])⟩ h

section
variable {α : Type} [Add α] [Sub α] [Mul α] [Div α] [LT α] [DecidableLT α] [MTExtra α]

/-- rejection comes first: when validation fails, `factorize` returns that error and nothing
else of the call is evaluated (the outputs are the caller's untouched containers) -/
theorem reject_leaves_outputs {β ω : Type} [DecidableEq β] [Weight ω] (inp : Input β ω α) (d : Nat → α)
    (e : Err) (h : validate inp.shapes = .error e) : factorize inp d = .error e := by
  unfold factorize factorizeWith
  simp only [bind, Except.bind, h]

end

/-- **the command line writes result files only after the factorization returned**: whenever option
parsing, a reader, the dispatch or the library's validation fails, `cliMain` yields an error and no file
(model of multitensor.cpp:259-269 coming after the call; tie: `clirun` correspondence of files and exit
status with the real binary) -/
theorem cli_files_only_after_success (argv : List String) (adj : String) (aff : Option String) (fs : Cli.Files)
    (h : Cli.cliMain argv adj aff = .ok fs) :
    fs = [] ∨ ∃ (o : Cli.Opts) (c : Cli.CallRecord) (inp : Input Nat Nat Float) (d : Nat → Float)
        (out : Output Nat Float) (nL : Nat) (seed : Int),
      Cli.parseArgs argv = .run o ∧ Cli.cliCall o adj aff = .ok c ∧ factorize inp d = .ok out ∧
      fs = Cli.resultFiles c.inst.directed c.K nL c.r seed out := by
  unfold Cli.cliMain at h
  split at h
  · left; simpa using h.symm
  · left; simpa using h.symm
  · cases h
  · rename_i o hp
    split at h
    · cases h
    · rename_i c hc
      split at h
      · cases h
      · simp only at h
        split at h
        · cases h
        · rename_i out hf
          right
          simp only [Except.ok.injEq] at h
          exact ⟨o, c, _, _, out, _, _, hp, hc, hf, h.symm⟩

/-- a rejected library call makes the command line fail without files -/
theorem cli_error_no_files (argv : List String) (adj : String) (aff : Option String) (e : String)
    (h : Cli.cliMain argv adj aff = .error e) : ¬ ∃ fs, Cli.cliMain argv adj aff = .ok fs := by
  rintro ⟨fs, hfs⟩; rw [h] at hfs; cases hfs

/-- non-vacuity: a valid centre is accepted, one-off values are not -/
example : validate ⟨false, 3, 3, 6, 8, 3, 6, 1, 1, 1⟩ = .ok (2, 2) :=
  validate_complete (by unfold Accept affSize; simp)
example : validate ⟨true, 3, 3, 6, 6, 3, 9, 1, 1, 1⟩ = .ok (2, 3) :=
  validate_complete (by unfold Accept affSize; simp)
example : ¬ ∃ L K, Accept ⟨false, 3, 3, 6, 9, 3, 6, 1, 1, 1⟩ L K := by
  rintro ⟨L, K, h⟩
  unfold Accept affSize at h
  simp only [Bool.false_eq_true, ↓reduceIte] at h
  obtain ⟨_, _, h3, _, h5, h6, _⟩ := h
  have hL : L = 2 := by omega
  subst hL
  have : K * K * 2 % 2 = 0 := Nat.mul_mod_left _ _
  omega

/-! ### the validation part of main.hpp, translated from the source on every run -/

theorem mapError_ite {ε ε' α : Type} (f : ε → ε') (c : Prop) [Decidable c] (a b : Except ε α) :
    Except.mapError f (if c then a else b) = if c then Except.mapError f a else Except.mapError f b := by
  split <;> rfl

theorem mapError_error {ε ε' α : Type} (f : ε → ε') (e : ε) :
    Except.mapError f (Except.error e : Except ε α) = .error (f e) := rfl

theorem mapError_ok {ε ε' α : Type} (f : ε → ε') (a : α) :
    Except.mapError f (Except.ok a : Except ε α) = .ok a := rfl

/-- **the checks of `multitensor_factorization`, as they stand in main.hpp, are the model's `validate`**:
same checks, same order, same conditions, same inferred `(L, K)`, and each error carries the message the
code throws (`Gen.validateCode` is regenerated from the source statement by statement) -/
theorem validateCode_eq (sh : Shapes) :
    Gen.validateCode sh.assort sh.nStarts sh.nEnds sh.nWeights sh.nAffinity sh.nDistinct sh.uSize sh.r sh.maxIt sh.nConv
      = (validate sh).mapError Err.message := by
  unfold Gen.validateCode validate inferK affSize
  cases sh.assort <;>
    simp only [Bool.false_eq_true, if_false, if_true, mapError_ite, mapError_error, mapError_ok, Err.message]

/-- hence the code accepts exactly the documented shapes -/
theorem validateCode_iff (sh : Shapes) (L K : Nat) :
    Gen.validateCode sh.assort sh.nStarts sh.nEnds sh.nWeights sh.nAffinity sh.nDistinct sh.uSize sh.r sh.maxIt sh.nConv
      = .ok (L, K) ↔ Accept sh L K := by
  rw [validateCode_eq]
  constructor
  · intro h
    cases hv : validate sh with
    | error e => rw [hv] at h; cases h
    | ok p =>
      rw [hv] at h
      have : p = (L, K) := by simpa [Except.mapError] using h
      subst this
      exact validate_sound hv
  · intro h
    rw [validate_complete h]; rfl

/-- the statements of `multitensor_factorization` before its last check (regenerated list, program order) -/
def beforeLastCheck (ev : List (String × String × List String)) : List (String × String × List String) :=
  (ev.reverse.dropWhile fun e => e.1 != "check").reverse

/-- **no output argument is mentioned before the last check** (other than through `.size()`): whatever
is rejected is rejected before `labels`, `u`, `v` or `affinity` can have been modified -/
theorem outputs_untouched_before_last_check :
    (beforeLastCheck Gen.mainEvents).all (fun e => e.2.2.isEmpty) = true := by decide

/-- all eleven checks are there, and nothing can throw between them but the checks themselves (every other
statement before the last check is a declaration of a size) -/
theorem checks_documented :
    ((beforeLastCheck Gen.mainEvents).filter fun e => e.1 == "check").length = 11 ∧
    (beforeLastCheck Gen.mainEvents).all (fun e => e.1 == "check" || e.1 == "decl" || e.1 == "constexpr") = true := by
  decide

/-- after the checks: network, vertex lists, affinity tensor, solver, then — and only then — the outputs -/
theorem outputs_written_after_run :
    ((Gen.mainEvents.filter fun e => !e.2.2.isEmpty).map fun e => e.2.1) =
      ["affinity_tw(nof_groups,nof_layers,affinity);",
       "utils::Reportresults=solver.run<affinity_init_t>(*u_list,*v_list,A,u,v,w,random_generator);",
       "A.extract_vertices_labels(labels);", "affinity=w.get_data();"] := by decide

/-- `utils::get_num_vertices` as it stands in utils.hpp: the size of the set of all source and target labels —
what the model's `numVertices` states -/
theorem get_num_vertices_documented :
    Gen.getNumVerticesText = "std::set<vertex_t>set_e_in(edges_start.begin(),edges_start.end());std::set<vertex_t>set_e_out(edges_end.begin(),edges_end.end());std::set<vertex_t>set_e;std::merge(set_e_in.begin(),set_e_in.end(),set_e_out.begin(),set_e_out.end(),std::inserter(set_e,set_e.begin()));returnset_e.size();" := rfl

end MTProps.C15
