/-
C10 — assortative model = general model restricted to diagonal affinities.
`embed` puts the K values of each layer of a diagonal tensor (K×1×L) on the diagonal of a general
tensor (K×K×L).  Theorems (ℝ-model): one sweep commutes with `embed`, hence any number of sweeps;
off-diagonal entries stay exactly zero; likelihoods coincide.  Directed and undirected.
Tie: paired real runs through an initialiser type that installs the start exactly.
-/
import MTProofs.MassBalance
import MTProofs.Likelihood
import MTProps.C02
import Mathlib.Logic.Function.Iterate

namespace MTProps.C10
open MT MTProofs Finset MTProps.C02

/-- diagonal tensor → general tensor with those diagonals -/
noncomputable def embedW (K : Nat) (D : Tens ℝ) : Tens ℝ :=
  Tens.ofFn K K D.T fun k q a => if k = q then D.get k 0 a else 0

noncomputable def embed (K : Nat) (s : State ℝ) : State ℝ := { s with w := embedW K s.w }

/-- the general accessor on an embedded tensor (either orientation): the diagonal value or zero -/
theorem wView_embed (K : Nat) (D : Tens ℝ) (t : Bool) {k l a : Nat} (hk : k < K) (hl : l < K) (ha : a < D.T) :
    wView false t (embedW K D) k l a = if k = l then wView true t D k l a else 0 := by
  unfold wView embedW
  cases t
  · simp only [Bool.false_eq_true, ↓reduceIte]
    rw [get_ofFn _ _ _ _ hk hl ha]
  · simp only [Bool.false_eq_true, ↓reduceIte]
    rw [get_ofFn _ _ _ _ hl hk ha]
    by_cases h : k = l
    · subst h; simp
    · simp [h, Ne.symm h]

section entries
variable (K L N : Nat) (wg wa : Nat → Nat → Nat → ℝ)
  (hw : ∀ k l a, k < K → l < K → a < L → wg k l a = if k = l then wa k l a else 0)
include hw

theorem rate_diag (Y X : Nat → Nat → ℝ) (i j : Nat) {a : Nat} (ha : a < L) :
    rate false K wg Y X i j a = rate true K wa Y X i j a := by
  unfold rate gsum
  simp only [Bool.false_eq_true, ↓reduceIte]
  apply sum_congr rfl
  intro k hk
  rw [sum_eq_single k]
  · rw [hw k k a (mem_range.mp hk) (mem_range.mp hk) ha]; simp
  · intro q hq hne
    rw [hw k q a (mem_range.mp hk) (mem_range.mp hq) ha, if_neg (Ne.symm hne)]; ring
  · intro h; exact absurd hk h

theorem csum_diag (f : Nat → ℝ) {k a : Nat} (hk : k < K) (ha : a < L) :
    csum false K k (fun q => f q * wg k q a) = csum true K k (fun q => f q * wa k q a) := by
  unfold csum
  simp only [Bool.false_eq_true, ↓reduceIte]
  rw [sum_eq_single k]
  · rw [hw k k a hk hk ha]; simp
  · intro q hq hne
    rw [hw k q a hk (mem_range.mp hq) ha, if_neg (Ne.symm hne)]; ring
  · intro h; exact absurd (mem_range.mpr hk) h

theorem specZ_diag (den : List Nat) (Y : Nat → Nat → ℝ) {k : Nat} (hk : k < K) :
    specZ false K L den wg Y k = specZ true K L den wa Y k := by
  unfold specZ csum
  simp only [Bool.false_eq_true, ↓reduceIte]
  rw [sum_eq_single k]
  · congr 1
    apply sum_congr rfl; intro a ha
    rw [hw k k a hk hk (mem_range.mp ha)]; simp
  · intro q hq hne
    have : ∑ a ∈ range L, wg k q a = 0 := by
      apply sum_eq_zero; intro a ha
      rw [hw k q a hk (mem_range.mp hq) (mem_range.mp ha), if_neg (Ne.symm hne)]
    rw [this]; ring
  · intro h; exact absurd (mem_range.mpr hk) h

/-- membership update: general on diagonal affinity = assortative -/
theorem specVEntry_diag (num den : List Nat) (nbr : Nat → Nat → List Nat) (Y X : Nat → Nat → ℝ)
    (i : Nat) {k : Nat} (hk : k < K) :
    specVEntry false K L N num den nbr wg Y X i k = specVEntry true K L N num den nbr wa Y X i k := by
  unfold specVEntry
  rw [specZ_diag K L wg wa hw den Y hk]
  have hval : specVal false K L N nbr wg Y X i k = specVal true K L N nbr wa Y X i k := by
    unfold specVal
    apply sum_congr rfl; intro a ha
    apply sum_congr rfl; intro j _
    rw [rate_diag K L wg wa hw Y X i j (mem_range.mp ha),
      csum_diag K L wg wa hw (fun q => Y j q) hk (mem_range.mp ha)]
  rw [hval]

/-- affinity update on the diagonal -/
theorem specWEntry_diag (uList vList : List Nat) (out : Nat → Nat → List Nat) (u v : Nat → Nat → ℝ)
    {k a : Nat} (hk : k < K) (ha : a < L) :
    specWEntry false K N uList vList out u v wg k k a = specWEntry true K N uList vList out u v wa k k a := by
  unfold specWEntry
  have hacc : specWAcc false K N out u v wg k k a = specWAcc true K N out u v wa k k a := by
    unfold specWAcc
    apply sum_congr rfl; intro i _
    congr 1
    apply sum_congr rfl; intro j _
    rw [rate_diag K L wg wa hw v u i j ha]
  rw [hacc, hw k k a hk hk ha]
  simp

/-- … and off the diagonal: stays exactly zero -/
theorem specWEntry_offdiag (uList vList : List Nat) (out : Nat → Nat → List Nat) (u v : Nat → Nat → ℝ)
    {k q a : Nat} (hk : k < K) (hq : q < K) (ha : a < L) (hne : k ≠ q) :
    specWEntry false K N uList vList out u v wg k q a = 0 := by
  apply zero_affinity_stays_zero
  rw [hw k q a hk hq ha, if_neg hne]

end entries

/-- shape of an assortative state -/
structure AssortShape (K : Nat) (nv : NetView) (s : State ℝ) : Prop where
  wR : s.w.R = K
  wC : s.w.C = 1
  wT : s.w.T = nv.nL
  vR : nv.directed = true → s.v.R = s.u.R

variable (K : Nat) (nv : NetView)

theorem accessor_hyp (s : State ℝ) (hs : AssortShape K nv s) (t : Bool) :
    ∀ k l a, k < K → l < K → a < nv.nL →
      wView false t (embedW K s.w) k l a = if k = l then wView true t s.w k l a else 0 := by
  intro k l a hk hl ha
  exact wView_embed K s.w t hk hl (by rw [hs.wT]; exact ha)

/-- **one sweep commutes with the embedding** -/
theorem sweep_embed (s : State ℝ) (hs : AssortShape K nv s) (hwf : ViewWF nv s.u.R) :
    sweep false K nv (embed K s) = embed K (sweep true K nv s) := by
  -- u-step
  have hU : (stepU false K nv (embed K s)).u = (stepU true K nv s).u := by
    unfold stepU updateVertices embed
    simp only
    apply ofFn_congr
    intro i k _ _ hk _
    rw [updVEntry_eq_spec false K nv.nL s.u.R _ _ _ _ _ _ hwf.1, updVEntry_eq_spec true K nv.nL s.u.R _ _ _ _ _ _ hwf.1]
    exact specVEntry_diag K nv.nL s.u.R _ _ (accessor_hyp K nv s hs false) _ _ _ _ _ i hk
  have hU' : stepU false K nv (embed K s) = embed K (stepU true K nv s) := by
    have : stepU false K nv (embed K s) = { embed K s with u := (stepU false K nv (embed K s)).u } := rfl
    rw [this, hU]; rfl
  -- v-step
  have hV' : stepV false K nv (embed K (stepU true K nv s)) = embed K (stepV true K nv (stepU true K nv s)) := by
    by_cases hd : nv.directed = true
    · have hvR : (stepU true K nv s).v.R = s.u.R := hs.vR hd
      have : (stepV false K nv (embed K (stepU true K nv s))).v = (stepV true K nv (stepU true K nv s)).v := by
        unfold stepV updateVertices embed
        simp only [hd, ↓reduceIte]
        apply ofFn_congr
        intro j k _ _ hk _
        have hwf2 : ∀ a i, ∀ j ∈ nv.inn a i, j < (stepU true K nv s).v.R := by rw [hvR]; exact hwf.2
        rw [updVEntry_eq_spec false K nv.nL _ _ _ _ _ _ _ hwf2, updVEntry_eq_spec true K nv.nL _ _ _ _ _ _ _ hwf2]
        exact specVEntry_diag K nv.nL _ _ _ (accessor_hyp K nv s hs true) _ _ _ _ _ j hk
      have h2 : stepV false K nv (embed K (stepU true K nv s)) =
          { embed K (stepU true K nv s) with v := (stepV false K nv (embed K (stepU true K nv s))).v } := by
        unfold stepV; simp only [hd, ↓reduceIte]
      rw [h2, this]
      unfold stepV embed; simp only [hd, ↓reduceIte]
    · have hd' : nv.directed = false := by simpa using hd
      rw [stepV_undirected false K nv _ hd', stepV_undirected true K nv _ hd']
  -- w-step
  have hW' : ∀ s1 : State ℝ, AssortShape K nv s1 → s1.u.R = s.u.R →
      stepW false K nv (embed K s1) = embed K (stepW true K nv s1) := by
    intro s1 hs1 hR
    have hwf1 : ViewWF nv s1.u.R := by rw [hR]; exact hwf
    have : (stepW false K nv (embed K s1)).w = embedW K (stepW true K nv s1).w := by
      unfold stepW updateAffinity embed embedW
      simp only [Bool.false_eq_true, ↓reduceIte, ofFn_T]
      apply ofFn_congr
      intro k q a hk hq ha
      rw [updWEntry_eq_spec false K s1.u.R _ _ _ _ _ _ hwf1.1]
      by_cases hkq : k = q
      · subst hkq
        rw [if_pos rfl, get_ofFn _ _ _ _ hk (by omega) ha, updWEntry_eq_spec true K s1.u.R _ _ _ _ _ _ hwf1.1]
        exact specWEntry_diag K nv.nL s1.u.R _ _ (accessor_hyp K nv s1 hs1 false) _ _ _ _ _ hk ha
      · rw [if_neg hkq]
        exact specWEntry_offdiag K nv.nL s1.u.R _ _ (accessor_hyp K nv s1 hs1 false) _ _ _ _ _ hk hq ha hkq
    have h2 : stepW false K nv (embed K s1) = { embed K s1 with w := (stepW false K nv (embed K s1)).w } := rfl
    rw [h2, this]; rfl
  unfold sweep
  rw [hU', hV']
  apply hW'
  · -- shapes after the u- and v-steps
    constructor
    · unfold stepV stepU; split <;> exact hs.wR
    · unfold stepV stepU; split <;> exact hs.wC
    · unfold stepV stepU; split <;> exact hs.wT
    · intro hd
      unfold stepV stepU updateVertices
      simp only [hd, ↓reduceIte, ofFn_R]
      exact hs.vR hd
  · unfold stepV stepU updateVertices
    split <;> simp only [ofFn_R]

/-- shapes are preserved by an assortative sweep -/
theorem shape_sweep (s : State ℝ) (hs : AssortShape K nv s) :
    AssortShape K nv (sweep true K nv s) ∧ (sweep true K nv s).u.R = s.u.R := by
  unfold sweep stepW updateAffinity stepV stepU updateVertices
  refine ⟨⟨?_, ?_, ?_, ?_⟩, ?_⟩
  · simp only [↓reduceIte, ofFn_R]
  · simp only [↓reduceIte, ofFn_C]
  · simp only [↓reduceIte, ofFn_T]
  · intro hd
    simp only [hd, ↓reduceIte, ofFn_R]
    exact hs.vR hd
  · split <;> simp only [ofFn_R]

/-- **any number of sweeps**: memberships and diagonal affinities coincide, off-diagonals stay zero -/
theorem iterate_embed (n : Nat) (s : State ℝ) (hs : AssortShape K nv s) (hwf : ViewWF nv s.u.R) :
    (sweep false K nv)^[n] (embed K s) = embed K ((sweep true K nv)^[n] s) := by
  induction n generalizing s with
  | zero => rfl
  | succ n ih =>
    rw [Function.iterate_succ_apply, Function.iterate_succ_apply, sweep_embed K nv s hs hwf]
    obtain ⟨hs', hR⟩ := shape_sweep K nv s hs
    exact ih _ hs' (by rw [hR]; exact hwf)

/-- off-diagonal affinities of the general model remain exactly zero -/
theorem offdiag_zero (n : Nat) (s : State ℝ) (hs : AssortShape K nv s) (hwf : ViewWF nv s.u.R)
    {k q a : Nat} (hk : k < K) (hq : q < K) (ha : a < nv.nL) (hne : k ≠ q) :
    ((sweep false K nv)^[n] (embed K s)).w.get k q a = 0 := by
  rw [iterate_embed K nv n s hs hwf]
  unfold embed embedW
  simp only
  have hT : ((sweep true K nv)^[n] s).w.T = nv.nL := by
    induction n generalizing s with
    | zero => exact hs.wT
    | succ n ih =>
      rw [Function.iterate_succ_apply]
      exact ih _ (shape_sweep K nv s hs).1 (by rw [(shape_sweep K nv s hs).2]; exact hwf)
  rw [get_ofFn _ _ _ _ hk hq (by rw [hT]; exact ha), if_neg hne]

/-- both models report the same likelihood -/
theorem likelihood_embed (s : State ℝ) (hs : AssortShape K nv s) :
    stateLik false K nv (embed K s) = stateLik true K nv s := by
  unfold stateLik
  simp only
  rw [MTProofs.likelihood_eq_poisson, MTProofs.likelihood_eq_poisson]
  unfold poissonLL
  apply sum_congr rfl; intro a ha
  apply sum_congr rfl; intro i _
  apply sum_congr rfl; intro j _
  unfold cellLL
  have : rate false K (wView false false (embed K s).w) (fun i k => (if nv.directed then (embed K s).v else (embed K s).u).get i k 0)
        (fun i k => (embed K s).u.get i k 0) i j a =
      rate true K (wView true false s.w) (fun i k => (if nv.directed then s.v else s.u).get i k 0)
        (fun i k => s.u.get i k 0) i j a :=
    rate_diag K nv.nL _ _ (accessor_hyp K nv s hs false) _ _ i j (mem_range.mp ha)
  rw [this]

end MTProps.C10
