/-
The two file readers of the command line (`read_adjacency_data`, `read_affinity_data`) as they stand in the source.
They are stream-level code (getline, operator>>); their meaning is the front-end model's `parseAdjacency` /
`readAffinity` (MT/Cli.lean), about which C13 (grammar round trip), C14 (diagonal positions, shape rejection, writes in
range) and C16 (index safety) prove their statements, and the tie is the correspondence check on byte streams.
-/
import MT.Generated.UtilsCode

namespace MTProps.CodeReaders
open MT

/-! ### pins

`parseAdjacency` / `readAffinity` (MT/Cli.lean) are the model of these two stream-level functions; the correspondence
check runs both on the same bytes (well-formed layouts, 14 kinds of mutations, 64-bit labels).  Pinned here so that an
edit of either reader is a broken obligation of this property: the check then searches the byte streams for a file
the two read differently. -/

/-- `read_adjacency_data` (app_utils.hpp) -/
theorem read_adjacency_documented : Gen.readAdjacencyText = "assert(edges_start.size()==0);assert(edges_end.size()==0);assert(edges_weight.size()==0);std::ifstreamin(filename.string());if(in.fail()){throwstd::runtime_error(std::string(\"Inread_adjacency_data,failedtoopen\")+filename.string());}std::cout<<\"Readingadjacencyfile\"<<filename<<std::endl;std::stringline;while(!in.eof()){std::getline(in,line);if(line.size()==0){continue;}line.erase(line.find_last_not_of(\"\")+1);std::vector<weight_t>current_weights;std::istringstreamis(line);size_tcurrent_edge_in,current_edge_out;is>>current_edge_in>>current_edge_out;if(is.fail()){continue;}weight_tvalue;while(is>>value){current_weights.push_back(value);}edges_start.push_back(current_edge_in);edges_end.push_back(current_edge_out);edges_weight.insert(std::end(edges_weight),std::begin(current_weights),std::end(current_weights));}in.close();" := rfl

/-- `read_affinity_data` (app_utils.cpp) -/
theorem read_affinity_documented : Gen.readAffinityText = "std::ifstreamin(filename.string());if(in.fail()){throwstd::runtime_error(std::string(\"Inread_affinity_data,failedtoopen\")+filename.string());}std::cout<<\"Readingaffinityfile\"<<filename<<std::endl;constsize_tlayer_size=assortative?nof_groups:nof_groups*nof_groups;if(layer_size==0||w.size()%layer_size!=0){throwstd::runtime_error(std::string(\"Inread_affinity_data,inconsistentaffinitysize\")+std::to_string(w.size())+\"for\"+std::to_string(nof_groups)+\"groups\");}constsize_texpected_nof_layers=w.size()/layer_size;std::stringline;size_tnof_layers(0);std::stringtok;doublevalue;while(!in.eof()){std::getline(in,line);if(line.size()==0){continue;}line.erase(line.find_last_not_of(\"\")+1);std::istringstreamis(line);size_tcurrent_nof_groups(0);if(!(is>>tok)||tok==\"#\"){continue;}while(is>>value){current_nof_groups++;}if(current_nof_groups!=nof_groups){throwstd::runtime_error(std::string(\"Inread_affinity_data,expected\")+std::to_string(nof_groups)+\"valuesperlayer,got\"+std::to_string(current_nof_groups)+\"in\"+filename.string());}nof_layers++;}if(nof_layers!=expected_nof_layers){throwstd::runtime_error(std::string(\"Inread_affinity_data,expected\")+std::to_string(expected_nof_layers)+\"layers,got\"+std::to_string(nof_layers)+\"in\"+filename.string());}in.clear();in.seekg(0);while(!in.eof()){std::getline(in,line);if(line.size()==0)continue;line.erase(line.find_last_not_of(\"\")+1);std::istringstreamis(line);if(!(is>>tok)||tok==\"#\"){continue;}size_tlayer;std::istringstreamis_layer(tok);if(!(is_layer>>layer)||layer>=nof_layers){throwstd::runtime_error(std::string(\"Inread_affinity_data,invalidlayerid'\")+tok+\"'in\"+filename.string());}size_tgroup(0),index(0);while(is>>value){index=assortative?group+layer*nof_groups:group+group*nof_groups+layer*nof_groups*nof_groups;w[index]=value;group++;}}" := rfl


end MTProps.CodeReaders
