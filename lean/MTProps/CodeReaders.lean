/-
The adjacency reader of the command line (`read_adjacency_data`) as it stands in the source (the initial-affinity reader: MTProps/CodeReaderAff.lean).
They are stream-level code (getline, operator>>); their meaning is the front-end model's `parseAdjacency` /
`readAffinity` (MT/Cli.lean), about which C13 (grammar round trip), C14 (diagonal positions, shape rejection, writes in
range) and C16 (index safety) prove their statements, and the tie is the correspondence check on byte streams.
-/
import MT.Generated.UtilsCode

namespace MTProps.CodeReaders
open MT

/-! ### pins

`parseAdjacency` / `readAffinity` (MT/Cli.lean) are the model of these two stream-level functions; the correspondence
check runs both on the same bytes (well-formed layouts, 14 kinds of mutations, 64-bit labels).  Pinned here so that an
edit of either reader is a broken obligation of this property: the check then searches the byte streams for a file
the two read differently. -/

/-- `read_adjacency_data` (app_utils.hpp) -/
theorem read_adjacency_documented : Gen.readAdjacencyText = "assert(edges_start.size()==0);assert(edges_end.size()==0);assert(edges_weight.size()==0);std::ifstreamin(filename.string());if(in.fail()){throwstd::runtime_error(std::string(\"Inread_adjacency_data,failedtoopen\")+filename.string());}std::cout<<\"Readingadjacencyfile\"<<filename<<std::endl;std::stringline;while(!in.eof()){std::getline(in,line);if(line.size()==0){continue;}line.erase(line.find_last_not_of(\"\")+1);std::vector<weight_t>current_weights;std::istringstreamis(line);size_tcurrent_edge_in,current_edge_out;is>>current_edge_in>>current_edge_out;if(is.fail()){continue;}weight_tvalue;while(is>>value){current_weights.push_back(value);}edges_start.push_back(current_edge_in);edges_end.push_back(current_edge_out);edges_weight.insert(std::end(edges_weight),std::begin(current_weights),std::end(current_weights));}in.close();" := rfl

end MTProps.CodeReaders
