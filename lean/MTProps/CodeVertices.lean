/-
Code tie (1/3: `update_vertices`) — the numeric core of solver.hpp, translated from the source on every run, *is* the model.

`MT/Generated/SolverCode.lean` is rewritten by tools/cxx2lean.py from the current text of
`update_vertices`, `update_affinity` and `calculate_likelyhood` (statement by statement: every
assignment one structure update, every loop a left fold).  The theorems below say that, called the
way `Solver::loop` calls them (the order and arguments of the calls are the regenerated
`Gen.loopSteps`, pinned in C02), those loop nests leave in every entry exactly the value of the
model's `stepU` / `stepV` / `stepW`, and return the model's `stateLik`.

They hold for **every scalar type** — no algebraic law is used — hence for `Float`, where the
model is what is compared with the compiled C++ on every run, and for `ℝ`, where the properties
C01, C02, C06, C09, C10 are proved.  An edit of one of the three functions changes the generated
definitions; if the edit changes what is computed, these theorems no longer check.

Assumed, not proved (recorded in the trusted base): the translation rules of tools/cxx2lean.py; the
statements before the loop nests (frozen copies `mat_to_update_old`, `mat_fixed_old`, `w_old`), which
are pinned literally; that the accessors `M(i,k)`, `w(k,q,a)`, `w(k,a)` read the entries the tensor
model gives them (C18); that the edge iterators yield the adjacency lists of the network model (C08).
-/
import MTProofs.CodeRefineUV
import MTProofs.Tensor
import MT.Generated.Control

namespace MTProps.CodeVertices
open MT MT.Gen MT.CodeRefine MTProofs

section
variable {α : Type} [Add α] [Sub α] [Mul α] [Div α] [LT α] [DecidableLT α] [MTExtra α]
variable (assort : Bool) (K : Nat) (nv : NetView) (s : State α)

/-- `update_vertices<out_edges_target_vertices>(u_list, v_list, A, w, v, u)`: the translated loops
produce the model's out-membership step, entry by entry -/
theorem code_stepU (c : UVLoc α) (hc : c.mat_to_update = fun i k => s.u.get i k 0)
    {i k : Nat} (hi : i < s.u.R) (hk : k < K) :
    (updateVerticesCode assort K nv.nL nv.uList nv.vList nv.out
        (diag2 (wView assort false s.w)) (wView assort false s.w)
        (fun i k => s.u.get i k 0) (fun i k => (if nv.directed then s.v else s.u).get i k 0) c).mat_to_update i k
      = (stepU assort K nv s).u.get i k 0 := by
  rw [updateVerticesCode_refines assort K nv.nL nv.uList nv.vList nv.out (wView assort false s.w)
    (fun i k => s.u.get i k 0) (fun i k => (if nv.directed then s.v else s.u).get i k 0) c hc i k]
  unfold stepU updateVertices
  simp only [hk, if_true]
  rw [get_ofFn _ _ _ _ hi hk (by omega)]

/-- rows and columns the loops do not visit keep the old value -/
theorem code_stepU_outside (c : UVLoc α) (hc : c.mat_to_update = fun i k => s.u.get i k 0)
    {i k : Nat} (hk : K ≤ k) :
    (updateVerticesCode assort K nv.nL nv.uList nv.vList nv.out
        (diag2 (wView assort false s.w)) (wView assort false s.w)
        (fun i k => s.u.get i k 0) (fun i k => (if nv.directed then s.v else s.u).get i k 0) c).mat_to_update i k
      = s.u.get i k 0 := by
  rw [updateVerticesCode_refines assort K nv.nL nv.uList nv.vList nv.out (wView assort false s.w)
    (fun i k => s.u.get i k 0) (fun i k => (if nv.directed then s.v else s.u).get i k 0) c hc i k]
  have : ¬ k < K := by omega
  simp only [this, if_false]

/-- `update_vertices<in_edges_source_vertices>(v_list, u_list, A, w | wT, u, v)` (directed): the
translated loops, fed the in-neighbour lists and the transposed affinity view, produce the model's
in-membership step -/
theorem code_stepV (hd : nv.directed = true) (c : UVLoc α) (hc : c.mat_to_update = fun i k => s.v.get i k 0)
    {j k : Nat} (hj : j < s.v.R) (hk : k < K) :
    (updateVerticesCode assort K nv.nL nv.vList nv.uList nv.inn
        (diag2 (wView assort true s.w)) (wView assort true s.w)
        (fun i k => s.v.get i k 0) (fun i k => s.u.get i k 0) c).mat_to_update j k
      = (stepV assort K nv s).v.get j k 0 := by
  rw [updateVerticesCode_refines assort K nv.nL nv.vList nv.uList nv.inn (wView assort true s.w)
    (fun i k => s.v.get i k 0) (fun i k => s.u.get i k 0) c hc j k]
  unfold stepV updateVertices
  simp only [hd, hk, if_true]
  rw [get_ofFn _ _ _ _ hj hk (by omega)]

end

/-- what the two proxies of graph.hpp return: out-edges/targets and in-edges/sources — the lists the
model passes as `nbr` in the out- and in-membership steps -/
theorem proxies_documented :
    Gen.proxyOut = "returnboost::out_edges(i,g);|returnboost::target(*eit,g);" ∧
    Gen.proxyIn = "returnboost::in_edges(i,g);|returnboost::source(*eit,g);" := by decide

/-- the calls in `Solver::loop` hand the functions the arguments the theorems above assume -/
theorem call_arguments_documented :
    Gen.loopSteps = [("out_edges_target_vertices", "u_list,v_list,A,w,v,u"),
      ("in_edges_source_vertices", "v_list,u_list,A,w,u,v"),
      ("in_edges_source_vertices", "v_list,u_list,A,wT,u,v"),
      ("affinity", "u_list,v_list,A,u,v,w")] := by decide

/-- non-vacuity: the loops really run — a concrete call on two vertices, one layer, one edge -/
example :
    let r := updateVerticesCode (α := Float) false 1 1 [0] [1] (fun _ i => if i = 0 then [1] else [])
      (fun _ _ => 1.0) (fun _ _ _ => 1.0) (fun _ _ => 0.5) (fun _ _ => 0.25)
      ⟨0, 0, 0, 0, 0, 0, fun _ _ => 0.5⟩
    r.mat_to_update 0 0 = 4.0 ∧ r.mat_to_update 1 0 = 0.5 := by
  constructor <;> decide +kernel

end MTProps.CodeVertices
