/-
Index safety of the translated loop nests (C16): every container access `M(i,k)` / `w(k,q,a)` that the translator
recorded in the loop nests of `update_vertices`, `update_affinity` and `calculate_likelyhood` — as they stand in
solver.hpp on this run — has each index below the corresponding dimension of the container, under the
conditions of the loops around it, provided the vertex lists and the adjacency lists handed to the solver hold
valid row indices (which `MTProps.C16.listed_vertices_in_bounds` / `adjacency_entries_in_bounds` prove of the
network the library builds).  The propositions `…_safe` are generated next to the code (MT/Generated/SolverCode.lean);
branch conditions are ignored there, so the statement covers both the assortative and the general branch.  An
off-by-one loop bound, swapped indices or a container of the wrong shape in one of these loops makes the generated
proposition unprovable.
-/
import MT.Generated.SolverCode
import MT.Generated.InitCode
import MTProps.C16

namespace MTProps.CodeSafe
open MT MT.Gen

/-- closes one generated conjunct: introduce the loop variables and their conditions, split the conjunction of
`index < dimension` facts, and find each among the hypotheses or through the list / adjacency assumptions -/
macro "safe_conjunct" hl1:ident hl2:ident he:ident : tactic =>
  `(tactic| (intros
             repeat' apply And.intro
             all_goals first
               | assumption
               | exact $hl1 _ ‹_›
               | exact $hl2 _ ‹_›
               | exact $he _ ‹_› _ _ ‹_›))

/-- `update_vertices`: the three membership matrices are `N × K`, the affinity tensor `K (× K) × L` -/
theorem updateVerticesCode_safe_holds (K L N : Nat) (numList denList : List Nat) (edges : Nat → Nat → List Nat)
    (hn : ∀ i, i ∈ numList → i < N) (hd : ∀ i, i ∈ denList → i < N)
    (he : ∀ a, a < L → ∀ i j, j ∈ edges a i → j < N) :
    updateVerticesCode_safe K L N numList denList edges := by
  unfold updateVerticesCode_safe
  repeat' apply And.intro
  all_goals safe_conjunct hn hd he

/-- `update_affinity` -/
theorem updateAffinityCode_safe_holds (K L N : Nat) (uList vList : List Nat) (out : Nat → Nat → List Nat)
    (hu : ∀ i, i ∈ uList → i < N) (hv : ∀ i, i ∈ vList → i < N)
    (he : ∀ a, a < L → ∀ i j, j ∈ out a i → j < N) :
    updateAffinityCode_safe K L N uList vList out := by
  unfold updateAffinityCode_safe
  repeat' apply And.intro
  all_goals safe_conjunct hu hv he

/-- `calculate_likelyhood` (its loops run over all vertex pairs; the adjacency lists are only counted) -/
theorem likelihoodCode_safe_holds (K L N : Nat) (out : Nat → Nat → List Nat) :
    likelihoodCode_safe K L N out := by
  unfold likelihoodCode_safe
  repeat' apply And.intro
  all_goals (intros; repeat' apply And.intro) <;> assumption


/-! ### the three initialisers -/

/-- `init_symmetric_tensor_random` on a square tensor (`SymmetricTensor(K, L)` is `K × K × L`): the mirrored write
`T(j,i,α)` of the triangular loop stays inside -/
theorem initRandomCode_safe_holds (K L : Nat) : initRandomCode_safe K K L := by
  unfold initRandomCode_safe
  repeat' apply And.intro
  all_goals (intros; repeat' apply And.intro) <;> omega

/-- `init_symmetric_tensor_from_initial` -/
theorem initFromInitialCode_safe_holds (K L : Nat) : initFromInitialCode_safe K L := by
  unfold initFromInitialCode_safe
  repeat' apply And.intro
  all_goals (intros; repeat' apply And.intro) <;> assumption

/-- `init_tensor_rows_random`: the `assert(j < rows)` of initialization.hpp cannot fire when the listed vertices are rows -/
theorem initRowsCode_safe_holds (N K : Nat) (elements : List Nat) (h : ∀ j, j ∈ elements → j < N) :
    initRowsCode_safe N K elements := by
  unfold initRowsCode_safe
  intro k hk j hj
  exact ⟨h j hj, hk⟩

/-! ### on the network the library builds

The hypotheses above are facts about `build` (MTProps.C16 `listed_vertices_in_bounds`, `adjacency_entries_in_bounds`,
MTProofs.Graph `inn_lt_of_recs`): for every edge list, in both directions, with the dimensions the solver uses
(`N` = number of vertices, `L` = number of layers, any `K`), no loop nest of the numeric core leaves its containers. -/

section
variable {β ω : Type} [DecidableEq β] [Weight ω] (directed : Bool) (starts ends : List β) (weights : List ω)

theorem nV_of_layer {a : Nat} (ha : a < (build directed starts ends weights).nL) :
    (build directed starts ends weights).nV = (build directed starts ends weights).labels.length := by
  unfold Net.nV
  rw [if_neg (by omega)]

theorem built_out_lt (a : Nat) (ha : a < (build directed starts ends weights).view.nL) (i j : Nat)
    (hj : j ∈ (build directed starts ends weights).view.out a i) : j < (build directed starts ends weights).nV := by
  rw [nV_of_layer directed starts ends weights ha]
  exact C16.adjacency_entries_in_bounds directed starts ends weights a i j hj

theorem built_inn_lt (a : Nat) (ha : a < (build directed starts ends weights).view.nL) (i j : Nat)
    (hj : j ∈ (build directed starts ends weights).view.inn a i) : j < (build directed starts ends weights).nV := by
  rw [nV_of_layer directed starts ends weights ha]
  rw [MTProofs.view_inn] at hj
  split at hj
  · exact MTProofs.inn_lt_of_recs _ _ (MTProofs.build_recs_lt directed starts ends weights) a i j hj
  · simp at hj

/-- **no loop nest of the numeric core leaves its containers**, whatever the edge list: the out-membership update, the
in-membership update (in-edge proxy, lists exchanged), the affinity update, the likelihood evaluation and the
random start of the two membership matrices -/
theorem code_safe_on_built_network (K : Nat) :
    let net := build directed starts ends weights
    updateVerticesCode_safe K net.view.nL net.nV net.view.uList net.view.vList net.view.out ∧
    updateVerticesCode_safe K net.view.nL net.nV net.view.vList net.view.uList net.view.inn ∧
    updateAffinityCode_safe K net.view.nL net.nV net.view.uList net.view.vList net.view.out ∧
    likelihoodCode_safe K net.view.nL net.nV net.view.out ∧
    initRowsCode_safe net.nV K net.view.uList ∧ initRowsCode_safe net.nV K net.view.vList := by
  have hl := C16.listed_vertices_in_bounds directed starts ends weights
  exact ⟨updateVerticesCode_safe_holds K _ _ _ _ _ hl.1 hl.2 (built_out_lt directed starts ends weights),
         updateVerticesCode_safe_holds K _ _ _ _ _ hl.2 hl.1 (built_inn_lt directed starts ends weights),
         updateAffinityCode_safe_holds K _ _ _ _ _ hl.1 hl.2 (built_out_lt directed starts ends weights),
         likelihoodCode_safe_holds K _ _ _,
         initRowsCode_safe_holds _ K _ hl.1, initRowsCode_safe_holds _ K _ hl.2⟩

end

end MTProps.CodeSafe
