/-
C11 — undirected mode: orientation-blind, single membership, symmetric affinity.
An undirected `add_edge(a,b)` appends `b` to the list of `a` and `a` to the list of `b`; the two
appends commute, so the orientation in which a record is written is invisible once the vertex
indices agree.  Theorem: reversing any subset of records with the order of first appearance
unchanged gives the *same* view of the network (every adjacency list identical, element for
element), hence the same result for every scalar type — `Float` included, i.e. bit-identical.
Tie: `net` correspondence on reversed records, paired real runs compared bitwise.
-/
import MTProofs.Graph
import MTProofs.Select
import MTProofs.MassBalance
import MTProps.C02
import MTProps.C17
import MTProps.C05
import MTProofs.Invariants
import MT.Main

namespace MTProps.C11
open MT MTProofs

variable {β ω : Type} [DecidableEq β] [Weight ω]

/-- a record and a copy of it that is either identical or reversed -/
def RevRel (p p' : β × β) : Prop := p' = p ∨ p' = (p.2, p.1)

/-- reversing any subset of records, first-appearance order of the vertices unchanged, leaves
labels, adjacency lists (in iteration order), source/target lists — everything the solver sees —
identical -/
theorem undirected_reverse_invariant (starts ends starts' ends' : List β) (weights : List ω)
    (hrel : List.Forall₂ RevRel (starts.zip ends) (starts'.zip ends'))
    (hlen : starts'.length = starts.length)
    (hlab : firstApp (interleave starts' ends') = firstApp (interleave starts ends)) :
    (build false starts' ends' weights).labels = (build false starts ends weights).labels ∧
    (build false starts' ends' weights).view = (build false starts ends weights).view := by
  refine ⟨hlab, ?_⟩
  apply view_eq_of_out _ _ rfl rfl
  · simp only [build, hlen]
  · simp only [Net.nV, build, hlen, hlab]
    try rfl
  · funext a i
    unfold Net.out build
    simp only [hlen, hlab, Bool.not_false, Bool.true_and, decide_eq_true_eq, List.flatMap_map]
    refine (flatMap_eq_of_forall₂ (forall₂_zipIdx hrel 0) _ _ ?_).symm
    rintro ⟨⟨x, y⟩, t⟩ ⟨⟨x', y'⟩, t'⟩ ⟨hR, ht⟩
    simp only at hR ht
    subst ht
    rcases hR with h | h
    · simp only [Prod.mk.injEq] at h
      rw [h.1, h.2]
    · simp only [Prod.mk.injEq] at h
      rw [h.1, h.2]
      simp only [Net.unitsAt]
      first
        | exact undirected_piece_swap
            ⟨(firstApp (interleave starts ends)).idxOf x, (firstApp (interleave starts ends)).idxOf y,
              chunkUnits weights (if starts.length = 0 then 0 else weights.length / starts.length) t⟩ a i
        | exact (undirected_piece_swap
            ⟨(firstApp (interleave starts ends)).idxOf x, (firstApp (interleave starts ends)).idxOf y,
              chunkUnits weights (if starts.length = 0 then 0 else weights.length / starts.length) t⟩ a i).symm

/-- the inductive form of "order of first appearance unchanged": a record may be reversed when it
is a self-loop or both its endpoints were seen before -/
theorem firstApp_swap_seen (pre : List β) (x y : β) (rest : List β)
    (h : x = y ∨ (x ∈ pre ∧ y ∈ pre)) :
    firstApp (pre ++ y :: x :: rest) = firstApp (pre ++ x :: y :: rest) := by
  rcases h with rfl | ⟨hx, hy⟩
  · rfl
  · induction pre with
    | nil => simp at hx
    | cons p ps ih =>
      simp only [List.cons_append, firstApp]
      by_cases hxp : x ∈ ps <;> by_cases hyp : y ∈ ps
      · rw [ih hxp hyp]
      · have : y = p := by simpa [hyp] using hy
        subst this
        rw [← firstApp_filter_ne, ← firstApp_filter_ne]
        congr 1
        simp only [List.filter_append, List.filter_cons]
        by_cases hxy : x = y
        · subst hxy; rfl
        · simp [hxy]
      · have : x = p := by simpa [hxp] using hx
        subst this
        rw [← firstApp_filter_ne, ← firstApp_filter_ne]
        congr 1
        simp only [List.filter_append, List.filter_cons]
        by_cases hxy : y = x
        · subst hxy; rfl
        · simp [hxy]
      · have h1 : x = p := by simpa [hxp] using hx
        have h2 : y = p := by simpa [hyp] using hy
        subst h1; subst h2; rfl

section
variable {α : Type} [Add α] [Sub α] [Mul α] [Div α] [LT α] [DecidableLT α] [MTExtra α]

/-- the in-membership argument is neither read nor written in undirected mode: whatever the
caller's container holds is returned unchanged, and the rest of the result does not depend on it -/
theorem v_untouched (assort : Bool) (ik : InitKind) (K N : Nat) (nv : NetView) (hdir : nv.directed = false)
    (r maxIt nConv : Nat) (evalL : Nat → Nat → State α → α) (userW : Tens α) (d : Nat → α)
    (prior : State α) :
    (runAll assort ik K N nv r maxIt nConv evalL userW d prior).best.v = prior.v :=
  runAll_v_undirected assort ik K N nv maxIt nConv evalL userW d hdir prior r

/-- the sweep itself never looks at `v` when undirected -/
theorem sweep_ignores_v (assort : Bool) (K : Nat) (nv : NetView) (hdir : nv.directed = false)
    (s : State α) (v' : Tens α) :
    sweep assort K nv { s with v := v' } = { sweep assort K nv s with v := v' } := by
  unfold sweep stepW stepV stepU
  simp only [hdir, Bool.false_eq_true, ↓reduceIte]

end

/-- **the whole call is orientation-blind**: `factorize` on the reversed records returns exactly the same
value — labels, factors, report — for every scalar type (`Float`: bit-identical) -/
theorem undirected_reverse_factorize {α : Type} [Add α] [Sub α] [Mul α] [Div α] [LT α] [DecidableLT α] [MTExtra α]
    (inp : Input β ω α) (starts' ends' : List β) (d : Nat → α)
    (hdir : inp.directed = false)
    (hrel : List.Forall₂ RevRel (inp.starts.zip inp.ends) (starts'.zip ends'))
    (hlen : starts'.length = inp.starts.length) (hlen' : ends'.length = inp.ends.length)
    (heq : inp.starts.length = inp.ends.length)
    (hlab : firstApp (interleave starts' ends') = firstApp (interleave inp.starts inp.ends)) :
    factorize { inp with starts := starts', ends := ends' } d = factorize inp d := by
  obtain ⟨h1, h2⟩ := undirected_reverse_invariant inp.starts inp.ends starts' ends' inp.weights hrel hlen hlab
  unfold factorize factorizeWith
  have hs : (Input.shapes { inp with starts := starts', ends := ends' }) = inp.shapes := by
    unfold Input.shapes
    simp only [hlen, hlen', numVertices_eq starts' ends' (by omega), numVertices_eq inp.starts inp.ends heq, hlab]
  simp only [hs]
  cases hv : validate inp.shapes with
  | error e => rfl
  | ok p =>
    simp only [bind, Except.bind, hdir]
    rw [h2, h1]

/-! ### symmetric affinity (over ℝ) -/

section symmetric
open Finset

/-- symmetry of an affinity accessor on the index range that exists -/
def SymW (K L : Nat) (w : Nat → Nat → Nat → ℝ) : Prop :=
  ∀ k q a, k < K → q < K → a < L → w k q a = w q k a

/-- with a symmetric affinity the rate of the single-membership model is symmetric -/
theorem rate_symm (K L : Nat) (w : Nat → Nat → Nat → ℝ) (hw : SymW K L w)
    (u : Nat → Nat → ℝ) (i j : Nat) {a : Nat} (ha : a < L) :
    rate false K w u u i j a = rate false K w u u j i a := by
  unfold rate gsum
  simp only [Bool.false_eq_true, ↓reduceIte]
  rw [sum_comm]
  apply sum_congr rfl; intro q hq
  apply sum_congr rfl; intro k hk
  rw [hw k q a (mem_range.mp hk) (mem_range.mp hq) ha]; ring

/-- **the affinity step preserves symmetry** in undirected mode (single membership matrix, one shared
vertex list, symmetric multiplicities) -/
theorem specWEntry_symm (K L N : Nat) (U : List Nat) (out : Nat → Nat → List Nat)
    (hA : ∀ a i j, (out a i).count j = (out a j).count i)
    (u : Nat → Nat → ℝ) (w : Nat → Nat → Nat → ℝ) (hw : SymW K L w) {k q a : Nat}
    (hk : k < K) (hq : q < K) (ha : a < L) :
    specWEntry false K N U U out u u w k q a = specWEntry false K N U U out u u w q k a := by
  have hZ : specWZ U U u u k q = specWZ U U u u q k := by unfold specWZ; ring
  have hacc : specWAcc false K N out u u w k q a = specWAcc false K N out u u w q k a := by
    unfold specWAcc
    simp only [mul_sum]
    rw [sum_comm]
    apply sum_congr rfl; intro j _
    apply sum_congr rfl; intro i _
    rw [hA a i j, rate_symm K L w hw u i j ha]
    split <;> ring
  unfold specWEntry
  rw [hZ, hacc, hw k q a hk hq ha]

/-- symmetry of the stored affinity tensor of a state -/
def StateSym (K L : Nat) (s : State ℝ) : Prop := SymW K L (fun k q a => s.w.get k q a)

/-- on the model's states: an undirected general sweep maps a symmetric affinity to a symmetric one
(the u-step does not touch `w`) -/
theorem w_symmetric_invariant (K : Nat) (nv : NetView) (s : State ℝ) (hd : nv.directed = false)
    (hwf : MTProps.C02.ViewWF nv s.u.R) (hA : ∀ a i j, (nv.out a i).count j = (nv.out a j).count i)
    (hlist : nv.vList = nv.uList) (hsym : StateSym K nv.nL s) :
    StateSym K nv.nL (sweep false K nv s) := by
  intro k q a hk hq ha
  show (sweep false K nv s).w.get k q a = (sweep false K nv s).w.get q k a
  unfold sweep
  rw [MTProps.C02.stepV_undirected false K nv _ hd]
  have h1 := MTProps.C02.stepW_entry_general K nv (stepU false K nv s) hwf hk hq ha
  have h2 := MTProps.C02.stepW_entry_general K nv (stepU false K nv s) hwf hq hk ha
  rw [h1, h2]
  simp only [hd, Bool.false_eq_true, ↓reduceIte, hlist]
  refine specWEntry_symm K nv.nL _ nv.uList nv.out hA _ _ ?_ hk hq ha
  intro k' q' a' hk' hq' ha'
  exact hsym k' q' a' hk' hq' ha'

/-- … hence after any number of sweeps -/
theorem w_symmetric_iterate (K : Nat) (nv : NetView) (s : State ℝ) (hd : nv.directed = false)
    (hwf : MTProps.C02.ViewWF nv s.u.R) (hA : ∀ a i j, (nv.out a i).count j = (nv.out a j).count i)
    (hlist : nv.vList = nv.uList) (hsym : StateSym K nv.nL s) (n : Nat) :
    StateSym K nv.nL ((sweep false K nv)^[n] s) := by
  induction n generalizing s with
  | zero => exact hsym
  | succ n ih =>
    rw [Function.iterate_succ_apply]
    exact ih _ (by rw [sweep_R]; exact hwf) (w_symmetric_invariant K nv s hd hwf hA hlist hsym)

/-- **C11, last clause, over ℝ**: from the random start of an undirected general realization the
affinity of every layer is symmetric after every number of sweeps, for every draw stream -/
theorem random_start_affinity_symmetric (K N : Nat) (nv : NetView) (hd : nv.directed = false)
    (hwf : MTProps.C02.ViewWF nv N) (hA : ∀ a i j, (nv.out a i).count j = (nv.out a j).count i)
    (hlist : nv.vList = nv.uList) (userW : Tens ℝ) (d : Nat → ℝ) (n : Nat) :
    StateSym K nv.nL ((sweep false K nv)^[n] (realizationStart false .random K N nv userW d).1) := by
  apply w_symmetric_iterate K nv _ hd (by exact hwf) hA hlist
  intro k q a hk hq ha
  exact MTProps.C17.random_affinity_symmetric K nv.nL d hk hq ha

/-- every undirected network built from an edge list provides the hypotheses above -/
theorem built_undirected_view {β ω : Type} [DecidableEq β] [Weight ω] (starts ends : List β) (weights : List ω) :
    let n := build false starts ends weights
    n.view.directed = false ∧ MTProps.C02.ViewWF n.view n.labels.length ∧
    (∀ a i j, (n.view.out a i).count j = (n.view.out a j).count i) ∧ n.view.vList = n.view.uList := by
  intro n
  have hdir : n.directed = false := rfl
  have hrecs := build_recs_lt false starts ends weights
  refine ⟨rfl, MTProps.C02.built_view_wf false starts ends weights, ?_, ?_⟩
  · intro a i j
    rw [view_out, view_out]
    by_cases ha : a < n.nL
    · have hnV : n.nV = n.labels.length := by unfold Net.nV; rw [if_neg (by omega)]
      by_cases hi : i < n.nV <;> by_cases hj : j < n.nV
      · simp only [ha, hi, hj, and_self, ↓reduceIte]
        exact out_count_symm n hdir a i j
      · simp only [ha, hi, hj, and_false, and_self, ↓reduceIte, List.count_nil]
        rw [List.count_eq_zero]
        intro hmem
        have h1 : j < n.labels.length := out_lt_of_recs n _ hrecs a i j hmem
        omega
      · simp only [ha, hi, hj, and_false, and_self, ↓reduceIte, List.count_nil]
        symm
        rw [List.count_eq_zero]
        intro hmem
        have h1 : i < n.labels.length := out_lt_of_recs n _ hrecs a j i hmem
        omega
      · simp [ha, hi, hj]
    · simp [ha]
  · show n.vList = n.uList
    unfold Net.vList; simp [hdir]

/-- **C11, last clause, end to end over ℝ**: for every edge list, every K and every draw stream, the
affinity of an undirected general realization started randomly is symmetric after every sweep -/
theorem built_random_start_affinity_symmetric {β ω : Type} [DecidableEq β] [Weight ω]
    (starts ends : List β) (weights : List ω) (K : Nat) (userW : Tens ℝ) (d : Nat → ℝ) (n : Nat) :
    let net := build false starts ends weights
    StateSym K net.view.nL ((sweep false K net.view)^[n]
      (realizationStart false .random K net.labels.length net.view userW d).1) := by
  intro net
  obtain ⟨h1, h2, h3, h4⟩ := built_undirected_view starts ends weights
  exact random_start_affinity_symmetric K net.labels.length net.view h1 h2 h3 h4 userW d n

/-- … in particular the factors a realization ends with (whatever the stopping rule decided) -/
theorem realization_final_affinity_symmetric (K N : Nat) (nv : NetView) (hd : nv.directed = false)
    (hwf : MTProps.C02.ViewWF nv N) (hA : ∀ a i j, (nv.out a i).count j = (nv.out a j).count i)
    (hlist : nv.vList = nv.uList) (maxIt nConv : Nat) (hM : 1 ≤ maxIt) (hC : 1 ≤ nConv)
    (evalL : Nat → State ℝ → ℝ) (userW : Tens ℝ) (d : Nat → ℝ) :
    StateSym K nv.nL (runRealization false .random K N nv maxIt nConv evalL userW d).final := by
  have hb := MTProps.C05.iterations_bounds false K nv maxIt nConv evalL
    (realizationStart false .random K N nv userW d).1 hM hC
  simp only at hb
  have hfin : (runRealization false .random K N nv maxIt nConv evalL userW d).final =
      (sweep false K nv)^[(runLoop false K nv maxIt nConv evalL maxIt
        (realizationStart false .random K N nv userW d).1 ctlInit).2.1.iteration]
        (realizationStart false .random K N nv userW d).1 := hb.2.2.2
  rw [hfin]
  exact random_start_affinity_symmetric K N nv hd hwf hA hlist userW d _

end symmetric

/-- non-vacuity: `(7,5)` reversed after both endpoints were seen; the networks coincide -/
example :
    (build false [5, 7] [7, 5] ([1, 2] : List Nat)).out 0 0 =
      (build false [5, 5] [7, 7] ([1, 2] : List Nat)).out 0 0 := by decide

end MTProps.C11
