/-
Code tie (initialisers) — the loop nests of initialization.hpp, translated from the source on every run
(`MT/Generated/InitCode.lean`; a call of the generator inside a statement becomes the draw `d s.pos` followed
by `pos := pos + 1`), compute the model's closed forms `initRows`, `initAffFromInitial`, `initAffRandom` — the
functions about which C17 (each draw consumed exactly once, symmetric pairs share a draw, ranges, zero rows) and
C14 (file value + 0.1 × fresh draw per entry) are proved — and consume exactly the number of draws the model says.
Every scalar type.  Pinned literally: the statements before the loops (`T = tensor_init` after the one-time
`tensor_init = Tinit`; the `dims()` reads) and the member `tensor_t tensor_init{}`.
-/
import MTProofs.CodeRefineInit
import MTProofs.Tensor

namespace MTProps.CodeInit
open MT MT.Gen MT.CodeRefine MTProofs

section
variable {α : Type} [Add α] [Sub α] [Mul α] [Div α] [LT α] [DecidableLT α] [MTExtra α]

/-- the vertex lists the solver hands to `init_tensor_rows_random` have no repetitions -/
theorem uList_nodup {β : Type} (n : Net β) : n.uList.Nodup := by
  unfold Net.uList
  exact (List.nodup_range).sublist List.filter_sublist

theorem vList_nodup {β : Type} (n : Net β) : n.vList.Nodup := by
  unfold Net.vList
  split
  · exact (List.nodup_range).sublist List.filter_sublist
  · exact uList_nodup n

/-- `init_tensor_rows_random(elements, mat, rng)`: entry by entry the model's `initRows`, and the same number of draws -/
theorem code_initRows (N K : Nat) (elems : List Nat) (hl : elems.Nodup) (prev : Nat → Nat → α) (d : Nat → α) (p0 : Nat)
    {j k : Nat} (hj : j < N) (hk : k < K) :
    (initRowsCode K elems d ⟨prev, p0⟩).mat j k = (initRows N K elems prev (fun t => d (p0 + t))).1.get j k 0 ∧
    (initRowsCode K elems d ⟨prev, p0⟩).pos = p0 + (initRows N K elems prev (fun t => d (p0 + t))).2 := by
  obtain ⟨h1, h2⟩ := initRowsCode_refines K elems hl d ⟨prev, p0⟩
  refine ⟨?_, h2⟩
  rw [h1 j k]
  unfold initRows
  rw [get_ofFn _ _ _ _ hj hk (by omega)]
  by_cases hm : j ∈ elems <;> simp [hk, hm, Nat.add_assoc]

/-- rows and columns outside the matrix, and rows not listed, keep what they held -/
theorem code_initRows_other (K : Nat) (elems : List Nat) (hl : elems.Nodup) (prev : Nat → Nat → α) (d : Nat → α) (p0 : Nat)
    {j k : Nat} (h : ¬ (k < K ∧ j ∈ elems)) :
    (initRowsCode K elems d ⟨prev, p0⟩).mat j k = prev j k := by
  obtain ⟨h1, _⟩ := initRowsCode_refines K elems hl d ⟨prev, p0⟩
  rw [h1 j k]
  simp only [h, if_false]

/-- `init_symmetric_tensor_from_initial` (general): file value + `EPS_NOISE` × the entry's own draw -/
theorem code_initFromInitial_general (init : Tens α) (d : Nat → α) (p0 : Nat) (T2 : Nat → Nat → α)
    {k q a : Nat} (hk : k < init.R) (hq : q < init.R) (ha : a < init.T) :
    let s := initFromInitialCode false init.R init.T d ⟨T2, fun k q a => init.get k q a, p0⟩
    s.T3 k q a = (initAffFromInitial false init (fun t => d (p0 + t))).1.get k q a ∧
    s.pos = p0 + (initAffFromInitial false init (fun t => d (p0 + t))).2 := by
  obtain ⟨h1, h2⟩ := initFromInitialCode_refines_general init.R init.T d ⟨T2, fun k q a => init.get k q a, p0⟩
  refine ⟨?_, ?_⟩
  · rw [h1 k q a]
    unfold initAffFromInitial
    simp only [Bool.false_eq_true, if_false]
    rw [get_ofFn _ _ _ _ hk hq ha]
    simp [hk, hq, ha]
  · rw [h2]; unfold initAffFromInitial; simp

/-- `init_symmetric_tensor_from_initial` (assortative) -/
theorem code_initFromInitial_assortative (init : Tens α) (d : Nat → α) (p0 : Nat) (T3 : Nat → Nat → Nat → α)
    {k a : Nat} (hk : k < init.R) (ha : a < init.T) :
    let s := initFromInitialCode true init.R init.T d ⟨fun k a => init.get k 0 a, T3, p0⟩
    s.T2 k a = (initAffFromInitial true init (fun t => d (p0 + t))).1.get k 0 a ∧
    s.pos = p0 + (initAffFromInitial true init (fun t => d (p0 + t))).2 := by
  obtain ⟨h1, h2⟩ := initFromInitialCode_refines_assortative init.R init.T d ⟨fun k a => init.get k 0 a, T3, p0⟩
  refine ⟨?_, ?_⟩
  · rw [h1 k a]
    unfold initAffFromInitial
    simp only [if_true]
    rw [get_ofFn _ _ _ _ hk (by omega) ha]
    simp [hk, ha]
  · rw [h2]; unfold initAffFromInitial; simp

/-- `init_symmetric_tensor_random` (general): mirrored upper triangle, `L·K(K+1)/2` draws -/
theorem code_initRandom_general (K L : Nat) (d : Nat → α) (p0 : Nat) (T2 : Nat → Nat → α) (T3 : Nat → Nat → Nat → α)
    {i j a : Nat} (hi : i < K) (hj : j < K) (ha : a < L) :
    let s := initRandomCode false K K L d ⟨T2, T3, p0⟩
    s.T3 i j a = (initAffRandom false K L (fun t => d (p0 + t))).1.get i j a ∧
    s.pos = p0 + (initAffRandom false K L (fun t => d (p0 + t))).2 := by
  obtain ⟨h1, h2⟩ := initRandomCode_refines_general K L d ⟨T2, T3, p0⟩
  refine ⟨?_, ?_⟩
  · rw [h1 i j a]
    unfold initAffRandom
    simp only [Bool.false_eq_true, if_false]
    rw [get_ofFn _ _ _ _ hi hj ha]
    simp [hi, hj, ha]
  · rw [h2]; unfold initAffRandom; simp

/-- `init_symmetric_tensor_random` (assortative): one draw per diagonal entry -/
theorem code_initRandom_assortative (K L ncols : Nat) (d : Nat → α) (p0 : Nat) (T2 : Nat → Nat → α) (T3 : Nat → Nat → Nat → α)
    {i a : Nat} (hi : i < K) (ha : a < L) :
    let s := initRandomCode true K ncols L d ⟨T2, T3, p0⟩
    s.T2 i a = (initAffRandom true K L (fun t => d (p0 + t))).1.get i 0 a ∧
    s.pos = p0 + (initAffRandom true K L (fun t => d (p0 + t))).2 := by
  obtain ⟨h1, h2⟩ := initRandomCode_refines_assortative K L d ncols ⟨T2, T3, p0⟩
  refine ⟨?_, ?_⟩
  · rw [h1 i a]
    unfold initAffRandom
    simp only [if_true]
    rw [get_ofFn _ _ _ _ hi (by omega) ha]
    simp [hi, ha]
  · rw [h2]; unfold initAffRandom; simp

end

/-- non-vacuity: three draws 0.5, 0.25, 0.125 into a 2×2 layer — the off-diagonal pair shares the second -/
example :
    let s := initRandomCode (α := Float) false 2 2 1 (fun t => if t = 0 then 0.5 else if t = 1 then 0.25 else 0.125)
      ⟨fun _ _ => 0, fun _ _ _ => 0, 0⟩
    s.T3 0 0 0 = 0.5 ∧ s.T3 0 1 0 = 0.25 ∧ s.T3 1 0 0 = 0.25 ∧ s.T3 1 1 0 = 0.125 ∧ s.pos = 3 := by
  refine ⟨?_, ?_, ?_, ?_, ?_⟩ <;> decide +kernel

end MTProps.CodeInit
