/-
Non-vacuity of C01's and C09's hypotheses: a concrete directed network (two vertices, one edge 0 → 1,
one group, one layer) with a concrete state on which every hypothesis of `sweep_ascent_directed` holds.
-/
import MTProps.C01
import Mathlib.Tactic.IntervalCases
import Mathlib.Tactic.NormNum

namespace MTProps.C01.NonVacuity
open MT MTProofs Finset MTProps.C01

def out : Nat → Nat → List Nat := fun _ i => if i = 0 then [1] else []
def inn : Nat → Nat → List Nat := fun _ j => if j = 1 then [0] else []
noncomputable def w : Nat → Nat → Nat → ℝ := fun _ _ _ => 1
noncomputable def u : Nat → Nat → ℝ := fun i _ => if i = 0 then 1 else 0
noncomputable def v : Nat → Nat → ℝ := fun j _ => if j = 1 then 1 else 0

theorem rate_uv (X Y : Nat → Nat → ℝ) (i j a : Nat) : rate false 1 w Y X i j a = X i 0 * Y j 0 := by
  simp [rate, gsum, w]

theorem snap_one : snapR 1 = 1 := by
  unfold snapR; rw [if_neg]; rw [abs_one]; exact not_lt.mpr eps_lt_one.le

theorem Zu : specZ false 1 1 [1] w v 0 = 1 := by simp [specZ, csum, w, v, sumL_eq_sum]

theorem valU : specVal false 1 1 2 out w v u 0 0 = 1 := by
  simp [specVal, rate_uv, csum, out, u, v, w, Finset.sum_range_succ, eps_lt_one]

theorem u1_eq (i k : Nat) (hi : i < 2) (hk : k < 1) : u1 false 1 1 2 [0] [1] out w u v i k = u i k := by
  have hk0 : k = 0 := by omega
  subst hk0
  unfold u1 specVEntry
  interval_cases i
  · rw [Zu, valU]; simp [u, eps_lt_one, snap_one]
  · simp [u]

theorem u1_00 : u1 false 1 1 2 [0] [1] out w u v 0 0 = 1 := by rw [u1_eq 0 0 (by omega) (by omega)]; simp [u]
theorem u1_10 : u1 false 1 1 2 [0] [1] out w u v 1 0 = 0 := by rw [u1_eq 1 0 (by omega) (by omega)]; simp [u]

theorem Zv : specZ false 1 1 [0] w (u1 false 1 1 2 [0] [1] out w u v) 0 = 1 := by
  simp [specZ, csum, w, sumL_eq_sum, u1_00]

theorem valV : specVal false 1 1 2 inn w (u1 false 1 1 2 [0] [1] out w u v) v 1 0 = 1 := by
  simp [specVal, rate_uv, csum, inn, v, w, Finset.sum_range_succ, eps_lt_one, u1_00, u1_10]

theorem v1_eq (j k : Nat) (hj : j < 2) (hk : k < 1) : v1 false 1 1 2 [0] [1] out inn w w u v j k = v j k := by
  have hk0 : k = 0 := by omega
  subst hk0
  unfold v1 specVEntry
  interval_cases j
  · simp [v]
  · rw [Zv, valV]; simp [v, eps_lt_one, snap_one]

theorem v1_10 : v1 false 1 1 2 [0] [1] out inn w w u v 1 0 = 1 := by rw [v1_eq 1 0 (by omega) (by omega)]; simp [v]
theorem v1_00 : v1 false 1 1 2 [0] [1] out inn w w u v 0 0 = 0 := by rw [v1_eq 0 0 (by omega) (by omega)]; simp [v]

theorem wZ1 : specWZ [0] [1] (u1 false 1 1 2 [0] [1] out w u v) (v1 false 1 1 2 [0] [1] out inn w w u v) 0 0 = 1 := by
  simp [specWZ, sumL_eq_sum, u1_00, v1_10]

theorem wAcc1 : specWAcc false 1 2 out (u1 false 1 1 2 [0] [1] out w u v) (v1 false 1 1 2 [0] [1] out inn w w u v) w 0 0 0 = 1 := by
  simp [specWAcc, rate_uv, out, Finset.sum_range_succ, u1_00, u1_10, v1_10, v1_00, eps_lt_one]

theorem w1_eq : w1 false 1 1 2 [0] [1] out inn w w u v 0 0 0 = 1 := by
  unfold w1 specWEntry
  rw [wZ1, wAcc1]; simp [w, eps_lt_one, snap_one]

/-- every hypothesis of `sweep_ascent_directed` holds on this state -/
theorem hypotheses_satisfiable :
    DirWF false 2 [0] [1] out inn w w ∧ StateOK 2 [0] [1] w w u v ∧
    RatesAbove false 1 1 2 out u v w ∧
    RatesAbove false 1 1 2 out (u1 false 1 1 2 [0] [1] out w u v) v w ∧
    RatesAbove false 1 1 2 out (u1 false 1 1 2 [0] [1] out w u v) (v1 false 1 1 2 [0] [1] out inn w w u v) w ∧
    RatesAbove false 1 1 2 out (u1 false 1 1 2 [0] [1] out w u v) (v1 false 1 1 2 [0] [1] out inn w w u v)
      (w1 false 1 1 2 [0] [1] out inn w w u v) ∧
    (∀ i k, i < 2 → k < 1 → maskV false 1 1 [0] [1] w v u i k → ¬ |rawV false 1 1 2 [1] out w v u i k| < ε) ∧
    (∀ j k, j < 2 → k < 1 → maskV false 1 1 [1] [0] w (u1 false 1 1 2 [0] [1] out w u v) v j k →
      ¬ |rawV false 1 1 2 [0] inn w (u1 false 1 1 2 [0] [1] out w u v) v j k| < ε) ∧
    (∀ k q a, k < 1 → q < 1 → a < 1 →
      maskW [0] [1] (u1 false 1 1 2 [0] [1] out w u v) (v1 false 1 1 2 [0] [1] out inn w w u v) w k q a →
      ¬ |rawW false 1 2 [0] [1] out (u1 false 1 1 2 [0] [1] out w u v) (v1 false 1 1 2 [0] [1] out inn w w u v) w a k q| < ε) := by
  have hone : ¬ |(1 : ℝ)| < ε := by rw [abs_one]; exact not_lt.mpr eps_lt_one.le
  refine ⟨⟨?_, ?_, by decide, by decide, by decide, by decide⟩, ⟨?_, ?_, ?_, ?_, ?_, ?_⟩, ?_, ?_, ?_, ?_, ?_, ?_, ?_⟩
  · intro a i j
    unfold inn out
    by_cases hi : i = 0 <;> by_cases hj : j = 1 <;> simp [hi, hj]
    · exact (List.count_eq_zero.mpr (by simpa using hj)).symm
    · exact List.count_eq_zero.mpr (by simpa using hi)
  · intro k l a; exact ⟨fun _ => rfl, fun _ => rfl⟩
  · intro i k; unfold u; split <;> norm_num
  · intro j q; unfold v; split <;> norm_num
  · intro k q a; unfold w; norm_num
  · intro k q a; unfold w; norm_num
  · intro i k hi hn
    have : i = 1 := by simp at hn; omega
    subst this; simp [u]
  · intro j q hj hn
    have : j = 0 := by simp at hn; omega
    subst this; simp [v]
  · -- rates at (u, v, w)
    intro a i j _ hi hj hc
    rw [rate_uv]
    unfold out at hc
    have hi0 : i = 0 := by by_contra h; simp [h] at hc
    subst hi0
    have hj1 : j = 1 := by
      by_contra h
      simp only [↓reduceIte] at hc
      rw [List.count_eq_zero.mpr (by simpa using h)] at hc
      omega
    subst hj1
    simp [u, v, eps_lt_one]
  · intro a i j _ hi hj hc
    rw [rate_uv]
    unfold out at hc
    have hi0 : i = 0 := by by_contra h; simp [h] at hc
    subst hi0
    have hj1 : j = 1 := by
      by_contra h
      simp only [↓reduceIte] at hc
      rw [List.count_eq_zero.mpr (by simpa using h)] at hc
      omega
    subst hj1
    simp [u1_00, v, eps_lt_one]
  · intro a i j _ hi hj hc
    rw [rate_uv]
    unfold out at hc
    have hi0 : i = 0 := by by_contra h; simp [h] at hc
    subst hi0
    have hj1 : j = 1 := by
      by_contra h
      simp only [↓reduceIte] at hc
      rw [List.count_eq_zero.mpr (by simpa using h)] at hc
      omega
    subst hj1
    simp [u1_00, v1_10, eps_lt_one]
  · intro a i j ha hi hj hc
    have ha0 : a = 0 := by omega
    subst ha0
    unfold out at hc
    have hi0 : i = 0 := by by_contra h; simp [h] at hc
    subst hi0
    have hj1 : j = 1 := by
      by_contra h
      simp only [↓reduceIte] at hc
      rw [List.count_eq_zero.mpr (by simpa using h)] at hc
      omega
    subst hj1
    simp [rate, gsum, w1_eq, u1_00, v1_10, eps_lt_one]
  · intro i k hi hk hm
    have hk0 : k = 0 := by omega
    subst hk0
    obtain ⟨_, hmem, _⟩ := hm
    have hi0 : i = 0 := by simpa using hmem
    subst hi0
    unfold rawV
    rw [Zu, valU]; simpa [u] using hone
  · intro j k hj hk hm
    have hk0 : k = 0 := by omega
    subst hk0
    obtain ⟨_, hmem, _⟩ := hm
    have hj1 : j = 1 := by simpa using hmem
    subst hj1
    unfold rawV
    rw [Zv, valV]; simpa [v] using hone
  · intro k q a hk hq ha _
    have : k = 0 := by omega
    subst this
    have : q = 0 := by omega
    subst this
    have : a = 0 := by omega
    subst this
    unfold rawW
    rw [wZ1, wAcc1]; simpa [w] using hone

/-- … so the theorem applies to it (and gives 0 ≤ 0 here: the state is a fixed point) -/
example :
    poissonLL false 1 1 2 out u v w ≤
      poissonLL false 1 1 2 out (u1 false 1 1 2 [0] [1] out w u v) (v1 false 1 1 2 [0] [1] out inn w w u v)
        (w1 false 1 1 2 [0] [1] out inn w w u v) := by
  obtain ⟨h1, h2, h3, h4, h5, h6, h7, h8, h9⟩ := hypotheses_satisfiable
  exact sweep_ascent_directed false 1 1 2 [0] [1] out inn w w u v h1 h2 h3 h4 h5 h6 h7 h8 h9

end MTProps.C01.NonVacuity
