/-
C09 — mass balance: expected edge count equals observed edge count per layer.
Theorem (over ℝ, on the model's affinity step `stepW`, hence on every completed sweep since the
affinity is updated last): under exactly the property's three preconditions, for every layer,
  Σ_{i,j} M'_{ij} + (mass of the entries snapped to zero in this step) = Σ_{i,j} A_{ij},
`A` = multiplicities of the out-lists (both orientations when undirected, C08).
Tie: run/trace correspondence + balance monitor evaluated on the implementation's own states.
-/
import MTProofs.MassBalance
import MTProps.C02
import MTProofs.Invariants

namespace MTProps.C09
open MT MTProofs Finset MTProps.C02

variable (assort : Bool) (K : Nat) (nv : NetView) (s : State ℝ)

/-- the in-membership accessor of a state (the out-memberships when undirected) -/
noncomputable abbrev vOf (nv : NetView) (s : State ℝ) : Nat → Nat → ℝ :=
  fun i k => (if nv.directed then s.v else s.u).get i k 0

noncomputable abbrev uOf (s : State ℝ) : Nat → Nat → ℝ := fun i k => s.u.get i k 0

/-- rows outside the source/target lists are zero, so list sums are sums over all vertices
(an invariant of the solver, C03) -/
structure Supported : Prop where
  uSum : ∀ k, sumL nv.uList (fun i => uOf s i k) = ∑ i ∈ range s.u.R, uOf s i k
  vSum : ∀ q, sumL nv.vList (fun j => vOf nv s j q) = ∑ j ∈ range s.u.R, vOf nv s j q

/-- the accessor of the affinity after the step agrees with the published update on the entries
that exist (all `(k,q)` general, `(k,k)` assortative) -/
theorem newW_accessor (hwf : ViewWF nv s.u.R) {k q a : Nat} (hk : k < K) (hq : q < K) (ha : a < nv.nL)
    (hdiag : assort = true → k = q) :
    wView assort false (stepW assort K nv s).w k q a =
      newW assort K s.u.R nv.uList nv.vList nv.out (uOf s) (vOf nv s) (wView assort false s.w) k q a := by
  cases assort
  · exact stepW_entry_general K nv s hwf hk hq ha
  · have := hdiag rfl
    subst this
    exact (stepW_entry_assortative K nv s hwf hk ha).1

/-- **mass balance** for layer `a` after the affinity step of a sweep -/
theorem mass_balance (hwf : ViewWF nv s.u.R) (hsup : Supported nv s) {a : Nat} (ha : a < nv.nL)
    -- (i) every observed edge has rate > ε under (u', v', w)
    (hRates : ∀ i j, i < s.u.R → j < s.u.R → 0 < (nv.out a i).count j →
      ε < rate assort K (wView assort false s.w) (vOf nv s) (uOf s) i j a)
    -- (ii) every entry of w is 0 or > ε
    (hW : ∀ k q, k < K → q < K → wView assort false s.w k q a = 0 ∨ ε < wView assort false s.w k q a)
    -- (iii) for every group pair with a positive affinity entry the product of the summed memberships exceeds ε
    (hZ : ∀ k q, k < K → q < K → 0 < wView assort false s.w k q a →
      ε < specWZ nv.uList nv.vList (uOf s) (vOf nv s) k q) :
    (∑ i ∈ range s.u.R, ∑ j ∈ range s.u.R,
        rate assort K (wView assort false (stepW assort K nv s).w) (vOf nv s) (uOf s) i j a)
      + snappedMass assort K s.u.R nv.uList nv.vList nv.out (uOf s) (vOf nv s) (wView assort false s.w) a
      = ∑ i ∈ range s.u.R, ∑ j ∈ range s.u.R, ((nv.out a i).count j : ℝ) := by
  rw [← MTProofs.mass_balance assort K s.u.R nv.uList nv.vList nv.out (uOf s) (vOf nv s)
    (wView assort false s.w) a hsup.uSum hsup.vSum hRates hW hZ]
  congr 1
  apply sum_congr rfl; intro i _
  apply sum_congr rfl; intro j _
  unfold rate
  apply gsum_congr'
  intro k q hk hq hdiag
  rw [newW_accessor assort K nv s hwf hk hq ha hdiag]

/-- the snapped mass is small: each snapped entry is below ε before truncation, so
`|snapped mass| ≤ ε · Σ_{(k,q)} |Du_k Dv_q|` -/
theorem snappedMass_bound (N : Nat) (uList vList : List Nat) (out : Nat → Nat → List Nat)
    (u v : Nat → Nat → ℝ) (w : Nat → Nat → Nat → ℝ) (a : Nat) :
    |snappedMass assort K N uList vList out u v w a| ≤
      gsum assort K (fun k q => ε * |specWZ uList vList u v k q|) := by
  unfold snappedMass gsum
  cases assort
  · simp only [Bool.false_eq_true, ↓reduceIte]
    refine le_trans (abs_sum_le_sum_abs _ _) (sum_le_sum fun k _ => ?_)
    refine le_trans (abs_sum_le_sum_abs _ _) (sum_le_sum fun q _ => ?_)
    split
    · rename_i h
      rw [abs_mul, mul_comm]
      exact mul_le_mul_of_nonneg_right (le_of_lt h.2.2) (abs_nonneg _)
    · simp only [abs_zero]
      exact mul_nonneg eps_pos.le (abs_nonneg _)
  · simp only [↓reduceIte]
    refine le_trans (abs_sum_le_sum_abs _ _) (sum_le_sum fun k _ => ?_)
    split
    · rename_i h
      rw [abs_mul, mul_comm]
      exact mul_le_mul_of_nonneg_right (le_of_lt h.2.2) (abs_nonneg _)
    · simp only [abs_zero]
      exact mul_nonneg eps_pos.le (abs_nonneg _)

/-- no truncation in the step ⇒ exact balance -/
theorem mass_balance_exact (hwf : ViewWF nv s.u.R) (hsup : Supported nv s) {a : Nat} (ha : a < nv.nL)
    (hRates : ∀ i j, i < s.u.R → j < s.u.R → 0 < (nv.out a i).count j →
      ε < rate assort K (wView assort false s.w) (vOf nv s) (uOf s) i j a)
    (hW : ∀ k q, k < K → q < K → wView assort false s.w k q a = 0 ∨ ε < wView assort false s.w k q a)
    (hZ : ∀ k q, k < K → q < K → 0 < wView assort false s.w k q a →
      ε < specWZ nv.uList nv.vList (uOf s) (vOf nv s) k q)
    (hNoSnap : snappedMass assort K s.u.R nv.uList nv.vList nv.out (uOf s) (vOf nv s) (wView assort false s.w) a = 0) :
    ∑ i ∈ range s.u.R, ∑ j ∈ range s.u.R,
        rate assort K (wView assort false (stepW assort K nv s).w) (vOf nv s) (uOf s) i j a
      = ∑ i ∈ range s.u.R, ∑ j ∈ range s.u.R, ((nv.out a i).count j : ℝ) := by
  have := mass_balance assort K nv s hwf hsup ha hRates hW hZ
  rw [hNoSnap, add_zero] at this
  exact this

/-- the supports hypothesis follows from zero rows outside the lists (uList/vList are duplicate-free
sublists of `0..N-1` by construction) -/
theorem supported_of_zero_rows {β : Type} (n : Net β) (s : State ℝ) (hN : n.nV = s.u.R)
    (hzu : ∀ i k, i < s.u.R → i ∉ n.uList → s.u.get i k 0 = 0)
    (hzv : ∀ j q, j < s.u.R → j ∉ n.vList → (if n.directed then s.v else s.u).get j q 0 = 0) :
    Supported n.view s := by
  have hund : (List.range n.nV).Nodup := List.nodup_range
  constructor
  · intro k
    apply sumL_support n.view.uList s.u.R
    · exact hund.filter _
    · intro i hi; have := (List.mem_filter.mp hi).1; rw [List.mem_range] at this; omega
    · intro i hi hni; exact hzu i k hi hni
  · intro q
    apply sumL_support n.view.vList s.u.R
    · show n.vList.Nodup
      unfold Net.vList; split
      · exact hund.filter _
      · exact hund.filter _
    · intro j hj
      have hj' : j ∈ n.vList := hj
      unfold Net.vList at hj'; split at hj'
      · have := (List.mem_filter.mp hj').1; rw [List.mem_range] at this; omega
      · have := (List.mem_filter.mp hj').1; rw [List.mem_range] at this; omega
    · intro j hj hnj; exact hzv j q hj hnj

/-- vertex lists of a view: duplicate-free, in range -/
structure ListsOK (N : Nat) : Prop where
  uNodup : nv.uList.Nodup
  vNodup : nv.vList.Nodup
  uLt : ∀ i ∈ nv.uList, i < N
  vLt : ∀ j ∈ nv.vList, j < N
  undirected : nv.directed = false → nv.vList = nv.uList

/-- the invariant of C03 gives the supports hypothesis -/
theorem supported_of_wf (hl : ListsOK nv s.u.R) (h : WFState assort K nv s) : Supported nv s := by
  constructor
  · intro k
    apply sumL_support nv.uList s.u.R hl.uNodup hl.uLt
    intro i hi hni
    by_cases hk : k < K
    · exact h.uZero i k hi hk hni
    · exact get_col_oob s.u h.uSized h.uT hi (by rw [h.uC]; omega)
  · intro q
    apply sumL_support nv.vList s.u.R hl.vNodup hl.vLt
    intro j hj hnj
    show (if nv.directed then s.v else s.u).get j q 0 = 0
    by_cases hd : nv.directed = true
    · obtain ⟨hvR, hvC, hvT⟩ := h.vShape hd
      simp only [hd, ↓reduceIte]
      by_cases hq : q < K
      · exact h.vZero hd j q hj hq hnj
      · exact get_col_oob s.v (h.vSized hd) hvT (by rw [hvR]; exact hj) (by rw [hvC]; omega)
    · have hd' : nv.directed = false := by simpa using hd
      simp only [hd', Bool.false_eq_true, ↓reduceIte]
      rw [hl.undirected hd'] at hnj
      by_cases hq : q < K
      · exact h.uZero j q hj hq hnj
      · exact get_col_oob s.u h.uSized h.uT hj (by rw [h.uC]; omega)

/-- **mass balance at every sweep boundary** of a realization: for a well-formed state `s` (C03), after the
completed iteration `sweep s`, under the property's preconditions evaluated on (u', v', w) -/
theorem sweep_mass_balance (hwf : ViewWF nv s.u.R) (hl : ListsOK nv s.u.R) (h : WFState assort K nv s)
    {a : Nat} (ha : a < nv.nL) :
    let s' := stepV assort K nv (stepU assort K nv s)
    (∀ i j, i < s.u.R → j < s.u.R → 0 < (nv.out a i).count j →
      ε < rate assort K (wView assort false s'.w) (vOf nv s') (uOf s') i j a) →
    (∀ k q, k < K → q < K → wView assort false s'.w k q a = 0 ∨ ε < wView assort false s'.w k q a) →
    (∀ k q, k < K → q < K → 0 < wView assort false s'.w k q a →
      ε < specWZ nv.uList nv.vList (uOf s') (vOf nv s') k q) →
    (∑ i ∈ range s.u.R, ∑ j ∈ range s.u.R,
        rate assort K (wView assort false (sweep assort K nv s).w) (vOf nv s') (uOf s') i j a)
      + snappedMass assort K s.u.R nv.uList nv.vList nv.out (uOf s') (vOf nv s') (wView assort false s'.w) a
      = ∑ i ∈ range s.u.R, ∑ j ∈ range s.u.R, ((nv.out a i).count j : ℝ) := by
  intro s' hRates hW hZ
  have h1 := stepU_wf assort K nv s hwf h
  have h2 : WFState assort K nv s' := stepV_wf assort K nv _ (by rw [stepU_R]; exact hwf) h1
  have hR : s'.u.R = s.u.R := by
    show (stepV assort K nv (stepU assort K nv s)).u.R = s.u.R
    rw [stepV_R, stepU_R]
  have hsup : Supported nv s' := supported_of_wf assort K nv s' (by rw [hR]; exact hl) h2
  have := mass_balance assort K nv s' (by rw [hR]; exact hwf) hsup ha
    (by rw [hR]; exact hRates) hW hZ
  rw [hR] at this
  exact this

end MTProps.C09
