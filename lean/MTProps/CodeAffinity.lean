/-
Code tie (2/3: `update_affinity`) — the numeric core of solver.hpp, translated from the source on every run, *is* the model.

`MT/Generated/SolverCode.lean` is rewritten by tools/cxx2lean.py from the current text of
`update_vertices`, `update_affinity` and `calculate_likelyhood` (statement by statement: every
assignment one structure update, every loop a left fold).  The theorems below say that, called the
way `Solver::loop` calls them (the order and arguments of the calls are the regenerated
`Gen.loopSteps`, pinned in C02), those loop nests leave in every entry exactly the value of the
model's `stepU` / `stepV` / `stepW`, and return the model's `stateLik`.

They hold for **every scalar type** — no algebraic law is used — hence for `Float`, where the
model is what is compared with the compiled C++ on every run, and for `ℝ`, where the properties
C01, C02, C06, C09, C10 are proved.  An edit of one of the three functions changes the generated
definitions; if the edit changes what is computed, these theorems no longer check.

Assumed, not proved (recorded in the trusted base): the translation rules of tools/cxx2lean.py; the
statements before the loop nests (frozen copies `mat_to_update_old`, `mat_fixed_old`, `w_old`), which
are pinned literally; that the accessors `M(i,k)`, `w(k,q,a)`, `w(k,a)` read the entries the tensor
model gives them (C18); that the edge iterators yield the adjacency lists of the network model (C08).
-/
import MTProofs.CodeRefineUW
import MTProofs.Tensor
import MT.Generated.Control

namespace MTProps.CodeAffinity
open MT MT.Gen MT.CodeRefine MTProofs

section
variable {α : Type} [Add α] [Sub α] [Mul α] [Div α] [LT α] [DecidableLT α] [MTExtra α]
variable (assort : Bool) (K : Nat) (nv : NetView) (s : State α)

/-- `update_affinity(u_list, v_list, A, u, v, w)`, general affinity -/
theorem code_stepW_general (c : UWLoc α) (hc : ∀ k q a, c.w3 k q a = s.w.get k q a)
    {k q a : Nat} (hk : k < K) (hq : q < K) (ha : a < nv.nL) :
    (updateAffinityCode false K nv.nL s.u.R nv.uList nv.vList nv.out
        (fun i k => s.u.get i k 0) (fun i k => (if nv.directed then s.v else s.u).get i k 0)
        (diag2 (wView false false s.w)) (wView false false s.w) c).w3 k q a
      = (stepW false K nv s).w.get k q a := by
  rw [updateAffinityCode_refines_general false K nv.nL s.u.R nv.uList nv.vList nv.out
    (fun i k => s.u.get i k 0) (fun i k => (if nv.directed then s.v else s.u).get i k 0)
    (wView false false s.w) rfl c (fun k q a => by rw [hc]; rfl) k q a]
  unfold stepW updateAffinity
  simp only [hk, hq, ha, and_self, if_true, Bool.false_eq_true, if_false]
  rw [get_ofFn _ _ _ _ hk hq ha]

/-- `update_affinity(u_list, v_list, A, u, v, w)`, assortative (diagonal) affinity -/
theorem code_stepW_assortative (c : UWLoc α) (hc : ∀ k a, c.w2 k a = s.w.get k 0 a)
    {k a : Nat} (hk : k < K) (ha : a < nv.nL) :
    (updateAffinityCode true K nv.nL s.u.R nv.uList nv.vList nv.out
        (fun i k => s.u.get i k 0) (fun i k => (if nv.directed then s.v else s.u).get i k 0)
        (diag2 (wView true false s.w)) (wView true false s.w) c).w2 k a
      = (stepW true K nv s).w.get k 0 a := by
  rw [updateAffinityCode_refines_assortative true K nv.nL s.u.R nv.uList nv.vList nv.out
    (fun i k => s.u.get i k 0) (fun i k => (if nv.directed then s.v else s.u).get i k 0)
    (wView true false s.w) rfl c (fun k a => by rw [hc]; rfl) k a]
  unfold stepW updateAffinity
  simp only [hk, ha, and_self, if_true]
  rw [get_ofFn _ _ _ _ hk (by omega) ha]

end

/-- the calls in `Solver::loop` hand the functions the arguments the theorems above assume -/
theorem affinity_call_arguments_documented :
    Gen.loopSteps.getLast? = some ("affinity", "u_list,v_list,A,u,v,w") ∧ Gen.loopSteps = [("out_edges_target_vertices", "u_list,v_list,A,w,v,u"),
      ("in_edges_source_vertices", "v_list,u_list,A,w,u,v"),
      ("in_edges_source_vertices", "v_list,u_list,A,wT,u,v"),
      ("affinity", "u_list,v_list,A,u,v,w")] := by decide


/-- non-vacuity: a concrete call (two vertices, one layer, one edge 0→1, K = 1) -/
example :
    let r := updateAffinityCode (α := Float) false 1 1 2 [0] [1] (fun _ i => if i = 0 then [1] else [])
      (fun _ _ => 0.5) (fun _ _ => 0.25) (fun _ _ => 2.0) (fun _ _ _ => 2.0)
      ⟨0, 0, 0, 0, 0, 0, fun _ _ => 2.0, fun _ _ _ => 2.0⟩
    r.w3 0 0 0 = 8.0 := by
  decide +kernel

end MTProps.CodeAffinity
