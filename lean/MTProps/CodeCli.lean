/-
Code tie (command line) — `main` of applications/src/multitensor.cpp, regenerated from the source on every run
(`MT/Generated/CliCode.lean`: statement sequence from the source, meaning of each statement from the table of
tools/gen_cli_code.py, the `switch` through the regenerated `Gen.cliTable`), is the front-end model's `cliMain`:
the same result files, or no run in both.  `cliMain` is what C13 (every option takes effect, files serialise the
library's result, in-membership file only for directed runs) and the command-line clause of C15 are proved about.
-/
import MT.Generated.CliCode

namespace MTProps.CodeCli
open MT MT.Cli MT.Gen

/-- same files, or an abnormal end in both (error texts are not compared) -/
def SameOutcome (a b : Except String Files) : Prop :=
  match a, b with
  | .ok x, .ok y => x = y
  | .error _, .error _ => True
  | _, _ => False

theorem sameOutcome_error (e1 e2 : String) : SameOutcome (.error e1) (.error e2) := trivial

/-- the regenerated `switch`: the case selected for `(directed, assortative, w given)` is an instantiation for that
direction (needed because the last writer call tests the option, the model the instantiation) -/
theorem table_direction (d a w : Bool) :
    ∀ i b, Gen.cliTable.lookup (Gen.cliSelection d.toNat a.toNat w.toNat) = some (i, b) → i.directed = d := by
  cases d <;> cases a <;> cases w <;> intro i b h <;>
    simp [Gen.cliTable, Gen.cliSelection, List.lookup] at h <;> (obtain ⟨h1, _⟩ := h; rw [← h1])

/-- **`main` as written = `cliMain`** -/
theorem cliMainCode_eq (argv : List String) (adj : String) (aff : Option String) :
    SameOutcome (cliMainCode argv adj aff) (cliMain argv adj aff) := by
  unfold cliMainCode cliMain parseArgs
  by_cases hh : hasOpt argv "--help" = true
  · simp [hh, SameOutcome]
  by_cases hv : hasOpt argv "--version" = true
  · simp [hh, hv, SameOutcome]
  simp only [hh, hv, if_false, Bool.false_eq_true]
  unfold parseOpts optStr optNat
  by_cases hk' : ¬ hasOpt argv "--k" = true
  · simp [hk', SameOutcome, bind, Except.bind, throw, throwThe, MonadExceptOf.throw]
  have hk : hasOpt argv "--k" = true := by simpa using hk'
  simp only [hk, if_true, Bool.not_true, Bool.false_eq_true, if_false]
  -- the eight option values, each either read or rejected
  generalize stoi (getOpt argv "--k") = eK
  generalize (if hasOpt argv "--a" = true then
      (match getOpt argv "--a" with | some v => (pure v : Except String String) | none => throw "null")
    else pure "adjacency.dat") = eA
  generalize (if hasOpt argv "--w" = true then
      (match getOpt argv "--w" with | some v => (pure v : Except String String) | none => throw "null")
    else pure "") = eW
  generalize (if hasOpt argv "--o" = true then
      (match getOpt argv "--o" with | some v => (pure v : Except String String) | none => throw "null")
    else pure "results") = eO
  generalize (if hasOpt argv "--r" = true then stoi (getOpt argv "--r") else pure 1) = eR
  generalize (if hasOpt argv "--s" = true then
      (match getOpt argv "--s" with | some v => (pure v : Except String String) | none => throw "null")
    else pure "random") = eS
  generalize (if hasOpt argv "--maxit" = true then stoi (getOpt argv "--maxit") else pure 500) = eM
  generalize (if hasOpt argv "--y" = true then stoi (getOpt argv "--y") else pure 10) = eY
  cases eK with
  | error e => simp [SameOutcome, bind, Except.bind]
  | ok k =>
  cases eA with
  | error e => simp [SameOutcome, bind, Except.bind]
  | ok a =>
  cases eW with
  | error e => simp [SameOutcome, bind, Except.bind]
  | ok w =>
  cases eO with
  | error e => simp [SameOutcome, bind, Except.bind]
  | ok o =>
  cases eR with
  | error e => simp [SameOutcome, bind, Except.bind]
  | ok r =>
  cases eS with
  | error e => simp [SameOutcome, bind, Except.bind]
  | ok sd =>
  cases eM with
  | error e => simp [SameOutcome, bind, Except.bind]
  | ok mx =>
  cases eY with
  | error e => simp [SameOutcome, bind, Except.bind]
  | ok y =>
  simp only [bind, Except.bind, pure, Except.pure]
  unfold cliCall cliAffinity
  generalize parseAdjacency adj = A
  generalize hasOpt argv "--undirected" = fU
  generalize hasOpt argv "--assortative" = fA
  have hfA : (if fA = true then true else false) = fA := by cases fA <;> rfl
  have hfU : (if fU = true then false else true) = !fU := by cases fU <;> rfl
  simp only [hfA, hfU, Array.size_replicate]
  by_cases h0 : A.starts.length = 0
  · simp [h0, SameOutcome, throw, throwThe, MonadExceptOf.throw]
  simp only [h0, if_false]
  -- the initial affinity
  generalize (if (w != "") = true then
      (match aff with
        | some c => (match readAffinity fA k (if fA = true then k * (A.weights.length / A.starts.length)
              else k * k * (A.weights.length / A.starts.length)) c with
            | Except.ok w => (Except.ok w : Except String (Array Float))
            | Except.error _ => throw "affinity file rejected")
        | none => throw "cannot open affinity file")
    else Except.ok (Array.replicate (if fA = true then k * (A.weights.length / A.starts.length)
              else k * k * (A.weights.length / A.starts.length)) 0.0)) = eAff
  cases eAff with
  | error e => simp [SameOutcome]
  | ok av =>
  simp only []
  -- the switch
  cases hT : List.lookup (cliSelection (!fU).toNat fA.toNat (w != "").toNat) cliTable with
  | none =>
    by_cases hs : sd = "random"
    · simp [hs, SameOutcome, throw, throwThe, MonadExceptOf.throw]
    · cases hst : stoi (some sd) <;> simp [hs, hst, SameOutcome, throw, throwThe, MonadExceptOf.throw]
  | some iv =>
  obtain ⟨inst, allocV⟩ := iv
  have hdir := table_direction (!fU) fA (w != "") inst allocV hT
  simp only []
  -- the seed
  by_cases hn : isNatTok sd = true
  · have hnr : ¬ sd = "random" := by
      intro h; rw [h] at hn; exact absurd hn (by decide)
    have hst : stoi (some sd) = Except.ok sd.toNat! := by simp [stoi, hn, pure, Except.pure]
    simp only [hnr, if_false, hst, hn, Bool.not_true, Bool.false_eq_true]
    cases hF : factorize
        { directed := inst.directed, assort := inst.assort,
          ik := if inst.fromFile = true then InitKind.fromInitial else InitKind.random,
          starts := A.starts, ends := A.ends, weights := A.weights, r := r, maxIt := mx, nConv := y, affinity := av,
          priorU := Tens.zeros (numVertices A.starts A.ends) k 1,
          priorV := if allocV = true then Tens.zeros (numVertices A.starts A.ends) k 1 else Tens.zeros 0 0 0 }
        (fun t => ((Mt19937.seed (UInt32.ofNat (sd.toNat! % 4294967296))).draws
          (drawBudget r (A.weights.length / A.starts.length) k (numVertices A.starts A.ends))).getD t 0.0) with
    | error e => simp [SameOutcome, throw, throwThe, MonadExceptOf.throw]
    | ok out =>
      simp only [SameOutcome, resultFiles, hdir]
      cases fU <;> simp
  · have hn' : isNatTok sd = false := by simpa using hn
    by_cases hs : sd = "random"
    · have hr : isNatTok "random" = false := by decide
      simp [hs, hr, SameOutcome, throw, throwThe, MonadExceptOf.throw]
    · have hst : stoi (some sd) = Except.error s!"stoi({sd})" := by simp [stoi, hn', throw, throwThe, MonadExceptOf.throw]
      simp [hs, hst, hn', SameOutcome]


end MTProps.CodeCli
