/-
C06 — the reported likelihood is the Poisson log-likelihood of the factors.
`MT.likelihood` keeps the structure of `calculate_likelyhood` (solver.hpp:370-441): one accumulator
threaded through all loops, every `uvw` subtracted, `log_arg` collected only when the edge exists,
parallel edges counted afterwards.  Theorem: over ℝ this is `Σ_a Σ_i Σ_j (A·ln M − M)` with the
per-pair guard, `A` = multiplicity in the out-list (both orientations when undirected, by C08).
Cadence: the value reported for a realization that made `n` sweeps is the evaluation after sweep
`10⌊(n−1)/10⌋+1`.  Tie: `lik` correspondence on states over multigraphs + closed-form oracle computed
from the edge list; cadence via the trace.
-/
import MTProofs.Likelihood
import MTProofs.Control
import MTProps.C05

namespace MTProps.C06
open MT MTProofs Finset

/-- **closed form** of the likelihood of a state -/
theorem likelihood_eq_poisson (assort : Bool) (K : Nat) (nv : NetView) (s : State ℝ) :
    stateLik assort K nv s =
      ∑ a ∈ range nv.nL, ∑ i ∈ range s.u.R, ∑ j ∈ range s.u.R,
        ((if ε < rate assort K (wView assort false s.w)
                  (fun i k => (if nv.directed then s.v else s.u).get i k 0) (fun i k => s.u.get i k 0) i j a
              ∧ 0 < (nv.out a i).count j then
            ((nv.out a i).count j : ℝ) *
              Real.log (rate assort K (wView assort false s.w)
                (fun i k => (if nv.directed then s.v else s.u).get i k 0) (fun i k => s.u.get i k 0) i j a)
          else 0)
          - rate assort K (wView assort false s.w)
              (fun i k => (if nv.directed then s.v else s.u).get i k 0) (fun i k => s.u.get i k 0) i j a) := by
  unfold stateLik
  simp only
  rw [MTProofs.likelihood_eq_poisson]
  rfl

/-- the rate `M_{ij}^a` in the general model: `Σ_k Σ_q u_{ik} v_{jq} w_{kq}^a` … -/
theorem rate_general (K : Nat) (wf : Nat → Nat → Nat → ℝ) (u v : Nat → Nat → ℝ) (i j a : Nat) :
    rate false K wf v u i j a = ∑ k ∈ range K, ∑ q ∈ range K, u i k * v j q * wf k q a := by
  unfold rate gsum; simp

/-- … and in the assortative model: `Σ_k u_{ik} v_{jk} w_{k}^a` -/
theorem rate_assortative (K : Nat) (wf : Nat → Nat → Nat → ℝ) (u v : Nat → Nat → ℝ) (i j a : Nat) :
    rate true K wf v u i j a = ∑ k ∈ range K, u i k * v j k * wf k k a := by
  unfold rate gsum; simp

/-- pairs at or below the guard contribute only `−M` -/
theorem cell_below_guard (assort : Bool) (K : Nat) (out : Nat → Nat → List Nat) (u v : Nat → Nat → ℝ)
    (wf : Nat → Nat → Nat → ℝ) (a i j : Nat) (h : rate assort K wf v u i j a ≤ ε) :
    cellLL assort K out u v wf a i j = - rate assort K wf v u i j a := by
  unfold cellLL
  rw [if_neg (by intro hc; exact absurd hc.1 (not_lt.mpr h))]
  ring

/-- whenever the observed pair has rate above the guard the cell is exactly `A ln M − M` -/
theorem cell_above_guard (assort : Bool) (K : Nat) (out : Nat → Nat → List Nat) (u v : Nat → Nat → ℝ)
    (wf : Nat → Nat → Nat → ℝ) (a i j : Nat) (h : ε < rate assort K wf v u i j a) :
    cellLL assort K out u v wf a i j =
      ((out a i).count j : ℝ) * Real.log (rate assort K wf v u i j a) - rate assort K wf v u i j a := by
  unfold cellLL
  by_cases hc : 0 < (out a i).count j
  · rw [if_pos ⟨h, hc⟩]
  · have : (out a i).count j = 0 := by omega
    rw [if_neg (by intro hh; exact hc hh.2), this]
    simp

section cadence
variable (assort : Bool) (K : Nat) (nv : NetView) (maxIt nConv : Nat) (s0 : State ℝ)

/-- **cadence**: the likelihood reported by a realization that performed `n` sweeps is the likelihood
of the factors as they stood after sweep `10⌊(n−1)/10⌋+1` (the final factors whenever the run stops
on an evaluation, in particular on CONVERGED, where `n = 10m+1`) -/
theorem reported_L_is_last_eval (hM : 1 ≤ maxIt) (hC : 1 ≤ nConv) :
    let r := runLoop assort K nv maxIt nConv (fun _ s => stateLik assort K nv s) maxIt s0 ctlInit
    r.2.1.L2 = stateLik assort K nv
      (traj assort K nv s0 (10 * ((r.2.1.iteration - 1) / 10) + 1)) := by
  intro r
  have hlink := runLoop_eq_runB assort K nv maxIt nConv (fun _ s => stateLik assort K nv s) s0 maxIt s0 ctlInit
    rfl (by simp [ctlInit, Lseq])
  simp only at hlink
  obtain ⟨h1, _, _, h4⟩ := hlink
  have hb := MTProps.C05.iterations_bounds assort K nv maxIt nConv (fun _ s => stateLik assort K nv s) s0 hM hC
  simp only at hb
  obtain ⟨_, hge, _, _⟩ := hb
  show (runLoop assort K nv maxIt nConv (fun _ s => stateLik assort K nv s) maxIt s0 ctlInit).2.1.L2 = _
  rw [h4, ← h1]
  have hn : 1 ≤ (runLoop assort K nv maxIt nConv (fun _ s => stateLik assort K nv s) maxIt s0 ctlInit).2.1.iteration := hge
  have e : ((runLoop assort K nv maxIt nConv (fun _ s => stateLik assort K nv s) maxIt s0 ctlInit).2.1.iteration + 9) / 10
      = ((runLoop assort K nv maxIt nConv (fun _ s => stateLik assort K nv s) maxIt s0 ctlInit).2.1.iteration - 1) / 10 + 1 := by
    omega
  rw [e]
  rfl

/-- … which is the final state when the run stops on an evaluation (`n ≡ 1 mod 10`) -/
theorem reported_L_is_final_on_evaluation (hM : 1 ≤ maxIt) (hC : 1 ≤ nConv)
    (hn : (runLoop assort K nv maxIt nConv (fun _ s => stateLik assort K nv s) maxIt s0 ctlInit).2.1.iteration % 10 = 1) :
    let r := runLoop assort K nv maxIt nConv (fun _ s => stateLik assort K nv s) maxIt s0 ctlInit
    r.2.1.L2 = stateLik assort K nv r.1 := by
  intro r
  have h := reported_L_is_last_eval assort K nv maxIt nConv s0 hM hC
  have hb := MTProps.C05.iterations_bounds assort K nv maxIt nConv (fun _ s => stateLik assort K nv s) s0 hM hC
  simp only at h hb
  obtain ⟨_, _, _, hfin⟩ := hb
  show (runLoop assort K nv maxIt nConv (fun _ s => stateLik assort K nv s) maxIt s0 ctlInit).2.1.L2 = _
  rw [h]
  have hfin' : (runLoop assort K nv maxIt nConv (fun _ s => stateLik assort K nv s) maxIt s0 ctlInit).1 =
      traj assort K nv s0
        (runLoop assort K nv maxIt nConv (fun _ s => stateLik assort K nv s) maxIt s0 ctlInit).2.1.iteration := hfin
  rw [hfin']
  generalize (runLoop assort K nv maxIt nConv (fun _ s => stateLik assort K nv s) maxIt s0 ctlInit).2.1.iteration = n at hn
  have : 10 * ((n - 1) / 10) + 1 = n := by omega
  rw [this]

end cadence

end MTProps.C06
