/-
C03 — results are well-formed: shape, labels, non-negative, zero rows.  (Finiteness is a
floating-point fact: the model at ℝ has no NaN/∞; it is monitored on the implementation — partial.)
Invariant `WFState` (shapes N×K, N×K, K×K×L | K×1×L; every value ≥ 0; rows of vertices without
out- or in-edges all zero) holds at every realization start (draws in [0,1), non-negative user affinity),
is preserved by every sweep, hence holds for the final state of every realization and for what is
returned.  Labels: one row per distinct label in first-appearance order (C08).
Tie: `run` correspondence + well-formedness monitor on what the implementation returns.
-/
import MTProofs.Invariants
import MTProofs.Control
import MTProofs.Select
import MTProps.C05
import MTProps.C08
import MTProps.C17
import MTProps.C04

namespace MTProps.C03
open MT MTProofs Finset MTProps.C02

variable (assort : Bool) (K N : Nat) (nv : NetView)

/-- a stream of draws in `[0,1)` is in particular non-negative -/
def StreamOK (d : Nat → ℝ) : Prop := ∀ t, 0 ≤ d t ∧ d t < 1

/-- shape and sign of the user-supplied affinity -/
structure UserWOK (userW : Tens ℝ) : Prop where
  wR : userW.R = K
  wC : userW.C = if assort then 1 else K
  wT : userW.T = nv.nL
  nonneg : Tens.AllNonneg userW

theorem initRows_allNonneg (elems : List Nat) (d : Nat → ℝ) (hd : ∀ t, 0 ≤ d t) :
    Tens.AllNonneg (initRows N K elems (fun _ _ => (MTExtra.zero : ℝ)) d).1 := by
  unfold initRows
  apply ofFn_allNonneg
  intro j k _ _ _ _
  split
  · exact hd _
  · exact le_rfl

theorem initAff_wf (ik : InitKind) (userW : Tens ℝ) (hu : UserWOK assort K nv userW) (d : Nat → ℝ)
    (hd : ∀ t, 0 ≤ d t) :
    let w := (initAff assort ik K nv.nL userW d).1
    w.R = K ∧ w.C = (if assort then 1 else K) ∧ w.T = nv.nL ∧ Tens.AllNonneg w := by
  unfold initAff
  cases ik
  · -- random
    unfold initAffRandom
    cases assort
    · simp only [Bool.false_eq_true, ↓reduceIte, ofFn_R, ofFn_C, ofFn_T, true_and]
      exact ofFn_allNonneg _ _ _ _ (fun _ _ _ _ _ _ => hd _)
    · simp only [↓reduceIte, ofFn_R, ofFn_C, ofFn_T, true_and]
      exact ofFn_allNonneg _ _ _ _ (fun _ _ _ _ _ _ => hd _)
  · -- user-supplied + noise
    unfold initAffFromInitial
    have hnoise : (0 : ℝ) ≤ MTExtra.noise := by rw [noise_value]; norm_num
    cases assort
    · simp only [Bool.false_eq_true, ↓reduceIte, ofFn_R, ofFn_C, ofFn_T, hu.wR, hu.wT, true_and]
      exact ofFn_allNonneg _ _ _ _ (fun k q a _ _ _ => add_nonneg (hu.nonneg k q a) (mul_nonneg hnoise (hd _)))
    · simp only [↓reduceIte, ofFn_R, ofFn_C, ofFn_T, hu.wR, hu.wT, true_and]
      exact ofFn_allNonneg _ _ _ _ (fun k _ a _ _ _ => add_nonneg (hu.nonneg k 0 a) (mul_nonneg hnoise (hd _)))
  · exact ⟨hu.wR, hu.wC, hu.wT, hu.nonneg⟩

/-- **every realization starts from a well-formed state** -/
theorem start_wf (ik : InitKind) (userW : Tens ℝ) (hu : UserWOK assort K nv userW) (d : Nat → ℝ)
    (hd : StreamOK d) :
    WFState assort K nv (realizationStart assort ik K N nv userW d).1 ∧
    (realizationStart assort ik K N nv userW d).1.u.R = N := by
  have hd0 : ∀ t, 0 ≤ d t := fun t => (hd t).1
  obtain ⟨h1, h2, h3, h4⟩ := initAff_wf assort K nv ik userW hu d hd0
  unfold realizationStart
  simp only
  refine ⟨⟨rfl, rfl, ?_, h1, h2, h3, ofFn_sized _ _ _ _, ?_, ?_, ?_, h4, ?_, ?_⟩, rfl⟩
  · intro hdir; simp only [hdir, ↓reduceIte]; exact ⟨rfl, rfl, rfl⟩
  · intro hdir; simp only [hdir, ↓reduceIte, initRows]; exact ofFn_sized _ _ _ _
  · exact initRows_allNonneg K N _ _ (fun t => hd0 _)
  · split
    · exact initRows_allNonneg K N _ _ (fun t => hd0 _)
    · exact zeros_allNonneg 0 0 0
  · intro i k hi hk hni
    have := MTProps.C17.other_rows_zero (α := ℝ) N K nv.uList
      (fun t => d ((initAff assort ik K nv.nL userW d).2 + (if nv.directed = true then
        initRows N K nv.vList (fun _ _ => (MTExtra.zero : ℝ)) fun t => d ((initAff assort ik K nv.nL userW d).2 + t)
        else (Tens.zeros 0 0 0, 0)).2 + t)) hi hk hni
    exact this
  · intro hdir j q hj hq hnj
    simp only [hdir, ↓reduceIte]
    have := MTProps.C17.other_rows_zero (α := ℝ) N K nv.vList
      (fun t => d ((initAff assort ik K nv.nL userW d).2 + t)) hj hq hnj
    exact this

variable (maxIt nConv : Nat) (evalL : Nat → State ℝ → ℝ)

/-- **the final state of every realization is well-formed**: N rows, K columns, every value ≥ 0,
all-zero rows for vertices without out-edges (in-edges) -/
theorem final_state_wf (hM : 1 ≤ maxIt) (hC : 1 ≤ nConv) (ik : InitKind) (userW : Tens ℝ)
    (hu : UserWOK assort K nv userW) (d : Nat → ℝ) (hd : StreamOK d) (hwf : ViewWF nv N) :
    let o := runRealization assort ik K N nv maxIt nConv evalL userW d
    WFState assort K nv o.final ∧ o.final.u.R = N ∧ o.reason ≠ Reason.noTermination ∧
      1 ≤ o.iters ∧ o.iters ≤ maxIt := by
  intro o
  obtain ⟨hs, hR⟩ := start_wf assort K N nv ik userW hu d hd
  have hb := MTProps.C05.iterations_bounds assort K nv maxIt nConv evalL
    (realizationStart assort ik K N nv userW d).1 hM hC
  simp only at hb
  obtain ⟨hr, h1, h2, hfin⟩ := hb
  have hit := iterate_wf assort K nv (realizationStart assort ik K N nv userW d).1
    (runLoop assort K nv maxIt nConv evalL maxIt (realizationStart assort ik K N nv userW d).1 ctlInit).2.1.iteration
    (by rw [hR]; exact hwf) hs
  have hfin' : o.final = (sweep assort K nv)^[
      (runLoop assort K nv maxIt nConv evalL maxIt (realizationStart assort ik K N nv userW d).1 ctlInit).2.1.iteration]
      (realizationStart assort ik K N nv userW d).1 := hfin
  refine ⟨by rw [hfin']; exact hit.1, by rw [hfin', hit.2, hR], hr, h1, h2⟩

/-- **what is returned is well-formed**: with r ≥ 1 realizations (each likelihood above `lowest()`), the
returned factors are the final factors of one of the realizations (the first best one, C04), which is a
well-formed state: N rows, K columns, values ≥ 0, zero rows for vertices without out- or in-edges; in
undirected mode the in-membership container is the caller's -/
theorem returned_wf (hM : 1 ≤ maxIt) (hC : 1 ≤ nConv) (ik : InitKind) (userW : Tens ℝ)
    (hu : UserWOK assort K nv userW) (d : Nat → ℝ) (hd : StreamOK d) (hwf : ViewWF nv N)
    (evalR : Nat → Nat → State ℝ → ℝ) (prior : State ℝ) (r : Nat) (hr : 1 ≤ r)
    (H : ∀ i, i < r → MTExtra.lowest < (outcomeOf assort ik K N nv maxIt nConv evalR userW d i).L2) :
    ∃ i, i < r ∧
      (runAll assort ik K N nv r maxIt nConv evalR userW d prior).best =
        adoptState nv prior (outcomeOf assort ik K N nv maxIt nConv evalR userW d i) ∧
      WFState assort K nv (outcomeOf assort ik K N nv maxIt nConv evalR userW d i).final ∧
      (outcomeOf assort ik K N nv maxIt nConv evalR userW d i).final.u.R = N := by
  obtain ⟨i, hi, _, _, hb, _⟩ := MTProps.C04.select_is_first_argmax assort ik K N nv maxIt nConv evalR userW d prior r hr H
  refine ⟨i, hi, hb, ?_⟩
  have := final_state_wf assort K N nv maxIt nConv (evalR i) hM hC ik userW hu
    (fun t => d (posSeq assort ik K N nv maxIt nConv evalR userW d i + t)) (fun t => hd _) hwf
  simp only at this
  exact ⟨this.1, this.2.1⟩

/-- entries read from a well-formed state are ≥ 0 and the stated rows are zero -/
theorem wf_reads {s : State ℝ} (h : WFState assort K nv s) :
    (∀ i k, 0 ≤ s.u.get i k 0) ∧ (∀ j q, 0 ≤ s.v.get j q 0) ∧ (∀ k q a, 0 ≤ s.w.get k q a) ∧
    (∀ i k, i < s.u.R → k < K → i ∉ nv.uList → s.u.get i k 0 = 0) ∧
    (nv.directed = true → ∀ j q, j < s.u.R → q < K → j ∉ nv.vList → s.v.get j q 0 = 0) :=
  ⟨fun i k => h.uNonneg i k 0, fun j q => h.vNonneg j q 0, fun k q a => h.wNonneg k q a, h.uZero, h.vZero⟩

/-- one membership row per distinct vertex label, listed once each in order of first appearance -/
theorem labels_wellformed {β ω : Type} [DecidableEq β] [Weight ω] (directed : Bool) (starts ends : List β)
    (weights : List ω) :
    (build directed starts ends weights).labels = firstApp (interleave starts ends) ∧
    (build directed starts ends weights).labels.Nodup :=
  ⟨rfl, firstApp_nodup _⟩

end MTProps.C03
