/-
C18 — tensor storage layout contract.  Theorems are about `Gen.getIndexSrc`,
`Gen.transposeArgs3`, `Gen.writerIdx*`, `Gen.pyxEntryPos`, which the translator regenerates
from tensor.hpp / app_utils.hpp / multitensor.pyx on every run: if the source text changes, these
proofs are re-checked against the new text.  No bound on the dimensions.
-/
import MT.Generated.UtilsCode
import MT.Tensor
import Mathlib.Tactic.Ring
import Mathlib.Tactic.Linarith

namespace MTProps.C18
open MT

/-- the documented layout -/
def spec (R C _T i j a : Nat) : Nat := a * R * C + j * R + i

/-- the text of `get_index` is the documented layout -/
theorem index_eq_spec (R C T i j a : Nat) : Gen.getIndexSrc R C T i j a = spec R C T i j a := by
  unfold Gen.getIndexSrc spec; ring

/-- in-range triples land below `size` (the assertion at tensor.hpp:65 can never fire) -/
theorem index_lt_size {R C T i j a : Nat} (hi : i < R) (hj : j < C) (ha : a < T) :
    spec R C T i j a < R * C * T := by
  unfold spec
  have h1 : j * R + i < C * R := by
    calc j * R + i < j * R + R := by omega
      _ = (j + 1) * R := by ring
      _ ≤ C * R := Nat.mul_le_mul_right R hj
  calc a * R * C + j * R + i = a * (C * R) + (j * R + i) := by ring
    _ < a * (C * R) + C * R := by omega
    _ = (a + 1) * (C * R) := by ring
    _ ≤ T * (C * R) := Nat.mul_le_mul_right _ ha
    _ = R * C * T := by ring

/-- explicit inverse -/
def inv (R C : Nat) (p : Nat) : Nat × Nat × Nat := (p % R, p / R % C, p / (R * C))

theorem inv_spec {R C T i j a : Nat} (hi : i < R) (hj : j < C) :
    inv R C (spec R C T i j a) = (i, j, a) := by
  have hR : 0 < R := by omega
  have hC : 0 < C := by omega
  unfold inv spec
  have e : a * R * C + j * R + i = i + R * (j + C * a) := by ring
  rw [e]
  have h1 : (i + R * (j + C * a)) % R = i := by
    rw [Nat.add_mul_mod_self_left]; exact Nat.mod_eq_of_lt hi
  have h2 : (i + R * (j + C * a)) / R = j + C * a := by
    rw [Nat.add_mul_div_left _ _ hR, Nat.div_eq_of_lt hi, Nat.zero_add]
  have h3 : (i + R * (j + C * a)) / (R * C) = a := by
    rw [← Nat.div_div_eq_div_mul, h2, Nat.add_mul_div_left _ _ hC, Nat.div_eq_of_lt hj, Nat.zero_add]
  rw [h1, h2, h3, Nat.add_mul_mod_self_left, Nat.mod_eq_of_lt hj]

/-- injective on in-range triples -/
theorem index_injective {R C T i j a i' j' a' : Nat} (hi : i < R) (hj : j < C) (hi' : i' < R)
    (hj' : j' < C) (h : spec R C T i j a = spec R C T i' j' a') : (i, j, a) = (i', j', a') := by
  rw [← inv_spec (T := T) hi hj, ← inv_spec (T := T) hi' hj', h]

/-- surjective onto `0..size-1`: every flat position is the image of its `inv` triple, which is in range -/
theorem index_surjective {R C T p : Nat} (hp : p < R * C * T) :
    let t := inv R C p
    t.1 < R ∧ t.2.1 < C ∧ t.2.2 < T ∧ spec R C T t.1 t.2.1 t.2.2 = p := by
  have hR : 0 < R := by
    rcases Nat.eq_zero_or_pos R with h | h
    · subst h; simp at hp
    · exact h
  have hC : 0 < C := by
    rcases Nat.eq_zero_or_pos C with h | h
    · subst h; simp at hp
    · exact h
  simp only [inv]
  refine ⟨Nat.mod_lt _ hR, Nat.mod_lt _ hC, ?_, ?_⟩
  · exact Nat.div_lt_of_lt_mul (by simpa [Nat.mul_comm, Nat.mul_assoc, Nat.mul_left_comm] using hp)
  · unfold spec
    have h1 := Nat.div_add_mod p R
    have h2 := Nat.div_add_mod (p / R) C
    have h3 : p / (R * C) = p / R / C := (Nat.div_div_eq_div_mul p R C).symm
    rw [h3]
    calc p / R / C * R * C + p / R % C * R + p % R
        = R * (C * (p / R / C) + p / R % C) + p % R := by ring
      _ = R * (p / R) + p % R := by rw [h2]
      _ = p := h1

/-- the bijection statement in one piece -/
theorem index_bijective (R C T : Nat) :
    (∀ i j a, i < R → j < C → a < T → spec R C T i j a < R * C * T) ∧
    (∀ i j a i' j' a', i < R → j < C → i' < R → j' < C →
        spec R C T i j a = spec R C T i' j' a' → (i, j, a) = (i', j', a')) ∧
    (∀ p, p < R * C * T → ∃ i j a, i < R ∧ j < C ∧ a < T ∧ spec R C T i j a = p) :=
  ⟨fun _ _ _ hi hj ha => index_lt_size hi hj ha,
   fun _ _ _ _ _ _ hi hj hi' hj' h => index_injective hi hj hi' hj' h,
   fun p hp => ⟨_, _, _, (index_surjective hp)⟩⟩

/-- the transposed view exposes `(i,j,a)` as `(j,i,a)` (argument order of `Transpose::operator()`) -/
theorem transpose_view (i j a : Nat) : Gen.transposeArgs3 i j a = (j, i, a) := rfl

/-- … and for the two-index accessors: swapped, except that a diagonal tensor is its own transpose -/
theorem transpose_view2 (i j : Nat) :
    Gen.transposeArgs2 false i j = (j, i) ∧ Gen.transposeArgs2 true i j = (i, j) := ⟨rfl, rfl⟩

/-- matrices are single-layer tensors, diagonal tensors have `C = 1` -/
theorem accessor_args (i j a : Nat) : Gen.matArgs i j = (i, j, 0) ∧ Gen.diagArgs i a = (i, 0, a) :=
  ⟨rfl, rfl⟩

/-- affinity vector exchanged with callers, general layout: the writer reads entry `(k,q)` of
layer `a` at the tensor position of `(k,q,a)` with `R = C = K` -/
theorem writer_position_general (K L k q a : Nat) :
    Gen.writerIdxGeneral K L k q a = spec K K L k q a := by
  unfold Gen.writerIdxGeneral spec; ring

/-- assortative layout: `C = 1` -/
theorem writer_position_assort (K L k a : Nat) :
    Gen.writerIdxAssort K L k a = spec K 1 L k 0 a := by
  unfold Gen.writerIdxAssort spec; ring

/-- the writer takes the assortative branch exactly on vectors of size `K*L` -/
theorem writer_layout_test (K L : Nat) : Gen.writerAssortSize K L = K * 1 * L := by
  unfold Gen.writerAssortSize; ring

/-- Python: entry `[k][q]` of the array returned for layer `l` (`reshape((-1,K)).T`, `num_vals = K*K`)
is the tensor entry `(k,q,l)` -/
theorem python_reshape_T (K L l k q : Nat) :
    Gen.pyxEntryPos K (K * K) l k q = spec K K L k q l := by
  unfold Gen.pyxEntryPos spec; ring

/-- … and in the assortative case (`num_vals = K`, a K×1 block ravelled) entry `k` is `(k,0,l)` -/
theorem python_reshape_T_assort (K L l k : Nat) :
    Gen.pyxEntryPos K K l k 0 = spec K 1 L k 0 l := by
  unfold Gen.pyxEntryPos spec; ring

/-- load-bearing use of the bijection: reading back a tensor built entrywise -/
theorem get_ofFn {α : Type} [MTExtra α] (R C T : Nat) (f : Nat → Nat → Nat → α) {i j a : Nat}
    (hi : i < R) (hj : j < C) (ha : a < T) : (Tens.ofFn R C T f).get i j a = f i j a := by
  have hlt := index_lt_size hi hj ha
  have hinv := inv_spec (T := T) (a := a) hi hj
  simp only [inv, Prod.mk.injEq] at hinv
  obtain ⟨h1, h2, h3⟩ := hinv
  unfold Tens.get Tens.ofFn
  simp only [index_eq_spec]
  rw [Array.getD_eq_getD_getElem?, Array.getElem?_ofFn]
  simp only [hlt, ↓reduceDIte, Option.getD_some, h1, h2, h3]

/-- non-vacuity: a concrete in-range triple -/
example : spec 2 3 2 1 2 1 = 11 ∧ spec 2 3 2 1 2 1 < 2 * 3 * 2 := by decide

/-- `Tensor::resize` as it stands in tensor.hpp: the new dimensions are stored and the storage is cleared and
zero-filled to the new element count (the model's `Tens.zeros`) -/
theorem tensor_resize_documented :
    Gen.tensorResizeText = "nrows=nrows_;ncols=ncols_;ntubes=ntubes_;data.clear();data.assign(nrows*ncols*ntubes,scalar_t(0));" := rfl

/-- the `resize` members of the three derived classes only forward to `Tensor::resize` with their own shape
(square layers, one layer, one column) -/
theorem tensor_resize_overrides_documented :
    Gen.tensorResizeAll = ["nrows=nrows_;ncols=ncols_;ntubes=ntubes_;data.clear();data.assign(nrows*ncols*ntubes,scalar_t(0));",
      "Tensor<scalar_t>::resize(nrows,nrows,ntubes);", "Tensor<scalar_t>::resize(nrows,ncols,1);",
      "Tensor<scalar_t>::resize(nrows,1,ntubes);"] := rfl

end MTProps.C18
