/-
Where state could survive from one call to the next (C07): the model of a call is a function of its arguments, and the
ties to the code are made call by call.  That no call can see anything of an earlier one is, on the code side, the
fact that the library and the command line declare no static, thread_local, mutable or extern storage, and that the two
long-lived classes hold nothing but their parameters (`Solver`) and the network (`Network`).  The inventory is regenerated
from the sources on every run (tools/gen_utils_code.py; the guarded verification hooks are left out); a cache, a
memoised value or a new member is a broken obligation here, and the check then looks for a history on which it shows
(solver-object, generator-object and call-order histories of C07).
-/
import MT.Generated.UtilsCode

namespace MTProps.CodeState
open MT

/-- nothing in include/multitensor, applications/include or applications/src is declared static, thread_local, mutable
or extern -/
theorem no_static_storage : Gen.staticStorage = [] := rfl

/-- `class Solver` holds its three parameters and nothing else -/
theorem solver_members_documented :
    Gen.solverMembers = "size_tnof_realizations;|size_tmax_nof_iterations;|size_tnof_convergences;" := rfl

/-- `class Network` holds the layer graphs, the label map and three counters -/
theorem network_members_documented :
    Gen.networkMembers = "dimension_tnlayers;|size_tnvertices,nedges;|std::vector<graph_t>layers;|std::map<vertex_t,size_t>idx_map;" := rfl

end MTProps.CodeState
