/-
C14 — initial-affinity file semantics.
`Gen.readerIdx` is the index expression of `read_affinity_data`, regenerated from app_utils.cpp on
every run; `Cli.placeRows`/`Cli.checkRows` model the reader's two passes (tie: `readaff`
correspondence in-process under ASan, all K ≤ 5, L ≤ 4, both layouts, plus mismatching shapes).
Theorems: for every K ≥ 1, L, both layouts, the value `d_g` of the line of layer `a` lands exactly on
the diagonal entry `(g,g,a)` (resp. `(g,a)`), every other entry keeps the pre-set zero, every write is
in range, and a file whose columns, layers or layer ids disagree with `K` and the vector is rejected.
The noise/restart clauses are C17's `user_affinity_noise` and `realization_start_is_segment`.
-/
import MT.Cli
import MTProps.C18
import MTProps.C17

namespace MTProps.C14
open MT MT.Cli MTProps.C18

/-- the reader's position is the tensor position of the diagonal entry `(g,g,layer)` of a `K×K×L` tensor … -/
theorem reader_index_general (K L g layer : Nat) :
    Gen.readerIdx false K g layer = spec K K L g g layer := by
  unfold Gen.readerIdx spec
  simp only [Bool.false_eq_true, ↓reduceIte]
  ring

/-- … resp. of entry `(g,0,layer)` of the `K×1×L` diagonal tensor -/
theorem reader_index_assort (K L g layer : Nat) :
    Gen.readerIdx true K g layer = spec K 1 L g 0 layer := by
  unfold Gen.readerIdx spec
  simp only [↓reduceIte]
  ring

/-- size of the vector for `L` layers -/
def vecSize (assort : Bool) (K L : Nat) : Nat := perLayer assort K * L

/-- every position the reader writes, for a line that passed the checks, is inside the vector
(so `w[index] = value` at app_utils.cpp is never out of bounds) -/
theorem reader_writes_lt (assort : Bool) {K L g layer : Nat} (hg : g < K) (hl : layer < L) :
    Gen.readerIdx assort K g layer < vecSize assort K L := by
  cases assort
  · rw [reader_index_general K L]
    have := index_lt_size (R := K) (C := K) (T := L) hg hg hl
    simpa [vecSize, perLayer] using this
  · rw [reader_index_assort K L]
    have := index_lt_size (R := K) (C := 1) (T := L) (i := g) (j := 0) hg (by omega) hl
    simpa [vecSize, perLayer] using this

/-- different (group, layer) pairs are written to different positions -/
theorem reader_index_injective (assort : Bool) {K g layer g' layer' : Nat} (hg : g < K) (hg' : g' < K)
    (h : Gen.readerIdx assort K g layer = Gen.readerIdx assort K g' layer') : g = g' ∧ layer = layer' := by
  cases assort
  · rw [reader_index_general K 0, reader_index_general K 0] at h
    have := index_injective (T := 0) hg hg hg' hg' h
    simp only [Prod.mk.injEq] at this
    exact ⟨this.1, this.2.2⟩
  · rw [reader_index_assort K 0, reader_index_assort K 0] at h
    have := index_injective (T := 0) (R := K) (C := 1) hg (by omega : 0 < 1) hg' (by omega : 0 < 1) h
    simp only [Prod.mk.injEq] at this
    exact ⟨this.1, this.2.2⟩

section place
variable {α : Type}

/-- one line, values numbered from `k` on -/
def placeFrom (assort : Bool) (K : Nat) (w : Array α) (layer : Nat) (vals : List α) (k : Nat) : Array α :=
  (vals.zipIdx k).foldl (fun w p => w.setIfInBounds (Gen.readerIdx assort K p.2 layer) p.1) w

theorem placeRow_eq (assort : Bool) (K : Nat) (w : Array α) (layer : Nat) (vals : List α) :
    placeRow assort K w layer vals = placeFrom assort K w layer vals 0 := rfl

theorem placeFrom_size (assort : Bool) (K : Nat) (w : Array α) (layer : Nat) (vals : List α) (k : Nat) :
    (placeFrom assort K w layer vals k).size = w.size := by
  induction vals generalizing w k with
  | nil => rfl
  | cons x xs ih =>
    simp only [placeFrom, List.zipIdx_cons, List.foldl_cons]
    have := ih (w.setIfInBounds (Gen.readerIdx assort K k layer) x) (k + 1)
    simp only [placeFrom] at this
    rw [this, Array.size_setIfInBounds]

/-- positions not addressed by the line keep their value -/
theorem placeFrom_get_other (assort : Bool) (K : Nat) (w : Array α) (layer : Nat) (vals : List α) (k : Nat)
    (z : α) (p : Nat) (h : ∀ g, k ≤ g → g < k + vals.length → Gen.readerIdx assort K g layer ≠ p) :
    (placeFrom assort K w layer vals k).getD p z = w.getD p z := by
  induction vals generalizing w k with
  | nil => rfl
  | cons x xs ih =>
    simp only [placeFrom, List.zipIdx_cons, List.foldl_cons]
    have := ih (w.setIfInBounds (Gen.readerIdx assort K k layer) x) (k + 1)
      (fun g h1 h2 => h g (by omega) (by simp only [List.length_cons]; omega))
    simp only [placeFrom] at this
    rw [this]
    have hne := h k (le_refl k) (by simp only [List.length_cons]; omega)
    simp only [Array.getD_eq_getD_getElem?, Array.getElem?_setIfInBounds_ne hne]

/-- the `g`-th value of the line lands on its position -/
theorem placeFrom_get (assort : Bool) {K : Nat} (w : Array α) (layer : Nat) (vals : List α) (k : Nat) (z : α)
    (hK : k + vals.length ≤ K) {g : Nat} (hg1 : k ≤ g) (hg2 : g < k + vals.length)
    (hin : Gen.readerIdx assort K g layer < w.size) :
    (placeFrom assort K w layer vals k).getD (Gen.readerIdx assort K g layer) z = vals.getD (g - k) z := by
  induction vals generalizing w k with
  | nil => simp at hg2; omega
  | cons x xs ih =>
    simp only [placeFrom, List.zipIdx_cons, List.foldl_cons]
    simp only [List.length_cons] at hK hg2
    rcases Nat.lt_or_eq_of_le hg1 with hlt | heq
    · have := ih (w.setIfInBounds (Gen.readerIdx assort K k layer) x) (k + 1) (by omega) (by omega) (by omega)
        (by rw [Array.size_setIfInBounds]; exact hin)
      simp only [placeFrom] at this
      rw [this]
      have : g - k = (g - (k + 1)) + 1 := by omega
      rw [this, List.getD_cons_succ]
    · subst heq
      have hother := placeFrom_get_other assort K (w.setIfInBounds (Gen.readerIdx assort K k layer) x) layer xs
        (k + 1) z (Gen.readerIdx assort K k layer) (fun g h1 h2 hc => by
          have := (reader_index_injective assort (by omega) (by omega) hc).1
          omega)
      simp only [placeFrom] at hother
      rw [hother]
      simp only [Nat.sub_self, List.getD_cons_zero, Array.getD_eq_getD_getElem?,
        Array.getElem?_setIfInBounds_self_of_lt hin, Option.getD_some]

theorem placeRows_size (assort : Bool) (K : Nat) (w0 : Array α) (rows : List (Nat × List α)) :
    (placeRows assort K w0 rows).size = w0.size := by
  induction rows generalizing w0 with
  | nil => rfl
  | cons r rs ih =>
    simp only [placeRows, List.foldl_cons]
    have := ih (placeRow assort K w0 r.1 r.2)
    simp only [placeRows] at this
    rw [this, placeRow_eq, placeFrom_size]

/-- entries that no line addresses keep the pre-set value (zero: "other entries are the noise alone") -/
theorem placeRows_get_other (assort : Bool) (K : Nat) (w0 : Array α) (rows : List (Nat × List α)) (z : α) (p : Nat)
    (h : ∀ r ∈ rows, ∀ g, g < r.2.length → Gen.readerIdx assort K g r.1 ≠ p) :
    (placeRows assort K w0 rows).getD p z = w0.getD p z := by
  induction rows generalizing w0 with
  | nil => rfl
  | cons r rs ih =>
    simp only [placeRows, List.foldl_cons]
    have := ih (placeRow assort K w0 r.1 r.2) (fun r' hr' => h r' (List.mem_cons_of_mem _ hr'))
    simp only [placeRows] at this
    rw [this, placeRow_eq, placeFrom_get_other]
    intro g _ hg
    exact h r (List.mem_cons_self) g (by omega)

/-- **file semantics**: with one line per layer (distinct layer ids below `L`, `K` values each), the
value `d_g` of the line of layer `a` is the entry at the diagonal position of `(g, a)` -/
theorem affinity_file_semantics (assort : Bool) (K L : Nat) (w0 : Array α) (rows : List (Nat × List α)) (z : α)
    (hsize : w0.size = vecSize assort K L)
    (hcols : ∀ r ∈ rows, r.2.length = K) (hlayer : ∀ r ∈ rows, r.1 < L)
    (hnodup : (rows.map (·.1)).Nodup) :
    ∀ r ∈ rows, ∀ g, g < K →
      (placeRows assort K w0 rows).getD (Gen.readerIdx assort K g r.1) z = r.2.getD g z := by
  induction rows generalizing w0 with
  | nil => intro r hr; simp at hr
  | cons r0 rs ih =>
    intro r hr g hg
    simp only [List.map_cons, List.nodup_cons, List.mem_map, not_exists, not_and] at hnodup
    simp only [placeRows, List.foldl_cons]
    rcases List.mem_cons.mp hr with rfl | hr'
    · -- the line itself, then the later lines do not touch its positions
      have hot := placeRows_get_other assort K (placeRow assort K w0 r.1 r.2) rs z (Gen.readerIdx assort K g r.1)
        (fun r' hr' g' hg' hc => by
          have hK' := hcols r' (List.mem_cons_of_mem _ hr')
          have := (reader_index_injective assort (by omega) hg hc).2
          exact hnodup.1 r' hr' this)
      simp only [placeRows] at hot
      rw [hot, placeRow_eq]
      have hK0 := hcols r (List.mem_cons_self)
      have := placeFrom_get (K := K) assort w0 r.1 r.2 0 z (by omega) (Nat.zero_le g) (by omega)
        (by rw [hsize]; exact reader_writes_lt assort hg (hlayer r (List.mem_cons_self)))
      rw [this, Nat.sub_zero]
    · have := ih (placeRow assort K w0 r0.1 r0.2) (by rw [placeRow_eq, placeFrom_size, hsize])
        (fun r' h' => hcols r' (List.mem_cons_of_mem _ h')) (fun r' h' => hlayer r' (List.mem_cons_of_mem _ h'))
        hnodup.2 r hr' g hg
      simp only [placeRows] at this
      exact this

end place

/-! ### rejection of mismatching files -/

/-- a line with a number of values different from `K` is rejected -/
theorem rejects_wrong_columns (assort : Bool) (K size : Nat) (rows : List (String × List Float))
    (h : ∃ r ∈ rows, r.2.length ≠ K) : ∃ e, checkRows assort K size rows = .error e := by
  unfold checkRows
  split
  · exact ⟨_, rfl⟩
  · have : rows.any (fun r => decide (r.2.length ≠ K)) = true := by
      obtain ⟨r, hr, hne⟩ := h
      exact List.any_eq_true.mpr ⟨r, hr, by simpa using hne⟩
    rw [if_pos this]
    exact ⟨_, rfl⟩

/-- a number of layer lines different from what the vector (sized from K and the adjacency data)
holds is rejected -/
theorem rejects_wrong_layers (assort : Bool) (K size : Nat) (rows : List (String × List Float))
    (h : rows.length ≠ size / perLayer assort K) : ∃ e, checkRows assort K size rows = .error e := by
  unfold checkRows
  split
  · exact ⟨_, rfl⟩
  · split
    · exact ⟨_, rfl⟩
    · first | exact ⟨_, rfl⟩ | (rw [if_pos h]; exact ⟨_, rfl⟩)

/-- a layer id that is not a natural below the number of layers is rejected -/
theorem rejects_bad_layer_id (assort : Bool) (K size : Nat) (rows : List (String × List Float))
    (h : ∃ r ∈ rows, isNatTok r.1 = false ∨ r.1.toNat! ≥ size / perLayer assort K) :
    ∃ e, checkRows assort K size rows = .error e := by
  unfold checkRows
  split
  · exact ⟨_, rfl⟩
  · split
    · exact ⟨_, rfl⟩
    · split
      · exact ⟨_, rfl⟩
      · have : rows.any (fun r => !isNatTok r.1 || decide (r.1.toNat! ≥ size / perLayer assort K)) = true := by
          obtain ⟨r, hr, hbad⟩ := h
          refine List.any_eq_true.mpr ⟨r, hr, ?_⟩
          rcases hbad with hb | hb
          · simp [hb]
          · simp [hb]
        rw [if_pos this]
        exact ⟨_, rfl⟩

/-- accepted files satisfy every shape condition, and the number of layers is `size / perLayer` -/
theorem accepted_shape (assort : Bool) (K size : Nat) (rows : List (String × List Float)) (L : Nat)
    (h : checkRows assort K size rows = .ok L) :
    K ≠ 0 ∧ L = size / perLayer assort K ∧ rows.length = L ∧
    (∀ r ∈ rows, r.2.length = K) ∧ (∀ r ∈ rows, isNatTok r.1 = true ∧ r.1.toNat! < L) := by
  unfold checkRows at h
  split at h
  · cases h
  · rename_i h1
    split at h
    · cases h
    · rename_i h2
      split at h
      · cases h
      · rename_i h3
        split at h
        · cases h
        · rename_i h4
          simp only [Except.ok.injEq] at h
          subst h
          simp only [Bool.or_eq_true, beq_iff_eq, bne_iff_ne, ne_eq, decide_eq_true_eq, not_or] at h1
          refine ⟨h1.1, rfl, by simpa using h3, ?_, ?_⟩
          · intro r hr
            by_contra hne
            exact h2 (List.any_eq_true.mpr ⟨r, hr, by simpa using hne⟩)
          · intro r hr
            have := fun hc => h4 (List.any_eq_true.mpr ⟨r, hr, hc⟩)
            simp only [Bool.or_eq_true, Bool.not_eq_eq_eq_not, Bool.not_true, decide_eq_true_eq, not_or,
              Bool.not_eq_false, not_le] at this
            constructor
            · by_contra hc
              exact this (Or.inl (by simpa using hc))
            · by_contra hc
              exact this (Or.inr (by omega))

/-- every realization restarts from the file values: the affinity start of realization `i` is
the user tensor plus noise from the `i`-th stream segment, whatever earlier realizations produced -/
theorem restart_from_file_values {α : Type} [Add α] [Sub α] [Mul α] [Div α] [LT α] [DecidableLT α] [MTExtra α]
    (assort : Bool) (K N : Nat) (nv : NetView) (maxIt nConv : Nat) (evalL : Nat → Nat → State α → α)
    (userW : Tens α) (d : Nat → α) (i : Nat) :
    (MTProofs.outcomeOf assort .fromInitial K N nv maxIt nConv evalL userW d i).start.w =
      (initAffFromInitial assort userW
        (fun t => d (i * C17.drawsPerRealization assort .fromInitial K nv userW + t))).1 := by
  rw [C17.realization_start_is_segment]
  rfl

/-- the Python front end builds the same start: the value `d_g` of the `a`-th row of the file lands on the
position the C++ reader uses for layer `a` (so both front ends hand the library the same vector whenever
the file lists its layers in order) -/
theorem pyx_start_agrees_with_reader (assort : Bool) (K a g : Nat) :
    Gen.pyxInitPos assort K a g = Gen.readerIdx assort K g a := by
  unfold Gen.pyxInitPos Gen.readerIdx
  cases assort
  · simp only [Bool.false_eq_true, ↓reduceIte]; ring
  · simp only [↓reduceIte]; ring

/-- non-vacuity (K = 3, L = 2, general layout): positions of the diagonal entries -/
example : (List.range 2).map (fun a => (List.range 3).map (fun g => Gen.readerIdx false 3 g a))
    = [[0, 4, 8], [9, 13, 17]] := by decide
example : placeRows false 2 (Array.replicate 8 0) [(1, [7, 9]), (0, [3, 5])] = #[3, 0, 0, 5, 7, 0, 0, 9] := by
  decide

end MTProps.C14
