/-
The output writers as they stand in the source (MT/Generated/WriterCode.lean, translated statement by statement
from `write_affinity_file`, `write_membership_file`, `write_info_file`) are the model's writers (MT/Cli.lean), at
token level: same lines, same tokens on every line, in the same order.  Everything the properties about the
output files say of the model's writers (C13 `affinity_file_layout`, C16) therefore holds of the translated code.
The header line of the membership and affinity files is pinned literally by the translator (it fuses the literal
`N_real=` with a number, which the token view cannot express); number formatting (`setprecision`, `operator<<` of
a double) stays with the correspondence check.
-/
import MT.Generated.WriterCode
import MT.Generated.Index
import MTProps.C18

namespace MTProps.CodeWriters
open MT MT.Imp MT.Cli MT.Gen

theorem flatMap_single {α β : Type} (g : α → β) (l : List α) : l.flatMap (fun i => [g i]) = l.map g := by
  induction l with
  | nil => rfl
  | cons a l ih => simp [List.flatMap_cons, ih]

/-- a loop whose body, entered with an empty current line, appends the lines `g i` and leaves with an empty current line -/
theorem lines_loop (f : Nat → WrLoc → WrLoc) (g : Nat → List (List Tok))
    (hf : ∀ i s, s.cur = [] → (f i s).cur = [] ∧ (f i s).lines = s.lines ++ g i)
    (l : List Nat) (s : WrLoc) (hs : s.cur = []) :
    (l.foldl (fun s i => f i s) s).cur = [] ∧ (l.foldl (fun s i => f i s) s).lines = s.lines ++ l.flatMap g := by
  induction l generalizing s with
  | nil => simp [hs]
  | cons a l ih =>
    obtain ⟨h1, h2⟩ := hf a s hs
    obtain ⟨h3, h4⟩ := ih (f a s) h1
    simp only [List.foldl_cons, List.flatMap_cons]
    exact ⟨h3, by rw [h4, h2, List.append_assoc]⟩

/-- a loop whose body appends the tokens `g i` to the current line and leaves the finished lines alone -/
theorem cur_loop (f : Nat → WrLoc → WrLoc) (g : Nat → List Tok)
    (hf : ∀ i s, (f i s).cur = s.cur ++ g i ∧ (f i s).lines = s.lines)
    (l : List Nat) (s : WrLoc) :
    (l.foldl (fun s i => f i s) s).cur = s.cur ++ l.flatMap g ∧ (l.foldl (fun s i => f i s) s).lines = s.lines := by
  induction l generalizing s with
  | nil => simp
  | cons a l ih =>
    obtain ⟨h1, h2⟩ := hf a s
    obtain ⟨h3, h4⟩ := ih (f a s)
    simp only [List.foldl_cons, List.flatMap_cons]
    exact ⟨by rw [h3, h1, List.append_assoc], by rw [h4, h2]⟩

/-! ### `write_info_file` -/

/-- **`write_info_file` as it stands is `writeInfo`**: five header lines, then one line per realization with the
index, the number of iterations, the reason and the likelihood -/
theorem writeInfoCode_eq (r : Nat) (maxL2 : Float) (seed : Int) (iters : List Nat) (reasons : List String)
    (L2s : List Float) :
    (writeInfoCode r maxL2 seed iters.length iters reasons L2s ⟨[], [], 0⟩).lines
      = writeInfo r maxL2 seed iters reasons L2s
    ∧ (writeInfoCode r maxL2 seed iters.length iters reasons L2s ⟨[], [], 0⟩).cur = [] := by
  have h := lines_loop (writeInfoCode_1 r maxL2 seed iters.length iters reasons L2s)
    (fun i => [[Tok.n i, Tok.n (iters.getD i 0), Tok.s (reasons.getD i "?"), Tok.f (L2s.getD i 0.0)]])
    (by intro i s hs; simp [writeInfoCode_1, hs])
  unfold writeInfoCode
  simp only [forRange]
  refine ⟨?_, ?_⟩
  · rw [(h _ _ rfl).2]
    simp [writeInfo, flatMap_single]
  · exact (h _ _ rfl).1

/-! ### `write_membership_file` -/

/-- **`write_membership_file` after its header line is the tail of `writeMembership`**: one line per row, the label
first, then the entries of the row in column order -/
theorem writeMembershipCode_eq (labels : List String) (m : Tens Float) (maxL2 : Float) (r : Nat) :
    (writeMembershipCode labels (fun k q => m.get k q 0) m.R m.C ⟨[], [], 0⟩).lines
      = (writeMembership labels m maxL2 r).tail
    ∧ writeMembership labels m maxL2 r = headerLine maxL2 r :: (writeMembership labels m maxL2 r).tail := by
  have hin : ∀ k, ∀ s : WrLoc,
      ((List.range m.C).foldl (fun s q => writeMembershipCode_1_1 labels (fun k q => m.get k q 0) m.R m.C k q s) s).cur
        = s.cur ++ (List.range m.C).flatMap (fun q => [Tok.f (m.get k q 0)])
      ∧ ((List.range m.C).foldl (fun s q => writeMembershipCode_1_1 labels (fun k q => m.get k q 0) m.R m.C k q s) s).lines
        = s.lines := by
    intro k s
    exact cur_loop (writeMembershipCode_1_1 labels (fun k q => m.get k q 0) m.R m.C k) _
      (by intro q s; simp [writeMembershipCode_1_1]) _ s
  have h := lines_loop (writeMembershipCode_1 labels (fun k q => m.get k q 0) m.R m.C)
    (fun k => [Tok.s (labels.getD k "?") :: (List.range m.C).map fun q => Tok.f (m.get k q 0)])
    (by
      intro k s hs
      simp only [writeMembershipCode_1, forRange]
      rw [(hin k _).1, (hin k _).2]
      simp [hs, flatMap_single])
  unfold writeMembershipCode
  simp only [forRange]
  refine ⟨?_, by simp [writeMembership]⟩
  rw [(h _ _ rfl).2]
  simp [writeMembership, flatMap_single]

/-! ### `write_affinity_file` -/

/-- **`write_affinity_file` after its header line is the tail of `writeAffinity`**: per layer the line `a= <layer>`,
then `K` lines (one value on each for a stored diagonal, the `K` entries of a row otherwise, read at the
indices extracted from the same source), then an empty line -/
theorem writeAffinityCode_eq (aff : Array Float) (K L : Nat) (maxL2 : Float) (r : Nat) :
    (writeAffinityCode aff (aff.size == Gen.writerAssortSize K L) K L ⟨[], [], 0⟩).lines
      = (writeAffinity aff K L maxL2 r).tail
    ∧ writeAffinity aff K L maxL2 r = headerLine maxL2 r :: (writeAffinity aff K L maxL2 r).tail := by
  generalize hb : (aff.size == Gen.writerAssortSize K L) = assort
  have hq : ∀ a k, ∀ s : WrLoc,
      ((List.range K).foldl (fun s q => writeAffinityCode_1_1_1 aff assort K L a k q s) s).cur
        = s.cur ++ (List.range K).flatMap (fun q => [Tok.f (aff.getD (Gen.writerIdxGeneral K L k q a) 0.0)])
      ∧ ((List.range K).foldl (fun s q => writeAffinityCode_1_1_1 aff assort K L a k q s) s).lines = s.lines := by
    intro a k s
    exact cur_loop (writeAffinityCode_1_1_1 aff assort K L a k) _
      (by intro q s; simp [writeAffinityCode_1_1_1, Gen.writerIdxGeneral]) _ s
  have hk : ∀ a, ∀ s : WrLoc, s.cur = [] →
      ((List.range K).foldl (fun s k => writeAffinityCode_1_1 aff assort K L a k s) s).cur = []
      ∧ ((List.range K).foldl (fun s k => writeAffinityCode_1_1 aff assort K L a k s) s).lines
        = s.lines ++ (List.range K).flatMap (fun k =>
            [if assort then [Tok.f (aff.getD (Gen.writerIdxAssort K L k a) 0.0)]
             else (List.range K).map fun q => Tok.f (aff.getD (Gen.writerIdxGeneral K L k q a) 0.0)]) := by
    intro a s hs
    refine lines_loop (writeAffinityCode_1_1 aff assort K L a) _ ?_ _ s hs
    intro k s hs
    simp only [writeAffinityCode_1_1, forRange]
    cases assort
    · simp only [Bool.false_eq_true, if_false]
      rw [(hq a k _).1, (hq a k _).2]
      simp [hs, flatMap_single]
    · simp [hs, Gen.writerIdxAssort]
  have h := lines_loop (writeAffinityCode_1 aff assort K L)
    (fun a => [Tok.s "a=", Tok.n a] ::
      ((List.range K).map fun k =>
        if assort then [Tok.f (aff.getD (Gen.writerIdxAssort K L k a) 0.0)]
        else (List.range K).map fun q => Tok.f (aff.getD (Gen.writerIdxGeneral K L k q a) 0.0))
      ++ [[]])
    (by
      intro a s hs
      simp only [writeAffinityCode_1, forRange]
      rw [(hk a _ rfl).1, (hk a _ rfl).2]
      simp [hs, flatMap_single])
  unfold writeAffinityCode
  simp only [forRange]
  refine ⟨?_, by simp [writeAffinity]⟩
  rw [(h _ _ rfl).2]
  simp [writeAffinity, hb]


/-! ### where a given entry lands in the affinity file -/

theorem flatMap_range_length {β : Type} (g : Nat → List β) (n : Nat) (hg : ∀ a, (g a).length = n) (L : Nat) :
    ((List.range L).flatMap g).length = L * n := by
  induction L with
  | zero => simp
  | succ L ih => simp [List.range_succ, List.flatMap_append, ih, hg, Nat.succ_mul]

/-- in a concatenation of `L` blocks of `n` lines each, line `a * n + j` is line `j` of block `a` -/
theorem flatMap_range_get {β : Type} (g : Nat → List β) (n : Nat) (hg : ∀ a, (g a).length = n) (L a j : Nat)
    (ha : a < L) (hj : j < n) : ((List.range L).flatMap g)[a * n + j]? = (g a)[j]? := by
  induction L with
  | zero => omega
  | succ L ih =>
    simp only [List.range_succ, List.flatMap_append, List.flatMap_cons, List.flatMap_nil, List.append_nil]
    by_cases h : a < L
    · have hlt : a * n + j < ((List.range L).flatMap g).length := by
        rw [flatMap_range_length g n hg]
        calc a * n + j < a * n + n := by omega
          _ = (a + 1) * n := by rw [Nat.succ_mul]
          _ ≤ L * n := Nat.mul_le_mul_right n h
      rw [List.getElem?_append_left hlt]
      exact ih h
    · have : a = L := by omega
      subst this
      have hge : ((List.range a).flatMap g).length ≤ a * n + j := by
        rw [flatMap_range_length g n hg]; omega
      rw [List.getElem?_append_right hge, flatMap_range_length g n hg]
      congr 1; omega

/-- **row `k` of the block of layer `a`, as the code writes it**: in the file written by the translated
`write_affinity_file` for a full tensor, line `a * (K + 2) + 1 + k` after the header holds exactly the `K` values
`w(k, q, a)`, `q = 0 .. K-1` in this order, each read at the position where the library's container keeps entry
`(k, q, a)` (C18 `spec`) -/
theorem code_affinity_row_general (aff : Array Float) (K L a k : Nat) (ha : a < L) (hk : k < K)
    (hfull : (aff.size == Gen.writerAssortSize K L) = false) :
    (writeAffinityCode aff false K L ⟨[], [], 0⟩).lines[a * (K + 2) + (1 + k)]?
      = some ((List.range K).map fun q => Tok.f (aff.getD (C18.spec K K L k q a) 0.0)) := by
  have h := (writeAffinityCode_eq aff K L 0.0 0).1
  rw [hfull] at h
  rw [h]
  simp only [writeAffinity, hfull, List.tail_cons, Bool.false_eq_true, if_false]
  rw [flatMap_range_get _ (K + 2) (by intro a; simp) L a (1 + k) ha (by omega)]
  rw [Nat.add_comm 1 k, List.getElem?_append_left (by simp; exact hk), List.getElem?_cons_succ]
  simp only [List.getElem?_map, List.getElem?_range hk, Option.map_some]
  congr 1
  apply List.map_congr_left
  intro q _
  rw [C18.writer_position_general]

/-- the same for a stored diagonal: one value per line, `w(k, a)` -/
theorem code_affinity_row_assortative (aff : Array Float) (K L a k : Nat) (ha : a < L) (hk : k < K)
    (hdiag : (aff.size == Gen.writerAssortSize K L) = true) :
    (writeAffinityCode aff true K L ⟨[], [], 0⟩).lines[a * (K + 2) + (1 + k)]?
      = some [Tok.f (aff.getD (C18.spec K 1 L k 0 a) 0.0)] := by
  have h := (writeAffinityCode_eq aff K L 0.0 0).1
  rw [hdiag] at h
  rw [h]
  simp only [writeAffinity, hdiag, List.tail_cons, if_true]
  rw [flatMap_range_get _ (K + 2) (by intro a; simp) L a (1 + k) ha (by omega)]
  rw [Nat.add_comm 1 k, List.getElem?_append_left (by simp; exact hk), List.getElem?_cons_succ]
  simp only [List.getElem?_map, List.getElem?_range hk, Option.map_some]
  rw [C18.writer_position_assort]

/-- and the first line of the block of layer `a` is `a= a` -/
theorem code_affinity_block_head (aff : Array Float) (K L a : Nat) (ha : a < L) :
    (writeAffinityCode aff (aff.size == Gen.writerAssortSize K L) K L ⟨[], [], 0⟩).lines[a * (K + 2) + 0]?
      = some [Tok.s "a=", Tok.n a] := by
  rw [(writeAffinityCode_eq aff K L 0.0 0).1]
  simp only [writeAffinity, List.tail_cons]
  rw [flatMap_range_get _ (K + 2) (by intro a; simp) L a 0 ha (by omega)]
  rfl

/-- row `k` of a membership file as the code writes it: the label of vertex `k`, then its `C` values in column order -/
theorem code_membership_row (labels : List String) (m : Tens Float) (k : Nat) (hk : k < m.R) :
    (writeMembershipCode labels (fun k q => m.get k q 0) m.R m.C ⟨[], [], 0⟩).lines[k]?
      = some (Tok.s (labels.getD k "?") :: (List.range m.C).map fun q => Tok.f (m.get k q 0)) := by
  rw [(writeMembershipCode_eq labels m 0.0 0).1]
  simp [writeMembership, hk]


/-- **the info file as the code writes it**: line 3 is `# Seed = <seed>`, and line `5 + i` is realization `i` with its number
of iterations, its termination reason and its likelihood -/
theorem code_info_rows (r : Nat) (maxL2 : Float) (seed : Int) (iters : List Nat) (reasons : List String)
    (L2s : List Float) (i : Nat) (hi : i < iters.length) :
    (writeInfoCode r maxL2 seed iters.length iters reasons L2s ⟨[], [], 0⟩).lines[3]?
      = some [Tok.s "#", Tok.s "Seed", Tok.s "=", Tok.s (toString seed)]
    ∧ (writeInfoCode r maxL2 seed iters.length iters reasons L2s ⟨[], [], 0⟩).lines[5 + i]?
      = some [Tok.n i, Tok.n (iters.getD i 0), Tok.s (reasons.getD i "?"), Tok.f (L2s.getD i 0.0)] := by
  rw [(writeInfoCode_eq r maxL2 seed iters reasons L2s).1]
  refine ⟨by simp [writeInfo], ?_⟩
  unfold writeInfo
  rw [List.getElem?_append_right (by simp)]
  simp [hi]

/-! ### non-vacuity: a concrete file -/

example : (writeInfoCode 2 1.5 7 2 [3, 4] ["a", "b"] [1.0, 1.5] ⟨[], [], 0⟩).lines.length = 7 := by
  have h := (writeInfoCode_eq 2 1.5 7 [3, 4] ["a", "b"] [1.0, 1.5]).1
  simp only [List.length_cons, List.length_nil] at h
  rw [h]; rfl

end MTProps.CodeWriters
