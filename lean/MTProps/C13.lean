/-
C13 — CLI = library: every documented option takes effect, files serialise the result.
Model of the front end: `Cli.parseOpts` (multitensor.cpp:101-141), `Cli.parseAdjacencyL`
(app_utils.hpp:54-114, at character level), `Cli.cliCall` (the 3-bit dispatch over the table
regenerated from the switch), `Cli.writeAffinity`/`writeMembership`.
Theorems: (1) adjacency round-trip — for every record list and every layout the grammar allows
(indentation, blank/tab separators, trailing blanks, blank-only lines, LF or CRLF, final newline or
not) the reader returns exactly the records; (2) each option sets its field, absent options keep the
documented default; (3) the dispatch is total and selects the instantiation the flags name; (4) writer
layout.  Tie: the binary built from the working tree, observed through its `call_start` trace event and
its files, vs the model's call record and an in-process library run.
-/
import MTProofs.Reader
import MTProps.C19
import MTProps.C18

namespace MTProps.C13
open MT MT.Cli MTProofs.Reader

/-! ### (1) adjacency reader round-trip -/

/-- separators and indentation: blanks and tabs -/
def Blank (l : List Char) : Prop := ∀ c ∈ l, c = ' ' ∨ c = '\t'
/-- what may follow the last field: blanks, tabs, and the carriage return of a CRLF line end -/
def Trail (l : List Char) : Prop := ∀ c ∈ l, c = ' ' ∨ c = '\t' ∨ c = '\r'

/-- one line of an adjacency file -/
inductive Item where
  /-- empty or blank-only line (`ws` may hold a carriage return) -/
  | blank (ws : List Char)
  /-- a record `source target w_1 … w_L` with its layout: indentation, one separator before each
  further field, trailing characters -/
  | line (src dst : Nat) (weights : List Nat) (indent : List Char) (seps : List (List Char)) (trail : List Char)

def Item.WF : Item → Prop
  | .blank ws => Trail ws
  | .line _ _ weights indent seps trail =>
    Blank indent ∧ seps.length = weights.length + 1 ∧ (∀ s ∈ seps, s ≠ [] ∧ Blank s) ∧ Trail trail

def Item.render : Item → List Char
  | .blank ws => ws
  | .line src dst weights indent seps trail =>
    indent ++ joinToks (((src :: dst :: weights).map digitsOf).zip (seps ++ [trail]))

def Item.recordOf : Item → Option (Nat × Nat × List Nat)
  | .blank _ => none
  | .line src dst weights _ _ _ => some (src, dst, weights)

theorem blank_allSpace {l : List Char} (h : Blank l) : AllSpace l := by
  intro c hc; rcases h c hc with rfl | rfl <;> decide

theorem trail_allSpace {l : List Char} (h : Trail l) : AllSpace l := by
  intro c hc; rcases h c hc with rfl | rfl | rfl <;> decide

theorem digits_noSpace (n : Nat) : NoSpace (digitsOf n) := by
  intro c hc
  have hd := digitsOf_all_digit n c hc
  have h1 : '0'.val ≤ c.val ∧ c.val ≤ '9'.val := by simpa [Char.isDigit] using hd
  unfold isSpace
  have : c ≠ ' ' ∧ c ≠ '\t' ∧ c ≠ '\n' ∧ c ≠ '\r' ∧ c ≠ '\x0b' ∧ c ≠ '\x0c' := by
    refine ⟨?_, ?_, ?_, ?_, ?_, ?_⟩ <;> (intro h; rw [h] at h1; revert h1; decide)
  simp [this.1, this.2.1, this.2.2.1, this.2.2.2.1, this.2.2.2.2.1, this.2.2.2.2.2]

theorem no_newline_of_allSpace_trail {l : List Char} (h : Trail l) : ∀ c ∈ l, c ≠ '\n' := by
  intro c hc; rcases h c hc with rfl | rfl | rfl <;> decide

theorem zip_snoc_dropLast {ι κ : Type} (l₁ : List ι) (l₂ : List κ) (x : κ) (h : l₁.length = l₂.length + 1) :
    (l₁.zip (l₂ ++ [x])).dropLast = l₁.dropLast.zip l₂ := by
  induction l₂ generalizing l₁ with
  | nil =>
    match l₁, h with
    | [a], _ => rfl
  | cons y ys ih =>
    match l₁, h with
    | a :: b :: rest, h =>
      have h' : (b :: rest).length = ys.length + 1 := by simpa using h
      have := ih (b :: rest) h'
      simp only [List.cons_append, List.zip_cons_cons] at this ⊢
      cases hz : (b :: rest).zip (ys ++ [x]) with
      | nil =>
        cases ys <;> simp at hz
      | cons p ps =>
        rw [List.dropLast_cons_cons, ← hz, this, List.dropLast_cons_cons]
        rfl

/-- the tokens of a rendered record line are the decimal renderings of its fields -/
theorem tokens_of_record (src dst : Nat) (weights : List Nat) (indent : List Char) (seps : List (List Char))
    (trail : List Char) (hwf : (Item.line src dst weights indent seps trail).WF) :
    tokensL (Item.line src dst weights indent seps trail).render = (src :: dst :: weights).map digitsOf := by
  obtain ⟨hind, hlen, hseps, htrail⟩ := hwf
  unfold Item.render
  rw [tokensL_space_prefix _ _ (blank_allSpace hind)]
  have hlen' : ((src :: dst :: weights).map digitsOf).length = (seps ++ [trail]).length := by
    simp only [List.length_map, List.length_cons, List.length_append, List.length_nil]; omega
  rw [tokensL_joinToks]
  · rw [List.map_fst_zip]; omega
  · intro p hp
    have := (List.of_mem_zip hp).1
    obtain ⟨n, _, hn⟩ := List.mem_map.mp this
    rw [← hn]
    exact ⟨digitsOf_ne_nil n, digits_noSpace n⟩
  · intro p hp
    have := (List.of_mem_zip hp).2
    rcases List.mem_append.mp this with h | h
    · exact blank_allSpace (hseps p.2 h).2
    · simp only [List.mem_singleton] at h; rw [h]; exact trail_allSpace htrail
  · intro p hp
    -- every item but the last carries one of the `seps`
    rw [zip_snoc_dropLast _ _ _ (by simp only [List.length_map, List.length_cons]; omega)] at hp
    exact (hseps p.2 (List.of_mem_zip hp).2).1

theorem isNatL_takeWhile_map (ws : List Nat) : (ws.map digitsOf).takeWhile isNatL = ws.map digitsOf := by
  rw [List.takeWhile_eq_self_iff]
  intro l hl
  obtain ⟨n, _, hn⟩ := List.mem_map.mp hl
  rw [← hn]
  exact isNatL_digitsOf n

/-- what the reader makes of one rendered line -/
theorem adjLine_of_item (it : Item) (hwf : it.WF) :
    adjLineL (stripTrailingSpaces it.render) = it.recordOf := by
  unfold adjLineL
  rw [tokensL_strip]
  cases it with
  | blank ws =>
    have : tokensL (Item.blank ws).render = [] := tokensL_allSpace ws (trail_allSpace hwf)
    rw [this]; rfl
  | line src dst weights indent seps trail =>
    rw [tokens_of_record src dst weights indent seps trail hwf]
    simp only [List.map_cons, isNatL_digitsOf, Bool.and_self, ↓reduceIte, natOfL_digitsOf, Item.recordOf,
      isNatL_takeWhile_map, List.map_map]
    have hmap : List.map (natOfL ∘ digitsOf) weights = weights := by
      conv_rhs => rw [← List.map_id weights]
      apply List.map_congr_left
      intro n _
      exact natOfL_digitsOf n
    rw [hmap]

theorem render_no_newline (it : Item) (hwf : it.WF) : ∀ c ∈ it.render, c ≠ '\n' := by
  cases it with
  | blank ws => exact no_newline_of_allSpace_trail hwf
  | line src dst weights indent seps trail =>
    obtain ⟨hind, _, hseps, htrail⟩ := hwf
    intro c hc
    unfold Item.render at hc
    rcases List.mem_append.mp hc with h | h
    · rcases hind c h with rfl | rfl <;> decide
    · -- inside joinToks: a digit, a separator or the trail
      have key : ∀ (items : List (List Char × List Char)),
          (∀ p ∈ items, (∀ x ∈ p.1, x ≠ '\n') ∧ (∀ x ∈ p.2, x ≠ '\n')) → ∀ x ∈ joinToks items, x ≠ '\n' := by
        intro items
        induction items with
        | nil => intro _ x hx; simp [joinToks] at hx
        | cons p ps ih =>
          intro hp x hx
          obtain ⟨t, s⟩ := p
          simp only [joinToks, List.mem_append] at hx
          rcases hx with (h1 | h1) | h1
          · exact (hp (t, s) (List.mem_cons_self)).1 x h1
          · exact (hp (t, s) (List.mem_cons_self)).2 x h1
          · exact ih (fun q hq => hp q (List.mem_cons_of_mem _ hq)) x h1
      apply key _ _ c h
      intro p hp
      constructor
      · intro x hx
        have := (List.of_mem_zip hp).1
        obtain ⟨n, _, hn⟩ := List.mem_map.mp this
        rw [← hn] at hx
        have hd := digitsOf_all_digit n x hx
        intro hxe; rw [hxe] at hd; revert hd; decide
      · intro x hx
        have := (List.of_mem_zip hp).2
        rcases List.mem_append.mp this with h' | h'
        · rcases (hseps p.2 h').2 x hx with rfl | rfl <;> decide
        · simp only [List.mem_singleton] at h'
          rw [h'] at hx
          exact no_newline_of_allSpace_trail htrail x hx

theorem rec_render_ne_nil (src dst : Nat) (weights : List Nat) (indent : List Char) (seps : List (List Char))
    (trail : List Char) (hlen : seps.length = weights.length + 1) :
    (Item.line src dst weights indent seps trail).render ≠ [] := by
  unfold Item.render
  intro h
  have h2 := (List.append_eq_nil_iff.mp h).2
  cases seps with
  | nil => simp at hlen
  | cons s ss =>
    simp only [List.map_cons, List.cons_append, List.zip_cons_cons, joinToks] at h2
    have := (List.append_eq_nil_iff.mp (List.append_eq_nil_iff.mp h2).1).1
    exact digitsOf_ne_nil src this

/-- **adjacency round-trip**: the reader returns exactly the records of the file, in order, for every
layout of the stated grammar -/
theorem adjacency_roundtrip (items : List Item) (hwf : ∀ it ∈ items, it.WF) :
    parseAdjacencyL (joinLines (items.map Item.render)) =
      { starts := (items.filterMap Item.recordOf).map (·.1),
        ends := (items.filterMap Item.recordOf).map (·.2.1),
        weights := (items.filterMap Item.recordOf).flatMap (·.2.2) } := by
  have hrows : (fileLinesL (joinLines (items.map Item.render))).filterMap adjLineL = items.filterMap Item.recordOf := by
    unfold fileLinesL
    have hsplit : (splitOnNL (joinLines (items.map Item.render))).filter (· ≠ []) =
        (items.map Item.render).filter (· ≠ []) := by
      cases hi : items with
      | nil => simp [joinLines, splitOnNL]
      | cons it its =>
        rw [← hi, splitOnNL_joinLines _ (by rw [hi]; simp)]
        intro l hl
        obtain ⟨it', hit', rfl⟩ := List.mem_map.mp hl
        exact render_no_newline it' (hwf it' hit')
    rw [hsplit]
    clear hsplit
    induction items with
    | nil => rfl
    | cons it its ih =>
      have hwf' : ∀ it ∈ its, it.WF := fun x hx => hwf x (List.mem_cons_of_mem _ hx)
      have hit := hwf it (List.mem_cons_self)
      simp only [List.map_cons, List.filterMap_cons]
      by_cases hnil : it.render = []
      · -- an empty line is dropped; it is a blank item
        have hrec : it.recordOf = none := by
          cases it with
          | blank ws => rfl
          | line src dst weights indent seps trail =>
            exact absurd hnil (rec_render_ne_nil src dst weights indent seps trail hit.2.1)
        rw [List.filter_cons_of_neg (by simpa using hnil), hrec]
        exact ih hwf'
      · rw [List.filter_cons_of_pos (by simpa using hnil)]
        simp only [List.map_cons, List.filterMap_cons, adjLine_of_item it hit]
        cases it.recordOf with
        | none => exact ih hwf'
        | some r => rw [ih hwf']
  unfold parseAdjacencyL
  simp only [hrows]

/-! ### (2) options -/

theorem optNat_absent (argv : List String) (name : String) (d : Nat) (h : hasOpt argv name = false) :
    optNat argv name d = .ok d := by
  unfold optNat; simp [h, pure, Except.pure]

theorem optNat_present (argv : List String) (name : String) (d : Nat) (t : String)
    (h : hasOpt argv name = true) (hv : getOpt argv name = some t) (ht : isNatTok t = true) :
    optNat argv name d = .ok t.toNat! := by
  unfold optNat stoi; simp [h, hv, ht, pure, Except.pure]

/-- the value of an option is the token that follows its first occurrence -/
theorem getOpt_spec (pre post : List String) (name v : String) (hpre : name ∉ pre) :
    getOpt (pre ++ name :: v :: post) name = some v := by
  unfold getOpt
  have : (pre ++ name :: v :: post).dropWhile (· ≠ name) = name :: v :: post := by
    induction pre with
    | nil => simp
    | cons p ps ih =>
      have hp : p ≠ name := fun h => hpre (h ▸ List.mem_cons_self)
      rw [List.cons_append, List.dropWhile_cons_of_pos (by simpa using hp)]
      exact ih (fun h => hpre (List.mem_cons_of_mem _ h))
  rw [this]

/-- **every documented option takes effect**: an accepted command line yields exactly the value of
each option (or its documented default) -/
theorem parse_args_effect (argv : List String) (o : Opts) (h : parseOpts argv = .ok o) :
    hasOpt argv "--k" = true ∧
    stoi (getOpt argv "--k") = .ok o.k ∧
    optStr argv "--a" "adjacency.dat" = .ok o.adjacency ∧
    optStr argv "--w" "" = .ok o.affinity ∧
    optStr argv "--o" "results" = .ok o.output ∧
    optNat argv "--r" 1 = .ok o.r ∧
    optStr argv "--s" "random" = .ok o.seed ∧
    optNat argv "--maxit" 500 = .ok o.maxit ∧
    optNat argv "--y" 10 = .ok o.y ∧
    o.directed = !hasOpt argv "--undirected" ∧
    o.assortative = hasOpt argv "--assortative" := by
  unfold parseOpts at h
  split at h
  · cases h
  · rename_i hk
    split at h
    · rename_i k a w out r s maxit y h1 h2 h3 h4 h5 h6 h7 h8
      simp only [Except.ok.injEq] at h
      subst h
      exact ⟨by simpa using hk, h1, h2, h3, h4, h5, h6, h7, h8, rfl, rfl⟩
    · cases h

/-! ### (3) dispatch -/

/-- the call the command line makes: the instantiation named by the flags, the in-membership matrix
allocated exactly for directed runs, every numeric option passed through, the records of the file -/
theorem dispatch_total_correct (o : Opts) (adj : String) (aff : Option String) (c : CallRecord)
    (h : cliCall o adj aff = .ok c) :
    c.inst = { directed := o.directed, assort := o.assortative, fromFile := (o.affinity != ""),
               initInner := if (o.affinity != "") then some o.assortative else none } ∧
    c.allocV = o.directed ∧ c.K = o.k ∧ c.r = o.r ∧ c.maxit = o.maxit ∧ c.nconv = o.y ∧ c.seed = o.seed ∧
    c.adj = parseAdjacency adj := by
  unfold cliCall at h
  simp only at h
  split at h
  · cases h
  · split at h
    · cases h
    · rename_i aff _
      have hd := C19.cli_dispatch_total_correct o.directed o.assortative (o.affinity != "")
      unfold C19.cliOk at hd
      split at hd
      · rename_i inst allocV hl
        simp only [Bool.and_eq_true, beq_iff_eq] at hd
        rw [hl] at h
        simp only [Except.ok.injEq] at h
        subst h
        exact ⟨hd.1, hd.2, rfl, rfl, rfl, rfl, rfl, rfl⟩
      · exact absurd hd (by simp)

/-! ### (4) writers -/

/-- the affinity file: a header, then per layer `a= a`, K rows, a blank line -/
theorem writer_layout_affinity (aff : Array Float) (K L : Nat) (maxL2 : Float) (r : Nat) :
    writeAffinity aff K L maxL2 r =
      headerLine maxL2 r ::
      (List.range L).flatMap fun a =>
        [Tok.s "a=", Tok.n a] ::
        ((List.range K).map fun k =>
          if (aff.size == Gen.writerAssortSize K L) then [Tok.f (aff.getD (Gen.writerIdxAssort K L k a) 0.0)]
          else (List.range K).map fun q => Tok.f (aff.getD (Gen.writerIdxGeneral K L k q a) 0.0))
        ++ [[]] := rfl

/-- row `k`, column `q` of block `a` is the tensor entry `(k,q,a)` (C18 layout), K values per row;
assortative: one value per row, entry `(k,a)` -/
theorem writer_entry_positions (K L k q a : Nat) :
    Gen.writerIdxGeneral K L k q a = C18.spec K K L k q a ∧ Gen.writerIdxAssort K L k a = C18.spec K 1 L k 0 a :=
  ⟨C18.writer_position_general K L k q a, C18.writer_position_assort K L k a⟩

/-- a membership file: header, then one row per vertex: its label followed by its `C` values -/
theorem writer_layout_membership (labels : List String) (m : Tens Float) (maxL2 : Float) (r : Nat) :
    writeMembership labels m maxL2 r =
      headerLine maxL2 r ::
      (List.range m.R).map fun k =>
        Tok.s (labels.getD k "?") :: (List.range m.C).map fun q => Tok.f (m.get k q 0) := rfl

/-- an in-membership file is written exactly for directed runs (text of multitensor.cpp:266-269) -/
theorem v_file_iff_directed : Gen.cliVFileIffDirected = true := rfl

/-- non-vacuity: a CRLF file with a blank-only line, tabs and indentation -/
example :
    parseAdjacencyL " 5\t7 1 0\r\n   \r\n7  5\t2 1 \r\n".toList =
      { starts := [5, 7], ends := [7, 5], weights := [1, 0, 2, 1] } := by decide

end MTProps.C13
