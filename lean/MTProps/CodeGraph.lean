/-
Code tie (network) — the `Network` constructor of graph.hpp with its helper `add_vertex`, and the two
extraction methods, regenerated from the source on every run (`MT/Generated/GraphCode.lean`: structure from the
source, meaning of each statement from the table of tools/gen_graph_code.py, which says what `std::map::find`,
`boost::add_vertex`, `boost::add_edge` and the guarded counting loop over the weight do), build the model's
`build`: every layer holds the labels in order of first appearance (one vertex per distinct label, same index in
every layer), the label→index map is consistent with them, the out-edge and in-edge lists are `Net.out` / `Net.inn` in
insertion order, the edge counter is `Net.nedges`, the two vertex lists are `uList` / `vList`, the labels handed
back are `Net.labels`.  So what C08 (multiplicities, supports, weight expansion), C11 (orientation blindness),
C12 (relabelling) and C03 (label order) prove about `build` is proved about the statements of graph.hpp.
-/
import MTProofs.CodeRefineGraph

namespace MTProps.CodeGraph
open MT MT.Gen MT.CodeRefine

section
variable {β ω : Type} [DecidableEq β] [Weight ω]

/-- **the `Network` constructor, as written, builds `build`** (for the inputs the validation lets through: as many
targets as sources, at least one layer) -/
theorem code_network (directed : Bool) (starts ends : List β) (weights : List ω) (dflt : β)
    (hlen : starts.length = ends.length) (hnL : 0 < (build directed starts ends weights).nL) :
    let net := build directed starts ends weights
    let s := networkCode directed net.nL starts ends dflt (fun i a => (chunkUnits weights net.nL i).getD a 0) netInit
    (∀ a, a < net.nL → s.vlab a = net.labels) ∧
    (∀ l, s.idx_map.lookup l = if l ∈ net.labels then some (net.labels.idxOf l) else none) ∧
    (∀ a v, s.outA a v = net.out a v) ∧
    (directed = true → ∀ a v, s.innA a v = net.inn a v) ∧
    s.nedges = net.nedges ∧ s.nvertices = net.nV ∧ (directed = false → ∀ a v, s.innA a v = []) :=
  networkCode_refines directed starts ends weights dflt hlen hnL netInit
    ⟨rfl, fun _ => rfl, fun _ _ => rfl, fun _ _ => rfl, rfl⟩

/-- **`extract_vertices_with_edges` and `extract_vertices_labels` on the network just built** give the model's
source / target lists and labels (the two lists start empty: `std::make_shared<std::vector<size_t>>()` in main.hpp) -/
theorem code_lists_and_labels (directed : Bool) (starts ends : List β) (weights : List ω) (dflt : β)
    (hlen : starts.length = ends.length) (hnL : 0 < (build directed starts ends weights).nL) :
    let net := build directed starts ends weights
    let s := networkCode directed net.nL starts ends dflt (fun i a => (chunkUnits weights net.nL i).getD a 0) netInit
    let e := extractListsCode directed net.nL ({ s with u_list := [], v_list := [] } : NetLoc β)
    e.u_list = net.uList ∧ e.v_list = net.vList ∧ (extractLabelsCode s).labels = net.labels := by
  intro net s e
  obtain ⟨h1, h2, h3, h4, h5, h6, h7⟩ := code_network directed starts ends weights dflt hlen hnL
  have hd : net.directed = directed := rfl
  obtain ⟨e1, e2⟩ := extractListsCode_refines net ({ s with u_list := [], v_list := [] } : NetLoc β)
    h6 h3 (fun hh => h4 (by rw [← hd]; exact hh)) rfl rfl
  refine ⟨e1, e2, ?_⟩
  have hlab : s.vlab 0 = net.labels := h1 0 hnL
  have hnv : s.nvertices = (s.vlab 0).length := by
    rw [h6, hlab]
    have : ¬ net.nL = 0 := Nat.pos_iff_ne_zero.1 hnL
    unfold Net.nV
    rw [if_neg this]
  rw [extractLabelsCode_refines s hnv, hlab]

end
end MTProps.CodeGraph
