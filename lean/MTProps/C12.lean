/-
C12 — vertex labels are opaque.  The model indexes vertices by first appearance through a list
lookup; the code uses `std::map` (ordered by label) only for find/insert and `std::set` only for a
count.  Theorem: an injective relabelling (to any label type with decidable equality) commutes
with network construction — indices, adjacency, vertex lists identical; rows carry the new labels.
Tie: paired real runs with order-reversing, sparse, huge, negative and string labels, compared bitwise.
-/
import MTProofs.Graph
import MT.Main

namespace MTProps.C12
open MT MTProofs

variable {β γ ω : Type} [DecidableEq β] [DecidableEq γ] [Weight ω]

/-- building from relabelled records gives the same network with relabelled vertex labels -/
theorem relabel_equivariant (f : β → γ) (hf : Function.Injective f) (directed : Bool)
    (starts ends : List β) (weights : List ω) :
    build directed (starts.map f) (ends.map f) weights =
      { directed := directed,
        nL := (build directed starts ends weights).nL,
        labels := (build directed starts ends weights).labels.map f,
        recs := (build directed starts ends weights).recs } := by
  unfold build
  simp only [List.length_map, interleave_map, firstApp_map f hf]
  congr 1
  rw [List.zip_map, List.zipIdx_map, List.map_map]
  apply List.map_congr_left
  intro p _
  simp only [Function.comp, Prod.map_fst, Prod.map_snd, id_eq, idxOf_map f hf]

/-- hence everything the solver sees is unchanged … -/
theorem relabel_view (f : β → γ) (hf : Function.Injective f) (directed : Bool)
    (starts ends : List β) (weights : List ω) :
    (build directed (starts.map f) (ends.map f) weights).view =
      (build directed starts ends weights).view := by
  rw [relabel_equivariant f hf]
  exact view_eq_of _ _ rfl rfl rfl (by simp)

/-- … the number of vertices too … -/
theorem relabel_numVertices (f : β → γ) (hf : Function.Injective f) (starts ends : List β) :
    numVertices (starts.map f) (ends.map f) = numVertices starts ends := by
  unfold numVertices
  rw [← List.map_append, firstApp_map f hf, List.length_map]

section
variable {α : Type} [Add α] [Sub α] [Mul α] [Div α] [LT α] [DecidableLT α] [MTExtra α]

/-- … so the whole call returns identical numeric results (bit-identical for `Float`, since this
holds for every scalar type) whose rows carry the corresponding new labels -/
theorem relabel_factorize (f : β → γ) (hf : Function.Injective f) (inp : Input β ω α) (d : Nat → α) :
    factorize { inp with starts := inp.starts.map f, ends := inp.ends.map f } d =
      (factorize inp d).map fun o => { o with labels := o.labels.map f } := by
  unfold factorize factorizeWith
  have hs : (Input.shapes { inp with starts := inp.starts.map f, ends := inp.ends.map f }) = inp.shapes := by
    unfold Input.shapes
    simp only [List.length_map, relabel_numVertices f hf]
  simp only [hs]
  cases hv : validate inp.shapes with
  | error e => rfl
  | ok p =>
    simp only [bind, Except.bind, Except.map, pure, Except.pure]
    rw [relabel_view f hf, relabel_equivariant f hf]

end

/-- non-vacuity: an order-reversing relabelling into strings -/
example :
    (build true ["z", "a"] ["a", "m"] ([1, 2] : List Nat)).recs =
      (build true [0, 5] [5, 9] ([1, 2] : List Nat)).recs := by decide

end MTProps.C12
