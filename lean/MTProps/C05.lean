/-
C05 — stopping rule.  Statements are about the model's `runLoop` (the `while` of solver.hpp:622-640
around `loop`, solver.hpp:496-523), for every scalar type, every `max_nof_iterations ≥ 1`,
`nof_convergences ≥ 1` and every sequence of evaluation outcomes.  Tie to the code: scripted
pass/fail words through the `likelihood_computed` hook on the real loop (`run` correspondence).
-/
import MTProofs.Control
import MT.Generated.Control

namespace MTProps.C05
open MT MTProofs

/-- the documented condition: `nConv` consecutive passing evaluations, the last one being
evaluation `m` (evaluations are numbered 0,1,2,… and happen after sweeps 1, 11, 21, …) -/
def convAt (nConv : Nat) (o : Nat → Bool) (m : Nat) : Prop :=
  nConv ≤ m + 1 ∧ ∀ t, t < nConv → o (m - t) = true

theorem convAt_iff_streak (nConv : Nat) (o : Nat → Bool) (m : Nat) :
    convAt nConv o m ↔ nConv ≤ streak o (m + 1) := by
  unfold convAt
  rw [le_streak_iff]
  simp only [Nat.add_sub_cancel]

section
variable {α : Type} [Add α] [Sub α] [Mul α] [Div α] [LT α] [DecidableLT α] [MTExtra α]
variable (assort : Bool) (K : Nat) (nv : NetView) (maxIt nConv : Nat)
  (evalL : Nat → State α → α) (s0 : State α)

/-- outcome of the m-th evaluation of the realization started at `s0`:
`|L_old - L|/|L_old| < 1e-4` with `L_old = lowest()` for the first one -/
abbrev outcome (m : Nat) : Bool := passSeq assort K nv evalL s0 m

/-- the realization's loop, from the initial control state -/
abbrev realization := runLoop assort K nv maxIt nConv evalL maxIt s0 ctlInit

private theorem link :
    let r := realization assort K nv maxIt nConv evalL s0
    let b := runB maxIt nConv (passSeq assort K nv evalL s0) maxIt 0 0
    r.2.1.iteration = b.1 ∧ r.2.2 = b.2 ∧ r.1 = traj assort K nv s0 b.1 ∧
      r.2.1.L2 = Lseq assort K nv evalL s0 ((b.1 + 9) / 10) :=
  runLoop_eq_runB assort K nv maxIt nConv evalL s0 maxIt s0 ctlInit rfl (by simp [ctlInit, Lseq])

/-- CONVERGED: if evaluation `m` is the first to complete `nConv` consecutive passes and sweep
`10m+1` is within the budget, the realization stops exactly then, reports CONVERGED and `10m+1`
iterations, and its factors are those after `10m+1` sweeps (CONVERGED wins when
`10m+1 = max_nof_iterations`) -/
theorem stop_rule_converged (hC : 1 ≤ nConv) (m : Nat)
    (hm : convAt nConv (outcome assort K nv evalL s0) m)
    (hfirst : ∀ m', m' < m → ¬ convAt nConv (outcome assort K nv evalL s0) m')
    (hle : 10 * m + 1 ≤ maxIt) :
    let r := realization assort K nv maxIt nConv evalL s0
    r.2.1.iteration = 10 * m + 1 ∧ r.2.2 = Reason.converged ∧
      r.1 = traj assort K nv s0 (10 * m + 1) := by
  have hb := runB_converged (maxIt := maxIt) (nConv := nConv) (passSeq assort K nv evalL s0) m
    ((convAt_iff_streak _ _ _).mp hm)
    (fun m' h => by
      have := hfirst m' h
      rw [convAt_iff_streak] at this
      exact Nat.lt_of_not_le this)
    hle maxIt 0 0 (by omega) (by omega) (invB_init _ hC)
  obtain ⟨h1, h2, h3, _⟩ := link assort K nv maxIt nConv evalL s0
  simp only at h1 h2 h3 ⊢
  rw [hb] at h1 h2 h3
  exact ⟨h1, h2, h3⟩

/-- MAX_ITER: if no evaluation within the budget completes `nConv` consecutive passes (a failing
evaluation resets the count), exactly `max_nof_iterations` sweeps are applied -/
theorem stop_rule_maxiter (hM : 1 ≤ maxIt) (hC : 1 ≤ nConv)
    (hnone : ∀ m, 10 * m + 1 ≤ maxIt → ¬ convAt nConv (outcome assort K nv evalL s0) m) :
    let r := realization assort K nv maxIt nConv evalL s0
    r.2.1.iteration = maxIt ∧ r.2.2 = Reason.maxIter ∧ r.1 = traj assort K nv s0 maxIt := by
  have hb := runB_maxiter (maxIt := maxIt) (nConv := nConv) (passSeq assort K nv evalL s0)
    (fun m h => by
      have := hnone m h
      rw [convAt_iff_streak] at this
      exact Nat.lt_of_not_le this)
    maxIt 0 0 (by omega) hM (invB_init _ hC)
  obtain ⟨h1, h2, h3, _⟩ := link assort K nv maxIt nConv evalL s0
  simp only at h1 h2 h3 ⊢
  rw [hb] at h1 h2 h3
  exact ⟨h1, h2, h3⟩

/-- one of the two cases always applies: the loop terminates within the fuel `max_nof_iterations`
with a proper reason, after at least 1 and at most `max_nof_iterations` sweeps, and the reported
count is the number of sweeps actually applied -/
theorem iterations_bounds (hM : 1 ≤ maxIt) (hC : 1 ≤ nConv) :
    let r := realization assort K nv maxIt nConv evalL s0
    r.2.2 ≠ Reason.noTermination ∧ 1 ≤ r.2.1.iteration ∧ r.2.1.iteration ≤ maxIt ∧
      r.1 = traj assort K nv s0 r.2.1.iteration := by
  classical
  by_cases hex : ∃ m, 10 * m + 1 ≤ maxIt ∧ convAt nConv (outcome assort K nv evalL s0) m
  · -- least such m
    let m := Nat.find hex
    have hm := Nat.find_spec hex
    have hmin : ∀ m', m' < m → ¬ convAt nConv (outcome assort K nv evalL s0) m' := by
      intro m' h hc
      exact Nat.find_min hex h ⟨by have := hm.1; omega, hc⟩
    obtain ⟨h1, h2, h3⟩ := stop_rule_converged assort K nv maxIt nConv evalL s0 hC m hm.2 hmin hm.1
    simp only at h1 h2 h3 ⊢
    refine ⟨by rw [h2]; decide, by omega, by have := hm.1; omega, by rw [h3, h1]⟩
  · have hnone : ∀ m, 10 * m + 1 ≤ maxIt → ¬ convAt nConv (outcome assort K nv evalL s0) m :=
      fun m h hc => hex ⟨m, h, hc⟩
    obtain ⟨h1, h2, h3⟩ := stop_rule_maxiter assort K nv maxIt nConv evalL s0 hM hC hnone
    simp only at h1 h2 h3 ⊢
    refine ⟨by rw [h2]; decide, by omega, by omega, by rw [h3, h1]⟩

end

/-! ### the text of `Solver::loop` (regenerated from solver.hpp on every run) is what the model encodes -/

/-- evaluations happen in the sweeps with `iteration % 10 == 0`, i.e. after the 1st, 11th, 21st, … -/
theorem eval_period_documented : Gen.evalPeriod = 10 := rfl

/-- CONVERGED is tested before MAX_ITER -/
theorem termination_order_documented :
    Gen.terminationOrder = [("coincide==num_conv()", "CONVERGED"), ("iteration==max_iter()", "MAX_ITER")] := rfl

/-- the pass test is the relative change against the documented tolerance -/
theorem pass_test_documented :
    Gen.passTest = "std::abs(L2_old-L2)/std::abs(L2_old)<EPS_PRECISION_LIKELIHOOD" := rfl

/-- non-vacuity, on the Boolean automaton: with `n_conv = 2`, outcomes F P P …, `max_it = 25`
the run converges at evaluation 2, i.e. after sweep 21; with `max_it = 20` it is MAX_ITER -/
example : runB 25 2 (fun m => decide (1 ≤ m)) 25 0 0 = (21, Reason.converged) := by decide
example : runB 20 2 (fun m => decide (1 ≤ m)) 20 0 0 = (20, Reason.maxIter) := by decide
example : convAt 2 (fun m => decide (1 ≤ m)) 2 ∧ ¬ convAt 2 (fun m => decide (1 ≤ m)) 1 := by
  constructor
  · refine ⟨by omega, fun t ht => ?_⟩
    rcases t with _ | _ | t
    · decide
    · decide
    · omega
  · rintro ⟨_, h⟩; have := h 1 (by omega); simp at this

end MTProps.C05
