/-
C19 — the Python front end dispatches to the variant its arguments name.
`Gen.pyxTable` (16 `if` blocks of multitensor.pyx) and `Gen.cliTable` (the switch of
multitensor.cpp) are regenerated from the sources by the translator on every run; the
configuration space is finite (16 elements), so `decide` over it is the exhaustive proof.
-/
import MT.Generated.Dispatch

namespace MTProps.C19
open MT

/-- the 16 argument combinations of the Python entry point -/
structure Cfg where
  wint : Bool
  directed : Bool
  assort : Bool
  file : Bool
deriving DecidableEq, Repr

def allCfg : List Cfg :=
  [true, false].flatMap fun w => [true, false].flatMap fun d => [true, false].flatMap fun a =>
    [true, false].map fun f => ⟨w, d, a, f⟩

theorem allCfg_complete (c : Cfg) : c ∈ allCfg := by
  rcases c with ⟨w, d, a, f⟩
  cases w <;> cases d <;> cases a <;> cases f <;> decide

/-- does the condition of a block hold for the configuration? (the blocks are independent `if`s) -/
def fires (r : Gen.PyxRow) (c : Cfg) : Bool :=
  r.cWint == c.wint && r.cDirected == c.directed && r.cAssort == c.assort && r.cFile == c.file

/-- the instantiation the arguments name -/
def expected (c : Cfg) : Gen.Inst :=
  { directed := c.directed, assort := c.assort, fromFile := c.file,
    initInner := if c.file then some c.assort else none }

/-- what a correct block looks like -/
def goodRow (r : Gen.PyxRow) (c : Cfg) : Bool :=
  r.inst == expected c && r.wint == c.wint && r.wcastInt == c.wint && r.allocV == c.directed

/-- exactly one block fires, and it names the right instantiation, weight type and
in-membership allocation -/
def cfgOk (c : Cfg) : Bool :=
  match Gen.pyxTable.filter (fires · c) with
  | [r] => goodRow r c
  | _ => false

theorem pyx_dispatch_total_correct_list : allCfg.all cfgOk = true := by decide

/-- for each of the 16 combinations exactly one library instantiation is invoked, whose graph
direction, affinity tensor type, affinity initialiser and weight type match the arguments, and
the in-membership matrix is allocated exactly for directed runs -/
theorem pyx_dispatch_total_correct (c : Cfg) :
    ∃ r, Gen.pyxTable.filter (fires · c) = [r] ∧ r.inst = expected c ∧ r.wint = c.wint ∧
      r.wcastInt = c.wint ∧ r.allocV = c.directed := by
  have h := List.all_eq_true.mp pyx_dispatch_total_correct_list c (allCfg_complete c)
  unfold cfgOk at h
  split at h
  · rename_i r hr
    refine ⟨r, hr, ?_⟩
    simp only [goodRow, Bool.and_eq_true, beq_iff_eq] at h
    exact ⟨h.1.1.1, h.1.1.2, h.1.2, h.2⟩
  · exact absurd h (by simp)

/-- there are exactly 16 blocks (none is dead, none is missing) -/
theorem pyx_block_count : Gen.pyxTable.length = 16 ∧ Gen.pyxBlockCount = 16 := by decide

/-- the command line's table: total on 0..7 and correct -/
def cliOk (d a f : Bool) : Bool :=
  match Gen.cliTable.lookup (Gen.cliSelection d.toNat a.toNat f.toNat) with
  | some (inst, allocV) =>
    inst == { directed := d, assort := a, fromFile := f, initInner := if f then some a else none }
      && allocV == d
  | none => false

theorem cli_dispatch_total_correct : ∀ d a f : Bool, cliOk d a f = true := by decide

/-- the Python selection table agrees with the command line's -/
theorem pyx_agrees_cli (c : Cfg) :
    ∃ r, Gen.pyxTable.filter (fires · c) = [r] ∧
      Gen.cliTable.lookup (Gen.cliSelection c.directed.toNat c.assort.toNat c.file.toNat)
        = some (r.inst, r.allocV) := by
  obtain ⟨r, hr, hi, _, _, hv⟩ := pyx_dispatch_total_correct c
  refine ⟨r, hr, ?_⟩
  have h := cli_dispatch_total_correct c.directed c.assort c.file
  unfold cliOk at h
  split at h
  · rename_i inst allocV hl
    simp only [Bool.and_eq_true, beq_iff_eq] at h
    rw [hl, hi, hv, h.1, h.2]; rfl
  · exact absurd h (by simp)

/-- every call in the switch passes the arguments in the documented order, and the in-membership
file is written exactly for directed runs -/
theorem cli_call_shape :
    Gen.cliCallArgs =
      ["edges_start,edges_end,edges_weight,nof_realizations,max_nof_iterations,nof_convergences,labels,u,v,affinity,random_generator"]
    ∧ Gen.cliVFileIffDirected = true := ⟨rfl, rfl⟩

/-- epilogue: `v = None` unless directed; `c_v` starts empty -/
theorem pyx_v_none_unless_directed :
    Gen.pyxVNoneUnlessDirected = true ∧ Gen.pyxVStartsEmpty = true := by decide

example : cfgOk ⟨false, true, true, true⟩ = true := by decide

end MTProps.C19
