/-
C19 — the Python front end dispatches to the variant its arguments name.
`Gen.pyxTable` (16 `if` blocks of multitensor.pyx) and `Gen.cliTable` (the switch of
multitensor.cpp) are regenerated from the sources by the translator on every run; the
configuration space is finite (16 elements), so `decide` over it is the exhaustive proof.
-/
import MT.Generated.UtilsCode
import MT.Generated.Dispatch

namespace MTProps.C19
open MT

/-- the 16 argument combinations of the Python entry point -/
structure Cfg where
  wint : Bool
  directed : Bool
  assort : Bool
  file : Bool
deriving DecidableEq, Repr

def allCfg : List Cfg :=
  [true, false].flatMap fun w => [true, false].flatMap fun d => [true, false].flatMap fun a =>
    [true, false].map fun f => ⟨w, d, a, f⟩

theorem allCfg_complete (c : Cfg) : c ∈ allCfg := by
  rcases c with ⟨w, d, a, f⟩
  cases w <;> cases d <;> cases a <;> cases f <;> decide

/-- does the condition of a block hold for the configuration? (the blocks are independent `if`s) -/
def fires (r : Gen.PyxRow) (c : Cfg) : Bool :=
  r.cWint == c.wint && r.cDirected == c.directed && r.cAssort == c.assort && r.cFile == c.file

/-- the instantiation the arguments name -/
def expected (c : Cfg) : Gen.Inst :=
  { directed := c.directed, assort := c.assort, fromFile := c.file,
    initInner := if c.file then some c.assort else none }

/-- what a correct block looks like -/
def goodRow (r : Gen.PyxRow) (c : Cfg) : Bool :=
  r.inst == expected c && r.wint == c.wint && r.wcastInt == c.wint && r.allocV == c.directed

/-- exactly one block fires, and it names the right instantiation, weight type and
in-membership allocation -/
def cfgOk (c : Cfg) : Bool :=
  match Gen.pyxTable.filter (fires · c) with
  | [r] => goodRow r c
  | _ => false

theorem pyx_dispatch_total_correct_list : allCfg.all cfgOk = true := by decide

/-- for each of the 16 combinations exactly one library instantiation is invoked, whose graph
direction, affinity tensor type, affinity initialiser and weight type match the arguments, and
the in-membership matrix is allocated exactly for directed runs -/
theorem pyx_dispatch_total_correct (c : Cfg) :
    ∃ r, Gen.pyxTable.filter (fires · c) = [r] ∧ r.inst = expected c ∧ r.wint = c.wint ∧
      r.wcastInt = c.wint ∧ r.allocV = c.directed := by
  have h := List.all_eq_true.mp pyx_dispatch_total_correct_list c (allCfg_complete c)
  unfold cfgOk at h
  split at h
  · rename_i r hr
    refine ⟨r, hr, ?_⟩
    simp only [goodRow, Bool.and_eq_true, beq_iff_eq] at h
    exact ⟨h.1.1.1, h.1.1.2, h.1.2, h.2⟩
  · exact absurd h (by simp)

/-- there are exactly 16 blocks (none is dead, none is missing) -/
theorem pyx_block_count : Gen.pyxTable.length = 16 ∧ Gen.pyxBlockCount = 16 := by decide

/-- the command line's table: total on 0..7 and correct -/
def cliOk (d a f : Bool) : Bool :=
  match Gen.cliTable.lookup (Gen.cliSelection d.toNat a.toNat f.toNat) with
  | some (inst, allocV) =>
    inst == { directed := d, assort := a, fromFile := f, initInner := if f then some a else none }
      && allocV == d
  | none => false

theorem cli_dispatch_total_correct : ∀ d a f : Bool, cliOk d a f = true := by decide

/-- the Python selection table agrees with the command line's -/
theorem pyx_agrees_cli (c : Cfg) :
    ∃ r, Gen.pyxTable.filter (fires · c) = [r] ∧
      Gen.cliTable.lookup (Gen.cliSelection c.directed.toNat c.assort.toNat c.file.toNat)
        = some (r.inst, r.allocV) := by
  obtain ⟨r, hr, hi, _, _, hv⟩ := pyx_dispatch_total_correct c
  refine ⟨r, hr, ?_⟩
  have h := cli_dispatch_total_correct c.directed c.assort c.file
  unfold cliOk at h
  split at h
  · rename_i inst allocV hl
    simp only [Bool.and_eq_true, beq_iff_eq] at h
    rw [hl, hi, hv, h.1, h.2]; rfl
  · exact absurd h (by simp)

/-- every call in the switch passes the arguments in the documented order, and the in-membership
file is written exactly for directed runs -/
theorem cli_call_shape :
    Gen.cliCallArgs =
      ["edges_start,edges_end,edges_weight,nof_realizations,max_nof_iterations,nof_convergences,labels,u,v,affinity,random_generator"]
    ∧ Gen.cliVFileIffDirected = true := ⟨rfl, rfl⟩

/-- epilogue: `v = None` unless directed; `c_v` starts empty -/
theorem pyx_v_none_unless_directed :
    Gen.pyxVNoneUnlessDirected = true ∧ Gen.pyxVStartsEmpty = true := by decide

example : cfgOk ⟨false, true, true, true⟩ = true := by decide

/-- everything `run` of multitensor.pyx does before the sixteen dispatch blocks (reading the adjacency file, the
flat weight vector `adj_data[:, 2:].astype(dtype).ravel()`, the sizes, `c_u` N x K and `c_v` 0 x 0, the start
affinity from the file or zeros, the seed, the generator), as it stands in the source -/
theorem pyx_prologue_documented :
    Gen.pyxRunPrologue = "defrun(adjacency_filename,nof_groups,directed=True,assortative=False,nof_realizations=1,max_nof_iterations=500,nof_convergences=10,init_affinity_filename=None,weigths_dtype=float,seed=None):adj_data=numpy.loadtxt(adjacency_filename)edges_start=adj_data[:,0].astype(int)edges_end=adj_data[:,1].astype(int)edges_weights=adj_data[:,2:].astype(weigths_dtype).ravel()nof_edges=edges_start.sizenof_layers=edges_weights.size//nof_edgescdefsize_tnof_vertices=get_num_vertices[vertex_t](<constvector[vertex_t]&>edges_start,<constvector[vertex_t]&>edges_end)cdefMatrix[numpy.float_t]c_u=Matrix[numpy.float_t](nof_vertices,nof_groups)cdefMatrix[numpy.float_t]c_v=Matrix[numpy.float_t](0,0)cdefvector[numpy.float_t]c_affinityifinit_affinity_filename:w_data=numpy.loadtxt(init_affinity_filename)ifassortative:init_affinity=w_data[:,1:].ravel()else:init_affinity=(numpy.diag(l)forlinw_data[:,1:])init_affinity=numpy.concatenate([l.ravel()forlininit_affinity])c_affinity=<vector[numpy.float_t]>init_affinityelse:ifassortative:affinity_size=nof_groups*nof_layerselse:affinity_size=nof_groups*nof_groups*nof_layersc_affinity=vector[numpy.float_t](<size_t>affinity_size)cdefvector[vertex_t]labels=vector[vertex_t](nof_vertices)report=ReportWrapper()seed=seedifseedisnotNoneelsetime(NULL)cdefRandomGenerator[mt19937,uniform_real_distribution]*rng=\\newRandomGenerator[mt19937,uniform_real_distribution](seed)" := rfl

/-- everything `run` does after them (`v = None` unless directed, rows labelled with `labels[i]`, the affinity
reshaped layer by layer) -/
theorem pyx_epilogue_documented :
    Gen.pyxRunEpilogue = "finally:delrngu=numpy.array([[labels[i]]+[c_u(i,j)forjinrange(c_u.get_ncols())]foriinrange(c_u.get_nrows())])v=Noneifdirected:v=numpy.array([[labels[i]]+[c_v(i,j)forjinrange(c_v.get_ncols())]foriinrange(c_v.get_nrows())])affinity_ravel=numpy.array(c_affinity)num_vals=affinity_ravel.size//nof_layersaffinity=[]forlinrange(nof_layers):begin=l*num_valsend=(l+1)*num_valsw_l=affinity_ravel[begin:end].reshape((-1,nof_groups)).Tifassortative:w_l=w_l.ravel()affinity.append(w_l)returnu,v,affinity,report" := rfl

end MTProps.C19
