/-
C02 — one iteration equals the published EM update equations, in the documented order.
The model's `sweep` keeps the loops of `update_vertices` / `update_affinity` in code order (one `sumL`
per C++ accumulator).  Theorems, over ℝ: every entry of every step is the multiplicative update of
De Bacco et al. (2017) in dense form (multiplicities instead of edge loops), with the documented
guards (`Z > ε`, old value `> ε`, edge rate `> ε`) and the truncation `|x| < ε → 0`; the steps are
composed u → v (new u) → w (new u, new v); undirected: one matrix in both roles, no v-step;
assortative: only the diagonal affinities exist.
Tie: function-level correspondence of the private functions on arbitrary and reachable states.
-/
import MTProofs.Refine
import MTProofs.Graph
import MT.Generated.Control

namespace MTProps.C02
open MT MTProofs Finset

variable (assort : Bool) (K : Nat) (nv : NetView) (s : State ℝ)

/-- the documented order: out-memberships, then in-memberships (with the new out-memberships),
then the affinity (with both new memberships) -/
theorem sweep_order : sweep assort K nv s = stepW assort K nv (stepV assort K nv (stepU assort K nv s)) := rfl

/-- well-formedness of a network view: all adjacency entries are vertex indices -/
def ViewWF (N : Nat) : Prop :=
  (∀ a i, ∀ j ∈ nv.out a i, j < N) ∧ (∀ a i, ∀ j ∈ nv.inn a i, j < N)

/-- **out-membership step** = published update: numerator over the out-edges of `i` (as dense
multiplicities), denominator over the vertices with in-edges, the in-memberships (the matrix itself
when undirected: the pre-update copy) held fixed -/
theorem stepU_entry (hwf : ViewWF nv s.u.R) {i k : Nat} (hi : i < s.u.R) (hk : k < K) :
    (stepU assort K nv s).u.get i k 0 =
      specVEntry assort K nv.nL s.u.R nv.uList nv.vList nv.out (wView assort false s.w)
        (fun i k => (if nv.directed then s.v else s.u).get i k 0) (fun i k => s.u.get i k 0) i k := by
  unfold stepU updateVertices
  simp only
  rw [get_ofFn _ _ _ _ hi hk (by omega)]
  exact updVEntry_eq_spec assort K nv.nL s.u.R nv.uList nv.vList nv.out _ _ _ hwf.1 i k

/-- the u-step leaves `v` and `w` alone -/
theorem stepU_frame : (stepU assort K nv s).v = s.v ∧ (stepU assort K nv s).w = s.w := ⟨rfl, rfl⟩

/-- **in-membership step** (directed): in-edges, transposed affinity view `w(q,k,a)`, the new
out-memberships held fixed -/
theorem stepV_entry (hd : nv.directed = true) (hwf : ViewWF nv s.v.R) {j k : Nat} (hj : j < s.v.R) (hk : k < K) :
    (stepV assort K nv s).v.get j k 0 =
      specVEntry assort K nv.nL s.v.R nv.vList nv.uList nv.inn (wView assort true s.w)
        (fun i k => s.u.get i k 0) (fun i k => s.v.get i k 0) j k := by
  unfold stepV updateVertices
  simp only [hd, ↓reduceIte]
  rw [get_ofFn _ _ _ _ hj hk (by omega)]
  exact updVEntry_eq_spec assort K nv.nL s.v.R nv.vList nv.uList nv.inn _ _ _ hwf.2 j k

/-- the transposed view of the general affinity, and the diagonal tensor as its own transpose -/
theorem transposed_view (W : Tens ℝ) (k l a : Nat) :
    wView false true W k l a = W.get l k a ∧ wView false false W k l a = W.get k l a ∧
    wView true true W k l a = W.get k 0 a ∧ wView true false W k l a = W.get k 0 a := ⟨rfl, rfl, rfl, rfl⟩

/-- undirected: in-memberships are not updated separately -/
theorem stepV_undirected (hd : nv.directed = false) : stepV assort K nv s = s := by
  unfold stepV; simp [hd]

/-- **affinity step**, general model: entry `(k,q,a)` -/
theorem stepW_entry_general (hwf : ViewWF nv s.u.R) {k q a : Nat} (hk : k < K) (hq : q < K) (ha : a < nv.nL) :
    (stepW false K nv s).w.get k q a =
      specWEntry false K s.u.R nv.uList nv.vList nv.out (fun i k => s.u.get i k 0)
        (fun i k => (if nv.directed then s.v else s.u).get i k 0) (wView false false s.w) k q a := by
  unfold stepW updateAffinity
  simp only [Bool.false_eq_true, ↓reduceIte]
  rw [get_ofFn _ _ _ _ hk hq ha]
  exact updWEntry_eq_spec false K s.u.R nv.uList nv.vList nv.out _ _ _ hwf.1 k q a

/-- **affinity step**, assortative model: only the diagonal affinities exist (`K×1×L`), entry `(k,a)` -/
theorem stepW_entry_assortative (hwf : ViewWF nv s.u.R) {k a : Nat} (hk : k < K) (ha : a < nv.nL) :
    (stepW true K nv s).w.get k 0 a =
      specWEntry true K s.u.R nv.uList nv.vList nv.out (fun i k => s.u.get i k 0)
        (fun i k => (if nv.directed then s.v else s.u).get i k 0) (wView true false s.w) k k a ∧
    (stepW true K nv s).w.C = 1 := by
  unfold stepW updateAffinity
  simp only [↓reduceIte]
  refine ⟨?_, rfl⟩
  rw [get_ofFn _ _ _ _ hk (by omega) ha]
  exact updWEntry_eq_spec true K s.u.R nv.uList nv.vList nv.out _ _ _ hwf.1 k k a

/-- the w-step leaves the memberships alone -/
theorem stepW_frame : (stepW assort K nv s).u = s.u ∧ (stepW assort K nv s).v = s.v := ⟨rfl, rfl⟩

/-- results below `ε` in absolute value are snapped to zero -/
theorem snapped_below_eps (x : ℝ) (h : |x| < ε) : snapR x = 0 := by
  unfold snapR; rw [if_pos h]

theorem not_snapped (x : ℝ) (h : ε ≤ |x|) : snapR x = x := by
  unfold snapR; rw [if_neg (not_lt.mpr h)]

/-- zero entries stay zero (membership step) … -/
theorem zero_membership_stays_zero (L N : Nat) (numList denList : List Nat) (nbr : Nat → Nat → List Nat)
    (wf : Nat → Nat → Nat → ℝ) (Y X : Nat → Nat → ℝ) (i k : Nat) (h : X i k = 0) :
    specVEntry assort K L N numList denList nbr wf Y X i k = 0 := by
  unfold specVEntry
  rw [if_neg (by rw [h]; intro hc; exact absurd hc.2.2 (not_lt.mpr (le_of_lt eps_pos)))]
  exact h

/-- … and affinity step -/
theorem zero_affinity_stays_zero (N : Nat) (uList vList : List Nat) (out : Nat → Nat → List Nat)
    (u v : Nat → Nat → ℝ) (w : Nat → Nat → Nat → ℝ) (k q a : Nat) (h : w k q a = 0) :
    specWEntry assort K N uList vList out u v w k q a = 0 := by
  unfold specWEntry
  rw [if_neg (by rw [h]; intro hc; exact absurd hc.2 (not_lt.mpr (le_of_lt eps_pos)))]
  exact h

/-- entries in `(0, ε]` are frozen, not updated -/
theorem small_membership_frozen (L N : Nat) (numList denList : List Nat) (nbr : Nat → Nat → List Nat)
    (wf : Nat → Nat → Nat → ℝ) (Y X : Nat → Nat → ℝ) (i k : Nat) (h : X i k ≤ ε) :
    specVEntry assort K L N numList denList nbr wf Y X i k = X i k := by
  unfold specVEntry
  rw [if_neg (by intro hc; exact absurd hc.2.2 (not_lt.mpr h))]

/-- rows of vertices outside the updated list are not touched -/
theorem other_rows_untouched (L N : Nat) (numList denList : List Nat) (nbr : Nat → Nat → List Nat)
    (wf : Nat → Nat → Nat → ℝ) (Y X : Nat → Nat → ℝ) (i k : Nat) (h : i ∉ numList) :
    specVEntry assort K L N numList denList nbr wf Y X i k = X i k := by
  unfold specVEntry
  rw [if_neg (by intro hc; exact h hc.2.1)]

/-- a network built from an edge list gives a well-formed view -/
theorem built_view_wf {β ω : Type} [DecidableEq β] [Weight ω] (directed : Bool) (starts ends : List β)
    (weights : List ω) :
    ViewWF (build directed starts ends weights).view (build directed starts ends weights).labels.length := by
  have h := build_recs_lt directed starts ends weights
  refine ⟨view_out_lt _ _ h, ?_⟩
  intro a i j hj
  unfold Net.view at hj
  simp only at hj
  by_cases hdir : (build directed starts ends weights).directed = true
  · simp only [hdir, ↓reduceIte, Array.getD_eq_getD_getElem?, List.getElem?_toArray, List.getElem?_map] at hj
    by_cases ha : a < (build directed starts ends weights).nL
    · by_cases hi : i < (build directed starts ends weights).nV
      · simp only [List.getElem?_range ha, Option.map_some, Option.getD_some, List.getElem?_toArray,
          List.getElem?_map, List.getElem?_range hi] at hj
        exact inn_lt_of_recs _ _ h a i j hj
      · simp [List.getElem?_range ha, List.getElem?_eq_none (l := List.range _) (by simpa using Nat.le_of_not_lt hi)] at hj
    · simp [List.getElem?_eq_none (l := List.range _) (by simpa using Nat.le_of_not_lt ha)] at hj
  · simp [hdir] at hj

/-! ### the text of the solver (regenerated from solver.hpp on every run) is what the model encodes -/

/-- `loop` calls the out-membership update, the in-membership update (assortative: same affinity; general:
transposed view `wT`), then the affinity update, with these argument lists -/
theorem loop_steps_documented :
    Gen.loopSteps = [("out_edges_target_vertices", "u_list,v_list,A,w,v,u"),
                     ("in_edges_source_vertices", "v_list,u_list,A,w,u,v"),
                     ("in_edges_source_vertices", "v_list,u_list,A,wT,u,v"),
                     ("affinity", "u_list,v_list,A,u,v,w")] := rfl

/-- the guards and the truncation of `update_vertices` are exactly: `Z > ε`, edge rate `> ε`, old value
`> ε`, `|new| < ε → 0` -/
theorem vertex_guards_documented :
    Gen.vertexGuards = ["Z>EPS_PRECISION", "Zij_a>EPS_PRECISION", "mat_to_update_old(i,k)>EPS_PRECISION",
                        "std::abs(mat_to_update(i,k))<EPS_PRECISION"] := rfl

/-- … and those of `update_affinity` (assortative and general branch) -/
theorem affinity_guards_documented :
    Gen.affinityGuards = ["Z_kq>EPS_PRECISION", "Zij_a>EPS_PRECISION", "std::abs(w(k,a))<EPS_PRECISION",
                          "std::abs(w(k,q,a))<EPS_PRECISION", "w_old(k,a)>EPS_PRECISION",
                          "w_old(k,q,a)>EPS_PRECISION"] := rfl

/-- non-vacuity: the snap on concrete numbers -/
example : snapR (1 / 2000000) = 0 ∧ snapR (1 / 2) = 1 / 2 := by
  constructor
  · apply snapped_below_eps; rw [eps_value, abs_of_pos (by norm_num)]; norm_num
  · apply not_snapped; rw [eps_value, abs_of_pos (by norm_num)]; norm_num

end MTProps.C02
