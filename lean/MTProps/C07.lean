/-
C07 — determinism and purity: results depend only on the declared inputs.
The model is a Lean function of exactly the declared inputs; the prior contents of the output
containers are an *explicit* argument (`prior`).  Theorems (any scalar type): the report does not
depend on `prior` at all; as soon as one realization is adopted, neither do the returned factors
(in undirected mode the in-membership container is returned as it was, C11).  "Same call, same
result, in any process, after any other calls" is, for the model, the statement that `runAll` has no
other argument; for the code it is the history correspondence (implementation-vs-implementation bit
identity under poisoned outputs, interleaved calls, fresh processes).
-/
import MTProofs.Select
import MT.Generated.MainCode

namespace MTProps.C07
open MT MTProofs

variable {α : Type} [Add α] [Sub α] [Mul α] [Div α] [LT α] [DecidableLT α] [MTExtra α]
variable (assort : Bool) (ik : InitKind) (K N : Nat) (nv : NetView) (maxIt nConv : Nat)
  (evalL : Nat → Nat → State α → α) (userW : Tens α) (d : Nat → α)

local notation "RUN" r "," p => runAll assort ik K N nv r maxIt nConv evalL userW d p

/-- the report (iterations, reasons, likelihoods of every realization) and the stream position do not
depend on the prior contents of the output containers -/
theorem report_indep_of_prior (prior prior' : State α) (r : Nat) :
    (RUN r, prior).report.L2s = (RUN r, prior').report.L2s ∧
    (RUN r, prior).report.iters = (RUN r, prior').report.iters ∧
    (RUN r, prior).report.reasons = (RUN r, prior').report.reasons ∧
    (RUN r, prior).pos = (RUN r, prior').pos := by
  obtain ⟨a1, a2, a3, a4⟩ := runAll_report assort ik K N nv maxIt nConv evalL userW d prior r
  obtain ⟨b1, b2, b3, b4⟩ := runAll_report assort ik K N nv maxIt nConv evalL userW d prior' r
  exact ⟨by rw [a2, b2], by rw [a3, b3], by rw [a4, b4], by rw [a1, b1]⟩

/-- the factors agree up to the untouched in-membership container of an undirected run -/
def SameFactors (b b' : State α) : Prop :=
  b.u = b'.u ∧ b.w = b'.w ∧ (nv.directed = true → b.v = b'.v)

/-- either nothing has been adopted yet (the containers still hold what the caller put there), or
the factors are the same whatever the caller put there -/
theorem best_indep_of_prior (prior prior' : State α) (r : Nat) :
    ((RUN r, prior).best = prior ∧ (RUN r, prior').best = prior') ∨
      SameFactors nv (RUN r, prior).best (RUN r, prior').best := by
  induction r with
  | zero => exact Or.inl ⟨rfl, rfl⟩
  | succ r ih =>
    have h1 := runAll_best_succ assort ik K N nv maxIt nConv evalL userW d prior r
    have h2 := runAll_best_succ assort ik K N nv maxIt nConv evalL userW d prior' r
    simp only at h1 h2
    have hL := (report_indep_of_prior assort ik K N nv maxIt nConv evalL userW d prior prior' r).1
    rw [h1, h2, hL]
    by_cases hlt : maxL2 (RUN r, prior').report.L2s < (outcomeOf assort ik K N nv maxIt nConv evalL userW d r).L2
    · rw [if_pos hlt, if_pos hlt]
      right
      unfold adoptState SameFactors
      cases hd : nv.directed
      · simp only [Bool.false_eq_true, ↓reduceIte, false_implies, and_true]
      · simp only [↓reduceIte, implies_true, and_self]
    · rw [if_neg hlt, if_neg hlt]
      exact ih

/-- **independence of the prior contents**: once a realization has been adopted (in real runs the
first one always is: every likelihood exceeds `lowest()`), the returned factors are the same for any
prior contents of the output containers -/
theorem run_indep_of_prior_outputs (prior prior' : State α) (r : Nat)
    (hadopt : (RUN r, prior).best ≠ prior ∨ (RUN r, prior').best ≠ prior') :
    SameFactors nv (RUN r, prior).best (RUN r, prior').best := by
  rcases best_indep_of_prior assort ik K N nv maxIt nConv evalL userW d prior prior' r with h | h
  · rcases hadopt with h' | h'
    · exact absurd h.1 h'
    · exact absurd h.2 h'
  · exact h

/-- the first realization is adopted whenever its likelihood exceeds `lowest()` -/
theorem first_adopted (prior : State α)
    (h : MTExtra.lowest < (outcomeOf assort ik K N nv maxIt nConv evalL userW d 0).L2) :
    (RUN 1, prior).best = adoptState nv prior (outcomeOf assort ik K N nv maxIt nConv evalL userW d 0) := by
  have h1 := runAll_best_succ assort ik K N nv maxIt nConv evalL userW d prior 0
  simp only at h1
  rw [h1]
  have h' : maxL2 (RUN 0, prior).report.L2s < (outcomeOf assort ik K N nv maxIt nConv evalL userW d 0).L2 := h
  rw [if_pos h']
  rfl

/-- nothing but the declared inputs: the adopted flags too are a function of the report -/
theorem adopted_indep_of_prior (prior prior' : State α) (r : Nat) :
    (RUN r, prior).adopted = (RUN r, prior').adopted := by
  induction r with
  | zero => rfl
  | succ r ih =>
    rw [runAll_succ, runAll_succ]
    unfold runOne
    simp only
    have hL := (report_indep_of_prior assort ik K N nv maxIt nConv evalL userW d prior prior' r)
    rw [ih, hL.1, hL.2.2.2]

/-- the report's seed is the generator's seed: the only statement of `multitensor_factorization` that
assigns it (main.hpp, regenerated on every run) -/
theorem seed_echo_documented :
    Gen.reportSeedAssignments = ["results.seed=random_generator.seed;"] := by decide

end MTProps.C07
