/-
The initial-affinity reader of the command line (`read_affinity_data`, app_utils.cpp) as it stands in the source.  Its
meaning is the front-end model's `readAffinity` (MT/Cli.lean), about which C14 proves the diagonal positions, the shape
rejection and that every write is in range; the tie is the correspondence check on byte streams.
-/
import MT.Generated.UtilsCode

namespace MTProps.CodeReaderAff
open MT

/-- `read_affinity_data` (app_utils.cpp) -/
theorem read_affinity_documented : Gen.readAffinityText = "std::ifstreamin(filename.string());if(in.fail()){throwstd::runtime_error(std::string(\"Inread_affinity_data,failedtoopen\")+filename.string());}std::cout<<\"Readingaffinityfile\"<<filename<<std::endl;constsize_tlayer_size=assortative?nof_groups:nof_groups*nof_groups;if(layer_size==0||w.size()%layer_size!=0){throwstd::runtime_error(std::string(\"Inread_affinity_data,inconsistentaffinitysize\")+std::to_string(w.size())+\"for\"+std::to_string(nof_groups)+\"groups\");}constsize_texpected_nof_layers=w.size()/layer_size;std::stringline;size_tnof_layers(0);std::stringtok;doublevalue;while(!in.eof()){std::getline(in,line);if(line.size()==0){continue;}line.erase(line.find_last_not_of(\"\")+1);std::istringstreamis(line);size_tcurrent_nof_groups(0);if(!(is>>tok)||tok==\"#\"){continue;}while(is>>value){current_nof_groups++;}if(current_nof_groups!=nof_groups){throwstd::runtime_error(std::string(\"Inread_affinity_data,expected\")+std::to_string(nof_groups)+\"valuesperlayer,got\"+std::to_string(current_nof_groups)+\"in\"+filename.string());}nof_layers++;}if(nof_layers!=expected_nof_layers){throwstd::runtime_error(std::string(\"Inread_affinity_data,expected\")+std::to_string(expected_nof_layers)+\"layers,got\"+std::to_string(nof_layers)+\"in\"+filename.string());}in.clear();in.seekg(0);while(!in.eof()){std::getline(in,line);if(line.size()==0)continue;line.erase(line.find_last_not_of(\"\")+1);std::istringstreamis(line);if(!(is>>tok)||tok==\"#\"){continue;}size_tlayer;std::istringstreamis_layer(tok);if(!(is_layer>>layer)||layer>=nof_layers){throwstd::runtime_error(std::string(\"Inread_affinity_data,invalidlayerid'\")+tok+\"'in\"+filename.string());}size_tgroup(0),index(0);while(is>>value){index=assortative?group+layer*nof_groups:group+group*nof_groups+layer*nof_groups*nof_groups;w[index]=value;group++;}}" := rfl



end MTProps.CodeReaderAff
