/-
Code tie (realizations) — `Solver::run`, regenerated from solver.hpp on every run, is the model's `runAll`.

`MT/Generated/RunCode.lean` takes from the source *which statements `run` consists of, in which order and
inside which `for` / `while` / `if`*; what each statement means is the table of tools/gen_run_code.py, written
in terms of the model's functions for the callees (`initAff`, `initRows`, `loopStep`, `maxL2`, `Tens.zeros`),
whose own ties are separate.  A statement that is not in the table, a changed header, prologue or epilogue
is a lost anchor.  Proved here, for every scalar type, variant, initialiser kind, number of realizations and
(scriptable) likelihood evaluation: after `run` the caller's three containers hold the model's best factors,
the stream of draws has advanced as in the model and the report vectors are the model's report.  Hence what
C04 (first maximum, report, prefix), C07 (nothing carried between realizations but the best-so-far, the
report and the stream position), C14/C17 (each realization starts from the next draws: affinity, then
in-membership rows, then out-membership rows, on zeroed work matrices) and C03 prove about `runAll` is
proved about the statement sequence of `Solver::run` as it stands in the source.
-/
import MTProofs.CodeRefineRun
import MT.Generated.UtilsCode

namespace MTProps.CodeRun
open MT MT.Gen MT.CodeRefine

section
variable {α : Type} [Add α] [Sub α] [Mul α] [Div α] [LT α] [DecidableLT α] [MTExtra α]
variable (directed assort : Bool) (ik : InitKind) (K N : Nat) (nv : NetView) (maxIt nConv : Nat)
  (userW : Tens α) (d : Nat → α)

/-- the library's own likelihood evaluation never looks at the in-membership slot of an undirected state -/
theorem stateLik_ignores_v (hdir : nv.directed = false) (s : State α) (v' : Tens α) :
    stateLik assort K nv { s with v := v' } = stateLik assort K nv s := by
  unfold stateLik
  simp only [hdir, Bool.false_eq_true, if_false]

/-- **`Solver::run` computes `runAll`** (scripted or real likelihood evaluation; the side condition says that
an undirected evaluation does not depend on the unused in-membership slot, which holds for the real one) -/
theorem code_runAll (evalL : Nat → Nat → State α → α) (hd : nv.directed = directed)
    (hE : directed = false → ∀ i it (s : State α) (v' : Tens α), evalL i it { s with v := v' } = evalL i it s)
    (r : Nat) (prior : State α) (c : RunLoc α)
    (hc : c.u = prior.u ∧ c.v = prior.v ∧ c.w = prior.w ∧ c.pos = 0 ∧ c.vec_iter = [] ∧
      c.vec_term_reason = [] ∧ c.vec_L2 = []) :
    let s := runCode directed assort ik K N nv maxIt nConv evalL userW d r c
    let acc := runAll assort ik K N nv r maxIt nConv evalL userW d prior
    s.u = acc.best.u ∧ s.v = acc.best.v ∧ s.w = acc.best.w ∧ s.pos = acc.pos ∧
    s.vec_iter = acc.report.iters ∧ s.vec_term_reason = acc.report.reasons.map Reason.code ∧
    s.vec_L2 = acc.report.L2s :=
  runCode_refines directed assort ik K N nv maxIt nConv evalL userW d hd hE r prior c hc

/-- the instance `multitensor_factorization` uses: the likelihood of the state itself -/
theorem code_runAll_real (hd : nv.directed = directed) (r : Nat) (prior : State α) (c : RunLoc α)
    (hc : c.u = prior.u ∧ c.v = prior.v ∧ c.w = prior.w ∧ c.pos = 0 ∧ c.vec_iter = [] ∧
      c.vec_term_reason = [] ∧ c.vec_L2 = []) :
    let ev : Nat → Nat → State α → α := fun _ _ s => stateLik assort K nv s
    let s := runCode directed assort ik K N nv maxIt nConv ev userW d r c
    let acc := runAll assort ik K N nv r maxIt nConv ev userW d prior
    s.u = acc.best.u ∧ s.v = acc.best.v ∧ s.w = acc.best.w ∧ s.pos = acc.pos ∧
    s.vec_iter = acc.report.iters ∧ s.vec_term_reason = acc.report.reasons.map Reason.code ∧
    s.vec_L2 = acc.report.L2s :=
  runCode_refines directed assort ik K N nv maxIt nConv _ userW d hd
    (fun hf i it s v' => stateLik_ignores_v assort K nv (by rw [hd, hf]) s v') r prior c hc

/-- with zero realizations nothing is touched (the validation excludes it; the loop simply does not run) -/
theorem code_run_zero (evalL : Nat → Nat → State α → α) (c : RunLoc α) :
    runCode directed assort ik K N nv maxIt nConv evalL userW d 0 c = c := rfl

end

/-! ### how the generator is handed over

`runCode` threads one stream position through all realizations of a call (`Solver::run` takes the generator by
reference), and `factorizeWith` starts every call at position 0 of the stream its seed determines (the entry point
takes the generator BY VALUE: the call works on a copy, the caller's object is left as it was, so two calls handed
the same object see the same stream — the prefix statement of C04 and the repeatability of C07 across calls that
share a generator).  Both facts are read off the parameter lists, pinned here as they stand in the source. -/

/-- `multitensor_factorization(…, random_t random_generator = random_t{})`: the generator is a by-value parameter -/
theorem entry_point_parameters_documented :
    Gen.mainParametersText = "conststd::vector<vertex_t>&edges_start,conststd::vector<vertex_t>&edges_end,conststd::vector<weight_t>&edges_weight,constsize_t&nof_realizations,constsize_t&max_nof_iterations,constsize_t&nof_convergences,std::vector<vertex_t>&labels,tensor::Matrix<double>&u,tensor::Matrix<double>&v,std::vector<double>&affinity,random_trandom_generator=random_t{}" := rfl

/-- `Solver::run(…, random_t &random_generator, affinity_init_t w_init_obj = affinity_init_t{})`: one stream for the
realizations of a call; the affinity initialiser object (with its cached copy of the caller's tensor) is a by-value
parameter, fresh in every call -/
theorem run_parameters_documented :
    Gen.runParametersText = "conststd::vector<size_t>&u_list,conststd::vector<size_t>&v_list,constnetwork_t&A,tensor::Matrix<double>&u,tensor::Matrix<double>&v,affinity_t&w,random_t&random_generator,affinity_init_tw_init_obj=affinity_init_t{}" := rfl

end MTProps.CodeRun
