/-
C16 — memory safety: *partial by nature*.  A functional model has no heap: use-after-free, leaks,
signed overflow and reads of unset locals cannot be expressed in it.  What is logic is proved here:
every index the code forms is in range (so the `assert`s of tensor.hpp / initialization.hpp / graph.hpp
cannot fire and no access is out of bounds), for all sizes.  The runtime part is covered by running every
correspondence of every property under ASan+UBSan+LSan with assertions and `_GLIBCXX_ASSERTIONS`, by a
file-mutation stream through the real readers, and by valgrind memcheck (uninitialised values).
-/
import MTProps.C18
import MTProps.C14
import MTProps.C08
import MTProofs.Graph

namespace MTProps.C16
open MT MTProofs

/-- tensor.hpp:58-67 — the flat index of an in-range triple is below `size()`: the asserts hold and
`data[index]` is in bounds -/
theorem tensor_index_in_bounds {R C T i j a : Nat} (hi : i < R) (hj : j < C) (ha : a < T) :
    Gen.getIndexSrc R C T i j a < R * C * T := by
  rw [C18.index_eq_spec]; exact C18.index_lt_size hi hj ha

section
variable {β ω : Type} [DecidableEq β] [Weight ω] (directed : Bool) (starts ends : List β) (weights : List ω)

/-- graph.hpp — every record refers to vertices that exist -/
theorem record_vertices_exist :
    ∀ r ∈ (build directed starts ends weights).recs,
      r.src < (build directed starts ends weights).labels.length ∧
      r.dst < (build directed starts ends weights).labels.length :=
  build_recs_lt directed starts ends weights

/-- every entry of every adjacency list handed to the solver is a valid row index -/
theorem adjacency_entries_in_bounds (a i : Nat) :
    ∀ j ∈ (build directed starts ends weights).view.out a i,
      j < (build directed starts ends weights).labels.length :=
  view_out_lt _ _ (build_recs_lt directed starts ends weights) a i

/-- initialization.hpp:174 `assert(j < rows)` — every listed vertex is a valid row -/
theorem listed_vertices_in_bounds :
    (∀ i ∈ (build directed starts ends weights).uList, i < (build directed starts ends weights).nV) ∧
    (∀ j ∈ (build directed starts ends weights).vList, j < (build directed starts ends weights).nV) := by
  constructor
  · intro i hi
    have := (List.mem_filter.mp hi).1
    rwa [List.mem_range] at this
  · intro j hj
    unfold Net.vList at hj
    split at hj
    · have := (List.mem_filter.mp hj).1
      rwa [List.mem_range] at this
    · have := (List.mem_filter.mp hj).1
      rwa [List.mem_range] at this

/-- graph.hpp:195-205 — undirected: one shared vertex list -/
theorem undirected_lists_shared : (build false starts ends weights).vList = (build false starts ends weights).uList :=
  C08.targets_undirected _ rfl

end

/-- app_utils.cpp — every position the affinity reader writes (for lines that passed its checks)
is inside the vector: `w[index] = value` is in bounds for all K ≥ 1, L, both layouts -/
theorem reader_writes_in_bounds (assort : Bool) {K L g layer : Nat} (hg : g < K) (hl : layer < L) :
    Gen.readerIdx assort K g layer < C14.vecSize assort K L :=
  C14.reader_writes_lt assort hg hl

/-- … and malformed files never reach the write: they are rejected by the shape checks -/
theorem reader_rejects_before_writing (assort : Bool) (K size : Nat) (content : String) (e : Cli.AffErr)
    (h : Cli.checkRows assort K size ((Cli.fileLines content).filterMap Cli.affLine) = .error e) :
    Cli.readAffinity assort K size content = .error e := by
  unfold Cli.readAffinity
  simp only [h]

/-- app_utils.hpp writer — every position read is inside the affinity vector -/
theorem writer_reads_in_bounds {K L k q a : Nat} (hk : k < K) (hq : q < K) (ha : a < L) :
    Gen.writerIdxGeneral K L k q a < K * K * L ∧ Gen.writerIdxAssort K L k a < K * 1 * L := by
  constructor
  · rw [C18.writer_position_general]; exact C18.index_lt_size hk hq ha
  · rw [C18.writer_position_assort]; exact C18.index_lt_size hk (by omega) ha

end MTProps.C16
