/-
Code tie (whole call) — `multitensor_factorization` as it stands in main.hpp is the model's `factorizeWith`.

`Gen.mainCode` chains what the translator regenerates from the sources on every run: the eleven checks
(`validateCode`, main.hpp), the `Network` constructor and the two extraction methods (graph.hpp), `Solver::run`
(solver.hpp) — and inside `run`, through the statement table, the model's `loopStep`, `initAff`, `initRows`, which
are themselves tied to the translated loop nests of solver.hpp and initialization.hpp (MTProps/Code*.lean).
The theorem says that this chain returns exactly what the model returns: the same error (with the message the
code throws) or the same labels, memberships, affinity vector and report.  Every scalar type; the likelihood
evaluation may be scripted (the hook) as long as, for undirected graphs, it does not depend on the in-membership
slot the undirected code never uses — the real evaluation qualifies (`code_factorize`).
-/
import MTProps.C15
import MTProps.C12
import MTProps.C11
import MTProps.CodeGraph
import MTProps.CodeRun

namespace MTProps.CodeMain
open MT MT.Gen MT.CodeRefine MTProofs MTProps.CodeGraph

section
variable {α β ω : Type} [Add α] [Sub α] [Mul α] [Div α] [LT α] [DecidableLT α] [MTExtra α] [DecidableEq β] [Weight ω]

/-- `extract_vertices_with_edges` touches nothing but the two lists -/
theorem extractLists_frame (directed : Bool) (nL : Nat) (s : NetLoc β) :
    let s' := extractListsCode directed nL s
    s'.vlab = s.vlab ∧ s'.nvertices = s.nvertices ∧ s'.outA = s.outA ∧ s'.innA = s.innA := by
  unfold extractListsCode
  simp only [Imp.forRange]
  have h := foldl_proj (fun s : NetLoc β => (s.vlab, s.nvertices, s.outA, s.innA))
    (fun (s : NetLoc β) i =>
      let s : NetLoc β := (if (List.range nL).any (fun alpha => !(s.outA alpha i).isEmpty) then
          { s with u_list := s.u_list ++ [i] } else s)
      let s : NetLoc β := (if directed then
          (if (List.range nL).any (fun alpha => !(s.innA alpha i).isEmpty) then
            { s with v_list := s.v_list ++ [i] } else s)
        else s)
      s)
    (fun p _ => p)
    (fun s i => by
      by_cases h1 : (List.range nL).any (fun alpha => !(s.outA alpha i).isEmpty) = true <;>
      by_cases h2 : (List.range nL).any (fun alpha => !(s.innA alpha i).isEmpty) = true <;>
      cases directed <;> simp [h1, h2])
    (List.range s.nvertices) s
  rw [foldl_const] at h
  generalize (List.range s.nvertices).foldl _ s = S at *
  cases directed <;> simp only [Bool.false_eq_true, if_false, if_true] <;>
    exact ⟨congrArg (·.1) h, congrArg (·.2.1) h, congrArg (·.2.2.1) h, congrArg (·.2.2.2) h⟩

theorem build_units_outside (directed : Bool) (starts ends : List β) (weights : List ω) (a : Nat)
    (ha : ¬ a < (build directed starts ends weights).nL) :
    ∀ r ∈ (build directed starts ends weights).recs, Net.unitsAt r a = 0 := by
  intro r hr
  have hun : ∃ k, r.un = chunkUnits weights (build directed starts ends weights).nL k := by
    simp only [build, List.mem_map] at hr
    obtain ⟨p, _, rfl⟩ := hr
    exact ⟨p.2, rfl⟩
  obtain ⟨k, hk⟩ := hun
  have hl : r.un.length ≤ a := by
    rw [hk]
    have : (chunkUnits weights (build directed starts ends weights).nL k).length ≤ (build directed starts ends weights).nL := by
      simp [chunkUnits, List.length_take]
    omega
  unfold Net.unitsAt
  rw [List.getD_eq_getElem?_getD, List.getElem?_eq_none hl]
  rfl

/-- a built network has no adjacency outside its layers and vertices -/
theorem build_out_outside (directed : Bool) (starts ends : List β) (weights : List ω) (a i : Nat)
    (h : ¬ (a < (build directed starts ends weights).nL ∧ i < (build directed starts ends weights).nV)) :
    (build directed starts ends weights).out a i = [] := by
  unfold Net.out
  rw [List.flatMap_eq_nil_iff]
  intro r hr
  by_cases ha : a < (build directed starts ends weights).nL
  · have hi : ¬ i < (build directed starts ends weights).nV := fun hi => h ⟨ha, hi⟩
    have hnz : ¬ (build directed starts ends weights).nL = 0 := by omega
    have hnv : (build directed starts ends weights).nV = (build directed starts ends weights).labels.length := by
      unfold Net.nV; rw [if_neg hnz]
    obtain ⟨h1, h2⟩ := build_recs_lt directed starts ends weights r hr
    have hs : ¬ r.src = i := by omega
    have hd : ¬ r.dst = i := by omega
    simp [hs, hd]
  · have := build_units_outside directed starts ends weights a ha r hr
    simp [this]

theorem build_inn_outside (directed : Bool) (starts ends : List β) (weights : List ω) (a j : Nat)
    (h : ¬ (a < (build directed starts ends weights).nL ∧ j < (build directed starts ends weights).nV)) :
    (build directed starts ends weights).inn a j = [] := by
  unfold Net.inn
  rw [List.flatMap_eq_nil_iff]
  intro r hr
  by_cases ha : a < (build directed starts ends weights).nL
  · have hi : ¬ j < (build directed starts ends weights).nV := fun hi => h ⟨ha, hi⟩
    have hnz : ¬ (build directed starts ends weights).nL = 0 := by omega
    have hnv : (build directed starts ends weights).nV = (build directed starts ends weights).labels.length := by
      unfold Net.nV; rw [if_neg hnz]
    obtain ⟨h1, h2⟩ := build_recs_lt directed starts ends weights r hr
    have hd : ¬ r.dst = j := by omega
    simp [hd]
  · have := build_units_outside directed starts ends weights a ha r hr
    simp [this]

/-- the network view the code hands to `Solver::run` (its adjacency lists and vertex lists as built by the translated
constructor and extraction) is the model's `Net.view` -/
theorem code_view (directed : Bool) (starts ends : List β) (weights : List ω) (dflt : β)
    (hlen : starts.length = ends.length) (hnL : 0 < (build directed starts ends weights).nL) :
    let net := build directed starts ends weights
    let A0 := networkCode directed net.nL starts ends dflt (fun i a => (chunkUnits weights net.nL i).getD a 0) netInit
    let A := extractListsCode directed net.nL ({ ({ A0 with u_list := [] } : NetLoc β) with v_list := [] } : NetLoc β)
    (⟨directed, net.nL, A.outA, A.innA, A.u_list, A.v_list⟩ : NetView) = net.view ∧
    (extractLabelsCode A).labels = net.labels := by
  intro net A0 A
  obtain ⟨h1, h2, h3, h4, h5, h6, h7⟩ := code_network directed starts ends weights dflt hlen hnL
  obtain ⟨l1, l2, l3⟩ := code_lists_and_labels directed starts ends weights dflt hlen hnL
  obtain ⟨f1, f2, f3, f4⟩ := extractLists_frame directed net.nL
    ({ ({ A0 with u_list := [] } : NetLoc β) with v_list := [] } : NetLoc β)
  have hd : net.directed = directed := rfl
  refine ⟨?_, ?_⟩
  · have hout : A.outA = net.view.out := by
      funext a i
      have : A.outA a i = net.out a i := by
        have := congrFun (congrFun f3 a) i
        rw [this]; exact h3 a i
      rw [this, view_out]
      by_cases hc : a < net.nL ∧ i < net.nV
      · simp [hc]
      · simp only [hc, if_false]; exact build_out_outside directed starts ends weights a i hc
    have hinn : A.innA = net.view.inn := by
      funext a j
      have hA : A.innA a j = A0.innA a j := congrFun (congrFun f4 a) j
      rw [hA, view_inn]
      cases hdir : directed
      · have : ¬ net.directed = true := by rw [hd, hdir]; simp
        simp only [this, false_and, if_false]
        exact h7 hdir a j
      · have hnd : net.directed = true := by rw [hd, hdir]
        rw [h4 hdir a j]
        by_cases hc : a < net.nL ∧ j < net.nV
        · simp [hnd, hc]; rfl
        · have : ¬ (net.directed = true ∧ a < net.nL ∧ j < net.nV) := fun h => hc h.2
          simp only [this, if_false]; exact build_inn_outside directed starts ends weights a j hc
    have hview : net.view = ⟨net.directed, net.nL, net.view.out, net.view.inn, net.uList, net.vList⟩ := rfl
    rw [hview, hout, hinn, l1, l2]
    rfl
  · have hv : A.vlab 0 = net.labels := by rw [f1]; exact h1 0 hnL
    have hnv : A.nvertices = (A.vlab 0).length := by
      rw [f2, hv]
      show A0.nvertices = _
      rw [h6]
      have : ¬ net.nL = 0 := Nat.pos_iff_ne_zero.1 hnL
      unfold Net.nV
      rw [if_neg this]
    rw [extractLabelsCode_refines A hnv, hv]

/-- **`multitensor_factorization` as written = `factorizeWith`**: same rejection (with the code's message) or
same labels, memberships, affinity vector and report -/
theorem mainCode_eq (inp : Input β ω α) (d : Nat → α) (dflt : β)
    (evalL : Bool → Nat → NetView → Nat → Nat → State α → α)
    (hE : inp.directed = false → ∀ assort K i it (s : State α) (v' : Tens α),
      evalL assort K (build inp.directed inp.starts inp.ends inp.weights).view i it { s with v := v' }
        = evalL assort K (build inp.directed inp.starts inp.ends inp.weights).view i it s) :
    mainCode inp.directed inp.assort inp.ik inp.starts inp.ends inp.weights dflt inp.r inp.maxIt inp.nConv
        inp.priorU inp.priorV inp.affinity evalL d
      = match factorizeWith inp d evalL with
        | .error e => .error (Err.message e)
        | .ok o => .ok (o.labels, o.u, o.v, o.affinity, o.report.iters, o.report.reasons.map Reason.code, o.report.L2s) := by
  unfold mainCode factorizeWith
  have hval := MTProps.C15.validateCode_eq inp.shapes
  simp only [Input.shapes] at hval
  simp only [Tens.size] at hval ⊢
  rw [hval]
  cases hv : validate inp.shapes with
  | error e =>
    simp only [Input.shapes, Tens.size] at hv
    simp [hv, Except.mapError, bind, Except.bind]
  | ok p =>
    obtain ⟨nL, K⟩ := p
    have hacc := MTProps.C15.validate_sound hv
    unfold MTProps.C15.Accept at hacc
    obtain ⟨a1, a2, a3, a4, _⟩ := hacc
    simp only [Input.shapes] at a1 a2 a3 a4
    have hlen : inp.starts.length = inp.ends.length := a2.symm
    have hs0 : ¬ inp.starts.length = 0 := by omega
    have hnl : (if inp.starts.length = 0 then 0 else inp.weights.length / inp.starts.length) = nL := by
      rw [if_neg hs0, a3, Nat.mul_div_cancel _ (by omega)]
    have hbn : (build inp.directed inp.starts inp.ends inp.weights).nL = nL := hnl
    have hnL : 0 < (build inp.directed inp.starts inp.ends inp.weights).nL := by rw [hbn]; omega
    simp only [Input.shapes, Tens.size] at hv
    simp only [hv, Except.mapError, bind, Except.bind, hnl]
    obtain ⟨cv, cl⟩ := code_view inp.directed inp.starts inp.ends inp.weights dflt hlen hnL
    simp only [hbn] at cv cl
    rw [cv, cl]
    have hrun := runCode_refines inp.directed inp.assort inp.ik K inp.priorU.R
      (build inp.directed inp.starts inp.ends inp.weights).view inp.maxIt inp.nConv
      (evalL inp.assort K (build inp.directed inp.starts inp.ends inp.weights).view)
      (Tens.ofData K (if inp.assort then 1 else K) nL inp.affinity) d rfl
      (fun hf => hE hf inp.assort K) inp.r
      { u := inp.priorU, v := inp.priorV, w := Tens.ofData K (if inp.assort then 1 else K) nL inp.affinity }
      ⟨inp.priorU, inp.priorV, Tens.ofData K (if inp.assort then 1 else K) nL inp.affinity,
        Tens.zeros inp.priorU.R K 1, Tens.zeros 0 0 0, Tens.zeros K (if inp.assort then 1 else K) nL,
        0, MTExtra.lowest, 0, 0, 0, [], [], []⟩
      ⟨rfl, rfl, rfl, rfl, rfl, rfl, rfl⟩
    obtain ⟨r1, r2, r3, r4, r5, r6, r7⟩ := hrun
    simp only [pure, Except.pure]
    rw [r1, r2, r3, r5, r6, r7]

/-- the call as the library makes it: the likelihood evaluation is the state's own likelihood -/
theorem code_factorize (inp : Input β ω α) (d : Nat → α) (dflt : β) :
    mainCode inp.directed inp.assort inp.ik inp.starts inp.ends inp.weights dflt inp.r inp.maxIt inp.nConv
        inp.priorU inp.priorV inp.affinity (fun assort K nv _ _ s => stateLik assort K nv s) d
      = match factorize inp d with
        | .error e => .error (Err.message e)
        | .ok o => .ok (o.labels, o.u, o.v, o.affinity, o.report.iters, o.report.reasons.map Reason.code, o.report.L2s) :=
  mainCode_eq inp d dflt _ (fun hf assort K i it s v' =>
    MTProps.CodeRun.stateLik_ignores_v assort K _ (by simp [Net.view, build, hf]) s v')

/-! ### properties restated on the code as written (corollaries through `code_factorize`) -/

/-- what `mainCode` returns for a model result -/
def shown (r : Except Err (Output β α)) :
    Except String (List β × Tens α × Tens α × Array α × List Nat × List Nat × List α) :=
  match r with
  | .error e => .error (Err.message e)
  | .ok o => .ok (o.labels, o.u, o.v, o.affinity, o.report.iters, o.report.reasons.map Reason.code, o.report.L2s)

/-- **C12 on the code**: `multitensor_factorization` as written, run on injectively relabelled records, returns the
same numbers and report, its rows carrying the new labels — for every scalar type (`Float`: bit-identical) -/
theorem code_relabel {γ : Type} [DecidableEq γ] (f : β → γ) (hf : Function.Injective f)
    (inp : Input β ω α) (d : Nat → α) (dflt : β) (dflt' : γ) :
    mainCode inp.directed inp.assort inp.ik (inp.starts.map f) (inp.ends.map f) inp.weights dflt' inp.r inp.maxIt inp.nConv
        inp.priorU inp.priorV inp.affinity (fun assort K nv _ _ s => stateLik assort K nv s) d
      = (mainCode inp.directed inp.assort inp.ik inp.starts inp.ends inp.weights dflt inp.r inp.maxIt inp.nConv
          inp.priorU inp.priorV inp.affinity (fun assort K nv _ _ s => stateLik assort K nv s) d).map
        (fun t => (t.1.map f, t.2)) := by
  have h1 := code_factorize ({ inp with starts := inp.starts.map f, ends := inp.ends.map f } : Input γ ω α) d dflt'
  have h2 := code_factorize inp d dflt
  simp only [] at h1
  rw [h1, h2, MTProps.C12.relabel_factorize f hf inp d]
  cases factorize inp d <;> rfl

/-- **C15 on the code**: a configuration the documented predicate rejects makes `multitensor_factorization` as
written return the check's error — nothing else of the function is evaluated, so no output argument can have
been touched -/
theorem code_reject (inp : Input β ω α) (d : Nat → α) (dflt : β) (e : Err)
    (h : validate inp.shapes = .error e) :
    mainCode inp.directed inp.assort inp.ik inp.starts inp.ends inp.weights dflt inp.r inp.maxIt inp.nConv
        inp.priorU inp.priorV inp.affinity (fun assort K nv _ _ s => stateLik assort K nv s) d
      = .error (Err.message e) := by
  rw [code_factorize inp d dflt, MTProps.C15.reject_leaves_outputs inp d e h]

end
end MTProps.CodeMain
