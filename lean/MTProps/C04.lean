/-
C04 — the best realization is what is returned and reported.
Statements are about the model's `runAll` (the `for` over realizations of `Solver::run`,
solver.hpp:597-658, with `Report::max_L2`, utils.hpp:55-66), over any linearly ordered scalar type.
`outcomeOf i` is the i-th realization of the call (its start is determined by the stream position
reached, see C17); nothing else is carried from one realization to the next.
Tie to the code: every weak ordering of up to 4 (5) realizations scripted through the
`likelihood_computed` hook on the real selection code, plus real runs (`run` correspondence).
-/
import MT.Generated.UtilsCode
import MTProofs.Select

namespace MTProps.C04
open MT MTProofs

section
variable {α : Type} [LinearOrder α] [Add α] [Sub α] [Mul α] [Div α] [MTExtra α]
variable (assort : Bool) (ik : InitKind) (K N : Nat) (nv : NetView) (maxIt nConv : Nat)
  (evalL : Nat → Nat → State α → α) (userW : Tens α) (d : Nat → α) (prior : State α)

local notation "O" => outcomeOf assort ik K N nv maxIt nConv evalL userW d
local notation "RUN" r => runAll assort ik K N nv r maxIt nConv evalL userW d prior

/-- the report lists iterations, termination reason and likelihood of every realization, in
execution order -/
theorem report_lists_all (r : Nat) :
    (RUN r).report.L2s = (List.range r).map (fun i => (O i).L2) ∧
    (RUN r).report.iters = (List.range r).map (fun i => (O i).iters) ∧
    (RUN r).report.reasons = (List.range r).map (fun i => (O i).reason) :=
  (runAll_report assort ik K N nv maxIt nConv evalL userW d prior r).2

/-- with the same seed (same stream `d`) the first `r'` report entries of an `r`-realization run
are the report of an `r'`-realization run -/
theorem report_prefix {r' r : Nat} (h : r' ≤ r) :
    (RUN r').report.L2s = (RUN r).report.L2s.take r' ∧
    (RUN r').report.iters = (RUN r).report.iters.take r' ∧
    (RUN r').report.reasons = (RUN r).report.reasons.take r' := by
  obtain ⟨a1, a2, a3⟩ := report_lists_all assort ik K N nv maxIt nConv evalL userW d prior r
  obtain ⟨b1, b2, b3⟩ := report_lists_all assort ik K N nv maxIt nConv evalL userW d prior r'
  have ht : (List.range r).take r' = List.range r' := by
    rw [List.take_range, Nat.min_eq_left h]
  rw [a1, a2, a3, b1, b2, b3, ← List.map_take, ← List.map_take, ← List.map_take, ht]
  exact ⟨rfl, rfl, rfl⟩

/-- the returned factors are exactly the final factors of the realization whose likelihood is
highest, the earliest one on ties, and the report's maximum is that realization's likelihood.
(Hypothesis displayed, not hidden: every likelihood exceeds `lowest()`; a realization whose
likelihood is `lowest()` or NaN is never adopted by the code.) -/
theorem select_is_first_argmax (r : Nat) (hr : 1 ≤ r)
    (H : ∀ i, i < r → MTExtra.lowest < (O i).L2) :
    ∃ i, i < r ∧ (∀ j, j < r → (O j).L2 ≤ (O i).L2) ∧ (∀ j, j < i → (O j).L2 < (O i).L2) ∧
      (RUN r).best = adoptState nv prior (O i) ∧ maxL2 (RUN r).report.L2s = (O i).L2 := by
  induction r with
  | zero => omega
  | succ r ih =>
    have hL := (report_lists_all assort ik K N nv maxIt nConv evalL userW d prior r).1
    have hL' := (report_lists_all assort ik K N nv maxIt nConv evalL userW d prior (r + 1)).1
    have hbest := runAll_best_succ assort ik K N nv maxIt nConv evalL userW d prior r
    simp only at hbest
    rcases Nat.eq_zero_or_pos r with rfl | hpos
    · -- first realization: adopted because its likelihood exceeds lowest()
      refine ⟨0, by omega, fun j hj => by have : j = 0 := by omega
                                          subst this; exact le_refl _, fun j hj => by omega, ?_, ?_⟩
      · rw [hbest, hL]
        have h0 := H 0 (by omega)
        simp only [List.range_zero, List.map_nil, maxL2_nil]
        rw [if_pos h0]; rfl
      · rw [hL']; rfl
    · obtain ⟨i, hi, hmax, hfirst, hb, hm⟩ := ih hpos (fun i hi => H i (by omega))
      have hne : (RUN r).report.L2s ≠ [] := by
        rw [hL]; intro h
        have := congrArg List.length h
        simp at this; omega
      have hv : (RUN r).best.v = (adoptState nv prior (O i)).v := by rw [hb]
      by_cases hlt : (O i).L2 < (O r).L2
      · -- a later realization wins only if strictly better
        refine ⟨r, by omega, fun j hj => ?_, fun j hj => ?_, ?_, ?_⟩
        · rcases Nat.lt_or_eq_of_le (Nat.lt_succ_iff.mp hj) with h | h
          · exact le_of_lt (lt_of_le_of_lt (hmax j h) hlt)
          · subst h; exact le_refl _
        · exact lt_of_le_of_lt (hmax j hj) hlt
        · rw [hbest, hm, if_pos hlt, hb]
          unfold adoptState
          split <;> rfl
        · have : (RUN (r + 1)).report.L2s = (RUN r).report.L2s ++ [(O r).L2] := by
            rw [hL', hL, List.range_succ, List.map_append]; rfl
          rw [this, maxL2_append_singleton _ hne, hm, if_pos hlt]
      · refine ⟨i, by omega, fun j hj => ?_, hfirst, ?_, ?_⟩
        · rcases Nat.lt_or_eq_of_le (Nat.lt_succ_iff.mp hj) with h | h
          · exact hmax j h
          · subst h; exact not_lt.mp hlt
        · rw [hbest, hm, if_neg hlt, hb]
        · have : (RUN (r + 1)).report.L2s = (RUN r).report.L2s ++ [(O r).L2] := by
            rw [hL', hL, List.range_succ, List.map_append]; rfl
          rw [this, maxL2_append_singleton _ hne, hm, if_neg hlt]

/-- the best likelihood is non-decreasing in the number of realizations -/
theorem best_monotone_in_r {r' r : Nat} (hr' : 1 ≤ r') (h : r' ≤ r)
    (H : ∀ i, i < r → MTExtra.lowest < (O i).L2) :
    maxL2 (RUN r').report.L2s ≤ maxL2 (RUN r).report.L2s := by
  obtain ⟨i, hi, _, _, _, hm⟩ := select_is_first_argmax assort ik K N nv maxIt nConv evalL userW d prior
    r' hr' (fun i hi => H i (by omega))
  obtain ⟨j, _, hmax, _, _, hm'⟩ := select_is_first_argmax assort ik K N nv maxIt nConv evalL userW d prior
    r (by omega) H
  rw [hm, hm']
  exact hmax i (by omega)

/-- in undirected mode the in-membership container returned is the caller's, untouched -/
theorem v_untouched_undirected (hdir : nv.directed = false) (r : Nat) :
    (RUN r).best.v = prior.v :=
  runAll_v_undirected assort ik K N nv maxIt nConv evalL userW d hdir prior r

end

/-- non-vacuity of the tie rule on concrete numbers (an ad-hoc scalar structure on `Int`): the
maximum of the report is its largest entry; with a tie the fold keeps the earlier one -/
local instance : MTExtra Int := ⟨0, fun x => x.natAbs, id, fun n => n, 0, 0, 0, -1000⟩
example : maxL2 ([3, 5, 5, 1] : List Int) = 5 ∧ maxL2 ([] : List Int) = -1000 := by decide

/-- `Report::max_L2()` as it stands in utils.hpp: `lowest()` for an empty report, otherwise the element
`std::max_element` points at (the first maximum) — what the model's `maxL2` states -/
theorem max_L2_documented :
    Gen.reportMaxL2Text = "if(vec_L2.size()==0){returnstd::numeric_limits<double>::lowest();}else{autoi=std::max_element(vec_L2.begin(),vec_L2.end());returnvec_L2[std::distance(vec_L2.begin(),i)];}" := rfl

end MTProps.C04
